//! Result recording: one JSON line per mismatch, one summary line at the end.
use serde_json::{json, Value};
use std::collections::BTreeMap;
use std::io::Write;

pub struct Ctx {
    pub out: Box<dyn Write>,
    pub seed: u64,
    pub props: Vec<String>,
    pub pass: BTreeMap<String, u64>,
    pub fail: BTreeMap<String, u64>,
    pub extra: BTreeMap<String, u64>,
    pub max_fail_lines: u64,
    pub fail_lines: u64,
    pub samples: Vec<Value>,
}
impl Ctx {
    pub fn wants(&self, prop: &str) -> bool {
        self.props.is_empty() || self.props.iter().any(|p| p == prop)
    }
    pub fn ok(&mut self, sub: &str) {
        *self.pass.entry(sub.to_string()).or_insert(0) += 1;
    }
    pub fn count(&mut self, key: &str, n: u64) {
        *self.extra.entry(key.to_string()).or_insert(0) += n;
    }
    pub fn bad(&mut self, prop: &str, sub: &str, case: &Value, detail: Value) {
        *self.fail.entry(sub.to_string()).or_insert(0) += 1;
        if self.fail_lines < self.max_fail_lines {
            self.fail_lines += 1;
            let line = json!({"kind":"mismatch","prop":prop,"sub":sub,"case":case,"detail":detail});
            writeln!(self.out, "{line}").unwrap();
        }
    }
    /// check helper: equal -> ok, else mismatch
    pub fn expect_eq<T: PartialEq + std::fmt::Debug>(&mut self, prop: &str, sub: &str, case: &Value, what: &str, got: T, want: T) -> bool {
        if got == want {
            self.ok(sub);
            true
        } else {
            self.bad(prop, sub, case, json!({"what":what,"got":format!("{got:?}"),"want":format!("{want:?}")}));
            false
        }
    }
    pub fn sample(&mut self, v: Value) {
        if self.samples.len() < 3 {
            self.samples.push(v);
        }
    }
    pub fn finish(&mut self) {
        let line = json!({"kind":"summary","pass":self.pass,"fail":self.fail,"extra":self.extra,"samples":self.samples});
        writeln!(self.out, "{line}").unwrap();
        self.out.flush().unwrap();
    }
}

/// run f, turning a panic into Err(message)
pub fn guard<T>(f: impl FnOnce() -> T) -> Result<T, String> {
    std::panic::catch_unwind(std::panic::AssertUnwindSafe(f)).map_err(|e| {
        if let Some(s) = e.downcast_ref::<&str>() {
            s.to_string()
        } else if let Some(s) = e.downcast_ref::<String>() {
            s.clone()
        } else {
            "panic".to_string()
        }
    })
}

// ---- watchdog: a call into geo that never returns is data (a finding), not a tool error.  The driver "beats" before every
// case / event; if no beat arrives for VERIF_HANG_LIMIT_S seconds (default 180) the watchdog thread writes <out>.hang with the
// case in progress and ends the process with exit code 3, which bin/check reports as a VIOLATION with that case as replay.
pub static BEAT_MS: std::sync::atomic::AtomicU64 = std::sync::atomic::AtomicU64::new(0);
pub static CURRENT: std::sync::Mutex<String> = std::sync::Mutex::new(String::new());
fn now_ms() -> u64 {
    std::time::SystemTime::now().duration_since(std::time::UNIX_EPOCH).map(|d| d.as_millis() as u64).unwrap_or(0)
}
pub fn beat(desc: &str) {
    if let Ok(mut c) = CURRENT.lock() {
        c.clear();
        c.push_str(desc);
    }
    BEAT_MS.store(now_ms(), std::sync::atomic::Ordering::SeqCst);
}
pub fn beat_off() {
    BEAT_MS.store(0, std::sync::atomic::Ordering::SeqCst);
}
pub fn start_watchdog(out_path: String) {
    let limit_ms: u64 = std::env::var("VERIF_HANG_LIMIT_S").ok().and_then(|v| v.parse().ok()).unwrap_or(180) * 1000;
    std::thread::spawn(move || loop {
        std::thread::sleep(std::time::Duration::from_millis(500));
        let b = BEAT_MS.load(std::sync::atomic::Ordering::SeqCst);
        if b != 0 && now_ms().saturating_sub(b) > limit_ms {
            let cur = CURRENT.lock().map(|c| c.clone()).unwrap_or_default();
            let _ = std::fs::write(format!("{out_path}.hang"), serde_json::json!({"limit_s": limit_ms / 1000, "in_progress": cur}).to_string());
            std::process::exit(3);
        }
    });
}

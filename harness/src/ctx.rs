//! Result recording: one JSON line per mismatch, one summary line at the end.
use serde_json::{json, Value};
use std::collections::BTreeMap;
use std::io::Write;

pub struct Ctx {
    pub out: Box<dyn Write>,
    pub seed: u64,
    pub props: Vec<String>,
    pub pass: BTreeMap<String, u64>,
    pub fail: BTreeMap<String, u64>,
    pub extra: BTreeMap<String, u64>,
    pub max_fail_lines: u64,
    pub fail_lines: u64,
    pub samples: Vec<Value>,
}
impl Ctx {
    pub fn wants(&self, prop: &str) -> bool {
        self.props.is_empty() || self.props.iter().any(|p| p == prop)
    }
    pub fn ok(&mut self, sub: &str) {
        *self.pass.entry(sub.to_string()).or_insert(0) += 1;
    }
    pub fn count(&mut self, key: &str, n: u64) {
        *self.extra.entry(key.to_string()).or_insert(0) += n;
    }
    pub fn bad(&mut self, prop: &str, sub: &str, case: &Value, detail: Value) {
        *self.fail.entry(sub.to_string()).or_insert(0) += 1;
        if self.fail_lines < self.max_fail_lines {
            self.fail_lines += 1;
            let line = json!({"kind":"mismatch","prop":prop,"sub":sub,"case":case,"detail":detail});
            writeln!(self.out, "{line}").unwrap();
        }
    }
    /// check helper: equal -> ok, else mismatch
    pub fn expect_eq<T: PartialEq + std::fmt::Debug>(&mut self, prop: &str, sub: &str, case: &Value, what: &str, got: T, want: T) -> bool {
        if got == want {
            self.ok(sub);
            true
        } else {
            self.bad(prop, sub, case, json!({"what":what,"got":format!("{got:?}"),"want":format!("{want:?}")}));
            false
        }
    }
    pub fn sample(&mut self, v: Value) {
        if self.samples.len() < 3 {
            self.samples.push(v);
        }
    }
    pub fn finish(&mut self) {
        let line = json!({"kind":"summary","pass":self.pass,"fail":self.fail,"extra":self.extra,"samples":self.samples});
        writeln!(self.out, "{line}").unwrap();
        self.out.flush().unwrap();
    }
}

/// run f, turning a panic into Err(message)
pub fn guard<T>(f: impl FnOnce() -> T) -> Result<T, String> {
    std::panic::catch_unwind(std::panic::AssertUnwindSafe(f)).map_err(|e| {
        if let Some(s) = e.downcast_ref::<&str>() {
            s.to_string()
        } else if let Some(s) = e.downcast_ref::<String>() {
            s.clone()
        } else {
            "panic".to_string()
        }
    })
}

//! Macros that dispatch a generic expression over the concrete type(s) inside `G`.
#[macro_export]
macro_rules! with_g {
    ($g:expr, $x:ident => $body:expr) => {
        match $g {
            $crate::gj::G::Point($x) => $body,
            $crate::gj::G::Line($x) => $body,
            $crate::gj::G::LineString($x) => $body,
            $crate::gj::G::Polygon($x) => $body,
            $crate::gj::G::MultiPoint($x) => $body,
            $crate::gj::G::MultiLineString($x) => $body,
            $crate::gj::G::MultiPolygon($x) => $body,
            $crate::gj::G::Rect($x) => $body,
            $crate::gj::G::Triangle($x) => $body,
            $crate::gj::G::GeometryCollection($x) => $body,
        }
    };
}
#[macro_export]
macro_rules! with_gg {
    ($a:expr, $b:expr, $x:ident, $y:ident => $body:expr) => {
        $crate::with_g!($a, $x => $crate::with_g!($b, $y => $body))
    };
}

//! Geometry JSON (as emitted by the TLA+ specification) <-> geo types, representation
//! variants and exact affine maps.  Deliberately dumb: no geometry is decided here.
use geo::{
    Coord, Geometry, GeometryCollection, Line, LineString, MultiLineString, MultiPoint,
    MultiPolygon, Point, Polygon, Rect, Triangle,
};
use serde_json::{json, Value};

#[derive(Clone, Debug)]
pub enum G {
    Point(Point<f64>),
    Line(Line<f64>),
    LineString(LineString<f64>),
    Polygon(Polygon<f64>),
    MultiPoint(MultiPoint<f64>),
    MultiLineString(MultiLineString<f64>),
    MultiPolygon(MultiPolygon<f64>),
    Rect(Rect<f64>),
    Triangle(Triangle<f64>),
    GeometryCollection(GeometryCollection<f64>),
}

pub fn num(v: &Value) -> f64 {
    // integers, floats, or exact rationals [num, den] are not mixed here: plain numbers only
    v.as_f64().unwrap_or_else(|| panic!("not a number: {v}"))
}
pub fn coord(v: &Value) -> Coord<f64> {
    let a = v.as_array().unwrap_or_else(|| panic!("coord not array: {v}"));
    Coord { x: num(&a[0]), y: num(&a[1]) }
}
pub fn coords(v: &Value) -> Vec<Coord<f64>> {
    v.as_array().map(|a| a.iter().map(coord).collect()).unwrap_or_default()
}
fn ls(v: &Value) -> LineString<f64> {
    LineString::new(coords(v))
}
fn poly(v: &Value) -> Polygon<f64> {
    let holes = v["holes"].as_array().map(|a| a.iter().map(ls).collect()).unwrap_or_default();
    Polygon::new(ls(&v["ext"]), holes)
}

pub fn parse(v: &Value) -> G {
    match v["t"].as_str().unwrap_or_else(|| panic!("geometry without t: {v}")) {
        "Point" => G::Point(Point(coord(&v["c"]))),
        "Line" => G::Line(Line::new(coord(&v["a"]), coord(&v["b"]))),
        "LineString" => G::LineString(ls(&v["cs"])),
        "Polygon" => G::Polygon(poly(v)),
        "MultiPoint" => G::MultiPoint(MultiPoint::new(coords(&v["cs"]).into_iter().map(Point).collect())),
        "MultiLineString" => G::MultiLineString(MultiLineString::new(
            v["ls"].as_array().map(|a| a.iter().map(ls).collect()).unwrap_or_default(),
        )),
        "MultiPolygon" => G::MultiPolygon(MultiPolygon::new(
            v["ps"].as_array().map(|a| a.iter().map(poly).collect()).unwrap_or_default(),
        )),
        "Rect" => G::Rect(Rect::new(coord(&v["a"]), coord(&v["b"]))),
        "Triangle" => G::Triangle(Triangle::new(coord(&v["a"]), coord(&v["b"]), coord(&v["c"]))),
        "GeometryCollection" => G::GeometryCollection(GeometryCollection::new_from(
            v["gs"].as_array().map(|a| a.iter().map(|g| parse(g).geometry()).collect()).unwrap_or_default(),
        )),
        t => panic!("unknown geometry type {t}"),
    }
}

fn c2j(c: Coord<f64>) -> Value {
    json!([c.x, c.y])
}
fn ls2j(l: &LineString<f64>) -> Value {
    Value::Array(l.0.iter().map(|c| c2j(*c)).collect())
}
fn poly2j(p: &Polygon<f64>) -> Value {
    json!({"ext": ls2j(p.exterior()), "holes": p.interiors().iter().map(ls2j).collect::<Vec<_>>()})
}
pub fn geometry_to_json(g: &Geometry<f64>) -> Value {
    match g {
        Geometry::Point(p) => json!({"t":"Point","c":c2j(p.0)}),
        Geometry::Line(l) => json!({"t":"Line","a":c2j(l.start),"b":c2j(l.end)}),
        Geometry::LineString(l) => json!({"t":"LineString","cs":ls2j(l)}),
        Geometry::Polygon(p) => {
            let mut v = poly2j(p);
            v["t"] = json!("Polygon");
            v
        }
        Geometry::MultiPoint(m) => json!({"t":"MultiPoint","cs":m.0.iter().map(|p| c2j(p.0)).collect::<Vec<_>>()}),
        Geometry::MultiLineString(m) => json!({"t":"MultiLineString","ls":m.0.iter().map(ls2j).collect::<Vec<_>>()}),
        Geometry::MultiPolygon(m) => json!({"t":"MultiPolygon","ps":m.0.iter().map(poly2j).collect::<Vec<_>>()}),
        Geometry::Rect(r) => json!({"t":"Rect","a":c2j(r.min()),"b":c2j(r.max())}),
        Geometry::Triangle(t) => json!({"t":"Triangle","a":c2j(t.0),"b":c2j(t.1),"c":c2j(t.2)}),
        Geometry::GeometryCollection(gc) => json!({"t":"GeometryCollection","gs":gc.0.iter().map(geometry_to_json).collect::<Vec<_>>()}),
    }
}

impl G {
    pub fn geometry(&self) -> Geometry<f64> {
        match self.clone() {
            G::Point(x) => Geometry::Point(x),
            G::Line(x) => Geometry::Line(x),
            G::LineString(x) => Geometry::LineString(x),
            G::Polygon(x) => Geometry::Polygon(x),
            G::MultiPoint(x) => Geometry::MultiPoint(x),
            G::MultiLineString(x) => Geometry::MultiLineString(x),
            G::MultiPolygon(x) => Geometry::MultiPolygon(x),
            G::Rect(x) => Geometry::Rect(x),
            G::Triangle(x) => Geometry::Triangle(x),
            G::GeometryCollection(x) => Geometry::GeometryCollection(x),
        }
    }
    pub fn from_geometry(g: Geometry<f64>) -> G {
        match g {
            Geometry::Point(x) => G::Point(x),
            Geometry::Line(x) => G::Line(x),
            Geometry::LineString(x) => G::LineString(x),
            Geometry::Polygon(x) => G::Polygon(x),
            Geometry::MultiPoint(x) => G::MultiPoint(x),
            Geometry::MultiLineString(x) => G::MultiLineString(x),
            Geometry::MultiPolygon(x) => G::MultiPolygon(x),
            Geometry::Rect(x) => G::Rect(x),
            Geometry::Triangle(x) => G::Triangle(x),
            Geometry::GeometryCollection(x) => G::GeometryCollection(x),
        }
    }
    pub fn tname(&self) -> &'static str {
        match self {
            G::Point(_) => "Point",
            G::Line(_) => "Line",
            G::LineString(_) => "LineString",
            G::Polygon(_) => "Polygon",
            G::MultiPoint(_) => "MultiPoint",
            G::MultiLineString(_) => "MultiLineString",
            G::MultiPolygon(_) => "MultiPolygon",
            G::Rect(_) => "Rect",
            G::Triangle(_) => "Triangle",
            G::GeometryCollection(_) => "GeometryCollection",
        }
    }
    pub fn to_json(&self) -> Value {
        geometry_to_json(&self.geometry())
    }

    /// Apply a coordinate function to every coordinate, keeping the representation.
    /// A Rect mapped by a non axis-preserving map is returned as a Polygon (same point set).
    pub fn map(&self, f: &dyn Fn(Coord<f64>) -> Coord<f64>, axis_preserving: bool) -> G {
        let mls = |l: &LineString<f64>| LineString::new(l.0.iter().map(|c| f(*c)).collect());
        let mpoly = |p: &Polygon<f64>| Polygon::new(mls(p.exterior()), p.interiors().iter().map(mls).collect());
        match self {
            G::Point(p) => G::Point(Point(f(p.0))),
            G::Line(l) => G::Line(Line::new(f(l.start), f(l.end))),
            G::LineString(l) => G::LineString(mls(l)),
            G::Polygon(p) => G::Polygon(mpoly(p)),
            G::MultiPoint(m) => G::MultiPoint(MultiPoint::new(m.0.iter().map(|p| Point(f(p.0))).collect())),
            G::MultiLineString(m) => G::MultiLineString(MultiLineString::new(m.0.iter().map(mls).collect())),
            G::MultiPolygon(m) => G::MultiPolygon(MultiPolygon::new(m.0.iter().map(mpoly).collect())),
            G::Rect(r) => {
                if axis_preserving {
                    G::Rect(Rect::new(f(r.min()), f(r.max())))
                } else {
                    G::Polygon(mpoly(&r.to_polygon()))
                }
            }
            G::Triangle(t) => G::Triangle(Triangle::new(f(t.0), f(t.1), f(t.2))),
            G::GeometryCollection(gc) => G::GeometryCollection(GeometryCollection::new_from(
                gc.0.iter().map(|g| G::from_geometry(g.clone()).map(f, axis_preserving).geometry()).collect(),
            )),
        }
    }

    /// Other ways of writing the same point set (C01/C07 "representation invariance").
    pub fn variants(&self) -> Vec<(String, G)> {
        let mut out: Vec<(String, G)> = Vec::new();
        let rev_ls = |l: &LineString<f64>| LineString::new(l.0.iter().rev().cloned().collect());
        let rot_ring = |l: &LineString<f64>, k: usize| {
            if l.0.len() < 4 {
                return l.clone();
            }
            let n = l.0.len() - 1;
            let mut v: Vec<Coord<f64>> = (0..n).map(|i| l.0[(i + k) % n]).collect();
            v.push(v[0]);
            LineString::new(v)
        };
        let poly_var = |p: &Polygon<f64>, which: u8| -> Polygon<f64> {
            match which {
                0 => Polygon::new(rev_ls(p.exterior()), p.interiors().iter().map(rev_ls).collect()),
                1 => Polygon::new(rot_ring(p.exterior(), 1), p.interiors().iter().map(|h| rot_ring(h, 2)).collect()),
                _ => Polygon::new(rot_ring(&rev_ls(p.exterior()), 2), p.interiors().iter().rev().cloned().collect()),
            }
        };
        // same point set with every segment split at its midpoint (collinear vertices), rings also
        // re-started at such a midpoint so that the coordinate list begins inside a collinear run
        // (quarter points: lattice coordinates are multiples of 4 or 2, so k/4 of a segment is exact)
        let split_ls = |l: &LineString<f64>, parts: usize| {
            let mut v: Vec<Coord<f64>> = vec![];
            for w in l.0.windows(2) {
                for k in 0..parts {
                    let t = k as f64 / parts as f64;
                    v.push(Coord { x: w[0].x + (w[1].x - w[0].x) * t, y: w[0].y + (w[1].y - w[0].y) * t });
                }
            }
            if let Some(last) = l.0.last() { v.push(*last); }
            LineString::new(v)
        };
        let mid_ls = |l: &LineString<f64>| split_ls(l, 2);
        match self {
            G::Point(p) => {
                out.push(("mp1".into(), G::MultiPoint(MultiPoint::new(vec![*p]))));
                out.push(("mpdup".into(), G::MultiPoint(MultiPoint::new(vec![*p, *p]))));
            }
            G::Line(l) => {
                out.push(("asLS".into(), G::LineString(LineString::new(vec![l.start, l.end]))));
                out.push(("rev".into(), G::Line(Line::new(l.end, l.start))));
                out.push(("mls1".into(), G::MultiLineString(MultiLineString::new(vec![LineString::new(vec![l.start, l.end])]))));
            }
            G::LineString(l) => {
                out.push(("rev".into(), G::LineString(rev_ls(l))));
                out.push(("mls1".into(), G::MultiLineString(MultiLineString::new(vec![l.clone()]))));
                if l.0.len() == 2 {
                    out.push(("asLine".into(), G::Line(Line::new(l.0[0], l.0[1]))));
                }
                if l.0.len() >= 4 && l.0[0] == l.0[l.0.len() - 1] {
                    out.push(("rot".into(), G::LineString(rot_ring(l, 1))));
                    out.push(("midrot".into(), G::LineString(rot_ring(&mid_ls(l), 1))));
                    out.push(("quarterrot".into(), G::LineString(rot_ring(&split_ls(l, 4), 2))));
                }
                if l.0.len() >= 2 {
                    out.push(("mid".into(), G::LineString(mid_ls(l))));
                }
            }
            G::Polygon(p) => {
                for w in 0..3u8 {
                    out.push((format!("pv{w}"), G::Polygon(poly_var(p, w))));
                }
                out.push(("mpoly1".into(), G::MultiPolygon(MultiPolygon::new(vec![p.clone()]))));
                out.push(("midrot".into(), G::Polygon(Polygon::new(rot_ring(&mid_ls(p.exterior()), 1), p.interiors().iter().map(|h| rot_ring(&mid_ls(h), 3)).collect()))));
            }
            G::MultiPoint(m) => {
                out.push(("rev".into(), G::MultiPoint(MultiPoint::new(m.0.iter().rev().cloned().collect()))));
            }
            G::MultiLineString(m) => {
                out.push(("rev".into(), G::MultiLineString(MultiLineString::new(m.0.iter().rev().map(rev_ls).collect()))));
            }
            G::MultiPolygon(m) => {
                out.push(("rev".into(), G::MultiPolygon(MultiPolygon::new(m.0.iter().rev().map(|p| poly_var(p, 0)).collect()))));
            }
            G::Rect(r) => {
                out.push(("asPoly".into(), G::Polygon(r.to_polygon())));
                out.push(("rectSwapped".into(), G::Rect(Rect::new(r.max(), r.min()))));
            }
            G::Triangle(t) => {
                out.push(("asPoly".into(), G::Polygon(t.to_polygon())));
                out.push(("rot".into(), G::Triangle(Triangle::new(t.1, t.2, t.0))));
                out.push(("flip".into(), G::Triangle(Triangle::new(t.0, t.2, t.1))));
                // Triangle::new reorders to counter-clockwise; the tuple constructor and From<[_; 3]> keep the order given,
                // so the same point set can also be stored clockwise
                out.push(("rawflip".into(), G::Triangle(Triangle(t.0, t.2, t.1))));
                out.push(("rawrev".into(), G::Triangle(Triangle::from([t.2, t.1, t.0]))));
                out.push(("rawrot".into(), G::Triangle(Triangle::from([t.1, t.2, t.0]))));
            }
            G::GeometryCollection(gc) => {
                out.push(("rev".into(), G::GeometryCollection(GeometryCollection::new_from(gc.0.iter().rev().cloned().collect()))));
                // members written another way: triangles stored clockwise, rectangles from the opposite corners, rings turned
                fn respell(g: &Geometry<f64>, pv: &dyn Fn(&Polygon<f64>, u8) -> Polygon<f64>) -> Geometry<f64> {
                    match g {
                        Geometry::Triangle(t) => Geometry::Triangle(Triangle(t.0, t.2, t.1)),
                        Geometry::Rect(r) => Geometry::Rect(Rect::new(r.max(), r.min())),
                        Geometry::Polygon(p) => Geometry::Polygon(pv(p, 1)),
                        Geometry::MultiPolygon(m) => Geometry::MultiPolygon(MultiPolygon::new(m.0.iter().map(|p| pv(p, 2)).collect())),
                        Geometry::GeometryCollection(c) => Geometry::GeometryCollection(GeometryCollection::new_from(c.0.iter().map(|x| respell(x, pv)).collect())),
                        other => other.clone(),
                    }
                }
                out.push(("respelled".into(), G::GeometryCollection(GeometryCollection::new_from(gc.0.iter().map(|x| respell(x, &poly_var)).collect()))));
            }
        }
        // the same coordinates with every zero written as negative zero (0.0 == -0.0: the same point set)
        let nz = self.map(&|c| Coord { x: if c.x == 0.0 { -0.0 } else { c.x }, y: if c.y == 0.0 { -0.0 } else { c.y } }, true);
        out.push(("negzero".into(), nz));
        // ... and with zeros of MIXED sign: the zeros of every second coordinate (in traversal order) negative, so that equal
        // coordinates of one geometry are written in both spellings
        let k = std::cell::Cell::new(0usize);
        let mz = self.map(&|c| { let i = k.get(); k.set(i + 1);
            if i % 2 == 1 { Coord { x: if c.x == 0.0 { -0.0 } else { c.x }, y: if c.y == 0.0 { -0.0 } else { c.y } } } else { c } }, true);
        out.push(("mixedzero".into(), mz));
        // any geometry as a one-member collection
        out.push(("gc1".into(), G::GeometryCollection(GeometryCollection::new_from(vec![self.geometry()]))));
        out
    }
}

/// Exact maps (DESIGN.md 3.2 / Maps.tla): each is computed without rounding in f64 on lattice
/// input.  Returns (name, function, axis_preserving, det, uniform scale or 0 if not a similarity).
pub struct ExactMap {
    pub name: &'static str,
    pub m: [f64; 6], // x' = m0 x + m1 y + m2 ; y' = m3 x + m4 y + m5
    pub axis: bool,
}
impl ExactMap {
    pub fn apply(&self, c: Coord<f64>) -> Coord<f64> {
        Coord { x: self.m[0] * c.x + self.m[1] * c.y + self.m[2], y: self.m[3] * c.x + self.m[4] * c.y + self.m[5] }
    }
    pub fn det(&self) -> f64 {
        self.m[0] * self.m[4] - self.m[1] * self.m[3]
    }
    /// uniform scale factor if the map is a similarity
    pub fn similarity(&self) -> Option<f64> {
        let (a, b, c, d) = (self.m[0], self.m[1], self.m[3], self.m[4]);
        if a * b + c * d == 0.0 && a * a + c * c == b * b + d * d {
            Some((a * a + c * c).sqrt())
        } else {
            None
        }
    }
    pub fn on(&self, g: &G) -> G {
        g.map(&|c| self.apply(c), self.axis)
    }
}
pub fn exact_maps() -> Vec<ExactMap> {
    let p2 = |k: i32| 2f64.powi(k);
    vec![
        ExactMap { name: "rot90", m: [0.0, -1.0, 0.0, 1.0, 0.0, 0.0], axis: true },
        ExactMap { name: "rot180", m: [-1.0, 0.0, 0.0, 0.0, -1.0, 0.0], axis: true },
        ExactMap { name: "rot270", m: [0.0, 1.0, 0.0, -1.0, 0.0, 0.0], axis: true },
        ExactMap { name: "flipx", m: [-1.0, 0.0, 0.0, 0.0, 1.0, 0.0], axis: true },
        ExactMap { name: "flipy", m: [1.0, 0.0, 0.0, 0.0, -1.0, 0.0], axis: true },
        ExactMap { name: "swapxy", m: [0.0, 1.0, 0.0, 1.0, 0.0, 0.0], axis: true },
        ExactMap { name: "antiswap", m: [0.0, -1.0, 0.0, -1.0, 0.0, 0.0], axis: true },
        ExactMap { name: "tr_1e8", m: [1.0, 0.0, 1.0e8, 0.0, 1.0, -3.0e7], axis: true },
        ExactMap { name: "tr_neg", m: [1.0, 0.0, -5.0, 0.0, 1.0, -7.0], axis: true },
        ExactMap { name: "scale_2p20", m: [p2(20), 0.0, 0.0, 0.0, p2(20), 0.0], axis: true },
        ExactMap { name: "scale_2m20", m: [p2(-20), 0.0, 0.0, 0.0, p2(-20), 0.0], axis: true },
        ExactMap { name: "scale_2m40", m: [p2(-40), 0.0, 0.0, 0.0, p2(-40), 0.0], axis: true },
        ExactMap { name: "scale_2p-7", m: [p2(-7), 0.0, 0.0, 0.0, p2(-7), 0.0], axis: true },
        ExactMap { name: "scale_2p-11", m: [p2(-11), 0.0, 0.0, 0.0, p2(-11), 0.0], axis: true },
        ExactMap { name: "scale_2m80", m: [p2(-80), 0.0, 0.0, 0.0, p2(-80), 0.0], axis: true },
        ExactMap { name: "scale_2p100", m: [p2(100), 0.0, 0.0, 0.0, p2(100), 0.0], axis: true },
        ExactMap { name: "scale_2p40_tr", m: [p2(40), 0.0, p2(42), 0.0, p2(40), -p2(41)], axis: true },
        ExactMap { name: "shear_x2", m: [1.0, 2.0, 0.0, 0.0, 1.0, 0.0], axis: false },
        ExactMap { name: "shear_y3", m: [1.0, 0.0, 0.0, -3.0, 1.0, 0.0], axis: false },
        ExactMap { name: "shear_both", m: [2.0, 1.0, 3.0, 1.0, 1.0, -2.0], axis: false },
        ExactMap { name: "aniso", m: [4.0, 0.0, 0.0, 0.0, 0.5, 1.0], axis: true },
        // unimodular double shear with M = 2^16 + 1: lattice edges become long, nearly parallel vectors
        // whose cross products need more than 53 bits (coordinates stay integers < 2^37, hence exact)
        ExactMap { name: "shear_huge", m: [1.0, 65537.0, 0.0, 65537.0, 1.0 + 65537.0 * 65537.0, 0.0], axis: false },
    ]
}

/// any of the ten concrete types as a `Geometry` (geo has no `From<GeometryCollection>`)
pub trait ToGeom {
    fn to_geom(self) -> Geometry<f64>;
}
macro_rules! to_geom { ($($t:ident),*) => { $(impl ToGeom for $t<f64> { fn to_geom(self) -> Geometry<f64> { Geometry::$t(self) } })* } }
to_geom!(Point, Line, LineString, Polygon, MultiPoint, MultiLineString, MultiPolygon, Rect, Triangle, GeometryCollection);

/// Maps that are NOT part of the regular rotation: used only by pinned cases (known findings).
pub fn pinned_map(name: &str) -> Option<ExactMap> {
    match name {
        // M = 2^20 + 1: proper crossings of the mapped (nearly parallel, 2^44-sized) segments are no
        // longer located exactly by line_intersection, and relate loses them
        "shear_2p20" => Some(ExactMap { name: "shear_2p20", m: [1.0, 1048577.0, 0.0, 1048577.0, 1.0 + 1048577.0 * 1048577.0, 0.0], axis: false }),
        _ => None,
    }
}

mod ctx;
mod dispatch;
mod gj;
mod ops_affine;
mod ops_boolops;
mod ops_c17;
mod ops_centroid;
mod ops_closest;
mod ops_determinism;
mod ops_distance;
mod ops_extra;
mod ops_extra2;
mod ops_hull;
mod ops_kernel;
mod ops_linemeasure;
mod ops_c18;
mod ops_poly;
mod ops_relate;
mod ops_relpert;
mod ops_segseg;
mod ops_simplify;
mod ops_sweep;
mod ops_sphere;
mod ops_tiling;
mod ops_traversal;
mod ops_types;
mod ops_valid;

use ctx::Ctx;
use serde_json::Value;
use std::collections::BTreeMap;
use std::io::{BufRead, BufReader, BufWriter};

fn main() {
    let args: Vec<String> = std::env::args().collect();
    if args.len() < 4 {
        eprintln!("usage: geoharness replay <cases.ndjson> <out.ndjson> [--seed N] [--props C01,C02]");
        std::process::exit(2);
    }
    let mut seed = 0u64;
    let mut pool = String::new();
    let mut props: Vec<String> = vec![];
    let mut i = 4;
    if args[1] == "record" { i = 5; }
    while i < args.len() {
        match args[i].as_str() {
            "--seed" => { seed = args[i + 1].parse().unwrap_or(0); i += 2; }
            "--pool" => { pool = args[i + 1].clone(); i += 2; }
            "--props" => { props = args[i + 1].split(',').map(|s| s.to_string()).collect(); i += 2; }
            _ => { i += 1; }
        }
    }
    // panics are data: keep the default hook quiet
    std::panic::set_hook(Box::new(|_| {}));
    let out = BufWriter::new(std::fs::File::create(&args[3]).expect("create out"));
    let mut cx = Ctx {
        out: Box::new(out), seed, props,
        pass: BTreeMap::new(), fail: BTreeMap::new(), extra: BTreeMap::new(),
        max_fail_lines: 2000, fail_lines: 0, samples: vec![],
    };
    let _ = std::fs::remove_file(format!("{}.hang", &args[3]));
    ctx::start_watchdog(args[3].clone());
    match args[1].as_str() {
        "replay" => {
            let f = BufReader::new(std::fs::File::open(&args[2]).expect("open cases"));
            for (n, line) in f.lines().enumerate() {
                let line = line.unwrap();
                if line.trim().is_empty() { continue; }
                let case: Value = serde_json::from_str(&line).unwrap_or_else(|e| panic!("bad case line {n}: {e}"));
                ctx::beat(&line);
                // a panic that escapes the per-call guards of a case function is still data about the code under test
                let r = std::panic::catch_unwind(std::panic::AssertUnwindSafe(|| dispatch_case(&mut cx, n as u64, &case)));
                if let Err(e) = r {
                    let msg = e.downcast_ref::<&str>().map(|s| s.to_string()).or_else(|| e.downcast_ref::<String>().cloned()).unwrap_or_else(|| "panic".into());
                    let props = if cx.props.is_empty() { vec!["?".to_string()] } else { cx.props.clone() };
                    for p in props {
                        cx.bad(&p, "panic_outside_guard", &case, serde_json::json!({"what": "a call made while replaying this case panicked", "msg": msg}));
                    }
                }
            }
            ctx::beat_off();
        }
        // record <kind> <out.ndjson> <n_events> --seed N : drive the real API, log a trace
        "record" => {
            let n: usize = args[4].parse().expect("n_events");
            let mut w = BufWriter::new(std::fs::File::create(&args[3]).expect("create trace"));
            let r = std::panic::catch_unwind(std::panic::AssertUnwindSafe(|| {
            match args[2].as_str() {
                "c18" => ops_c18::record(&mut w, seed, n),
                "c17" => ops_c17::record(&pool, &mut w, seed, n),
                "c16" => ops_sphere::record(&mut w, seed, n),
                "c04" => ops_boolops::record(&pool, &mut w, seed, n),
                "c10" => ops_tiling::record(&pool, &mut w, seed, n),
                "c10rerun" => ops_tiling::rerun(&pool, &mut w),
                "c20" => ops_determinism::record(&pool, &mut w, seed, n),
                "c09" => ops_simplify::record(&mut w, seed, n),
                "c09steps" => ops_simplify::record_steps(&mut w, seed, n),
                "c08" => ops_hull::record(&mut w, seed, n),
                "c04rerun" => ops_boolops::rerun(&pool, &mut w),
                k => { eprintln!("unknown record kind {k}"); std::process::exit(2); }
            }
            }));
            if let Err(e) = r {
                // a panic that escapes the guards of a recorder: reported with the event in progress, like a call that does not return
                let msg = e.downcast_ref::<&str>().map(|s| s.to_string()).or_else(|| e.downcast_ref::<String>().cloned()).unwrap_or_else(|| "panic".into());
                let cur = ctx::CURRENT.lock().map(|c| c.clone()).unwrap_or_default();
                let _ = std::fs::write(format!("{}.hang", &args[3]), serde_json::json!({"panic": msg, "in_progress": cur}).to_string());
                std::process::exit(3);
            }
            return;
        }
        other => { eprintln!("unknown command {other}"); std::process::exit(2); }
    }
    cx.finish();
}

fn dispatch_case(cx: &mut Ctx, n: u64, case: &Value) {
    match case["op"].as_str().unwrap_or("") {
        "centroid" => ops_centroid::centroid_case(cx, n, case),
        "closest" => ops_closest::closest_case(cx, n, case),
        "interior" => ops_closest::interior_case(cx, n, case),
        "distance" => ops_distance::distance_case(cx, n, case),
        "segseg" => ops_segseg::segseg_case(cx, n, case),
        "kernel" => ops_kernel::kernel_case(cx, n, case),
        "kernel_fib" => ops_kernel::kernel_fib_case(cx, n, case),
        "kernel_big" => ops_kernel::kernel_big_case(cx, n, case),
        "kernel_pinned" => ops_kernel::kernel_pinned_case(cx, n, case),
        "hull" => ops_hull::hull_case(cx, n, case),
        "simplify" => ops_simplify::simplify_case(cx, n, case),
        "sweep" => ops_sweep::sweep_case(cx, n, case),
        "extra_pair" => ops_extra::pair_case(cx, n, case),
        "extra_seq" => ops_extra::seq_case(cx, n, case),
        "segmentize" => ops_extra2::segmentize_case(cx, n, case),
        "chull" => ops_extra2::chull_case(cx, n, case),
        "xtrack" => ops_extra2::xtrack_case(cx, n, case),
        "types_pair" => ops_types::pair_case(cx, n, case),
        "types_tri" => ops_types::tri_case(cx, n, case),
        "types_seq" => ops_types::seq_case(cx, n, case),
        "types_rings" => ops_types::rings_case(cx, n, case),
        "valid" => ops_valid::valid_case(cx, n, case),
        "linemeasure" => ops_linemeasure::linemeasure_case(cx, n, case),
        "linemeasure_general" => ops_linemeasure::linemeasure_general_case(cx, n, case),
        "traversal" => ops_traversal::traversal_case(cx, n, case),
        "affine_step" => ops_affine::affine_case(cx, n, case),
        "poly" => ops_poly::poly_case(cx, n, case),
        "relate" => ops_relate::relate_case(cx, n, case),
        "relpert" => ops_relpert::relpert_case(cx, n, case),
        "coordpos" => ops_relate::coordpos_case(cx, n, case),
        "c18_conv" => ops_c18::conv_case(cx, n, case),
        "c18_chain" => ops_c18::chain_case(cx, n, case),
        "c18_step" => ops_c18::step_case(cx, n, case),
        "coordpos_pt" => ops_relate::coordpos_pt_case(cx, n, case),
        "sphere" => ops_sphere::sphere_case(cx, n, case),
        op => { cx.count(&format!("unknown_op_{op}"), 1); }
    }
}

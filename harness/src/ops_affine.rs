//! C13: replay of Gen_Affine transitions (builder state machine) and trait forms.
use crate::ctx::{guard, Ctx};
use geo::{AffineOps, AffineTransform, Coord, LineString, Point, Polygon, Rotate, Scale, Skew, Translate};
use serde_json::{json, Value};

fn mat(v: &Value) -> [f64; 6] {
    let a = v.as_array().unwrap();
    [a[0].as_f64().unwrap(), a[1].as_f64().unwrap(), a[2].as_f64().unwrap(), a[3].as_f64().unwrap(), a[4].as_f64().unwrap(), a[5].as_f64().unwrap()]
}
fn entries(t: &AffineTransform<f64>) -> [f64; 6] {
    [t.a(), t.b(), t.xoff(), t.d(), t.e(), t.yoff()]
}
fn near(a: &[f64; 6], b: &[f64; 6], tol: f64) -> bool {
    a.iter().zip(b).all(|(x, y)| (x - y).abs() <= tol * (1.0 + y.abs()))
}
fn app(m: &[f64; 6], c: Coord<f64>) -> Coord<f64> {
    Coord { x: m[0] * c.x + m[1] * c.y + m[2], y: m[3] * c.x + m[4] * c.y + m[5] }
}
fn pts_near(a: &[Coord<f64>], b: &[Coord<f64>], tol: f64) -> bool {
    a.len() == b.len() && a.iter().zip(b).all(|(p, q)| (p.x - q.x).abs() <= tol * (1.0 + q.x.abs()) && (p.y - q.y).abs() <= tol * (1.0 + q.y.abs()))
}

pub fn affine_case(cx: &mut Ctx, n: u64, case: &Value) {
    if !cx.wants("C13") {
        return;
    }
    if n % 2003 == 0 {
        cx.sample(case.clone());
    }
    cx.count("affine_steps", 1);
    let pre = mat(&case["pre"]);
    let post = mat(&case["post"]);
    let elem = mat(&case["elem"]);
    let call = &case["call"];
    let name = call["name"].as_str().unwrap();
    let t0 = AffineTransform::new(pre[0], pre[1], pre[2], pre[3], pre[4], pre[5]);
    let o = call.get("o").map(|o| Coord { x: o[0].as_f64().unwrap(), y: o[1].as_f64().unwrap() });
    let f = |k: &str| call[k].as_f64().unwrap();
    let (t1, e1): (AffineTransform<f64>, AffineTransform<f64>) = match name {
        "translated" => (t0.translated(f("dx"), f("dy")), AffineTransform::translate(f("dx"), f("dy"))),
        "scaled" => (t0.scaled(f("fx"), f("fy"), o.unwrap()), AffineTransform::scale(f("fx"), f("fy"), o.unwrap())),
        "rotated" => (t0.rotated(90.0 * f("q"), o.unwrap()), AffineTransform::rotate(90.0 * f("q"), o.unwrap())),
        "skewed" => (t0.skewed(45.0 * f("tx"), 45.0 * f("ty"), o.unwrap()), AffineTransform::skew(45.0 * f("tx"), 45.0 * f("ty"), o.unwrap())),
        "compose" => { let m = mat(&call["other"]); let e = AffineTransform::new(m[0], m[1], m[2], m[3], m[4], m[5]); (t0.compose(&e), e) }
        _ => panic!("unknown call"),
    };
    let exact = matches!(name, "translated" | "scaled" | "compose");
    let tol = if exact { 0.0 } else { 1e-12 };
    let mut chk = |sub: &str, what: String, ok: bool, got: String| {
        if ok { cx.ok(sub); } else { cx.bad("C13", sub, case, json!({"what": what, "got": got})); }
    };
    chk("builder_step_matrix", format!("{name}: matrix after the call"), near(&entries(&t1), &post, tol), format!("{:?}", entries(&t1)));
    chk("constructor_matrix", format!("{name}: elementary transform"), near(&entries(&e1), &elem, tol), format!("{:?}", entries(&e1)));
    chk("compose_is_then", "self.compose(elem) = post".into(), near(&entries(&t0.compose(&e1)), &post, tol), format!("{:?}", entries(&t0.compose(&e1))));
    for im in case["images"].as_array().unwrap() {
        let p = Coord { x: im[0][0].as_f64().unwrap(), y: im[0][1].as_f64().unwrap() };
        let w = Coord { x: im[1][0].as_f64().unwrap(), y: im[1][1].as_f64().unwrap() };
        let g = t1.apply(p);
        chk("apply", format!("apply({p:?})"), pts_near(&[g], &[w], tol.max(0.0) * 50.0), format!("{g:?}"));
        // compose(a, b) applied = b applied after a
        let g2 = e1.apply(t0.apply(p));
        chk("apply_composed_is_sequential", format!("elem.apply(pre.apply({p:?}))"), pts_near(&[g2], &[w], tol * 50.0), format!("{g2:?}"));
    }
    let tw = t0.compose_many(&[e1, e1]);
    chk("compose_many", "pre.compose_many([elem, elem])".into(), near(&entries(&tw), &mat(&case["twice"]), tol * 10.0), format!("{:?}", entries(&tw)));
    let kk = AffineTransform::new(0.0, -1.0, 2.0, 1.0, 0.0, -1.0);
    let tk = t0.compose_many(&[e1, kk]);
    chk("compose_many", "pre.compose_many([elem, K])".into(), near(&entries(&tk), &mat(&case["then_k"]), tol * 10.0), format!("{:?}", entries(&tk)));
    chk("is_identity", "is_identity".into(), t1.is_identity() == (near(&post, &[1.0, 0.0, 0.0, 0.0, 1.0, 0.0], 0.0)) || !exact, String::new());
    // small angles and the f32 scalar type: skew by x degrees has b = tan(x) and d = tan(y) also when the angle is tiny (the
    // documented matrix; reference values from the platform's tan), rotate by a tiny angle is not the identity
    if name == "skewed" {
        let org = o.unwrap();
        for deg in [1e-3f64, 1e-5, 5e-6, 2e-6, 1e-9, 1e-12] {
            let t64 = AffineTransform::<f64>::skew(deg, -deg, org);
            let w = deg.to_radians().tan();
            let ok64 = (t64.b() - w).abs() <= 1e-9 * w && (t64.d() + w).abs() <= 1e-9 * w && t64.a() == 1.0 && t64.e() == 1.0;
            chk("skew_small_angle", format!("AffineTransform::<f64>::skew({deg}, -{deg}): b, d"), ok64, format!("b = {:e}, d = {:e}, want +-{:e}", t64.b(), t64.d(), w));
            if deg >= 1e-6 {
                let t32 = AffineTransform::<f32>::skew(deg as f32, -(deg as f32), geo::Coord { x: org.x as f32, y: org.y as f32 });
                let ok32 = ((t32.b() as f64) - w).abs() <= 1e-4 * w && ((t32.d() as f64) + w).abs() <= 1e-4 * w;
                chk("skew_small_angle", format!("AffineTransform::<f32>::skew({deg}, -{deg}): b, d"), ok32, format!("b = {:e}, d = {:e}, want +-{:e}", t32.b(), t32.d(), w));
                let s32 = AffineTransform::<f32>::identity().skewed(deg as f32, 0.0, geo::Coord { x: 0.0f32, y: 0.0 });
                chk("skew_small_angle", format!("AffineTransform::<f32>::skewed({deg}, 0): b"), ((s32.b() as f64) - w).abs() <= 1e-4 * w, format!("b = {:e}", s32.b()));
            }
        }
    }
    if name == "rotated" {
        for deg in [1e-3f64, 1e-6, 1e-9] {
            let r = AffineTransform::<f64>::rotate(deg, o.unwrap());
            let w = deg.to_radians().sin();
            chk("rotate_small_angle", format!("AffineTransform::rotate({deg}): sine entries"), (r.d() - w).abs() <= 1e-9 * w && (r.b() + w).abs() <= 1e-9 * w, format!("b = {:e}, d = {:e}", r.b(), r.d()));
            let r32 = AffineTransform::<f32>::rotate(deg as f32, geo::Coord { x: 0.0f32, y: 0.0 });
            if deg >= 1e-6 { chk("rotate_small_angle", format!("AffineTransform::<f32>::rotate({deg}): sine entries"), ((r32.d() as f64) - w).abs() <= 1e-4 * w, format!("d = {:e}", r32.d())); }
            // ... and an f64 rotation by the very same numeric angle right after the f32 one (nothing may be shared between them)
            for a32 in [deg as f32, 33.3f32, 211.7f32] {
                let _ = AffineTransform::<f32>::rotate(a32, geo::Coord { x: 1.0f32, y: 1.0 });
                let a = a32 as f64;
                let r64 = AffineTransform::<f64>::rotate(a, geo::Coord { x: 1.0, y: 1.0 });
                let (sn, cs) = (a.to_radians().sin(), a.to_radians().cos());
                chk("rotate_after_f32", format!("AffineTransform::<f64>::rotate({a}) right after the f32 rotation by the same angle"),
                    (r64.d() - sn).abs() <= 1e-14 + 1e-12 * sn.abs() && (r64.a() - cs).abs() <= 1e-14 + 1e-12 * cs.abs(), format!("a = {:e}, d = {:e}, want cos {:e}, sin {:e}", r64.a(), r64.d(), cs, sn));
            }
        }
    }
    // values that the integer machine cannot produce: general angles, decimal factors, decimal origins (reference: the documented
    // matrices evaluated with the platform's sin / cos / tan); the builder form composes with the accumulated transform
    if n % 40 == 0 {
        let org = geo::Coord { x: 12.345, y: -0.7 };
        for deg in [30.0f64, 17.3, 123.456, -200.5, 359.9, 721.25] {
            let (sn, cs) = (deg.to_radians().sin(), deg.to_radians().cos());
            let want = [cs, -sn, org.x - org.x * cs + org.y * sn, sn, cs, org.y - org.x * sn - org.y * cs];
            let r = AffineTransform::<f64>::rotate(deg, org);
            chk("general_values", format!("rotate({deg}, {org:?})"), near(&entries(&r), &want, 1e-12), format!("{:?}", entries(&r)));
            let rb = t0.rotated(deg, org);
            chk("general_values", format!("pre.rotated({deg}, {org:?}) = pre.compose(rotate)"), near(&entries(&rb), &entries(&t0.compose(&r)), 1e-9), format!("{:?}", entries(&rb)));
            let p = geo::Coord { x: 3.3, y: 9.9 };
            let q = r.apply(p);
            let wq = geo::Coord { x: org.x + (p.x - org.x) * cs - (p.y - org.y) * sn, y: org.y + (p.x - org.x) * sn + (p.y - org.y) * cs };
            chk("general_values", format!("rotate({deg}).apply"), (q.x - wq.x).abs() <= 1e-9 && (q.y - wq.y).abs() <= 1e-9, format!("{q:?} want {wq:?}"));
        }
        for (fx, fy) in [(0.1f64, 3.0f64), (1.0 / 3.0, -2.5), (1e-3, 1e3)] {
            let want = [fx, 0.0, org.x - org.x * fx, 0.0, fy, org.y - org.y * fy];
            let sc = AffineTransform::<f64>::scale(fx, fy, org);
            chk("general_values", format!("scale({fx}, {fy}, {org:?})"), near(&entries(&sc), &want, 1e-12), format!("{:?}", entries(&sc)));
            chk("general_values", format!("pre.scaled({fx}, {fy})"), near(&entries(&t0.scaled(fx, fy, org)), &entries(&t0.compose(&sc)), 1e-9), String::new());
        }
        for (xs, ys) in [(30.0f64, 0.0f64), (12.5, -40.0), (-63.2, 7.7)] {
            let (tx, ty) = (xs.to_radians().tan(), ys.to_radians().tan());
            let want = [1.0, tx, -org.y * tx, ty, 1.0, -org.x * ty];
            let sk = AffineTransform::<f64>::skew(xs, ys, org);
            chk("general_values", format!("skew({xs}, {ys}, {org:?})"), near(&entries(&sk), &want, 1e-12), format!("{:?}", entries(&sk)));
            chk("general_values", format!("pre.skewed({xs}, {ys})"), near(&entries(&t0.skewed(xs, ys, org)), &entries(&t0.compose(&sk)), 1e-9), String::new());
        }
        let tr = AffineTransform::<f64>::translate(0.1, -1e-7);
        chk("general_values", "translate(0.1, -1e-7)".into(), entries(&tr) == [1.0, 0.0, 0.1, 0.0, 1.0, -1e-7] && near(&entries(&t0.translated(0.1, -1e-7)), &entries(&t0.compose(&tr)), 1e-12), format!("{:?}", entries(&tr)));
    }
    // identity(): the neutral element of compose on both sides, equal to Default, is_identity, its own inverse
    {
        let id = AffineTransform::<f64>::identity();
        let ok = entries(&id) == [1.0, 0.0, 0.0, 0.0, 1.0, 0.0] && id.is_identity() && id == AffineTransform::default()
            && entries(&id.compose(&t1)) == entries(&t1) && entries(&t1.compose(&id)) == entries(&t1)
            && id.inverse().map(|i| entries(&i)) == Some([1.0, 0.0, 0.0, 0.0, 1.0, 0.0])
            && entries(&t1.compose_many(&[])) == entries(&t1) && entries(&id.compose_many(&[t1])) == entries(&t1);
        chk("identity", "AffineTransform::identity()".into(), ok, format!("{:?}", entries(&id)));
    }
    // inverse: None exactly for singular matrices, otherwise the exact rational inverse
    let det = case["det"].as_f64().unwrap();
    let inv = guard(|| AffineTransform::new(post[0], post[1], post[2], post[3], post[4], post[5]).inverse());
    match inv {
        Ok(None) => chk("inverse", "inverse of a singular matrix".into(), det == 0.0, "None".into()),
        Ok(Some(i)) => {
            let nums = mat(&case["inverse"][0]);
            let want: Vec<f64> = nums.iter().map(|x| x / det).collect();
            let want6 = [want[0], want[1], want[2], want[3], want[4], want[5]];
            chk("inverse", "inverse entries".into(), det != 0.0 && near(&entries(&i), &want6, 1e-12), format!("{:?}", entries(&i)));
            if det != 0.0 {
                let round = AffineTransform::new(post[0], post[1], post[2], post[3], post[4], post[5]).compose(&i);
                chk("inverse_undoes", "m.compose(m.inverse()) = identity".into(), near(&entries(&round), &[1.0, 0.0, 0.0, 0.0, 1.0, 0.0], 1e-9), format!("{:?}", entries(&round)));
            }
        }
        Err(p) => chk("inverse", "inverse".into(), false, format!("PANIC {p}")),
    }
    // the same matrix with all six entries scaled exactly by 2^-30, 2^-45 and 2^40 (determinant scaled by the square: tiny or
    // huge, but zero exactly when it was zero): inverse(s M) has the linear part of inverse(M) divided by s and the same offset
    {
        for sc in [2f64.powi(-30), 2f64.powi(-45), 2f64.powi(40)] {
            let ms = AffineTransform::new(post[0] * sc, post[1] * sc, post[2] * sc, post[3] * sc, post[4] * sc, post[5] * sc);
            match guard(|| ms.inverse()) {
                Ok(None) => chk("inverse_scaled", format!("inverse of the matrix scaled by {sc}: None"), det == 0.0, "None".into()),
                Ok(Some(i)) => {
                    let nums = mat(&case["inverse"][0]);
                    let w: Vec<f64> = nums.iter().map(|x| x / det).collect();
                    let want6 = [w[0] / sc, w[1] / sc, w[2], w[3] / sc, w[4] / sc, w[5]];
                    let got = entries(&i);
                    let ok = det != 0.0 && (0..6).all(|k| (got[k] - want6[k]).abs() <= 1e-12 * want6[k].abs().max(1.0));
                    chk("inverse_scaled", format!("inverse of the matrix scaled by {sc}"), ok, format!("{got:?} want {want6:?}"));
                }
                Err(p) => chk("inverse_scaled", "inverse of a scaled matrix".into(), false, format!("PANIC {p}")),
            }
        }
    }
    // integer scalar type: builder steps without trigonometry are exact; inverse only when unimodular
    if exact {
        let iv = |m: &[f64; 6]| AffineTransform::<i64>::new(m[0] as i64, m[1] as i64, m[2] as i64, m[3] as i64, m[4] as i64, m[5] as i64);
        let e = iv(&elem);
        let t = iv(&pre).compose(&e);
        let got = [t.a(), t.b(), t.xoff(), t.d(), t.e(), t.yoff()];
        let want: Vec<i64> = post.iter().map(|x| *x as i64).collect();
        chk("i64_compose", "AffineTransform<i64>::compose".into(), got.to_vec() == want, format!("{got:?}"));
        if det == 0.0 {
            let r = guard(|| iv(&post).inverse());
            chk("i64_inverse", "AffineTransform<i64>::inverse of a singular matrix".into(), matches!(r, Ok(None)), format!("{r:?}"));
        } else if det.abs() == 1.0 {
            let nums = mat(&case["inverse"][0]);
            let want: Vec<i64> = nums.iter().map(|x| (*x / det) as i64).collect();
            let got = guard(|| iv(&post).inverse().map(|i| vec![i.a(), i.b(), i.xoff(), i.d(), i.e(), i.yoff()]));
            chk("i64_inverse", "AffineTransform<i64>::inverse of a unimodular matrix".into(), got == Ok(Some(want)), format!("{got:?}"));
        }
    }
    // trait forms on a geometry centred on the origin of the call: bounding-box centre = centroid = o
    let c0 = o.unwrap_or(Coord { x: 0.0, y: 0.0 });
    let ring = vec![Coord { x: c0.x - 2.0, y: c0.y - 1.0 }, Coord { x: c0.x + 2.0, y: c0.y - 1.0 }, Coord { x: c0.x + 2.0, y: c0.y + 1.0 }, Coord { x: c0.x - 2.0, y: c0.y + 1.0 }, Coord { x: c0.x - 2.0, y: c0.y - 1.0 }];
    let poly = Polygon::new(LineString::new(ring.clone()), vec![]);
    let want_elem: Vec<Coord<f64>> = ring.iter().map(|c| app(&elem, *c)).collect();
    let want_post: Vec<Coord<f64>> = ring.iter().map(|c| app(&post, *c)).collect();
    let ext = |p: &Polygon<f64>| p.exterior().0.clone();
    let t = 1e-12 * 50.0;
    chk("affine_transform", "Polygon::affine_transform(post)".into(), pts_near(&ext(&poly.affine_transform(&t1)), &want_post, t), String::new());
    let mut pm = poly.clone();
    pm.affine_transform_mut(&t1);
    chk("affine_transform", "Polygon::affine_transform_mut(post)".into(), pts_near(&ext(&pm), &want_post, t), String::new());
    // every geometry type: the in-place form equals the by-value form (also through the Geometry enum and a collection), and areas
    // scale by |det| (Rect and Triangle re-normalise their corners, so their signed area stays non-negative)
    {
        use geo::{Area, Geometry, GeometryCollection, Line, LineString, MultiLineString, MultiPoint, MultiPolygon, Rect, Triangle};
        let sq = |x: f64, y: f64, w: f64| LineString::from(vec![(x, y), (x + w, y), (x + w, y + w), (x, y + w), (x, y)]);
        let gs: Vec<Geometry<f64>> = vec![
            Geometry::Point(Point::new(1.0, 2.0)), Geometry::Line(Line::new(Coord { x: 0.0, y: 1.0 }, Coord { x: 3.0, y: 2.0 })),
            Geometry::LineString(LineString::from(vec![(0.0, 0.0), (2.0, 1.0), (3.0, 3.0)])), Geometry::Polygon(Polygon::new(sq(0.0, 0.0, 4.0), vec![sq(1.0, 1.0, 1.0)])),
            Geometry::MultiPoint(MultiPoint::new(vec![Point::new(0.0, 0.0), Point::new(2.0, 3.0)])),
            Geometry::MultiLineString(MultiLineString::new(vec![LineString::from(vec![(0.0, 0.0), (1.0, 1.0)]), LineString::from(vec![(2.0, 0.0), (2.0, 2.0), (3.0, 1.0)])])),
            Geometry::MultiPolygon(MultiPolygon::new(vec![Polygon::new(sq(0.0, 0.0, 1.0), vec![]), Polygon::new(sq(2.0, 2.0, 2.0), vec![])])),
            Geometry::Rect(Rect::new(Coord { x: 1.0, y: 1.0 }, Coord { x: 3.0, y: 4.0 })), Geometry::Triangle(Triangle::new(Coord { x: 1.0, y: 1.0 }, Coord { x: 5.0, y: 1.0 }, Coord { x: 1.0, y: 4.0 })),
        ];
        let mut all = gs.clone();
        all.push(Geometry::GeometryCollection(GeometryCollection::new_from(gs.clone())));
        let det = (post[0] * post[4] - post[1] * post[3]).abs();
        for g in &all {
            let by_value = g.affine_transform(&t1);
            let mut in_place = g.clone();
            in_place.affine_transform_mut(&t1);
            let a0 = g.unsigned_area();
            // (a Rect stays an axis-parallel Rect under any map - documented - so its area only scales under axis-preserving maps)
            let has_rect = matches!(g, Geometry::Rect(_) | Geometry::GeometryCollection(_));
            let ok_area = (has_rect || (by_value.unsigned_area() - det * a0).abs() <= 1e-9 * (det * a0).max(1.0))
                && match &by_value { Geometry::Rect(r) => r.signed_area() >= 0.0, Geometry::Triangle(t) => t.signed_area() >= -1e-9 * (1.0 + det * a0), _ => true };
            chk("in_place_equals_by_value", format!("{g:?}").chars().take(40).collect(), by_value == in_place, format!("in place {in_place:?} by value {by_value:?}").chars().take(300).collect());
            chk("transformed_area", format!("{g:?}").chars().take(40).collect(), ok_area, format!("{by_value:?} area {} want {}", by_value.unsigned_area(), det * a0).chars().take(300).collect());
        }
    }
    let forms: Vec<(&str, Polygon<f64>)> = match name {
        "translated" => { let mut m = poly.clone(); m.translate_mut(f("dx"), f("dy")); vec![("translate", poly.translate(f("dx"), f("dy"))), ("translate_mut", m)] }
        "scaled" => {
            let (fx, fy, oo) = (f("fx"), f("fy"), o.unwrap());
            let mut m1 = poly.clone(); m1.scale_around_point_mut(fx, fy, oo);
            let mut m2 = poly.clone(); m2.scale_xy_mut(fx, fy);
            let mut v = vec![("scale_around_point", poly.scale_around_point(fx, fy, oo)), ("scale_around_point_mut", m1), ("scale_xy (bbox centre)", poly.scale_xy(fx, fy)), ("scale_xy_mut", m2)];
            if fx == fy {
                let mut m3 = poly.clone(); m3.scale_mut(fx);
                v.push(("scale (uniform)", poly.scale(fx)));
                v.push(("scale_mut (uniform)", m3));
            }
            v
        }
        "rotated" => {
            let (deg, oo) = (90.0 * f("q"), Point(o.unwrap()));
            let mut m1 = poly.clone(); m1.rotate_around_point_mut(deg, oo);
            let mut m2 = poly.clone(); m2.rotate_around_center_mut(deg);
            let mut m3 = poly.clone(); m3.rotate_around_centroid_mut(deg);
            vec![("rotate_around_point", poly.rotate_around_point(deg, oo)), ("rotate_around_point_mut", m1), ("rotate_around_center", poly.rotate_around_center(deg)), ("rotate_around_center_mut", m2),
                 ("rotate_around_centroid", poly.rotate_around_centroid(deg)), ("rotate_around_centroid_mut", m3)]
        }
        "skewed" => {
            let (xs, ys, oo) = (45.0 * f("tx"), 45.0 * f("ty"), o.unwrap());
            let mut m1 = poly.clone(); m1.skew_around_point_mut(xs, ys, oo);
            let mut m2 = poly.clone(); m2.skew_xy_mut(xs, ys);
            let mut v = vec![("skew_around_point", poly.skew_around_point(xs, ys, oo)), ("skew_around_point_mut", m1), ("skew_xy (bbox centre)", poly.skew_xy(xs, ys)), ("skew_xy_mut", m2)];
            if xs == ys {
                let mut m3 = poly.clone(); m3.skew_mut(xs);
                v.push(("skew (uniform)", poly.skew(xs)));
                v.push(("skew_mut (uniform)", m3));
            }
            v
        }
        _ => vec![],
    };
    for (what, got) in forms {
        chk("trait_form", what.to_string(), pts_near(&ext(&got), &want_elem, t), format!("{:?}", ext(&got)));
    }
}

//! C04: executor for Boolean operations.  Operands come from the TLC-generated pool
//! (Gen_BoolOps.tla); this driver only forms pairs / collections, applies representation
//! variants and exact maps, calls geo, maps the result back and logs one event per call.
//! Nothing is judged here: Trace_BoolOps.tla validates every event.
use crate::ctx::guard;
use crate::gj::{self, exact_maps, ExactMap, G};
use geo::algorithm::bool_ops::{unary_union, BooleanOps, OpType};
use geo::{Coord, LineString, MultiLineString, MultiPolygon, Polygon};
use rand::rngs::StdRng;
use rand::{Rng, SeedableRng};
use serde_json::{json, Value};
use std::io::{BufRead, BufReader, Write};

fn inv_map(m: &ExactMap) -> impl Fn(Coord<f64>) -> Coord<f64> {
    let (a, b, tx, c, d, ty) = (m.m[0], m.m[1], m.m[2], m.m[3], m.m[4], m.m[5]);
    let det = a * d - b * c;
    move |p: Coord<f64>| {
        let (x, y) = (p.x - tx, p.y - ty);
        Coord { x: (d * x - b * y) / det, y: (-c * x + a * y) / det }
    }
}

/// lattice projection (DESIGN.md 4.3).  `bad.0` = scale: 1 -> coordinates must be integers up to the snapping
/// error (else bad.1 is set and the caller retries at scale 16, where every coordinate is rounded to 1/16:
/// far below the 0.35 clearance of the witness points, so membership of witnesses is unaffected).
/// Non-finite or absurdly large coordinates set bad.2 (the event is logged with st = "nonfinite").
pub struct Pj(pub f64, pub bool, pub bool, pub bool);
fn proj(c: Coord<f64>, bad: &mut Pj) -> Value {
    if !(c.x.is_finite() && c.y.is_finite()) || c.x.abs() > 1e5 || c.y.abs() > 1e5 {
        bad.2 = true;
        return json!([0, 0]);
    }
    let (sx, sy) = (c.x * bad.0, c.y * bad.0);
    let (rx, ry) = (sx.round(), sy.round());
    if (sx - rx).abs() > 1e-6 || (sy - ry).abs() > 1e-6 {
        bad.1 = true;
    }
    json!([rx as i64, ry as i64])
}
/// `f` maps a result back to lattice space; when that map reverses orientation (`bad.3`) the coordinate order
/// is reversed too, so that the logged ring has the direction the implementation produced.
fn ring_json(l: &LineString<f64>, f: &dyn Fn(Coord<f64>) -> Coord<f64>, bad: &mut Pj) -> Value {
    let mut v: Vec<Value> = l.0.iter().map(|c| proj(f(*c), bad)).collect();
    if bad.3 {
        v.reverse();
    }
    Value::Array(v)
}
fn mp_json(m: &MultiPolygon<f64>, f: &dyn Fn(Coord<f64>) -> Coord<f64>, bad: &mut Pj) -> Value {
    json!({"ps": m.0.iter().map(|p| json!({"ext": ring_json(p.exterior(), f, bad),
        "holes": p.interiors().iter().map(|h| ring_json(h, f, bad)).collect::<Vec<_>>()})).collect::<Vec<_>>()})
}
fn mls_json(m: &MultiLineString<f64>, f: &dyn Fn(Coord<f64>) -> Coord<f64>, bad: &mut Pj) -> Value {
    Value::Array(m.0.iter().map(|l| ring_json(l, f, bad)).collect())
}
fn id(c: Coord<f64>) -> Coord<f64> {
    c
}

fn as_mp(g: &G) -> Option<MultiPolygon<f64>> {
    match g {
        G::Polygon(p) => Some(MultiPolygon::new(vec![p.clone()])),
        G::MultiPolygon(m) => Some(m.clone()),
        _ => None,
    }
}

fn map_ring(l: &LineString<f64>, f: &dyn Fn(&LineString<f64>) -> LineString<f64>) -> LineString<f64> {
    f(l)
}
fn map_rings(m: &MultiPolygon<f64>, f: &dyn Fn(&LineString<f64>) -> LineString<f64>) -> MultiPolygon<f64> {
    MultiPolygon::new(m.0.iter().map(|p| Polygon::new(map_ring(p.exterior(), f), p.interiors().iter().map(|h| map_ring(h, f)).collect())).collect())
}
// NB: Polygon::new closes an open ring but never removes coordinates, so repeated vertices survive.

pub const VARIANTS: [&str; 9] = ["plain", "reversed", "rotated", "midsplit", "dupvertex", "dupclose", "dupclose2", "revrot", "dupfirst"];
/// the same region written differently (either winding, other start vertex, collinear and repeated vertices,
/// repeated closing vertex)
fn variant(m: &MultiPolygon<f64>, which: &str) -> MultiPolygon<f64> {
    let rev = |l: &LineString<f64>| LineString::new(l.0.iter().rev().cloned().collect());
    let rot = |l: &LineString<f64>| {
        if l.0.len() < 4 {
            return l.clone();
        }
        let n = l.0.len() - 1;
        let mut v: Vec<Coord<f64>> = (0..n).map(|i| l.0[(i + 1) % n]).collect();
        v.push(v[0]);
        LineString::new(v)
    };
    let mid = |l: &LineString<f64>| {
        let mut v = vec![];
        for w in l.0.windows(2) {
            v.push(w[0]);
            v.push(Coord { x: (w[0].x + w[1].x) / 2.0, y: (w[0].y + w[1].y) / 2.0 });
        }
        if let Some(c) = l.0.last() {
            v.push(*c);
        }
        LineString::new(v)
    };
    let dupv = |l: &LineString<f64>| {
        let mut v = l.0.clone();
        if v.len() >= 3 {
            let c = v[2];
            v.insert(2, c);
        }
        LineString::new(v)
    };
    let dupc = |l: &LineString<f64>| {
        let mut v = l.0.clone();
        if let Some(c) = v.last().cloned() {
            v.push(c);
        }
        LineString::new(v)
    };
    let dupc2 = |l: &LineString<f64>| {
        let mut v = l.0.clone();
        if let Some(c) = v.last().cloned() {
            v.push(c);
            v.push(c);
        }
        LineString::new(v)
    };
    let dupf = |l: &LineString<f64>| {
        let mut v = l.0.clone();
        if let Some(c) = v.first().cloned() {
            v.insert(0, c);
        }
        LineString::new(v)
    };
    match which {
        "reversed" => map_rings(m, &rev),
        "rotated" => map_rings(m, &rot),
        "midsplit" => map_rings(m, &mid),
        "dupvertex" => map_rings(m, &dupv),
        "dupclose" => map_rings(m, &dupc),
        "dupclose2" => map_rings(m, &dupc2),
        "revrot" => map_rings(&map_rings(m, &rev), &rot),
        "dupfirst" => map_rings(m, &dupf),
        _ => m.clone(),
    }
}

fn op_name(op: OpType) -> &'static str {
    match op {
        OpType::Intersection => "intersection",
        OpType::Union => "union",
        OpType::Difference => "difference",
        OpType::Xor => "xor",
    }
}

/// call through the Polygon impl when there is exactly one member and `as_poly`, else MultiPolygon
fn run_op(a: &MultiPolygon<f64>, b: &MultiPolygon<f64>, op: OpType, poly_a: bool, poly_b: bool, named: bool) -> Result<MultiPolygon<f64>, String> {
    guard(|| {
        let pa = if poly_a && a.0.len() == 1 { Some(&a.0[0]) } else { None };
        let pb = if poly_b && b.0.len() == 1 { Some(&b.0[0]) } else { None };
        macro_rules! go {
            ($x:expr, $y:expr) => {
                if named {
                    match op {
                        OpType::Intersection => $x.intersection($y),
                        OpType::Union => $x.union($y),
                        OpType::Difference => $x.difference($y),
                        OpType::Xor => $x.xor($y),
                    }
                } else {
                    $x.boolean_op($y, op)
                }
            };
        }
        match (pa, pb) {
            (Some(x), Some(y)) => go!(x, y),
            (Some(x), None) => go!(x, b),
            (None, Some(y)) => go!(a, y),
            (None, None) => go!(a, b),
        }
    })
}

pub fn record(pool_path: &str, w: &mut dyn Write, seed: u64, n_events: usize) {
    let f = BufReader::new(std::fs::File::open(pool_path).expect("open pool"));
    let mut polys: Vec<MultiPolygon<f64>> = vec![];
    let mut holed: Vec<usize> = vec![];
    let mut lines: Vec<LineString<f64>> = vec![];
    for line in f.lines() {
        let v: Value = serde_json::from_str(&line.unwrap()).unwrap();
        let g = gj::parse(&v["g"]);
        if let Some(m) = as_mp(&g) {
            if v["k"] == "hole1" || v["k"] == "hole2" {
                holed.push(polys.len());
            }
            polys.push(m);
        } else if let G::LineString(l) = g {
            lines.push(l);
        }
    }
    assert!(!polys.is_empty() && !lines.is_empty(), "empty pool");
    let mut rng = StdRng::seed_from_u64(seed ^ 0xC04);
    let maps: Vec<ExactMap> = exact_maps().into_iter().filter(|m| !m.name.starts_with("scale_2m40") && m.name != "scale_2m80" && m.name != "scale_2p100" && m.name != "scale_2p-11" && m.name != "aniso" && m.name != "shear_huge").collect();   // incl. unimodular shears: general slopes
    let ops = [OpType::Intersection, OpType::Union, OpType::Difference, OpType::Xor];
    let empty_mp = MultiPolygon::<f64>::new(vec![]);
    let empty_poly = MultiPolygon::new(vec![Polygon::new(LineString::new(vec![]), vec![])]);
    let mut emitted = 0usize;
    let mut k = 0usize;
    let pick = |rng: &mut StdRng, polys: &Vec<MultiPolygon<f64>>, holed: &Vec<usize>| -> usize {
        if !holed.is_empty() && rng.gen_range(0..3) == 0 { holed[rng.gen_range(0..holed.len())] } else { rng.gen_range(0..polys.len()) }
    };
    while emitted < n_events {
        crate::ctx::beat(&format!("{{\"record\": \"c04\", \"seed\": {seed}, \"event\": {emitted}}}"));
        k += 1;
        let ia = pick(&mut rng, &polys, &holed);
        let ib = pick(&mut rng, &polys, &holed);
        let va = VARIANTS[if k % 2 == 0 { 0 } else { rng.gen_range(0..VARIANTS.len()) }];
        let vb = VARIANTS[if k % 3 == 0 { rng.gen_range(0..VARIANTS.len()) } else { 0 }];
        let mut a = variant(&polys[ia], va);
        let mut b = variant(&polys[ib], vb);
        let mut special = "";
        match k % 23 {
            5 => { b = a.clone(); special = "identical"; }
            9 => { b = empty_poly.clone(); special = "b_empty_polygon"; }
            13 => { a = empty_mp.clone(); special = "a_empty_multipolygon"; }
            17 => { b = empty_mp.clone(); special = "b_empty_multipolygon"; }
            21 => { a = empty_poly.clone(); special = "a_empty_polygon"; }
            _ => {}
        }
        let mi = if k % 4 == 1 { Some(&maps[rng.gen_range(0..maps.len())]) } else { None };
        let (ma, mb) = match mi {
            Some(m) => (as_mp(&m.on(&G::MultiPolygon(a.clone()))).unwrap(), as_mp(&m.on(&G::MultiPolygon(b.clone()))).unwrap()),
            None => (a.clone(), b.clone()),
        };
        let back: Box<dyn Fn(Coord<f64>) -> Coord<f64>> = match mi {
            Some(m) => Box::new(inv_map(m)),
            None => Box::new(id),
        };
        let flip = mi.map(|m| m.det() < 0.0).unwrap_or(false);
        let note = format!("a:{va} b:{vb} {special} map:{}", mi.map(|m| m.name).unwrap_or("id"));
        // every event is built at scale 1; if some result coordinate is not an integer it is rebuilt at scale 16
        let emit = |w: &mut dyn Write, mk: &dyn Fn(&mut Pj) -> Value| {
            let mut pj = Pj(1.0, false, false, false);
            let mut ev = mk(&mut pj);
            if pj.1 && !pj.2 {
                pj = Pj(16.0, false, false, false);
                ev = mk(&mut pj);
            }
            let o = ev.as_object_mut().unwrap();
            o.insert("s".into(), json!(pj.0 as i64));
            if pj.2 {
                o.insert("st".into(), json!("nonfinite"));
            }
            writeln!(w, "{ev}").unwrap();
        };
        // ---- the four operations
        if k % 7 != 6 {
            for (oi, op) in ops.iter().enumerate() {
                let (poly_a, poly_b, named) = ((k + oi) % 2 == 0, (k + oi) % 3 != 0, (k + oi) % 5 != 0);
                let r = run_op(&ma, &mb, *op, poly_a, poly_b, named);
                emit(w, &|pj: &mut Pj| {
                    let (ja, jb) = (mp_json(&a, &id, pj), mp_json(&b, &id, pj));
                    match &r {
                        Ok(m) => {
                            pj.3 = flip;
                            let jr = mp_json(m, &*back, pj);
                            pj.3 = false;
                            json!({"ev":"boolop","op":op_name(*op),"a":ja,"b":jb,"r":jr,"st":"ok","note":note,"via":[poly_a,poly_b,named]})
                        }
                        Err(e) => json!({"ev":"boolop","op":op_name(*op),"a":ja,"b":jb,"r":{"ps":[]},"st":"panic","note":format!("{note} panic:{e}"),"via":[poly_a,poly_b,named]}),
                    }
                });
                emitted += 1;
            }
        }
        // ---- unary_union of 2-4 consistently wound members vs the fold of pairwise unions
        if k % 7 == 6 || k % 5 == 0 {
            let nm = 2 + rng.gen_range(0..3);
            let cw = rng.gen_bool(0.5);
            let mut ms: Vec<MultiPolygon<f64>> = (0..nm).map(|_| polys[pick(&mut rng, &polys, &holed)].clone()).collect();
            let lead_empty = k % 10 == 0;
            if lead_empty {
                ms.insert(0, empty_poly.clone());
            }
            if cw {
                ms = ms.iter().map(|m| variant(m, "reversed")).collect();
            }
            // every input led by an EMPTY polygon member (no point, no winding): the union is the same
            if k % 4 == 1 {
                ms = ms.iter().map(|m| MultiPolygon::new(std::iter::once(Polygon::new(LineString::new(vec![]), vec![])).chain(m.0.iter().cloned()).collect())).collect();
            }
            let mms: Vec<MultiPolygon<f64>> = match mi {
                Some(m) => ms.iter().map(|x| as_mp(&m.on(&G::MultiPolygon(x.clone()))).unwrap()).collect(),
                None => ms.clone(),
            };
            let flat: Vec<Polygon<f64>> = mms.iter().flat_map(|m| m.0.iter().cloned()).collect();
            let by_poly = k % 2 == 0;
            // one call in three is led by a SLIVER: a triangle with generic 53-bit coordinates (area ~ 1e-16) on which the plain
            // floating-point determinant has the wrong sign with confidence (from findings/pinned_orient.ndjson, exact signs decided
            // by BigInt.tla in C03), scaled by -2^-3 into the negative quadrant (away from the operands) and wound like the rest of
            // the collection; it contributes no measurable area; the part of the result that lies in the negative quadrant (the sliver, as the overlay's
            // fixed-point grid renders it) is dropped before the result is projected
            let sliver_led = k % 3 == 2 && mi.is_none();
            let hx = |h: &str| -> f64 { let (neg, h) = if let Some(r) = h.strip_prefix('-') { (true, r) } else { (false, h) };
                let (m, e) = h.trim_start_matches("0x1.").split_once('p').unwrap(); let mant = 1.0 + u64::from_str_radix(m, 16).unwrap() as f64 / 2f64.powi(4 * m.len() as i32);
                let v = mant * 2f64.powi(e.parse::<i32>().unwrap()); if neg { -v } else { v } };
            const SLIVERS: [([&str; 2], [&str; 2], [&str; 2], i32); 3] = [
                (["0x1.485426fab5728p+0", "0x1.6a9e7413c8f4ep+0"], ["0x1.02ceab1d3318ep+5", "0x1.1dd63904c50ffp+5"], ["0x1.742127bd6acecp-47", "0x1.8bf53f49244fdp-47"], 1),
                (["0x1.0e8c81af6eaeep+0", "0x1.1ba6006136c02p+0"], ["0x1.4cd1e0ad1fc76p+5", "0x1.5cef3b219ceecp+5"], ["0x1.6d1b331136737p-47", "0x1.83f74bfb0a919p-47"], 1),
                (["0x1.4794e1fb4eb75p+0", "0x1.46e6caba940b2p+0"], ["0x1.1098b68e7230dp+5", "0x1.1007d7fb22343p+5"], ["0x1.2720afe470cb8p-48", "0x1.f13399c655514p-49"], -1)];
            let sliver: Option<Polygon<f64>> = if sliver_led {
                let (p, q, r, sign) = SLIVERS[(k / 3) % 3];
                let c = |h: [&str; 2]| Coord { x: -hx(h[0]) / 8.0, y: -hx(h[1]) / 8.0 };
                // ring r, p, q, r has the exact orientation `sign` (1 = counter-clockwise); reverse it if the collection is wound the other way
                let ring = if (sign == 1) != cw { vec![c(r), c(p), c(q), c(r)] } else { vec![c(r), c(q), c(p), c(r)] };
                Some(Polygon::new(LineString::new(ring), vec![]))
            } else { None };
            let call_flat: Vec<Polygon<f64>> = sliver.iter().cloned().chain(flat.iter().cloned()).collect();
            let call_mms: Vec<MultiPolygon<f64>> = sliver.iter().map(|p| MultiPolygon::new(vec![p.clone()])).chain(mms.iter().cloned()).collect();
            let ru = guard(|| {
                let u = if by_poly { unary_union(call_flat.iter()) } else { unary_union(call_mms.iter()) };
                if sliver_led { MultiPolygon::new(u.0.into_iter().filter(|p| !p.exterior().0.iter().all(|c| c.x <= 1e-6 && c.y <= 1e-6)).collect()) } else { u }
            });
            let rf = guard(|| {
                let mut acc = mms[0].clone();
                for m in &mms[1..] {
                    acc = acc.union(m);
                }
                acc
            });
            let unote = format!("{} members, {} {} map:{}{}", ms.len(), if cw {"cw"} else {"ccw"}, if by_poly {"polygons"} else {"multipolygons"}, mi.map(|m| m.name).unwrap_or("id"), if sliver_led { " sliver-led" } else { "" });
            emit(w, &|pj: &mut Pj| {
                let jms: Vec<Value> = ms.iter().map(|m| mp_json(m, &id, pj)).collect();
                match (&ru, &rf) {
                    (Ok(u), Ok(fo)) => {
                        pj.3 = flip;
                        let (ju, jf) = (mp_json(u, &*back, pj), mp_json(fo, &*back, pj));
                        pj.3 = false;
                        json!({"ev":"unary","ms":jms,"r":ju,"rf":jf,"st":"ok","note":unote,"via":[by_poly]})
                    }
                    _ => json!({"ev":"unary","ms":jms,"r":{"ps":[]},"rf":{"ps":[]},"st":"panic","note":format!("{unote} {ru:?} {rf:?}").chars().take(200).collect::<String>(),"via":[by_poly]}),
                }
            });
            emitted += 1;
        }
        // ---- clip: one simple line string against the first operand, plain and inverted
        if k % 3 == 0 {
            let l = &lines[rng.gen_range(0..lines.len())];
            let l = if k % 2 == 0 { l.clone() } else { LineString::new(l.0.iter().rev().cloned().collect()) };
            let subj = MultiLineString::new(vec![l]);
            let msubj = match mi {
                Some(m) => match m.on(&G::MultiLineString(subj.clone())) { G::MultiLineString(x) => x, _ => unreachable!() },
                None => subj.clone(),
            };
            let poly_a = k % 2 == 0 && ma.0.len() == 1;
            let run = |inv: bool| guard(|| if poly_a { ma.0[0].clip(&msubj, inv) } else { ma.clip(&msubj, inv) });
            let (r0, r1) = (run(false), run(true));
            emit(w, &|pj: &mut Pj| {
                let (ja, js) = (mp_json(&a, &id, pj), mls_json(&subj, &id, pj));
                match (&r0, &r1) {
                    (Ok(x), Ok(y)) => json!({"ev":"clip","p":ja,"ls":js,"r":mls_json(x, &*back, pj),"ri":mls_json(y, &*back, pj),"st":"ok","note":note,"via":[poly_a]}),
                    _ => json!({"ev":"clip","p":ja,"ls":js,"r":[],"ri":[],"st":"panic","note":format!("{note} {r0:?} {r1:?}").chars().take(200).collect::<String>(),"via":[poly_a]}),
                }
            });
            emitted += 1;
        }
    }
    w.flush().unwrap();
}

// ---------------------------------------------------------------- re-execution of logged events (replay files)
fn mp_from_json(v: &Value, s: f64) -> MultiPolygon<f64> {
    let ring = |r: &Value| LineString::new(r.as_array().map(|a| a.iter().map(|c| Coord { x: c[0].as_f64().unwrap() / s, y: c[1].as_f64().unwrap() / s }).collect()).unwrap_or_default());
    MultiPolygon::new(v["ps"].as_array().map(|a| a.iter().map(|p| {
        Polygon::new(ring(&p["ext"]), p["holes"].as_array().map(|h| h.iter().map(|r| ring(r)).collect()).unwrap_or_default())
    }).collect()).unwrap_or_default())
}
/// Re-run the calls of logged events (the operands as logged, the same exact map and entry point) against
/// the current tree and log fresh events.  `path` holds events or mismatch records whose `case` is an event.
pub fn rerun(path: &str, w: &mut dyn Write) {
    let f = BufReader::new(std::fs::File::open(path).expect("open events"));
    let all_maps = exact_maps();
    for line in f.lines() {
        let line = line.unwrap();
        if line.trim().is_empty() { continue; }
        let v: Value = serde_json::from_str(&line).unwrap();
        let e = if v.get("case").is_some() { v["case"].clone() } else { v };
        let s = e["s"].as_f64().unwrap_or(1.0);
        let note = e["note"].as_str().unwrap_or("").to_string();
        let mname = note.rsplit("map:").next().unwrap_or("id").split_whitespace().next().unwrap_or("id").to_string();
        let mi = all_maps.iter().find(|m| m.name == mname);
        let fwd = |m: &MultiPolygon<f64>| match mi { Some(mm) => as_mp(&mm.on(&G::MultiPolygon(m.clone()))).unwrap(), None => m.clone() };
        let back: Box<dyn Fn(Coord<f64>) -> Coord<f64>> = match mi { Some(m) => Box::new(inv_map(m)), None => Box::new(id) };
        let flip = mi.map(|m| m.det() < 0.0).unwrap_or(false);
        let via: Vec<bool> = e["via"].as_array().map(|a| a.iter().map(|b| b.as_bool().unwrap_or(false)).collect()).unwrap_or_default();
        let flag = |i: usize| via.get(i).copied().unwrap_or(false);
        let emit = |w: &mut dyn Write, mk: &dyn Fn(&mut Pj) -> Value| {
            let mut pj = Pj(1.0, false, false, false);
            let mut ev = mk(&mut pj);
            if pj.1 && !pj.2 { pj = Pj(16.0, false, false, false); ev = mk(&mut pj); }
            let o = ev.as_object_mut().unwrap();
            o.insert("s".into(), json!(pj.0 as i64));
            if pj.2 { o.insert("st".into(), json!("nonfinite")); }
            writeln!(w, "{ev}").unwrap();
        };
        match e["ev"].as_str().unwrap_or("") {
            "boolop" => {
                let (a, b) = (mp_from_json(&e["a"], s), mp_from_json(&e["b"], s));
                let op = match e["op"].as_str().unwrap_or("") { "intersection" => OpType::Intersection, "union" => OpType::Union, "difference" => OpType::Difference, _ => OpType::Xor };
                let r = run_op(&fwd(&a), &fwd(&b), op, flag(0), flag(1), flag(2));
                emit(w, &|pj: &mut Pj| {
                    let (ja, jb) = (mp_json(&a, &id, pj), mp_json(&b, &id, pj));
                    match &r {
                        Ok(m) => { pj.3 = flip; let jr = mp_json(m, &*back, pj); pj.3 = false;
                                   json!({"ev":"boolop","op":op_name(op),"a":ja,"b":jb,"r":jr,"st":"ok","note":note,"via":via}) }
                        Err(x) => json!({"ev":"boolop","op":op_name(op),"a":ja,"b":jb,"r":{"ps":[]},"st":"panic","note":format!("{note} panic:{x}"),"via":via}),
                    }
                });
            }
            "unary" => {
                let ms: Vec<MultiPolygon<f64>> = e["ms"].as_array().map(|a| a.iter().map(|m| mp_from_json(m, s)).collect()).unwrap_or_default();
                let mms: Vec<MultiPolygon<f64>> = ms.iter().map(|m| fwd(m)).collect();
                let flat: Vec<Polygon<f64>> = mms.iter().flat_map(|m| m.0.iter().cloned()).collect();
                let ru = guard(|| if flag(0) { unary_union(flat.iter()) } else { unary_union(mms.iter()) });
                let rf = guard(|| { let mut acc = mms[0].clone(); for m in &mms[1..] { acc = acc.union(m); } acc });
                emit(w, &|pj: &mut Pj| {
                    let jms: Vec<Value> = ms.iter().map(|m| mp_json(m, &id, pj)).collect();
                    match (&ru, &rf) {
                        (Ok(u), Ok(fo)) => { pj.3 = flip; let (ju, jf) = (mp_json(u, &*back, pj), mp_json(fo, &*back, pj)); pj.3 = false;
                                              json!({"ev":"unary","ms":jms,"r":ju,"rf":jf,"st":"ok","note":note,"via":via}) }
                        _ => json!({"ev":"unary","ms":jms,"r":{"ps":[]},"rf":{"ps":[]},"st":"panic","note":note,"via":via}),
                    }
                });
            }
            "clip" => {
                let a = mp_from_json(&e["p"], s);
                let subj = MultiLineString::new(e["ls"].as_array().map(|x| x.iter().map(|r| LineString::new(r.as_array().unwrap().iter().map(|c| Coord { x: c[0].as_f64().unwrap() / s, y: c[1].as_f64().unwrap() / s }).collect())).collect()).unwrap_or_default());
                let ma = fwd(&a);
                let msubj = match mi { Some(m) => match m.on(&G::MultiLineString(subj.clone())) { G::MultiLineString(x) => x, _ => unreachable!() }, None => subj.clone() };
                let poly_a = flag(0) && ma.0.len() == 1;
                let run = |inv: bool| guard(|| if poly_a { ma.0[0].clip(&msubj, inv) } else { ma.clip(&msubj, inv) });
                let (r0, r1) = (run(false), run(true));
                emit(w, &|pj: &mut Pj| {
                    let (ja, js) = (mp_json(&a, &id, pj), mls_json(&subj, &id, pj));
                    match (&r0, &r1) {
                        (Ok(x), Ok(y)) => json!({"ev":"clip","p":ja,"ls":js,"r":mls_json(x, &*back, pj),"ri":mls_json(y, &*back, pj),"st":"ok","note":note,"via":via}),
                        _ => json!({"ev":"clip","p":ja,"ls":js,"r":[],"ri":[],"st":"panic","note":note,"via":via}),
                    }
                });
            }
            _ => {}
        }
    }
    w.flush().unwrap();
}

//! C17: record histories of relate calls that reuse prepared geometries.
use crate::ctx::guard;
use crate::gj;
use crate::ops_relate::im_string;
use geo::{Geometry, PreparedGeometry, Relate};
use serde_json::{json, Value};
use std::hash::{Hash, Hasher};
use std::io::BufRead;

fn fp(p: &PreparedGeometry<'static, Geometry<f64>>) -> String {
    let mut h = std::collections::hash_map::DefaultHasher::new();
    p.verif_cache_fingerprint().hash(&mut h);
    format!("{:016x}", h.finish())
}

pub fn record(pool_path: &str, out: &mut dyn std::io::Write, seed: u64, n_events: usize) {
    use rand::{rngs::StdRng, Rng, SeedableRng};
    let mut rng = StdRng::seed_from_u64(seed);
    let mut pool: Vec<(i64, Value, Geometry<f64>)> = vec![];
    for line in std::io::BufReader::new(std::fs::File::open(pool_path).expect("pool")).lines() {
        let v: Value = serde_json::from_str(&line.unwrap()).unwrap();
        let g = gj::parse(&v["g"]).geometry();
        pool.push((v["i"].as_i64().unwrap(), v["g"].clone(), g));
    }
    assert!(!pool.is_empty(), "empty pool");
    // "wild" operands: outside the domain in which the specification knows the true matrix (mixed-dimension
    // collections with a point member far outside the envelope of the others, overlapping members, nested
    // collections, empty geometries).  For them the specification demands only what C17 states: the prepared
    // answer equals the answer of relate on the plain geometries.
    let ncat = pool.len();
    let far = [(16.0, 16.0), (-4.0, 4.0), (4.0, -8.0), (20.0, 0.0)];
    let mut wild: Vec<(i64, Value, Geometry<f64>)> = vec![];
    for (k, f) in far.iter().enumerate() {
        let pt = Geometry::Point(geo::Point::new(f.0, f.1));
        wild.push((0, Value::Null, pt.clone()));
        wild.push((0, Value::Null, Geometry::Line(geo::Line::new(geo::coord! {x: f.0, y: f.1}, geo::coord! {x: f.0 + 4.0, y: f.1 + 4.0 * (k % 2) as f64}))));
        wild.push((0, Value::Null, Geometry::Rect(geo::Rect::new(geo::coord! {x: f.0, y: f.1}, geo::coord! {x: f.0 + 4.0, y: f.1 + 4.0}))));
        for _ in 0..6 {
            let m = pool[rng.gen_range(0..ncat)].2.clone();
            let m2 = pool[rng.gen_range(0..ncat)].2.clone();
            wild.push((0, Value::Null, Geometry::GeometryCollection(geo::GeometryCollection::new_from(vec![m.clone(), pt.clone()]))));
            wild.push((0, Value::Null, Geometry::GeometryCollection(geo::GeometryCollection::new_from(vec![pt.clone(), m.clone(), m2.clone()]))));
            wild.push((0, Value::Null, Geometry::GeometryCollection(geo::GeometryCollection::new_from(vec![
                Geometry::GeometryCollection(geo::GeometryCollection::new_from(vec![m2, Geometry::MultiPoint(geo::MultiPoint::new(vec![geo::Point::new(f.0, f.1), geo::Point::new(2.0, 2.0)]))])), m]))));
        }
    }
    wild.push((0, Value::Null, Geometry::GeometryCollection(geo::GeometryCollection::new_from(vec![]))));
    wild.push((0, Value::Null, Geometry::LineString(geo::LineString::new(vec![]))));
    wild.push((0, Value::Null, Geometry::Polygon(geo::Polygon::new(geo::LineString::new(vec![]), vec![]))));
    wild.push((0, Value::Null, Geometry::MultiPoint(geo::MultiPoint::new(vec![]))));
    for (i, w) in wild.into_iter().enumerate() {
        let mut j = gj::geometry_to_json(&w.2);
        j["wild"] = json!(true);
        pool.push((-(i as i64) - 1, j, w.2));
    }
    let nwild = pool.len() - ncat;
    let pick = |rng: &mut StdRng| if rng.gen_range(0..4) == 0 { ncat + rng.gen_range(0..nwild) } else { rng.gen_range(0..ncat) };
    // a working set of a few pool entries so that the same geometries meet again and again
    let mut work: Vec<usize> = (0..8).map(|_| pick(&mut rng)).collect();
    let mut handles: Vec<(usize, PreparedGeometry<'static, Geometry<f64>>)> = vec![];
    let mut seq = 0usize;
    while seq < n_events {
        crate::ctx::beat(&format!("{{\"record\": \"c17\", \"seed\": {seed}, \"event\": {seq}}}"));
        seq += 1;
        if seq % 60 == 0 {
            handles.clear();
            work = (0..8).map(|_| pick(&mut rng)).collect();
            writeln!(out, "{}", json!({"name":"reset","seq":seq})).unwrap();
            continue;
        }
        if handles.len() < 2 || (handles.len() < 5 && rng.gen_range(0..10) == 0) {
            let w = work[rng.gen_range(0..work.len())];
            let p = PreparedGeometry::from(pool[w].2.clone());
            let f = fp(&p);
            handles.push((w, p));
            writeln!(out, "{}", json!({"name":"prepare","seq":seq,"h":handles.len(),"ci":pool[w].0,"g":pool[w].1,"fp":f})).unwrap();
            continue;
        }
        // operand choice: prepared handle or plain pool entry; at least one prepared
        let pa = rng.gen_range(0..3) != 0;
        let pb = !pa || rng.gen_range(0..2) == 0;
        let ha = rng.gen_range(0..handles.len());
        let hb = rng.gen_range(0..handles.len());
        let wa = work[rng.gen_range(0..work.len())];
        let wb = work[rng.gen_range(0..work.len())];
        let r = guard(|| match (pa, pb) {
            (true, true) => im_string(&handles[ha].1.relate(&handles[hb].1)),
            (true, false) => im_string(&handles[ha].1.relate(&pool[wb].2)),
            (false, true) => im_string(&pool[wa].2.relate(&handles[hb].1)),
            (false, false) => unreachable!(),
        });
        let im = r.unwrap_or_else(|p| format!("PANIC: {p}"));
        // the same operands, plain: what C17 compares with
        let (ga, gb) = (if pa { &pool[handles[ha].0].2 } else { &pool[wa].2 }, if pb { &pool[handles[hb].0].2 } else { &pool[wb].2 });
        let plain = guard(|| im_string(&ga.relate(gb))).unwrap_or_else(|p| format!("PANIC: {p}"));
        let mut e = json!({"name":"relate","seq":seq,"im":im,"plain":plain});
        e["a"] = if pa { json!({"k":"prep","h":ha + 1}) } else { json!({"k":"plain","ci":pool[wa].0,"g":pool[wa].1}) };
        e["b"] = if pb { json!({"k":"prep","h":hb + 1}) } else { json!({"k":"plain","ci":pool[wb].0,"g":pool[wb].1}) };
        if pa { e["fpa"] = json!(fp(&handles[ha].1)); }
        if pb { e["fpb"] = json!(fp(&handles[hb].1)); }
        writeln!(out, "{e}").unwrap();
    }
}

//! C17: record histories of relate calls that reuse prepared geometries.
use crate::ctx::guard;
use crate::gj;
use crate::ops_relate::im_string;
use geo::{Geometry, PreparedGeometry, Relate};
use serde_json::{json, Value};
use std::hash::{Hash, Hasher};
use std::io::BufRead;

fn fp(p: &PreparedGeometry<'static, Geometry<f64>>) -> String {
    let mut h = std::collections::hash_map::DefaultHasher::new();
    p.verif_cache_fingerprint().hash(&mut h);
    format!("{:016x}", h.finish())
}

pub fn record(pool_path: &str, out: &mut dyn std::io::Write, seed: u64, n_events: usize) {
    use rand::{rngs::StdRng, Rng, SeedableRng};
    let mut rng = StdRng::seed_from_u64(seed);
    let mut pool: Vec<(i64, Value, Geometry<f64>)> = vec![];
    for line in std::io::BufReader::new(std::fs::File::open(pool_path).expect("pool")).lines() {
        let v: Value = serde_json::from_str(&line.unwrap()).unwrap();
        let g = gj::parse(&v["g"]).geometry();
        pool.push((v["i"].as_i64().unwrap(), v["g"].clone(), g));
    }
    assert!(!pool.is_empty(), "empty pool");
    // a working set of a few pool entries so that the same geometries meet again and again
    let mut work: Vec<usize> = (0..8).map(|_| rng.gen_range(0..pool.len())).collect();
    let mut handles: Vec<(usize, PreparedGeometry<'static, Geometry<f64>>)> = vec![];
    let mut seq = 0usize;
    while seq < n_events {
        seq += 1;
        if seq % 60 == 0 {
            handles.clear();
            work = (0..8).map(|_| rng.gen_range(0..pool.len())).collect();
            writeln!(out, "{}", json!({"name":"reset","seq":seq})).unwrap();
            continue;
        }
        if handles.len() < 2 || (handles.len() < 5 && rng.gen_range(0..10) == 0) {
            let w = work[rng.gen_range(0..work.len())];
            let p = PreparedGeometry::from(pool[w].2.clone());
            let f = fp(&p);
            handles.push((w, p));
            writeln!(out, "{}", json!({"name":"prepare","seq":seq,"h":handles.len(),"ci":pool[w].0,"g":pool[w].1,"fp":f})).unwrap();
            continue;
        }
        // operand choice: prepared handle or plain pool entry; at least one prepared
        let pa = rng.gen_range(0..3) != 0;
        let pb = !pa || rng.gen_range(0..2) == 0;
        let ha = rng.gen_range(0..handles.len());
        let hb = rng.gen_range(0..handles.len());
        let wa = work[rng.gen_range(0..work.len())];
        let wb = work[rng.gen_range(0..work.len())];
        let r = guard(|| match (pa, pb) {
            (true, true) => im_string(&handles[ha].1.relate(&handles[hb].1)),
            (true, false) => im_string(&handles[ha].1.relate(&pool[wb].2)),
            (false, true) => im_string(&pool[wa].2.relate(&handles[hb].1)),
            (false, false) => unreachable!(),
        });
        let im = r.unwrap_or_else(|p| format!("PANIC: {p}"));
        let mut e = json!({"name":"relate","seq":seq,"im":im});
        e["a"] = if pa { json!({"k":"prep","h":ha + 1}) } else { json!({"k":"plain","ci":pool[wa].0,"g":pool[wa].1}) };
        e["b"] = if pb { json!({"k":"prep","h":hb + 1}) } else { json!({"k":"plain","ci":pool[wb].0,"g":pool[wb].1}) };
        if pa { e["fpa"] = json!(fp(&handles[ha].1)); }
        if pb { e["fpb"] = json!(fp(&handles[hb].1)); }
        writeln!(out, "{e}").unwrap();
    }
}

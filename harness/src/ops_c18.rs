//! C18: replay of PolySession transitions / behaviours, and recording of random API histories.
use crate::ctx::{guard, Ctx};
use geo::{Coord, LineString, Polygon, Rect};
use serde_json::{json, Value};

pub fn cid(k: i64) -> Coord<f64> {
    Coord { x: k as f64, y: (k * k) as f64 }
}
fn ring(v: &Value) -> LineString<f64> {
    LineString::new(v.as_array().map(|a| a.iter().map(|k| cid(k.as_i64().unwrap())).collect()).unwrap_or_default())
}
fn ring_ids(l: &LineString<f64>) -> Value {
    Value::Array(l.0.iter().map(|c| json!(c.x as i64)).collect())
}
fn pt(v: &Value) -> Coord<f64> {
    Coord { x: v[0].as_f64().unwrap(), y: v[1].as_f64().unwrap() }
}

pub struct Sess {
    pub poly: Polygon<f64>,
    pub ls: LineString<f64>,
    pub rect: Rect<f64>,
}
impl Sess {
    pub fn from_state(s: &Value) -> Sess {
        let holes = s["holes"].as_array().map(|a| a.iter().map(ring).collect()).unwrap_or_default();
        Sess {
            poly: Polygon::new(ring(&s["ext"]), holes),
            ls: ring(&s["ls"]),
            rect: Rect::new(pt(&s["rmin"]), pt(&s["rmax"])),
        }
    }
    pub fn project(&self) -> Value {
        json!({
            "ext": ring_ids(self.poly.exterior()),
            "holes": self.poly.interiors().iter().map(ring_ids).collect::<Vec<_>>(),
            "ls": ring_ids(&self.ls),
            "rmin": [self.rect.min().x as i64, self.rect.min().y as i64],
            "rmax": [self.rect.max().x as i64, self.rect.max().y as i64],
        })
    }
    pub fn invariants_hold(&self) -> (bool, bool) {
        let closed = self.poly.exterior().is_closed() && self.poly.interiors().iter().all(|r| r.is_closed());
        let ordered = self.rect.min().x <= self.rect.max().x && self.rect.min().y <= self.rect.max().y;
        (closed, ordered)
    }
}

fn apply_edits(l: &mut LineString<f64>, edits: &Value) {
    for e in edits.as_array().map(|a| a.as_slice()).unwrap_or(&[]) {
        let c = e.get("c").and_then(|c| c.as_i64()).map(cid);
        match e["op"].as_str().unwrap() {
            "push" => l.0.push(c.unwrap()),
            "pop" => {
                l.0.pop();
            }
            "clear" => l.0.clear(),
            "set" => {
                let i = e["i"].as_u64().unwrap() as usize;
                if i <= l.0.len() {
                    l.0[i - 1] = c.unwrap();
                }
            }
            "insert0" => l.0.insert(0, c.unwrap()),
            o => panic!("unknown edit {o}"),
        }
    }
}

/// Execute one PolySession action on the real objects; returns the `ret` string of the spec.
pub fn step(s: &mut Sess, act: &Value) -> String {
    let name = act["name"].as_str().unwrap();
    let exit_ok = act.get("exit").and_then(|x| x.as_str()) == Some("Ok");
    match name {
        "polygon_new" => {
            let holes = act["holes"].as_array().map(|a| a.iter().map(ring).collect()).unwrap_or_default();
            s.poly = Polygon::new(ring(&act["ext"]), holes);
            "unit".into()
        }
        "exterior_mut" => {
            s.poly.exterior_mut(|e| apply_edits(e, &act["edits"]));
            "unit".into()
        }
        "try_exterior_mut" => {
            let r: Result<(), ()> = s.poly.try_exterior_mut(|e| {
                apply_edits(e, &act["edits"]);
                if exit_ok { Ok(()) } else { Err(()) }
            });
            if r.is_ok() { "Ok".into() } else { "Err".into() }
        }
        "interiors_mut" => {
            let k = act["k"].as_u64().unwrap() as usize;
            s.poly.interiors_mut(|hs| apply_edits(&mut hs[k - 1], &act["edits"]));
            "unit".into()
        }
        "try_interiors_mut" => {
            let k = act["k"].as_u64().unwrap() as usize;
            let r: Result<(), ()> = s.poly.try_interiors_mut(|hs| {
                apply_edits(&mut hs[k - 1], &act["edits"]);
                if exit_ok { Ok(()) } else { Err(()) }
            });
            if r.is_ok() { "Ok".into() } else { "Err".into() }
        }
        "interiors_push" => {
            s.poly.interiors_push(ring(&act["ring"]));
            "unit".into()
        }
        "linestring_edit" => {
            apply_edits(&mut s.ls, &act["edits"]);
            "unit".into()
        }
        "linestring_close" => {
            s.ls.close();
            "unit".into()
        }
        "polygon_from_ls" => {
            s.poly = Polygon::new(s.ls.clone(), s.poly.interiors().to_vec());
            "unit".into()
        }
        "rect_new" => {
            s.rect = Rect::new(pt(&act["c1"]), pt(&act["c2"]));
            "unit".into()
        }
        "rect_set_min" => {
            let c = pt(&act["c"]);
            let r = &mut s.rect;
            match guard(move || r.set_min(c)) { Ok(()) => "unit".into(), Err(_) => "panic".into() }
        }
        "rect_set_max" => {
            let c = pt(&act["c"]);
            let r = &mut s.rect;
            match guard(move || r.set_max(c)) { Ok(()) => "unit".into(), Err(_) => "panic".into() }
        }
        o => panic!("unknown action {o}"),
    }
}

/// case {op:"c18_step", pre, act, post, ret}: one transition of the specification's state graph
pub fn step_case(cx: &mut Ctx, n: u64, case: &Value) {
    if !cx.wants("C18") {
        return;
    }
    let mut s = Sess::from_state(&case["pre"]);
    if s.project() != case["pre"] {
        // the pre-state of the required model is always constructible through the public API
        cx.bad("C18", "construct_pre_state", case, json!({"got": s.project()}));
        return;
    }
    if n % 5003 == 0 {
        cx.sample(case.clone());
    }
    let ret = step(&mut s, &case["act"]);
    let got = s.project();
    let sub = format!("step_{}", case["act"]["name"].as_str().unwrap());
    if got == case["post"] && ret == case["ret"].as_str().unwrap() {
        cx.ok(&sub);
    } else {
        cx.bad("C18", &sub, case, json!({"got": got, "got_ret": ret, "want": case["post"], "want_ret": case["ret"]}));
    }
    let (closed, ordered) = s.invariants_hold();
    if closed { cx.ok("rings_closed_after_step"); } else { cx.bad("C18", "rings_closed_after_step", case, json!({"got": got})); }
    if ordered { cx.ok("rect_ordered_after_step"); } else { cx.bad("C18", "rect_ordered_after_step", case, json!({"got": got})); }
}

/// case {op:"c18_chain", steps:[{act, post, ret}]}: one behaviour of the specification from Init
pub fn chain_case(cx: &mut Ctx, n: u64, case: &Value) {
    if !cx.wants("C18") {
        return;
    }
    let mut s = Sess::from_state(&json!({"ext":[],"holes":[],"ls":[],"rmin":[0,0],"rmax":[0,0]}));
    if n % 101 == 0 {
        cx.sample(json!({"op":"c18_chain","first_steps": case["steps"].as_array().unwrap().iter().take(4).map(|s| s["act"].clone()).collect::<Vec<_>>()}));
    }
    cx.count("chains", 1);
    for (i, st) in case["steps"].as_array().unwrap().iter().enumerate() {
        let ret = step(&mut s, &st["act"]);
        let got = s.project();
        if got == st["post"] && ret == st["ret"].as_str().unwrap() {
            cx.ok("chain_step");
        } else {
            cx.bad("C18", "chain_step", case, json!({"step": i, "act": st["act"], "got": got, "got_ret": ret, "want": st["post"], "want_ret": st["ret"]}));
            return;
        }
        let (closed, ordered) = s.invariants_hold();
        if !(closed && ordered) {
            cx.bad("C18", "chain_invariant", case, json!({"step": i, "got": got}));
            return;
        }
    }
}

/// Drive the real API with a seeded random history and log one event per call at its return.
pub fn record(out: &mut dyn std::io::Write, seed: u64, n_events: usize) {
    use rand::{rngs::StdRng, Rng, SeedableRng};
    let mut rng = StdRng::seed_from_u64(seed);
    const NC: i64 = 4;
    let mut s = Sess::from_state(&json!({"ext":[],"holes":[],"ls":[],"rmin":[0,0],"rmax":[0,0]}));
    let rand_ring = |rng: &mut StdRng| -> Value {
        let n = rng.gen_range(0..=4);
        Value::Array((0..n).map(|_| json!(rng.gen_range(1..=NC))).collect())
    };
    let rand_edits = |rng: &mut StdRng| -> Value {
        let n = rng.gen_range(0..=4);
        Value::Array((0..n).map(|_| match rng.gen_range(0..6) {
            0 | 1 => json!({"op":"push","c":rng.gen_range(1..=NC)}),
            2 => json!({"op":"pop"}),
            3 => json!({"op":"clear"}),
            4 => json!({"op":"set","i":rng.gen_range(1..=2),"c":rng.gen_range(1..=NC)}),
            _ => json!({"op":"insert0","c":rng.gen_range(1..=NC)}),
        }).collect())
    };
    let rand_pt = |rng: &mut StdRng| json!([rng.gen_range(0..=3), rng.gen_range(0..=3)]);
    for i in 0..n_events {
        let mut act = if i % 40 == 39 {
            json!({"name":"reset"})
        } else {
            let nh = s.poly.interiors().len();
            match rng.gen_range(0..14) {
                0 => { let h = if rng.gen_bool(0.5) { vec![rand_ring(&mut rng)] } else { vec![] }; json!({"name":"polygon_new","ext":rand_ring(&mut rng),"holes":h}) }
                1 | 2 => json!({"name":"exterior_mut","edits":rand_edits(&mut rng)}),
                3 | 4 => json!({"name":"try_exterior_mut","edits":rand_edits(&mut rng),"exit": if rng.gen_bool(0.5) {"Ok"} else {"Err"}}),
                5 if nh > 0 => json!({"name":"interiors_mut","k":rng.gen_range(1..=nh),"edits":rand_edits(&mut rng)}),
                6 | 7 if nh > 0 => json!({"name":"try_interiors_mut","k":rng.gen_range(1..=nh),"edits":rand_edits(&mut rng),"exit": if rng.gen_bool(0.5) {"Ok"} else {"Err"}}),
                8 if nh < 3 => json!({"name":"interiors_push","ring":rand_ring(&mut rng)}),
                9 => json!({"name":"linestring_edit","edits":rand_edits(&mut rng)}),
                10 => if rng.gen_bool(0.5) { json!({"name":"linestring_close"}) } else { json!({"name":"polygon_from_ls"}) },
                11 => json!({"name":"rect_new","c1":rand_pt(&mut rng),"c2":rand_pt(&mut rng)}),
                12 => json!({"name":"rect_set_min","c":rand_pt(&mut rng)}),
                13 => json!({"name":"rect_set_max","c":rand_pt(&mut rng)}),
                _ => json!({"name":"exterior_mut","edits":rand_edits(&mut rng)}),
            }
        };
        let ret = if act["name"] == "reset" {
            s = Sess::from_state(&json!({"ext":[],"holes":[],"ls":[],"rmin":[0,0],"rmax":[0,0]}));
            "init".to_string()
        } else {
            step(&mut s, &act)
        };
        act["post"] = s.project();
        act["ret"] = json!(ret);
        act["seq"] = json!(i + 1);
        writeln!(out, "{act}").unwrap();
    }
}

/// case {op:"c18_conv", p, q, r, rect_min, rect_max, rect_to_polygon, rect_into_polygon, tri_to_polygon, line_to_linestring}
pub fn conv_case(cx: &mut Ctx, n: u64, case: &Value) {
    use geo::{Geometry, Line, Triangle};
    use std::convert::TryFrom;
    if !cx.wants("C18") {
        return;
    }
    if n % 211 == 0 {
        cx.sample(case.clone());
    }
    let (p, q, r) = (pt(&case["p"]), pt(&case["q"]), pt(&case["r"]));
    let cs = |l: &LineString<f64>| Value::Array(l.0.iter().map(|c| json!([c.x as i64, c.y as i64])).collect());
    let rect = Rect::new(p, q);
    let rect2 = Rect::new(q, p);
    let mut chk = |what: &str, got: Value, want: &Value| {
        if &got == want { cx.ok("conversion"); } else { cx.bad("C18", "conversion", case, json!({"what": what, "got": got, "want": want})); }
    };
    chk("Rect::new min", json!([rect.min().x as i64, rect.min().y as i64]), &case["rect_min"]);
    chk("Rect::new max", json!([rect.max().x as i64, rect.max().y as i64]), &case["rect_max"]);
    chk("Rect::new swapped corners min", json!([rect2.min().x as i64, rect2.min().y as i64]), &case["rect_min"]);
    chk("Rect::new swapped corners max", json!([rect2.max().x as i64, rect2.max().y as i64]), &case["rect_max"]);
    chk("Rect::to_polygon", cs(rect.to_polygon().exterior()), &case["rect_to_polygon"]);
    chk("Polygon::from(Rect)", cs(Polygon::from(rect).exterior()), &case["rect_into_polygon"]);
    let tri = Triangle::new(p, q, r);
    chk("Triangle::to_polygon", cs(tri.to_polygon().exterior()), &case["tri_to_polygon"]);
    chk("Polygon::from(Triangle)", cs(Polygon::from(tri).exterior()), &case["tri_to_polygon"]);
    // triangles stored in the order given (tuple constructor, From<[_; 3]>): every conversion keeps the stored order
    for (what, t, key) in [("Triangle(p, q, r)", Triangle(p, q, r), "tri_raw"), ("Triangle(p, r, q)", Triangle(p, r, q), "tri_raw_flipped"),
                           ("Triangle::from([p, q, r])", Triangle::from([p, q, r]), "tri_raw"), ("Triangle::from([p, r, q])", Triangle::from([p, r, q]), "tri_raw_flipped")] {
        chk(&format!("{what}.to_polygon"), cs(t.to_polygon().exterior()), &case[key]);
        chk(&format!("Polygon::from({what})"), cs(Polygon::from(t).exterior()), &case[key]);
        let into: Polygon<f64> = t.into();
        chk(&format!("{what}.into::<Polygon>"), cs(into.exterior()), &case[key]);
        chk(&format!("MultiPolygon::from({what})"), cs(geo::MultiPolygon::from(t).0[0].exterior()), &case[key]);
        let back: Triangle<f64> = Triangle::try_from(Geometry::from(t)).unwrap();
        chk(&format!("Geometry<->{what}"), cs(back.to_polygon().exterior()), &case[key]);
        chk(&format!("{what}.to_array / to_lines"), json!([t.to_array().iter().map(|c| json!([c.x as i64, c.y as i64])).chain(std::iter::once(json!([t.0.x as i64, t.0.y as i64]))).collect::<Vec<_>>(),
                                                          t.to_lines().iter().map(|l| json!([l.start.x as i64, l.start.y as i64])).chain(std::iter::once(json!([t.0.x as i64, t.0.y as i64]))).collect::<Vec<_>>()]),
            &json!([case[key], case[key]]));
    }
    let line = Line::new(p, q);
    chk("LineString::from(Line)", cs(&LineString::from(line)), &case["line_to_linestring"]);
    // Geometry enum round trips
    let back: Rect<f64> = Rect::try_from(Geometry::from(rect)).unwrap();
    chk("Geometry<->Rect", json!([back.min().x as i64, back.min().y as i64]), &case["rect_min"]);
    let back: Triangle<f64> = Triangle::try_from(Geometry::from(tri)).unwrap();
    chk("Geometry<->Triangle", cs(back.to_polygon().exterior()), &case["tri_to_polygon"]);
    let back: Line<f64> = Line::try_from(Geometry::from(line)).unwrap();
    chk("Geometry<->Line", cs(&LineString::from(back)), &case["line_to_linestring"]);
    let poly = tri.to_polygon();
    let back: Polygon<f64> = Polygon::try_from(Geometry::from(poly.clone())).unwrap();
    chk("Geometry<->Polygon", cs(back.exterior()), &case["tri_to_polygon"]);
    let back: LineString<f64> = LineString::try_from(Geometry::from(poly.exterior().clone())).unwrap();
    chk("Geometry<->LineString", cs(&back), &case["tri_to_polygon"]);
}

//! C06: replay of Gen_Centroid cases.
use crate::ctx::{guard, Ctx};
use crate::gj::{self, exact_maps, G};
use geo::{Centroid, Coord, Point};
use serde_json::{json, Value};

fn concrete_centroid(g: &G) -> Option<Point<f64>> {
    match g {
        G::Point(x) => Some(x.centroid()),
        G::Line(x) => Some(x.centroid()),
        G::LineString(x) => x.centroid(),
        G::Polygon(x) => x.centroid(),
        G::MultiPoint(x) => x.centroid(),
        G::MultiLineString(x) => x.centroid(),
        G::MultiPolygon(x) => x.centroid(),
        G::Rect(x) => Some(x.centroid()),
        G::Triangle(x) => Some(x.centroid()),
        G::GeometryCollection(x) => x.centroid(),
    }
}
fn ulp(x: f64) -> f64 {
    let x = x.abs().max(f64::MIN_POSITIVE);
    f64::from_bits(x.to_bits() + 1) - x
}
fn maxabs(g: &G) -> f64 {
    use geo::CoordsIter;
    g.geometry().coords_iter().fold(0f64, |a, c| a.max(c.x.abs()).max(c.y.abs()))
}

pub fn centroid_case(cx: &mut Ctx, n: u64, case: &Value) {
    if !cx.wants("C06") {
        return;
    }
    let g = gj::parse(&case["g"]);
    let want: Option<Coord<f64>> = case["c"].as_array().filter(|a| !a.is_empty()).map(|a| Coord {
        x: a[0][0].as_f64().unwrap() / a[0][1].as_f64().unwrap(),
        y: a[1][0].as_f64().unwrap() / a[1][1].as_f64().unwrap(),
    });
    if n % 499 == 0 {
        cx.sample(case.clone());
    }
    cx.count("centroid_cases", 1);
    cx.count(&format!("centroid_dim_{}", case["dim"]), 1);
    let judge = |got: Result<Option<Point<f64>>, String>, want: Option<Coord<f64>>, tol: f64| -> Result<(), String> {
        match (got, want) {
            (Ok(None), None) => Ok(()),
            (Ok(Some(p)), Some(w)) if (p.x() - w.x).abs() <= tol && (p.y() - w.y).abs() <= tol => Ok(()),
            (g, w) => Err(format!("got {g:?} want {w:?} tol {tol}")),
        }
    };
    let gg = g.geometry();
    match judge(guard(|| gg.centroid()), want, 1e-9 * 8.0) {
        Ok(()) => cx.ok("centroid_geometry_enum"),
        Err(e) => cx.bad("C06", "centroid_geometry_enum", case, json!({"what": "Geometry::centroid", "detail": e})),
    }
    // Point / Line / Rect / Triangle are never empty: their concrete impls return a Point
    match judge(guard(|| concrete_centroid(&g)), want, 1e-9 * 8.0) {
        Ok(()) => cx.ok("centroid_concrete"),
        Err(e) => cx.bad("C06", "centroid_concrete", case, json!({"what": "concrete centroid", "detail": e})),
    }
    // the same point set written another way (rings turned / reversed, triangles stored clockwise, rectangles from the opposite
    // corners, collection members respelled or in reverse order, one-member wrappers): the same centre of mass
    for (name, v) in g.variants() {
        if name == "mpdup" || name == "mid" || name == "midrot" || name == "quarterrot" {
            // a repeated point weighs twice, and inserted vertices do not change a length- or area-weighted mean but do change
            // nothing else: keep the latter, drop the former
            if name == "mpdup" { continue; }
        }
        match judge(guard(|| v.geometry().centroid()), want, 1e-9 * 8.0) {
            Ok(()) => cx.ok("centroid_variant"),
            Err(e) => cx.bad("C06", "centroid_variant", case, json!({"what": format!("variant {name}"), "detail": e})),
        }
    }
    // a flat polygon with DECIMAL coordinates: the x values of this case's shell, re-labelled by v -> 0.1 v + 0.3, put on the main
    // diagonal (x = y, so exactly collinear whatever the rounding): zero area, so the centroid is that of the outline (C06: "a
    // polygon of zero area falls back to the centroid of its outline") - a relation between two answers of the implementation
    if let G::Polygon(p) = &g {
        let mut d: Vec<Coord<f64>> = p.exterior().0.iter().map(|c| { let v = c.x * 0.1 + 0.3; Coord { x: v, y: v } }).collect();
        d.dedup();
        if d.len() >= 3 && d.first() == d.last() {
            let (ring, poly) = (geo::LineString::new(d.clone()), geo::Polygon::new(geo::LineString::new(d.clone()), vec![]));
            let (a, b) = (guard(|| poly.centroid()), guard(|| ring.centroid()));
            let ok = matches!((&a, &b), (Ok(Some(x)), Ok(Some(y))) if (x.x() - y.x()).abs() <= 1e-12 && (x.y() - y.y()).abs() <= 1e-12);
            cx.count("flat_diagonal_decimal_polygons", 1);
            if ok { cx.ok("flat_polygon_falls_back_to_outline"); } else {
                cx.bad("C06", "flat_polygon_falls_back_to_outline", case, json!({"what": "flat polygon on the main diagonal with decimal coordinates: Polygon::centroid vs centroid of its exterior", "ring": d.iter().map(|c| c.x).collect::<Vec<_>>(), "polygon": format!("{a:?}"), "outline": format!("{b:?}")}));
            }
        }
    }
    // equivariance under exact similarity maps (translation, uniform power-of-two scaling, D4)
    let maps: Vec<_> = exact_maps().into_iter().filter(|m| m.similarity().is_some()).collect();
    for k in 0..3usize {
        let m = &maps[(n as usize + cx.seed as usize + 4 * k) % maps.len()];
        let tg = m.on(&g);
        let s = m.similarity().unwrap();
        let tol = 8.0 * ulp(maxabs(&tg)) + 1e-9 * 8.0 * s;
        match judge(guard(|| tg.geometry().centroid()), want.map(|w| m.apply(w)), tol) {
            Ok(()) => cx.ok("centroid_exact_map"),
            Err(e) => cx.bad("C06", "centroid_exact_map", case, json!({"what": format!("map {}", m.name), "detail": e})),
        }
    }
}

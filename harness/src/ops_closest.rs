//! C12: replay of Gen_Closest "closest" cases (expected answer supplied by TLC as exact rationals)
//! and execution of "interior" cases (the answers are written as events and judged by TLC against
//! Trace_Interior; nothing is decided here).
use crate::ctx::{guard, Ctx};
use crate::gj::{self, exact_maps, ExactMap, G};
use crate::with_g;
use geo::{Closest, ClosestPoint, Coord, InteriorPoint, Point};
use serde_json::{json, Value};
use std::io::Write;

// ------------------------------------------------------------------ closest_point
fn cp_cc(g: &G, p: &Point<f64>) -> Result<Closest<f64>, String> {
    guard(|| with_g!(g, x => x.closest_point(p)))
}
fn cp_enum(g: &G, p: &Point<f64>) -> Result<Closest<f64>, String> {
    let gg = g.geometry();
    guard(|| gg.closest_point(p))
}

struct Want {
    valid: bool,
    empty: bool,
    ind: bool,
    hit: bool,
    d2: f64,
    near: Vec<Coord<f64>>,
    p: Coord<f64>,
}

/// `s` is the uniform scale of the exact map the operands went through (1 for none); the expected
/// point set and the query point in `w` are already mapped.
fn judge(cx: &mut Ctx, sub: &str, what: String, case: &Value, got: Result<Closest<f64>, String>, w: &Want, s: f64) {
    let tolp = 1e-9 * s;
    let verdict: Result<(), String> = match &got {
        Err(m) => {
            if !w.valid {
                cx.count("closest_panic_on_degenerate_input", 1);
                return;
            }
            Err(format!("panic: {m}"))
        }
        Ok(Closest::Indeterminate) => {
            if w.empty || w.ind { Ok(()) } else { Err("Indeterminate for an input that is neither empty nor of zero length".into()) }
        }
        Ok(Closest::Intersection(q)) => {
            if w.empty {
                Err("Intersection for an empty geometry".into())
            } else if !w.hit {
                Err("Intersection although the query point does not intersect the geometry".into())
            } else if (q.x() - w.p.x).abs() <= tolp && (q.y() - w.p.y).abs() <= tolp {
                Ok(())
            } else {
                Err("Intersection carries a point other than the query point".into())
            }
        }
        Ok(Closest::SinglePoint(q)) => {
            if w.empty {
                Err("SinglePoint for an empty geometry".into())
            } else if w.hit {
                Err("SinglePoint although the query point intersects the geometry".into())
            } else {
                let (dx, dy) = (q.x() - w.p.x, q.y() - w.p.y);
                let got2 = dx * dx + dy * dy;
                let want2 = w.d2 * s * s;
                if !((got2 - want2).abs() <= 1e-9 * want2.max(s * s)) {
                    Err(format!("distance^2 to the returned point {got2} differs from the true minimum {want2}"))
                } else if !w.near.iter().any(|a| (q.x() - a.x).abs() <= tolp && (q.y() - a.y).abs() <= tolp) {
                    Err("returned point is none of the points of the geometry at minimal distance".into())
                } else {
                    Ok(())
                }
            }
        }
    };
    match verdict {
        Ok(()) => cx.ok(sub),
        Err(why) => cx.bad("C12", sub, case, json!({"what": what, "got": format!("{got:?}"), "why": why,
            "want": if w.empty { json!("Indeterminate") } else if w.hit { json!({"Intersection": [w.p.x, w.p.y]}) }
                    else { json!({"SinglePoint_one_of": w.near.iter().map(|c| vec![c.x, c.y]).collect::<Vec<_>>(), "d2": w.d2 * s * s,
                                  "Indeterminate_admissible": w.ind}) }})),
    }
}

pub fn closest_case(cx: &mut Ctx, n: u64, case: &Value) {
    if !cx.wants("C12") {
        return;
    }
    let g = gj::parse(&case["g"]);
    let pc = gj::coord(&case["p"]);
    let near: Vec<Coord<f64>> = case["near"].as_array().map(|a| a.iter().map(|t| {
        let den = t[2].as_f64().unwrap();
        Coord { x: t[0].as_f64().unwrap() / den, y: t[1].as_f64().unwrap() / den }
    }).collect()).unwrap_or_default();
    let w = Want {
        valid: case["valid"].as_bool().unwrap(),
        empty: case["empty"].as_bool().unwrap(),
        ind: case["ind"].as_bool().unwrap(),
        hit: case["hit"].as_bool().unwrap(),
        d2: case["d2"][0].as_f64().unwrap() / case["d2"][1].as_f64().unwrap(),
        near,
        p: pc,
    };
    if n % 4001 == 0 {
        cx.sample(case.clone());
    }
    cx.count("closest_cases", 1);
    cx.count(if w.empty { "closest_empty_cases" } else if w.hit { "closest_intersecting_cases" }
             else if w.near.len() > 1 { "closest_equidistant_cases" } else { "closest_unique_nearest_cases" }, 1);
    let p = Point(pc);
    judge(cx, "closest_point", "g.closest_point(p)".into(), case, cp_cc(&g, &p), &w, 1.0);
    judge(cx, "closest_point_geometry_enum", "Geometry(g).closest_point(p)".into(), case, cp_enum(&g, &p), &w, 1.0);
    for (name, v) in g.variants() {
        judge(cx, "closest_point_variant", format!("variant {name} of g"), case, cp_cc(&v, &p), &w, 1.0);
    }
    // the f32 scalar type at extreme magnitudes (exact power-of-two scalings 2^66 and 2^-83: the squares of the distances
    // overflow / underflow f32, the distances themselves do not): still the right member of a multi-part geometry
    if w.valid && !w.empty && case["g"].to_string().len() < 1500 {
        use geo::MapCoords;
        // (only point sets at the extreme scales: segments are projected with a squared length, which is outside the range of
        // f32 there - a limit of the scalar type, not a question about the property)
        let only_points = matches!(g, G::Point(_) | G::MultiPoint(_));
        for sc in [2f32.powi(66), 2f32.powi(-83), 1.0f32] {
            if sc != 1.0 && !only_points { continue; }
            let gf: geo::Geometry<f32> = g.geometry().map_coords(|c| geo::Coord { x: c.x as f32 * sc, y: c.y as f32 * sc });
            let pf = geo::Point::new(pc.x as f32 * sc, pc.y as f32 * sc);
            let got = guard(|| gf.closest_point(&pf));
            let ok = match &got {
                Ok(Closest::Intersection(q)) => w.hit && *q == pf,
                Ok(Closest::SinglePoint(q)) => !w.hit && w.near.iter().any(|a| ((q.x() / sc) as f64 - a.x).abs() <= 1e-4 * (1.0 + a.x.abs()) && ((q.y() / sc) as f64 - a.y).abs() <= 1e-4 * (1.0 + a.y.abs())),
                Ok(Closest::Indeterminate) => w.ind,
                Err(_) => false,
            };
            if ok { cx.ok("closest_point_f32_extreme_scale"); } else {
                cx.bad("C12", "closest_point_f32_extreme_scale", case, json!({"what": format!("Geometry<f32> scaled by {sc:e}"), "got": format!("{got:?}"), "hit": w.hit, "near": w.near.iter().map(|c| [c.x, c.y]).collect::<Vec<_>>()}));
            }
        }
    }
    // exact similarity maps: the whole configuration is mapped without rounding, the answer must map along.
    // tr_1e8 is left out: at offset 1e8 the representable spacing of the answer (1.5e-8) exceeds the tolerance.
    let maps: Vec<ExactMap> = exact_maps().into_iter().filter(|m| m.similarity().is_some() && m.name != "tr_1e8").collect();
    for k in 0..2usize {
        let m = &maps[(n as usize + cx.seed as usize + 5 * k) % maps.len()];
        let s = m.similarity().unwrap();
        let wm = Want { valid: w.valid, empty: w.empty, ind: w.ind, hit: w.hit, d2: w.d2,
                        near: w.near.iter().map(|c| m.apply(*c)).collect(), p: m.apply(pc) };
        judge(cx, "closest_point_exact_map", format!("map {}", m.name), case, cp_cc(&m.on(&g), &Point(wm.p)), &wm, s);
    }
}

// ------------------------------------------------------------------ interior_point
/// Uniform result of the differently typed impls (Point / Option<Point>).
trait Ip {
    fn ip(&self) -> Option<Point<f64>>;
}
macro_rules! ip_opt { ($($t:ident),*) => { $(impl Ip for geo::$t<f64> { fn ip(&self) -> Option<Point<f64>> { self.interior_point() } })* } }
macro_rules! ip_pt { ($($t:ident),*) => { $(impl Ip for geo::$t<f64> { fn ip(&self) -> Option<Point<f64>> { Some(self.interior_point()) } })* } }
ip_opt!(LineString, Polygon, MultiPoint, MultiLineString, MultiPolygon, GeometryCollection, Geometry);
ip_pt!(Point, Line, Rect, Triangle);

fn ip_cc(g: &G) -> Result<Option<Point<f64>>, String> {
    guard(|| with_g!(g, x => x.ip()))
}
fn ip_enum(g: &G) -> Result<Option<Point<f64>>, String> {
    let gg = g.geometry();
    guard(|| gg.ip())
}

pub const Q: f64 = 2048.0;
const CLIP_LO: f64 = -8192.0;
const CLIP_HI: f64 = 24576.0;

/// every number of a geometry JSON times Q as an integer; None if some product is not integral
fn scale_json(v: &Value) -> Option<Value> {
    match v {
        Value::Number(x) => {
            let y = x.as_f64()? * Q;
            if y.fract() != 0.0 || y.abs() > 1.0e6 { None } else { Some(json!(y as i64)) }
        }
        Value::Array(a) => a.iter().map(scale_json).collect::<Option<Vec<_>>>().map(Value::Array),
        Value::Object(o) => {
            let mut out = serde_json::Map::new();
            for (k, x) in o {
                out.insert(k.clone(), if k == "t" { x.clone() } else { scale_json(x)? });
            }
            Some(Value::Object(out))
        }
        other => Some(other.clone()),
    }
}

/// Executes interior_point through the concrete impl, the Geometry enum and every representation
/// variant (same point set by construction) and writes one event per distinct answer.
pub fn interior_case(cx: &mut Ctx, n: u64, case: &Value) {
    if !cx.wants("C12") {
        return;
    }
    let g = gj::parse(&case["g"]);
    let valid = case["valid"].as_bool().unwrap();
    if n % 4001 == 0 {
        cx.sample(case.clone());
    }
    cx.count("interior_cases", 1);
    let gq = match scale_json(&case["g"]) {
        Some(v) => v,
        None => { cx.count("interior_unscalable_geometry", 1); return; }
    };
    let mut answers: Vec<(String, Result<Option<Point<f64>>, String>)> = vec![
        ("concrete".into(), ip_cc(&g)),
        ("geometry_enum".into(), ip_enum(&g)),
    ];
    for (name, v) in g.variants() {
        answers.push((format!("variant_{name}"), ip_cc(&v)));
    }
    cx.count("interior_calls", answers.len() as u64);
    // group identical answers (bit-identical points)
    let mut groups: Vec<(Value, Vec<String>)> = vec![];
    for (via, a) in answers {
        let key = match &a {
            Err(m) => json!({"res": "panic", "msg": m}),
            Ok(None) => json!({"res": "none"}),
            Ok(Some(p)) if !(p.x().is_finite() && p.y().is_finite()) => json!({"res": "nonfinite", "pt": format!("{p:?}")}),
            Ok(Some(p)) => {
                let (x, y) = (p.x() * Q, p.y() * Q);       // exact: Q is a power of two
                let exact = x.fract() == 0.0 && y.fract() == 0.0;
                let clipped = x < CLIP_LO || x > CLIP_HI || y < CLIP_LO || y > CLIP_HI;
                let (rx, ry) = (x.round().clamp(CLIP_LO, CLIP_HI) as i64, y.round().clamp(CLIP_LO, CLIP_HI) as i64);
                json!({"res": "some", "r": [rx, ry], "exact": exact && !clipped, "pt": [p.x(), p.y()]})
            }
        };
        match groups.iter_mut().find(|(k, _)| *k == key) {
            Some((_, vias)) => vias.push(via),
            None => groups.push((key, vec![via])),
        }
    }
    for (mut ev, vias) in groups {
        ev["kind"] = json!("ip");
        ev["id"] = json!(n);
        ev["g"] = gq.clone();
        ev["valid"] = json!(valid);
        ev["calls"] = json!(vias.len());
        ev["via"] = json!(vias.join(","));
        ev["case"] = case.clone();
        if ev.get("r").is_none() { ev["r"] = json!([0, 0]); }
        if ev.get("exact").is_none() { ev["exact"] = json!(false); }
        cx.count("interior_events", 1);
        writeln!(cx.out, "{ev}").unwrap();
    }
}

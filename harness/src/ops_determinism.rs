//! C20: determinism workload.  One process runs the whole workload (twice, in-process) under the
//! rayon pool size given by RAYON_NUM_THREADS and logs one event per call: the key of the call
//! (operation + input id) and a digest of the exact output (every coordinate bit, member order,
//! ring order).  bin/check starts this in fresh processes for several pool sizes, concatenates
//! the traces and lets TLC validate them against the memo machine (Trace_Memo.tla).  Nothing is
//! judged here.
#![allow(deprecated)]
use crate::ctx::guard;
use crate::gj::{self, G};
use geo::algorithm::bool_ops::{unary_union, BooleanOps};
use geo::algorithm::monotone::monotone_subdivision;
use geo::{
    Area, ConcaveHull, ConvexHull, Coord, KNearestConcaveHull, LineString, MultiLineString, MultiPoint, MultiPolygon, OutlierDetection, Point, Polygon,
    Simplify, StitchTriangles, Triangle, TriangulateDelaunay, TriangulateEarcut,
};
use rand::rngs::StdRng;
use rand::{Rng, SeedableRng};
use rayon::prelude::*;
use serde_json::{json, Value};
use std::io::{BufRead, BufReader, Write};

/// FNV-1a over a stream of u64 words
struct Dg(u64);
impl Dg {
    fn new() -> Dg {
        Dg(0xcbf29ce484222325)
    }
    fn w(&mut self, x: u64) {
        for b in x.to_le_bytes() {
            self.0 ^= b as u64;
            self.0 = self.0.wrapping_mul(0x100000001b3);
        }
    }
    fn f(&mut self, x: f64) {
        self.w(x.to_bits());
    }
    fn c(&mut self, c: Coord<f64>) {
        self.f(c.x);
        self.f(c.y);
    }
    fn ls(&mut self, l: &LineString<f64>) {
        self.w(0x1000 + l.0.len() as u64);
        for c in &l.0 {
            self.c(*c);
        }
    }
    fn poly(&mut self, p: &Polygon<f64>) {
        self.w(0x2000 + p.interiors().len() as u64);
        self.ls(p.exterior());
        for h in p.interiors() {
            self.ls(h);
        }
    }
    fn mp(&mut self, m: &MultiPolygon<f64>) {
        self.w(0x3000 + m.0.len() as u64);
        for p in &m.0 {
            self.poly(p);
        }
    }
    fn mls(&mut self, m: &MultiLineString<f64>) {
        self.w(0x4000 + m.0.len() as u64);
        for l in &m.0 {
            self.ls(l);
        }
    }
    fn tris(&mut self, ts: &[Triangle<f64>]) {
        self.w(0x5000 + ts.len() as u64);
        for t in ts {
            self.c(t.0);
            self.c(t.1);
            self.c(t.2);
        }
    }
    fn hex(&self) -> String {
        format!("{:016x}", self.0)
    }
}
fn dg<T>(r: Result<T, String>, f: impl FnOnce(&mut Dg, &T)) -> String {
    match r {
        Ok(v) => {
            let mut d = Dg::new();
            f(&mut d, &v);
            d.hex()
        }
        Err(e) => format!("panic:{}", e.chars().take(40).collect::<String>()),
    }
}

fn as_mp(g: &G) -> Option<MultiPolygon<f64>> {
    match g {
        G::Polygon(p) => Some(MultiPolygon::new(vec![p.clone()])),
        G::MultiPolygon(m) => Some(m.clone()),
        _ => None,
    }
}
fn sq(x: f64, y: f64, s: f64) -> Polygon<f64> {
    Polygon::new(LineString::from(vec![(x, y), (x + s, y), (x + s, y + s), (x, y + s), (x, y)]), vec![])
}
/// family "grid": n x n squares of side 2 with their lower-left corners at (4i, 4j)
fn grid(n: usize, dx: f64, dy: f64) -> MultiPolygon<f64> {
    let mut v = Vec::with_capacity(n * n);
    for i in 0..n {
        for j in 0..n {
            v.push(sq(4.0 * i as f64 + dx, 4.0 * j as f64 + dy, 2.0));
        }
    }
    MultiPolygon::new(v)
}
/// family "comb": a bar [0,4n] x [0,2] carrying n teeth [4i,4i+2] x [2,8] (one ring with 4n + 3 vertices)
fn comb(n: usize, dx: f64, dy: f64) -> Polygon<f64> {
    let h = 8.0;
    let mut v = vec![(0.0, 0.0), (4.0 * n as f64, 0.0), (4.0 * n as f64, 2.0)];
    for i in (0..n).rev() {
        let x = 4.0 * i as f64;
        v.push((x + 2.0, 2.0));
        v.push((x + 2.0, h));
        v.push((x, h));
        v.push((x, 2.0));
    }
    // the walk above goes right-to-left along the top; close at (0,0)
    v.push((0.0, 0.0));
    Polygon::new(LineString::from(v.into_iter().map(|(x, y)| (x + dx, y + dy)).collect::<Vec<_>>()), vec![])
}

pub fn record(pool_path: &str, w: &mut dyn Write, seed: u64, scale: usize) {
    let threads = rayon::current_num_threads();
    let proc_id = std::env::var("VERIF_PROC").unwrap_or_else(|_| "0".into());
    let f = BufReader::new(std::fs::File::open(pool_path).expect("open pool"));
    let mut polys: Vec<MultiPolygon<f64>> = vec![];
    let mut lines: Vec<LineString<f64>> = vec![];
    for line in f.lines() {
        let v: Value = serde_json::from_str(&line.unwrap()).unwrap();
        let g = gj::parse(&v["g"]);
        if let Some(m) = as_mp(&g) {
            polys.push(m);
        } else if let G::LineString(l) = g {
            lines.push(l);
        }
    }
    assert!(polys.len() > 10, "pool too small");
    for rep in 0..2u32 {
        // the same seeded choices in every process and repetition
        let mut rng = StdRng::seed_from_u64(seed ^ 0xC20);
        let mut emit = |key: String, digest: String, extra: Value| {
            let mut ev = json!({"p": proc_id, "t": threads, "rep": rep, "key": key, "dg": digest, "fam": "", "n": 0, "op": "", "area4": 0, "st": "ok"});
            if let Some(o) = extra.as_object() {
                for (k, v) in o {
                    ev[k] = v.clone();
                }
            }
            writeln!(w, "{ev}").unwrap();
        };
        let ncases = 12 * scale;
        for i in 0..ncases {
            let a = polys[rng.gen_range(0..polys.len())].clone();
            let b = polys[rng.gen_range(0..polys.len())].clone();
            let c = polys[rng.gen_range(0..polys.len())].clone();
            emit(format!("union#{i}"), dg(guard(|| a.union(&b)), |d, m| d.mp(m)), json!({}));
            emit(format!("intersection#{i}"), dg(guard(|| a.intersection(&b)), |d, m| d.mp(m)), json!({}));
            emit(format!("difference#{i}"), dg(guard(|| a.difference(&b)), |d, m| d.mp(m)), json!({}));
            emit(format!("xor#{i}"), dg(guard(|| a.xor(&b)), |d, m| d.mp(m)), json!({}));
            emit(format!("unary_union#{i}"), dg(guard(|| unary_union([&a, &b, &c])), |d, m| d.mp(m)), json!({}));
            let l = MultiLineString::new(vec![lines[rng.gen_range(0..lines.len())].clone()]);
            emit(format!("clip#{i}"), dg(guard(|| a.clip(&l, false)), |d, m| d.mls(m)), json!({}));
            let cdt = guard(|| TriangulateDelaunay::constrained_triangulation(&a, Default::default()).unwrap_or_default());
            if let Ok(ts) = &cdt {
                emit(format!("stitch#{i}"), dg(guard(|| ts.stitch_triangulation().unwrap_or(MultiPolygon::new(vec![]))), |d, m| d.mp(m)), json!({}));
            }
            emit(format!("cdt#{i}"), dg(cdt, |d, t| d.tris(t)), json!({}));
            emit(format!("udt#{i}"), dg(guard(|| TriangulateDelaunay::unconstrained_triangulation(&a).unwrap_or_default()), |d, t| d.tris(t)), json!({}));
            emit(format!("earcut#{i}"), dg(guard(|| a.0[0].earcut_triangles()), |d, t| d.tris(t)), json!({}));
            emit(format!("monotone#{i}"), dg(guard(|| monotone_subdivision(a.0.clone())), |d, ms| { for m in ms { d.ls(m.top()); d.ls(m.bot()); } }), json!({}));
            emit(format!("convex_hull#{i}"), dg(guard(|| a.convex_hull()), |d, p| d.poly(p)), json!({}));
            emit(format!("concave_hull#{i}"), dg(guard(|| a.concave_hull(2.0)), |d, p| d.poly(p)), json!({}));
            emit(format!("simplify#{i}"), dg(guard(|| a.simplify(1.0)), |d, m| d.mp(m)), json!({}));
        }
        // ---- objects that are reused: the answer of prepared.relate(x) must not depend on what the prepared geometry was asked
        // before.  The second repetition asks the same questions in the opposite order (same keys), so any state that leaks
        // from one call into the next makes a key map to two digests.
        {
            use geo::{PreparedGeometry, Relate};
            let npre = 6 * scale;
            for i in 0..npre {
                let base = polys[rng.gen_range(0..polys.len())].clone();
                let partners: Vec<MultiPolygon<f64>> = (0..5).map(|_| polys[rng.gen_range(0..polys.len())].clone()).collect();
                let lparts: Vec<LineString<f64>> = (0..3).map(|_| lines[rng.gen_range(0..lines.len())].clone()).collect();
                let prep = PreparedGeometry::from(geo::Geometry::MultiPolygon(base.clone()));
                let mut order: Vec<usize> = (0..8).collect();
                if rep == 1 {
                    order.reverse();
                }
                for j in order {
                    let im = guard(|| {
                        if j < 5 {
                            if j % 2 == 0 { prep.relate(&geo::Geometry::MultiPolygon(partners[j].clone())) } else { geo::Geometry::MultiPolygon(partners[j].clone()).relate(&prep) }
                        } else {
                            prep.relate(&geo::Geometry::LineString(lparts[j - 5].clone()))
                        }
                    });
                    let digest = match im { Ok(m) => format!("{m:?}"), Err(e) => format!("panic:{}", e.chars().take(40).collect::<String>()) };
                    emit(format!("prepared_relate#{i}.{j}"), digest, json!({}));
                }
            }
        }
        // ---- many separate members: stitching k x k separate squares, triangulated
        // (k = 14 and 24: 392 and 1152 triangles - implementations switch strategy with size)
        for (i, kk) in [2usize, 3, 4, 5, 14, 24].iter().enumerate() {
            let g = grid(*kk, 0.0, 0.0);
            let ts: Vec<Triangle<f64>> = g.0.iter().flat_map(|p| p.earcut_triangles()).collect();
            emit(format!("stitch_squares#{i}"), dg(guard(|| ts.stitch_triangulation().unwrap_or(MultiPolygon::new(vec![]))), |d, m| d.mp(m)), json!({}));
            let nested = MultiPolygon::new(vec![Polygon::new(sq(0.0, 0.0, 20.0).exterior().clone(), (0..*kk).map(|j| { let mut h = sq(2.0 + 4.0 * j as f64, 2.0, 2.0).exterior().clone(); h.0.reverse(); h }).collect())]);
            let ts2 = TriangulateDelaunay::constrained_triangulation(&nested, Default::default()).unwrap_or_default();
            emit(format!("stitch_holes#{i}"), dg(guard(|| ts2.stitch_triangulation().unwrap_or(MultiPolygon::new(vec![]))), |d, m| d.mp(m)), json!({}));
        }
        // ---- one large piece: the ear-cut triangles of a 700-vertex staircase polygon with three holes, stitched back
        {
            let n = 349usize;
            let mut ring = vec![Coord { x: 0.0, y: 0.0 }, Coord { x: n as f64, y: 0.0 }];
            for k in 1..=n { ring.push(Coord { x: (n - k + 1) as f64, y: k as f64 }); ring.push(Coord { x: (n - k) as f64, y: k as f64 }); }
            ring.push(Coord { x: 0.0, y: 0.0 });
            let hole = |x: f64, y: f64| { let mut h = sq(x, y, 1.0).exterior().clone(); h.0.reverse(); h };
            let big = Polygon::new(LineString::new(ring), vec![hole(1.0, 1.0), hole(3.0, 1.0), hole(1.0, 3.0)]);
            let ts = big.earcut_triangles();
            emit("stitch_big#0".into(), dg(guard(|| ts.stitch_triangulation().unwrap_or(MultiPolygon::new(vec![]))), |d, m| d.mp(m)), json!({"ntri": ts.len()}));
        }
        // ---- point-set algorithms driven by spatial indices
        for i in 0..(3 * scale) {
            let npts = 30 + 20 * (i % 3);
            let pts: Vec<Point<f64>> = (0..npts).map(|_| Point::new(rng.gen_range(0..40) as f64 / 2.0, rng.gen_range(0..40) as f64 / 2.0)).collect();
            let mpt = MultiPoint::new(pts.clone());
            emit(format!("concave_hull_pts#{i}"), dg(guard(|| mpt.concave_hull(2.0)), |d, p| d.poly(p)), json!({}));
            emit(format!("k_nearest_concave_hull#{i}"), dg(guard(|| mpt.k_nearest_concave_hull(3)), |d, p| d.poly(p)), json!({}));
            emit(format!("outliers#{i}"), dg(guard(|| mpt.outliers(5)), |d, v| { for x in v { d.f(*x); } }), json!({}));
            emit(format!("convex_hull_pts#{i}"), dg(guard(|| mpt.convex_hull()), |d, p| d.poly(p)), json!({}));
            emit(format!("outlier_ensemble#{i}"), dg(guard(|| mpt.generate_ensemble(2..=6)), |d, vv| { for v in vv { d.w(v.len() as u64); for x in v { d.f(*x); } } }), json!({}));
            emit(format!("outlier_ensemble_min#{i}"), dg(guard(|| mpt.ensemble_min(2..=6)), |d, v| { for x in v { d.f(*x); } }), json!({}));
            emit(format!("outlier_ensemble_max#{i}"), dg(guard(|| pts[..].ensemble_max(2..=6)), |d, v| { for x in v { d.f(*x); } }), json!({}));
            emit(format!("outlier_prepared#{i}"), dg(guard(|| { let pd = mpt.prepared_detector(); (pd.outliers(4), pd.outliers(7)) }), |d, (a, b)| { for x in a.iter().chain(b.iter()) { d.f(*x); } }), json!({}));
            // a PreparedDetector is shared between calls: what it answers for k must not depend on which other k it was asked
            // before (same key = same input = same digest, whatever the history of the detector)
            for kk in [3usize, 5] {
                emit(format!("outliers_k{kk}#{i}"), dg(guard(|| mpt.outliers(kk)), |d, v| { for x in v { d.f(*x); } }), json!({}));
                emit(format!("outliers_k{kk}#{i}"), dg(guard(|| { let pd = mpt.prepared_detector(); let _ = pd.outliers(kk + 4); pd.outliers(kk) }), |d, v| { for x in v { d.f(*x); } }), json!({}));
                emit(format!("outliers_k{kk}#{i}"), dg(guard(|| { let pd = mpt.prepared_detector(); for j in (kk + 1..=9).rev() { let _ = pd.outliers(j); } let _ = pd.outliers(2); pd.outliers(kk) }), |d, v| { for x in v { d.f(*x); } }), json!({}));
                emit(format!("outliers_k{kk}#{i}"), dg(guard(|| { let pd = pts[..].prepared_detector(); let a = pd.outliers(kk); let _ = pd.outliers(8); let b = pd.outliers(kk); if a == b { a } else { vec![] } }), |d, v| { for x in v { d.f(*x); } }), json!({}));
            }
            // points with many exact distance ties (mirror-symmetric lattice sets)
            let sym: Vec<Point<f64>> = (0..npts / 2).flat_map(|_| { let (x, y) = (rng.gen_range(1..10) as f64, rng.gen_range(0..20) as f64 / 2.0); [Point::new(10.0 - x, y), Point::new(10.0 + x, y)] }).collect();
            let msym = MultiPoint::new(sym.clone());
            for (ci, conc) in [1.0f64, 2.0, 3.0].iter().enumerate() {
                emit(format!("concave_hull_sym{ci}#{i}"), dg(guard(|| msym.concave_hull(*conc)), |d, p| d.poly(p)), json!({}));
            }
            emit(format!("k_nearest_concave_hull_sym#{i}"), dg(guard(|| sym.k_nearest_concave_hull(4)), |d, p| d.poly(p)), json!({}));
        }
        // ---- large point sets (size-gated code paths): 3000 seeded random points
        {
            let big: Vec<Point<f64>> = (0..3000).map(|_| Point::new(rng.gen_range(0..2000) as f64 / 16.0, rng.gen_range(0..2000) as f64 / 16.0)).collect();
            let mbig = MultiPoint::new(big.clone());
            emit("outliers_big#0".into(), dg(guard(|| mbig.outliers(8)), |d, v| { for x in v { d.f(*x); } }), json!({}));
            emit("outlier_ensemble_big#0".into(), dg(guard(|| mbig.generate_ensemble(3..=8)), |d, vv| { for v in vv { d.w(v.len() as u64); for x in v { d.f(*x); } } }), json!({}));
            emit("outlier_ensemble_min_big#0".into(), dg(guard(|| big[..].ensemble_min(3..=8)), |d, v| { for x in v { d.f(*x); } }), json!({}));
            emit("outlier_ensemble_max_big#0".into(), dg(guard(|| mbig.ensemble_max(3..=8)), |d, v| { for x in v { d.f(*x); } }), json!({}));
            emit("concave_hull_big#0".into(), dg(guard(|| mbig.concave_hull(2.0)), |d, p| d.poly(p)), json!({}));
            emit("k_nearest_concave_hull_big#0".into(), dg(guard(|| mbig.k_nearest_concave_hull(5)), |d, p| d.poly(p)), json!({}));
            emit("convex_hull_big#0".into(), dg(guard(|| mbig.convex_hull()), |d, p| d.poly(p)), json!({}));
            emit("udt_big#0".into(), dg(guard(|| TriangulateDelaunay::unconstrained_triangulation(&mbig.0.iter().map(|p| p.0).collect::<LineString<f64>>()).unwrap_or_default()), |d, t| d.tris(t)), json!({}));
        }
        // ---- many overlapping polygons with DECIMAL (non-dyadic) coordinates: what a parallel or chunked overlay would round
        // differently depending on how the input is split (integer / dyadic inputs are reproduced exactly by any split)
        {
            for (ri, nq) in [(0usize, 20usize), (1, 48), (2, 130)] {
                let quads: Vec<Polygon<f64>> = (0..nq).map(|_| {
                    let (cx0, cy0) = (rng.gen_range(0..400) as f64 / 10.0, rng.gen_range(0..400) as f64 / 10.0);
                    let r = |rng: &mut StdRng| rng.gen_range(3..60) as f64 / 10.0;
                    let (r0, r1, r2, r3) = (r(&mut rng), r(&mut rng), r(&mut rng), r(&mut rng));
                    Polygon::new(LineString::new(vec![Coord { x: cx0 - r0, y: cy0 - r1 * 0.7 }, Coord { x: cx0 + r1, y: cy0 - r2 * 0.3 }, Coord { x: cx0 + r2 * 0.9, y: cy0 + r3 },
                                                      Coord { x: cx0 - r3 * 0.1, y: cy0 + r0 * 1.1 }, Coord { x: cx0 - r0, y: cy0 - r1 * 0.7 }]), vec![])
                }).collect();
                let mq = MultiPolygon::new(quads.clone());
                emit(format!("decimal_unary_union#{ri}"), dg(guard(|| unary_union(quads.iter())), |d, m| d.mp(m)), json!({}));
                emit(format!("decimal_unary_union_mp#{ri}"), dg(guard(|| unary_union(&mq)), |d, m| d.mp(m)), json!({}));
                let (h1, h2) = (MultiPolygon::new(quads[..nq / 2].to_vec()), MultiPolygon::new(quads[nq / 2..].to_vec()));
                emit(format!("decimal_union#{ri}"), dg(guard(|| h1.union(&h2)), |d, m| d.mp(m)), json!({}));
                emit(format!("decimal_intersection#{ri}"), dg(guard(|| h1.intersection(&h2)), |d, m| d.mp(m)), json!({}));
                emit(format!("decimal_xor#{ri}"), dg(guard(|| h1.xor(&h2)), |d, m| d.mp(m)), json!({}));
            }
        }
        // ---- rayon iterators over the Multi* types: collect must keep input order
        {
            let g = grid(40, 0.25, 0.5);
            emit("par_iter_mpoly#0".into(), dg(guard(|| g.par_iter().map(|p| p.unsigned_area() + p.exterior().0[0].x).collect::<Vec<f64>>()), |d, v| { for x in v { d.f(*x); } }), json!({}));
            let mls = MultiLineString::new(g.0.iter().map(|p| p.exterior().clone()).collect());
            emit("par_iter_mls#0".into(), dg(guard(|| mls.par_iter().map(|l| l.0[0].x * 3.0 + l.0[0].y).collect::<Vec<f64>>()), |d, v| { for x in v { d.f(*x); } }), json!({}));
            let mpt = MultiPoint::new(g.0.iter().map(|p| Point(p.exterior().0[0])).collect());
            emit("par_iter_mpt#0".into(), dg(guard(|| mpt.par_iter().map(|p| p.x() * 7.0 - p.y()).collect::<Vec<f64>>()), |d, v| { for x in v { d.f(*x); } }), json!({}));
            emit("into_par_iter_mpoly#0".into(), dg(guard(|| g.clone().into_par_iter().map(|p| p.exterior().0[2].y).collect::<Vec<f64>>()), |d, v| { for x in v { d.f(*x); } }), json!({}));
        }
        // ---- large parametric families (engage the overlay engine's parallel paths): exact expected areas from the spec
        for (fi, n) in [12usize, 50, 110].iter().enumerate() {
            if scale < 2 && *n > 60 {
                continue;
            }
            let (a, b) = (grid(*n, 0.0, 0.0), grid(*n, 1.0, 1.0));
            for (op, r) in [("intersection", guard(|| a.intersection(&b))), ("union", guard(|| a.union(&b))), ("difference", guard(|| a.difference(&b))), ("xor", guard(|| a.xor(&b)))] {
                let area4 = match &r { Ok(m) => (m.unsigned_area() * 4.0).round() as i64, Err(_) => -1 };
                let exact = match &r { Ok(m) => (m.unsigned_area() * 4.0 - (m.unsigned_area() * 4.0).round()).abs() <= 1e-6, Err(_) => false };
                emit(format!("grid_{op}#{fi}"), dg(r, |d, m| d.mp(m)), json!({"fam": "grid", "n": n, "op": op, "area4": area4, "st": if exact {"ok"} else {"inexact_area"}}));
            }
            let r = guard(|| unary_union(a.0.iter().chain(b.0.iter())));
            let area4 = match &r { Ok(m) => (m.unsigned_area() * 4.0).round() as i64, Err(_) => -1 };
            emit(format!("grid_unary_union#{fi}"), dg(r, |d, m| d.mp(m)), json!({"fam": "grid", "n": n, "op": "union", "area4": area4}));
            let (ca, cb) = (comb(40 * *n, 0.0, 0.0), comb(40 * *n, 1.0, 1.0));
            for (op, r) in [("intersection", guard(|| ca.intersection(&cb))), ("union", guard(|| ca.union(&cb)))] {
                let area4 = match &r { Ok(m) => (m.unsigned_area() * 4.0).round() as i64, Err(_) => -1 };
                emit(format!("comb_{op}#{fi}"), dg(r, |d, m| d.mp(m)), json!({"fam": "comb", "n": 40 * *n, "op": op, "area4": area4}));
            }
        }
    }
    w.flush().unwrap();
}

//! C07: replay of Gen_Distance cases.
use crate::ctx::{guard, Ctx};
use crate::gj::{self, exact_maps, G};
use crate::with_gg;
use geo::{Distance, Euclidean};
use serde_json::{json, Value};

fn dist_cc(a: &G, b: &G) -> Result<f64, String> {
    guard(|| with_gg!(a, b, x, y => Euclidean.distance(x, y)))
}
fn dist_gg(a: &G, b: &G) -> Result<f64, String> {
    let (ga, gb) = (a.geometry(), b.geometry());
    guard(|| Euclidean.distance(&ga, &gb))
}

pub fn distance_case(cx: &mut Ctx, n: u64, case: &Value) {
    let prop13 = !cx.wants("C07") && cx.wants("C13");
    if !cx.wants("C07") && !prop13 {
        return;
    }
    let a = gj::parse(&case["a"]);
    let b = gj::parse(&case["b"]);
    let num = case["d2"][0].as_f64().unwrap();
    let den = case["d2"][1].as_f64().unwrap();
    let want2 = num / den;
    if n % 251 == 0 {
        cx.sample(case.clone());
    }
    cx.count("distance_cases", 1);
    cx.count(if num == 0.0 { "distance_zero_cases" } else { "distance_positive_cases" }, 1);
    let seed = cx.seed as usize;
    let mut judge = |sub: &str, what: String, got: Result<f64, String>, scale: f64| {
        let w2 = want2 * scale * scale;
        match got {
            Ok(d) if num == 0.0 && d == 0.0 => cx.ok(sub),
            Ok(d) if num != 0.0 && d > 0.0 && (d * d - w2).abs() <= 1e-9 * w2.max(scale * scale) => cx.ok(sub),
            other => cx.bad("C07", sub, case, json!({"what": what, "got": format!("{other:?}"), "want_d2": w2, "want_d": w2.sqrt()})),
        }
    };
    if prop13 {
        // commutation clause of C13: every exact similarity map scales the distance by exactly its factor
        let maps: Vec<_> = exact_maps().into_iter().filter(|m| m.similarity().is_some()).collect();
        for m in &maps {
            let got = dist_cc(&m.on(&a), &m.on(&b));
            let s = m.similarity().unwrap();
            let w2 = want2 * s * s;
            match got {
                Ok(d) if num == 0.0 && d == 0.0 => cx.ok("distance_exact_map"),
                Ok(d) if num != 0.0 && d > 0.0 && (d * d - w2).abs() <= 1e-9 * w2.max(s * s) => cx.ok("distance_exact_map"),
                other => cx.bad("C13", "distance_exact_map", case, json!({"what": format!("map {}", m.name), "got": format!("{other:?}"), "want_d2": w2})),
            }
        }
        return;
    }
    judge("distance", "Euclidean.distance(a, b)".into(), dist_cc(&a, &b), 1.0);
    judge("distance_symmetric", "Euclidean.distance(b, a)".into(), dist_cc(&b, &a), 1.0);
    // the deprecated EuclideanDistance trait (same pairs, separate impl blocks) and the f32 scalar type
    {
        #[allow(deprecated)]
        let legacy = guard(|| { use geo::EuclideanDistance; a.geometry().euclidean_distance(&b.geometry()) });
        judge("distance_legacy_trait", "Geometry(a).euclidean_distance(Geometry(b))".into(), legacy, 1.0);
        // the deprecated free function nearest_neighbour_distance (R*-tree, vertex-to-segment): the distance of two line
        // strings that do not meet
        if let (G::LineString(la), G::LineString(lb)) = (&a, &b) {
            if num != 0.0 && la.0.len() >= 2 && lb.0.len() >= 2 {
                #[allow(deprecated)]
                let nn = guard(|| geo::algorithm::euclidean_distance::nearest_neighbour_distance(la, lb));
                judge("distance_legacy_trait", "nearest_neighbour_distance(a, b)".into(), nn, 1.0);
                #[allow(deprecated)]
                let nn = guard(|| geo::algorithm::euclidean_distance::nearest_neighbour_distance(lb, la));
                judge("distance_legacy_trait", "nearest_neighbour_distance(b, a)".into(), nn, 1.0);
            }
        }
    }
    judge("distance_geometry_enum", "Euclidean.distance(Geometry a, Geometry b)".into(), dist_gg(&a, &b), 1.0);
    judge("distance_geometry_enum", "Euclidean.distance(Geometry b, Geometry a)".into(), dist_gg(&b, &a), 1.0);
    for (name, va) in a.variants() {
        judge("distance_variant", format!("variant {name} of a"), dist_cc(&va, &b), 1.0);
    }
    for (name, vb) in b.variants() {
        judge("distance_variant", format!("variant {name} of b"), dist_cc(&a, &vb), 1.0);
    }
    let maps: Vec<_> = exact_maps().into_iter().filter(|m| m.similarity().is_some()).collect();
    for k in 0..2usize {
        let m = &maps[(n as usize + seed + 4 * k) % maps.len()];
        judge("distance_exact_map", format!("map {}", m.name), dist_cc(&m.on(&a), &m.on(&b)), m.similarity().unwrap());
    }
    {
        use geo::MapCoords;
        let (fa, fb) = (a.geometry().map_coords(|c| geo::Coord { x: c.x as f32, y: c.y as f32 }), b.geometry().map_coords(|c| geo::Coord { x: c.x as f32, y: c.y as f32 }));
        match guard(|| Euclidean.distance(&fa, &fb)) {
            Ok(d) if (num == 0.0) == (d == 0.0) && ((d as f64) * (d as f64) - want2).abs() <= 1e-5 * want2.max(1.0) => cx.ok("distance_f32"),
            other => cx.bad("C07", "distance_f32", case, json!({"what": "Euclidean.distance on Geometry<f32>", "got": format!("{other:?}"), "want_d2": want2})),
        }
    }
    // rectilinear operands (every segment axis-parallel) under a monotone re-labelling of the coordinate values by decimal
    // fractions, x -> fl(0.1 x + 0.3) on both axes: which parts touch or overlap does not change, so the distance is exactly zero
    // in the same cases, and the spellings of the operands (Rect / Polygon / enum) still agree with each other
    {
        use geo::CoordsIter;
        let rectilinear = |g: &G| -> bool {
            use geo::LinesIter;
            match g { G::Point(_) | G::MultiPoint(_) | G::Rect(_) => true, G::Triangle(_) | G::GeometryCollection(_) => false,
                      G::Line(l) => l.start.x == l.end.x || l.start.y == l.end.y,
                      G::LineString(x) => x.lines_iter().all(|l| l.start.x == l.end.x || l.start.y == l.end.y),
                      G::MultiLineString(x) => x.lines_iter().all(|l| l.start.x == l.end.x || l.start.y == l.end.y),
                      G::Polygon(x) => x.lines_iter().all(|l| l.start.x == l.end.x || l.start.y == l.end.y),
                      G::MultiPolygon(x) => x.lines_iter().all(|l| l.start.x == l.end.x || l.start.y == l.end.y) }
        };
        if rectilinear(&a) && rectilinear(&b) && a.geometry().coords_count() <= 60 && b.geometry().coords_count() <= 60 {
            let f = |c: geo::Coord<f64>| geo::Coord { x: c.x * 0.1 + 0.3, y: c.y * 0.1 + 0.3 };
            let (da, db) = (a.map(&f, true), b.map(&f, true));
            let mut got: Vec<(String, Result<f64, String>)> = vec![("distance(a', b')".into(), dist_cc(&da, &db)), ("distance(b', a')".into(), dist_cc(&db, &da)),
                                                                  ("distance(Geometry a', Geometry b')".into(), dist_gg(&da, &db))];
            for (name, va) in da.variants() { if name == "asPoly" || name == "rectSwapped" || name == "mpoly1" { got.push((format!("variant {name} of a'"), dist_cc(&va, &db))); } }
            for (name, vb) in db.variants() { if name == "asPoly" || name == "rectSwapped" || name == "mpoly1" { got.push((format!("variant {name} of b'"), dist_cc(&da, &vb))); } }
            let first = got[0].1.clone().unwrap_or(f64::NAN);
            let ok = got.iter().all(|(_, r)| match r { Ok(d) => if num == 0.0 { *d == 0.0 } else { *d > 0.0 && (*d - first).abs() <= 1e-12 * first }, Err(_) => false });
            cx.count("distance_relabelled_cases", 1);
            if ok { cx.ok("distance_decimal_relabelling"); } else { cx.bad("C07", "distance_decimal_relabelling", case, json!({"what": "operands re-labelled by x -> 0.1 x + 0.3", "want_zero": num == 0.0, "got": got.iter().map(|(n, r)| format!("{n}: {r:?}")).collect::<Vec<_>>()})); }
        }
    }
}

//! X03 - X06 (extensions): replay of Gen_Extra cases.
#![allow(deprecated)]
use crate::ctx::{guard, Ctx};
use crate::gj::coords;
use geo::algorithm::hausdorff_distance::HausdorffDistance;
use geo::line_measures::FrechetDistance;
use geo::{ChaikinSmoothing, Coord, Euclidean, IsConvex, LineString, MultiPoint, Point, Polygon, RemoveRepeatedPoints};
use serde_json::{json, Value};

fn eq_scaled(got: &[Coord<f64>], want: &[Coord<f64>], scale: f64) -> bool {
    got.len() == want.len() && got.iter().zip(want).all(|(g, w)| g.x * scale == w.x && g.y * scale == w.y)
}

pub fn pair_case(cx: &mut Ctx, n: u64, case: &Value) {
    if !cx.wants("X03") {
        return;
    }
    let (a, b) = (LineString::new(coords(&case["a"])), LineString::new(coords(&case["b"])));
    let (hd2, fr2) = (case["hd2"].as_f64().unwrap(), case["fr2"].as_f64().unwrap());
    if n % 4999 == 0 {
        cx.sample(case.clone());
    }
    cx.count("extra_pair_cases", 1);
    let mut judge = |sub: &str, what: &str, got: Result<f64, String>, want2: f64| match got {
        Ok(d) if (d * d - want2).abs() <= 1e-9 * want2.max(1.0) => cx.ok(sub),
        other => cx.bad("X03", sub, case, json!({"what": what, "got": format!("{other:?}"), "want_d2": want2})),
    };
    judge("hausdorff", "a.hausdorff_distance(b)", guard(|| a.hausdorff_distance(&b)), hd2);
    judge("hausdorff", "b.hausdorff_distance(a)", guard(|| b.hausdorff_distance(&a)), hd2);
    judge("hausdorff", "MultiPoint(a).hausdorff_distance(b)", guard(|| MultiPoint::new(a.0.iter().map(|c| Point(*c)).collect()).hausdorff_distance(&b)), hd2);
    judge("frechet", "Euclidean.frechet_distance(a, b)", guard(|| Euclidean.frechet_distance(&a, &b)), fr2);
    judge("frechet", "Euclidean.frechet_distance(b, a)", guard(|| Euclidean.frechet_distance(&b, &a)), fr2);
    judge("frechet_legacy", "a.frechet_distance(b)", guard(|| geo::FrechetDistance::frechet_distance(&a, &b)), fr2);
}

pub fn seq_case(cx: &mut Ctx, n: u64, case: &Value) {
    let cs = coords(&case["cs"]);
    let ls = LineString::new(cs.clone());
    if n % 4999 == 0 {
        cx.sample(case.clone());
    }
    if cx.wants("X06") {
        let (dedup, uniq) = (coords(&case["dedup"]), coords(&case["uniq"]));
        let got = guard(|| ls.remove_repeated_points());
        match &got { Ok(l) if l.0 == dedup => cx.ok("dedup_linestring"), other => cx.bad("X06", "dedup_linestring", case, json!({"got": format!("{other:?}")})) }
        let got = guard(|| { let mut l = ls.clone(); l.remove_repeated_points_mut(); l });
        match &got { Ok(l) if l.0 == dedup => cx.ok("dedup_linestring_mut"), other => cx.bad("X06", "dedup_linestring_mut", case, json!({"got": format!("{other:?}")})) }
        let mp = MultiPoint::new(cs.iter().map(|c| Point(*c)).collect());
        let got = guard(|| mp.remove_repeated_points());
        match &got { Ok(m) if m.0.iter().map(|p| p.0).collect::<Vec<_>>() == uniq => cx.ok("dedup_multipoint"), other => cx.bad("X06", "dedup_multipoint", case, json!({"got": format!("{other:?}")})) }
        if case["closed"].as_bool().unwrap() {
            let got = guard(|| Polygon::new(ls.clone(), vec![ls.clone()]).remove_repeated_points());
            match &got { Ok(p) if p.exterior().0 == dedup && p.interiors()[0].0 == dedup => cx.ok("dedup_polygon"), other => cx.bad("X06", "dedup_polygon", case, json!({"got": format!("{other:?}")})) }
        }
    }
    if cx.wants("X04") {
        for (it, key, scale) in [(1usize, "chaikin1", 4.0), (2, "chaikin2", 16.0)] {
            let want = coords(&case[key]);
            let got = guard(|| ls.chaikin_smoothing(it));
            match &got { Ok(l) if eq_scaled(&l.0, &want, scale) => cx.ok("chaikin"), other => cx.bad("X04", "chaikin", case, json!({"what": format!("{it} iterations"), "got": format!("{other:?}"), "want_scaled": case[key]})) }
        }
        let got = guard(|| ls.chaikin_smoothing(0));
        match &got { Ok(l) if l.0 == cs => cx.ok("chaikin_zero_iterations"), other => cx.bad("X04", "chaikin_zero_iterations", case, json!({"got": format!("{other:?}")})) }
    }
    if cx.wants("X05") && case["judged_convexity"].as_bool().unwrap() {
        let want = (case["convex"].as_bool().unwrap(), case["strict"].as_bool().unwrap(), case["collinear"].as_bool().unwrap());
        let got = guard(|| (ls.is_convex(), ls.is_strictly_convex(), ls.is_collinear()));
        // strict convexity of rings with at most three coordinates is documented as unspecified
        let strict_specified = cs.len() > 4 || !want.2;
        match &got {
            Ok(g) if g.0 == want.0 && g.2 == want.2 && (!strict_specified || g.1 == want.1) => cx.ok("convexity"),
            other => cx.bad("X05", "convexity", case, json!({"what": "(is_convex, is_strictly_convex, is_collinear)", "got": format!("{other:?}"), "want": format!("{want:?}")})),
        }
        if want.0 && !want.2 {
            let got = guard(|| (ls.is_ccw_convex(), ls.is_cw_convex()));
            match &got { Ok((a, b)) if a != b => cx.ok("convex_orientation"), other => cx.bad("X05", "convex_orientation", case, json!({"got": format!("{other:?}")})) }
        }
    }
}

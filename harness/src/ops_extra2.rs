//! X07 - X09 (extensions): replay of Gen_Extra2 cases.
//! Everything exact (edge lengths, joints, convex hull, feet on great circles) comes from the case; the code here only
//! measures the answers of geo against it with the tolerances stated in lib/props/X07.py .. X09.py.
use crate::ctx::{guard, Ctx};
use crate::gj::coords;
use crate::ops_sphere::MEAN_R;
use geo::coordinate_position::{CoordPos, CoordinatePosition};
use geo::{
    Closest, ConcaveHull, Coord, CrossTrackDistance, Distance, Haversine, HaversineClosestPoint, KNearestConcaveHull, Length, Line,
    LineString, LineStringSegmentize, LineStringSegmentizeHaversine, MultiLineString, MultiPoint, Point, Polygon,
};
use serde_json::{json, Value};
use std::f64::consts::PI;

// ------------------------------------------------------------------------------------------------ X07
const SEG_TOL_EXACT: f64 = 1e-12; // joints that are exactly known, first / last vertex, shared joints
const SEG_TOL_PATH: f64 = 1e-9; // piece vertices on the original path
const SEG_TOL_REL: f64 = 1e-9; // piece lengths

fn d(a: Coord<f64>, b: Coord<f64>) -> f64 {
    (a.x - b.x).hypot(a.y - b.y)
}
fn near(a: Coord<f64>, b: Coord<f64>, tol: f64) -> bool {
    (a.x - b.x).abs() <= tol && (a.y - b.y).abs() <= tol
}
fn mls_json(m: &MultiLineString<f64>) -> Value {
    Value::Array(m.0.iter().map(|l| Value::Array(l.0.iter().map(|c| json!([c.x, c.y])).collect())).collect())
}

/// the curve visits `path` monotonically: every vertex of `curve` is matched (within tol) to a position on the path
/// that is not behind the position of the previous vertex; earliest admissible positions are taken (if any monotone
/// matching exists, the earliest one does)
fn walks_along(curve: &[Coord<f64>], path: &[Coord<f64>], tol: f64) -> Result<(), String> {
    if path.is_empty() {
        return if curve.is_empty() { Ok(()) } else { Err("vertices on an empty path".into()) };
    }
    let (mut e, mut t) = (0usize, 0.0f64); // current edge and parameter on it
    let edges = path.len().saturating_sub(1).max(1);
    'next: for (k, v) in curve.iter().enumerate() {
        for j in e..edges {
            let a = path[j];
            let b = if path.len() == 1 { path[0] } else { path[j + 1] };
            let lo = if j == e { t } else { 0.0 };
            let l2 = (b.x - a.x).powi(2) + (b.y - a.y).powi(2);
            let tp = if l2 == 0.0 { lo } else { (((v.x - a.x) * (b.x - a.x) + (v.y - a.y) * (b.y - a.y)) / l2).clamp(lo, 1.0) };
            let q = Coord { x: a.x + tp * (b.x - a.x), y: a.y + tp * (b.y - a.y) };
            if d(*v, q) <= tol {
                e = j;
                t = tp;
                continue 'next;
            }
        }
        return Err(format!("vertex {k} = ({}, {}) is not on the rest of the path", v.x, v.y));
    }
    Ok(())
}

/// `sub` occurs in `seq` in order (positions within tol)
fn in_order(sub: &[Coord<f64>], seq: &[Coord<f64>], tol: f64) -> bool {
    let mut it = seq.iter();
    sub.iter().all(|s| it.any(|c| near(*c, *s, tol)))
}

pub fn segmentize_case(cx: &mut Ctx, n: u64, case: &Value) {
    if !cx.wants("X07") {
        return;
    }
    let cs = coords(&case["cs"]);
    let ls = LineString::new(cs.clone());
    let nmax = case["nmax"].as_u64().unwrap() as usize;
    let zero = case["zero"].as_bool().unwrap();
    let intlen = case["intlen"].as_bool().unwrap();
    // inputs with a zero-length edge (a vertex repeated in place) are counted under their own names
    let rep = if case["repeats"].as_bool().unwrap() { "_repeated_vertex" } else { "" };
    // the only inexact ingredient: square roots of the exact squared edge lengths (correctly rounded)
    let total: f64 = if intlen { case["total"].as_f64().unwrap() } else { case["d2"].as_array().unwrap().iter().map(|v| v.as_f64().unwrap().sqrt()).sum() };
    if n % 2999 == 0 {
        cx.sample(case.clone());
    }
    cx.count("segmentize_cases", 1);
    cx.count(if zero { "segmentize_zero_length_inputs" } else if intlen { "segmentize_integer_length_inputs" } else { "segmentize_irrational_length_inputs" }, 1);
    if intlen && case["d2"].as_array().unwrap().iter().any(|v| v.as_u64() == Some(25) ) && cs.windows(2).any(|w| w[0].x != w[1].x && w[0].y != w[1].y) {
        cx.count("segmentize_inputs_with_345_edges", 1);
    }
    for k in 0..=nmax {
        // ---- Euclidean
        let got = guard(|| ls.line_segmentize(k));
        let bad = |cx: &mut Ctx, sub: &str, why: String, got: &Result<Option<MultiLineString<f64>>, String>| {
            let g = match got { Ok(Some(m)) => mls_json(m), Ok(None) => json!("None"), Err(e) => json!(format!("panic: {e}")) };
            cx.bad("X07", sub, case, json!({"what": format!("LineString({:?}).line_segmentize({k})", cs.iter().map(|c| (c.x, c.y)).collect::<Vec<_>>()), "n": k, "why": why, "got": g}));
        };
        if k == 0 {
            match &got { Ok(None) => cx.ok("none_for_zero_pieces"), _ => bad(cx, "none_for_zero_pieces", "segment_count = 0 must give None".into(), &got) }
        } else if zero {
            // no length to distribute: None ("a point cannot be interpolated") or k pieces all at the one vertex
            let fine = match &got {
                Ok(None) => true,
                Ok(Some(m)) => m.0.len() == k && m.0.iter().all(|p| p.0.iter().all(|c| !cs.is_empty() && *c == cs[0]) && (cs.is_empty() || !p.0.is_empty())),
                Err(_) => false,
            };
            if fine { cx.ok("zero_length_input") } else { bad(cx, "zero_length_input", format!("a curve without length: expected None or {k} pieces at its only point"), &got) }
        } else {
            match &got {
                Ok(Some(m)) => {
                    let want_len = total / k as f64;
                    if m.0.len() == k { cx.ok(&format!("piece_count{rep}")) } else { bad(cx, &format!("piece_count{rep}"), format!("{} pieces instead of {k}", m.0.len()), &got) }
                    // chaining
                    let chained = !m.0.is_empty() && m.0.iter().all(|p| p.0.len() >= 2)
                        && near(m.0[0].0[0], cs[0], SEG_TOL_EXACT)
                        && near(*m.0[m.0.len() - 1].0.last().unwrap(), *cs.last().unwrap(), SEG_TOL_EXACT)
                        && m.0.windows(2).all(|w| near(*w[0].0.last().unwrap(), w[1].0[0], SEG_TOL_EXACT));
                    if chained { cx.ok(&format!("pieces_chain_from_first_to_last_vertex{rep}")) } else { bad(cx, &format!("pieces_chain_from_first_to_last_vertex{rep}"), "a piece has < 2 vertices, or does not start where the previous ends, or the ends are not the input's".into(), &got) }
                    // the concatenation (joints once)
                    let mut curve: Vec<Coord<f64>> = vec![];
                    for p in &m.0 {
                        for (i, c) in p.0.iter().enumerate() {
                            if i == 0 && curve.last().map_or(false, |l| near(*l, *c, SEG_TOL_EXACT)) { continue; }
                            curve.push(*c);
                        }
                    }
                    if in_order(&cs, &curve, SEG_TOL_EXACT) { cx.ok(&format!("input_vertices_kept_in_order{rep}")) } else { bad(cx, &format!("input_vertices_kept_in_order{rep}"), "the input vertices are not a subsequence of the pieces' vertices".into(), &got) }
                    match walks_along(&curve, &cs, SEG_TOL_PATH) { Ok(()) => cx.ok(&format!("pieces_lie_on_the_path{rep}")), Err(e) => bad(cx, &format!("pieces_lie_on_the_path{rep}"), e, &got) }
                    let lens: Vec<f64> = m.0.iter().map(|p| p.0.windows(2).map(|w| d(w[0], w[1])).sum()).collect();
                    if lens.iter().all(|l| (l - want_len).abs() <= SEG_TOL_REL * want_len) { cx.ok(&format!("equal_piece_lengths{rep}")) } else { bad(cx, &format!("equal_piece_lengths{rep}"), format!("piece lengths {lens:?}, expected {want_len} each"), &got) }
                    let sum: f64 = lens.iter().sum();
                    if (sum - total).abs() <= SEG_TOL_REL * total { cx.ok(&format!("total_length_kept{rep}")) } else { bad(cx, &format!("total_length_kept{rep}"), format!("pieces add up to {sum}, the input is {total} long"), &got) }
                    if intlen && m.0.len() == k {
                        let js = case["joints"][k - 1].as_array().unwrap();
                        let exact = js.iter().enumerate().all(|(i, j)| {
                            let (x, y, dn) = (j[0].as_f64().unwrap(), j[1].as_f64().unwrap(), j[2].as_f64().unwrap());
                            let w = Coord { x: x / dn, y: y / dn };
                            near(*m.0[i].0.last().unwrap(), w, SEG_TOL_EXACT) && near(m.0[i + 1].0[0], w, SEG_TOL_EXACT)
                        });
                        cx.count("segmentize_exact_joints_compared", js.len() as u64);
                        if exact { cx.ok(&format!("exact_joints{rep}")) } else { bad(cx, &format!("exact_joints{rep}"), format!("joints differ from the exact ones {:?} (x, y, denominator)", case["joints"][k - 1]), &got) }
                    }
                    if k >= 2 { cx.count("segmentize_cut_calls", 1); }
                }
                _ => bad(cx, &format!("some_for_positive_length{rep}"), format!("a curve of length {total} and segment_count {k} > 0: expected Some"), &got),
            }
        }
        // ---- Haversine: the same vertices read as lon / lat degrees
        let goth = guard(|| ls.line_segmentize_haversine(k));
        let badh = |cx: &mut Ctx, sub: &str, why: String| {
            let g = match &goth { Ok(Some(m)) => mls_json(m), Ok(None) => json!("None"), Err(e) => json!(format!("panic: {e}")) };
            cx.bad("X07", sub, case, json!({"what": format!("LineString({:?}).line_segmentize_haversine({k})", cs.iter().map(|c| (c.x, c.y)).collect::<Vec<_>>()), "n": k, "why": why, "got": g}));
        };
        if k == 0 {
            match &goth { Ok(None) => cx.ok("hav_none_for_zero_pieces"), _ => badh(cx, "hav_none_for_zero_pieces", "segment_count = 0 must give None".into()) }
        } else if zero {
            let fine = match &goth {
                Ok(None) => true,
                Ok(Some(m)) => m.0.len() == k && m.0.iter().all(|p| p.0.iter().all(|c| !cs.is_empty() && *c == cs[0]) && (cs.is_empty() || !p.0.is_empty())),
                Err(_) => false,
            };
            if fine { cx.ok("hav_zero_length_input") } else { badh(cx, "hav_zero_length_input", format!("a curve without length: expected None or {k} pieces at its only point")) }
        } else {
            match &goth {
                Ok(Some(m)) => {
                    let htotal = Haversine.length(&ls);
                    let ok_count = m.0.len() == k;
                    let chained = !m.0.is_empty() && m.0.iter().all(|p| p.0.len() >= 2)
                        && near(m.0[0].0[0], cs[0], 1e-9) && near(*m.0[m.0.len() - 1].0.last().unwrap(), *cs.last().unwrap(), 1e-9)
                        && m.0.windows(2).all(|w| near(*w[0].0.last().unwrap(), w[1].0[0], 1e-9));
                    let lens: Vec<f64> = m.0.iter().map(|p| Haversine.length(p)).collect();
                    let equal = lens.iter().all(|l| (l - htotal / k as f64).abs() <= 1e-6 * htotal / k as f64);
                    if ok_count { cx.ok(&format!("hav_piece_count{rep}")) } else { badh(cx, &format!("hav_piece_count{rep}"), format!("{} pieces instead of {k}", m.0.len())) }
                    if chained { cx.ok(&format!("hav_pieces_chain{rep}")) } else { badh(cx, &format!("hav_pieces_chain{rep}"), "pieces do not chain from the first to the last input vertex".into()) }
                    if equal { cx.ok(&format!("hav_equal_piece_lengths{rep}")) } else { badh(cx, &format!("hav_equal_piece_lengths{rep}"), format!("piece lengths {lens:?} m, expected {} m each", htotal / k as f64)) }
                }
                _ => badh(cx, &format!("hav_some_for_positive_length{rep}"), format!("segment_count {k} > 0 on a curve with length: expected Some")),
            }
        }
    }
}

// ------------------------------------------------------------------------------------------------ X08
fn orient_i(a: Coord<f64>, b: Coord<f64>, c: Coord<f64>) -> i64 {
    let (ax, ay, bx, by, cx, cy) = (a.x as i64, a.y as i64, b.x as i64, b.y as i64, c.x as i64, c.y as i64);
    ((bx - ax) * (cy - ay) - (by - ay) * (cx - ax)).signum()
}
fn on_seg_i(p: Coord<f64>, a: Coord<f64>, b: Coord<f64>) -> bool {
    orient_i(a, b, p) == 0 && p.x >= a.x.min(b.x) && p.x <= a.x.max(b.x) && p.y >= a.y.min(b.y) && p.y <= a.y.max(b.y)
}
fn seg_meet_i(a: Coord<f64>, b: Coord<f64>, c: Coord<f64>, e: Coord<f64>) -> bool {
    let (o1, o2, o3, o4) = (orient_i(a, b, c), orient_i(a, b, e), orient_i(c, e, a), orient_i(c, e, b));
    (o1 * o2 < 0 && o3 * o4 < 0) || on_seg_i(c, a, b) || on_seg_i(e, a, b) || on_seg_i(a, c, e) || on_seg_i(b, c, e)
}
/// closed ring of lattice points: no repeated vertex, edges meet only at shared end points of neighbours (Lattice!SegSegMeet in i64)
fn simple_ring(r: &[Coord<f64>]) -> bool {
    let n = r.len() - 1;
    if n < 3 { return false; }
    for i in 0..n {
        for j in i + 1..n {
            if r[i] == r[j] { return false; }
            let adjacent = j == i + 1 || (i == 0 && j == n - 1);
            if adjacent {
                // neighbours share one vertex; they must not fold back onto each other
                let (p, q, s) = if j == i + 1 { (r[i], r[i + 1], r[j + 1]) } else { (r[j], r[0], r[1]) };
                if orient_i(p, q, s) == 0 && (on_seg_i(s, p, q) || on_seg_i(p, q, s)) { return false; }
            } else if seg_meet_i(r[i], r[i + 1], r[j], r[j + 1]) {
                return false;
            }
        }
    }
    true
}
/// the same closed ring up to its starting vertex and direction (the orientation of the result is not documented)
fn cyc_eq(got: &[Coord<f64>], want: &[Coord<f64>]) -> bool {
    if got.len() != want.len() || got.len() < 2 || got[0] != got[got.len() - 1] { return false; }
    let n = got.len() - 1;
    (0..n).any(|k| (0..n).all(|i| got[i] == want[(i + k) % n]) || (0..n).all(|i| got[i] == want[(k + n - i) % n]))
}
fn hull_orders(pts: &[Coord<f64>], n: u64, seed: u64) -> Vec<(&'static str, Vec<Coord<f64>>)> {
    let mut out = vec![("sorted", pts.to_vec())];
    if pts.len() < 2 { return out; }
    let mut r = pts.to_vec();
    r.reverse();
    out.push(("reversed", r));
    let mut sh = pts.to_vec();
    let mut x = n.wrapping_mul(6364136223846793005).wrapping_add(seed).wrapping_add(1442695040888963407);
    for i in (1..sh.len()).rev() {
        x = x.wrapping_mul(6364136223846793005).wrapping_add(1442695040888963407);
        sh.swap(i, (x >> 33) as usize % (i + 1));
    }
    out.push(("shuffled", sh.clone()));
    let mut dup: Vec<Coord<f64>> = sh.iter().flat_map(|c| [*c, *c]).collect();
    dup.push(pts[0]);
    out.push(("with duplicates", dup));
    out
}

pub fn chull_case(cx: &mut Ctx, n: u64, case: &Value) {
    if !cx.wants("X08") {
        return;
    }
    let pts = coords(&case["pts"]);
    let collinear = case["collinear"].as_bool().unwrap();
    let ring = coords(&case["ring"]);
    let extreme = coords(&case["extreme"]);
    let inner = coords(&case["inner"]);
    if n % 997 == 0 {
        cx.sample(case.clone());
    }
    cx.count(if collinear { "chull_degenerate_sets" } else if inner.is_empty() { "chull_sets_without_inner_points" } else { "chull_sets_with_inner_points" }, 1);
    // one judgement for every returned polygon
    let judge = |cx: &mut Ctx, pfx: &str, what: String, input: &[Coord<f64>], got: Result<Polygon<f64>, String>, want_convex: bool| {
        let inp: Vec<[f64; 2]> = input.iter().map(|c| [c.x, c.y]).collect();
        let bad = |cx: &mut Ctx, sub: &str, why: &str, g: String| cx.bad("X08", &format!("{pfx}_{sub}"), case, json!({"what": what, "input": inp, "why": why, "got": g}));
        let poly = match got {
            Ok(p) => p,
            Err(e) => { bad(cx, "no_panic", "panicked", format!("panic: {e}")); return; }
        };
        cx.ok(&format!("{pfx}_no_panic"));
        let ext = &poly.exterior().0;
        let g = format!("{:?}", ext.iter().map(|c| (c.x, c.y)).collect::<Vec<_>>());
        if ext.iter().all(|c| pts.contains(c)) && poly.interiors().is_empty() { cx.ok(&format!("{pfx}_vertices_are_input_points")) } else { bad(cx, "vertices_are_input_points", "a vertex is not an input point (or there are holes)", g.clone()) }
        if extreme.iter().all(|c| ext.contains(c)) { cx.ok(&format!("{pfx}_keeps_convex_hull_vertices")) } else { bad(cx, "keeps_convex_hull_vertices", "an extreme point of the input is not a vertex: the polygon cannot cover it", g.clone()) }
        if pts.is_empty() {
            if ext.is_empty() { cx.ok(&format!("{pfx}_empty_for_empty")) } else { bad(cx, "empty_for_empty", "vertices from nowhere", g.clone()) }
            return;
        }
        if ext.len() >= 2 && ext[0] == ext[ext.len() - 1] { cx.ok(&format!("{pfx}_closed")) } else { bad(cx, "closed", "exterior not closed", g.clone()) }
        if collinear {
            return; // fewer than three non-collinear points: there is no polygon to speak of
        }
        // consecutive repeats of a vertex (duplicated input points) do not change the ring as a curve
        let mut ext = ext.clone();
        ext.dedup();
        let ext = &ext;
        if ext.len() >= 4 && ext[0] == ext[ext.len() - 1] && simple_ring(ext) { cx.ok(&format!("{pfx}_simple_ring")) } else { bad(cx, "simple_ring", "the exterior repeats a vertex or crosses / touches itself", g.clone()); return; }
        // simple lattice ring: point location is exact (orient2d on small integers)
        let out: Vec<(f64, f64)> = pts.iter().filter(|p| poly.coordinate_position(p) == CoordPos::Outside).map(|p| (p.x, p.y)).collect();
        if out.is_empty() { cx.ok(&format!("{pfx}_covers_every_input_point")) } else { bad(cx, "covers_every_input_point", &format!("input points outside the polygon: {out:?}"), g.clone()) }
        if want_convex {
            if cyc_eq(ext, &ring) { cx.ok(&format!("{pfx}_convex_hull_when_k_ge_n")) } else { bad(cx, "convex_hull_when_k_ge_n", &format!("k >= number of input points: the convex hull {:?} is documented", case["ring"]), g.clone()) }
        }
        if ext.len() - 1 > extreme.len() { cx.count(&format!("{pfx}_results_with_non_extreme_vertices"), 1); }
    };
    for (oname, v) in hull_orders(&pts, n, cx.seed) {
        // multisets (every point at least twice) are counted under their own names
        let (concave, knearest) = if oname == "with duplicates" { ("concave_duplicated_points", "knearest_duplicated_points") } else { ("concave", "knearest") };
        for concavity in [0.5, 1.0, 2.0, 4.0] {
            let mp = MultiPoint::new(v.iter().map(|c| Point(*c)).collect());
            judge(cx, concave, format!("MultiPoint::concave_hull({concavity}), {oname}"), &v, guard(|| mp.concave_hull(concavity)), false);
            let l = LineString::new(v.clone());
            judge(cx, concave, format!("LineString::concave_hull({concavity}), {oname}"), &v, guard(|| l.concave_hull(concavity)), false);
        }
        for k in [1u32, 3, 4, 5, 7, 13] {
            // "If K is equal or larger than the number of input points, the convex hull will be produced"
            let convex = k as usize >= v.len() && !collinear;
            judge(cx, knearest, format!("Vec<Coord>::k_nearest_concave_hull({k}), {oname}"), &v, guard(|| v.k_nearest_concave_hull(k)), convex);
            let mp = MultiPoint::new(v.iter().map(|c| Point(*c)).collect());
            judge(cx, knearest, format!("MultiPoint::k_nearest_concave_hull({k}), {oname}"), &v, guard(|| mp.k_nearest_concave_hull(k)), convex);
            if k == 3 {
                let vp: Vec<Point<f64>> = v.iter().map(|c| Point(*c)).collect();
                judge(cx, knearest, format!("[Point]::k_nearest_concave_hull({k}), {oname}"), &v, guard(|| vp[..].k_nearest_concave_hull(k)), convex);
                judge(cx, knearest, format!("[Coord]::k_nearest_concave_hull({k}), {oname}"), &v, guard(|| v[..].k_nearest_concave_hull(k)), convex);
            }
        }
    }
}

// ------------------------------------------------------------------------------------------------ X09
const XT_TOL_ABS: f64 = 1e-6; // metres
const XT_TOL_REL: f64 = 1e-9;

fn qd_point(v: &Value) -> Point<f64> {
    Point::new(v[0].as_f64().unwrap() / 4.0, v[1].as_f64().unwrap() / 4.0)
}
fn unit(p: Point<f64>) -> [f64; 3] {
    let (l, f) = (p.x().to_radians(), p.y().to_radians());
    [f.cos() * l.cos(), f.cos() * l.sin(), f.sin()]
}
/// great-circle distance in metres, from the unit vectors (well conditioned everywhere); only used to compare positions
fn sphere_m(p: Point<f64>, q: Point<f64>) -> f64 {
    let (a, b) = (unit(p), unit(q));
    let c = [a[1] * b[2] - a[2] * b[1], a[2] * b[0] - a[0] * b[2], a[0] * b[1] - a[1] * b[0]];
    let (s, dt) = ((c[0] * c[0] + c[1] * c[1] + c[2] * c[2]).sqrt(), a[0] * b[0] + a[1] * b[1] + a[2] * b[2]);
    MEAN_R * s.atan2(dt)
}

pub fn xtrack_case(cx: &mut Ctx, n: u64, case: &Value) {
    if !cx.wants("X09") {
        return;
    }
    let (a, b, m, p) = (qd_point(&case["a"]), qd_point(&case["b"]), qd_point(&case["m"]), qd_point(&case["p"]));
    let unit_m = PI * MEAN_R / 720.0; // metres per quarter degree
    let s = case["s"].as_f64().unwrap();
    let xtd = case["xtd"].as_f64().unwrap() * unit_m;
    let any = case["any"].as_bool().unwrap();
    let inside = case["inside"].as_bool().unwrap();
    let kind = case["kind"].as_str().unwrap();
    let feet: Vec<Point<f64>> = case["feet"].as_array().unwrap().iter().map(qd_point).collect();
    let along = case["along"].as_f64().unwrap() * unit_m;
    let dist = case["dist"].as_f64().unwrap();
    if n % 4999 == 0 {
        cx.sample(case.clone());
    }
    cx.count("xtrack_cases", 1);
    let desc = format!("P = ({}, {}), A = ({}, {}), B = ({}, {})", p.x(), p.y(), a.x(), a.y(), b.x(), b.y());
    // ---- cross-track distance to the great circle through A and B
    let mut xt_got = None;
    if s > 0.0 {
        for (sub, what, got) in [("cross_track_distance", "P.cross_track_distance(A, B)", guard(|| p.cross_track_distance(&a, &b))),
                                 ("cross_track_distance_swapped", "P.cross_track_distance(B, A)", guard(|| p.cross_track_distance(&b, &a)))] {
            let sub = if xtd == 0.0 { format!("{sub}_on_the_circle") } else { sub.to_string() };
            match got {
                Ok(g) if (g - xtd).abs() <= XT_TOL_ABS + XT_TOL_REL * xtd => { cx.ok(&sub); if what.ends_with("(A, B)") { xt_got = Some(g); } }
                other => cx.bad("X09", &sub, case, json!({"what": format!("{what}: {desc}"), "got": format!("{other:?}"), "want_m": xtd})),
            }
        }
    }
    // ---- closest point of the arc A -> B (as a Line, and as LineStrings A B / A M B with M the arc's middle)
    let geoms: Vec<(&str, Box<dyn Fn() -> Closest<f64>>)> = vec![
        ("Line(A, B)", Box::new(move || Line::new(a.0, b.0).haversine_closest_point(&p))),
        ("LineString(A, B)", Box::new(move || LineString::new(vec![a.0, b.0]).haversine_closest_point(&p))),
        ("LineString(A, M, B)", Box::new(move || LineString::new(vec![a.0, m.0, b.0]).haversine_closest_point(&p))),
    ];
    for (gname, f) in geoms {
        let got = guard(|| f());
        let what = format!("{gname}.haversine_closest_point(P): {desc}");
        let pfx = format!("{}{}", if gname.starts_with("Line(") { "line" } else { "linestring" },
                          match case["arc"].as_str().unwrap() { "plain" => "", "to_pole" => "_to_pole", _ => "_over_pole" });
        let pfx = pfx.as_str();
        let pt = match &got {
            Ok(Closest::Intersection(q)) => Some((true, *q)),
            Ok(Closest::SinglePoint(q)) => Some((false, *q)),
            _ => None,
        };
        let Some((is_int, q)) = pt else {
            cx.bad("X09", &format!("{pfx}_closest_is_a_point"), case, json!({"what": what, "got": format!("{got:?}"), "want": "a closest point exists"}));
            continue;
        };
        cx.ok(&format!("{pfx}_closest_is_a_point"));
        // position
        let tol = XT_TOL_ABS + XT_TOL_REL * (along + if dist >= 0.0 { dist * unit_m } else { MEAN_R });
        if any {
            // P is a pole of the circle: every point of the arc is a quarter turn away; the answer must be on the arc
            let on_arc = (sphere_m(a, q) + sphere_m(q, b) - s * unit_m).abs() <= tol;
            if on_arc { cx.ok(&format!("{pfx}_closest_equidistant")) } else { cx.bad("X09", &format!("{pfx}_closest_equidistant"), case, json!({"what": what, "got": format!("{got:?}"), "want": "any point of the arc (all are a quarter turn from P)"})) }
        } else {
            let hit = feet.iter().any(|f| sphere_m(*f, q) <= tol);
            let sub = format!("{pfx}_closest_{}", if inside { if along == 0.0 { "foot_at_start" } else if along == s * unit_m { "foot_at_end" } else { "foot_inside" } } else if feet.len() == 2 { "end_tie" } else { "end" });
            if hit { cx.ok(&sub) } else { cx.bad("X09", &sub, case, json!({"what": what, "got": format!("{got:?}"), "want_one_of": feet.iter().map(|f| [f.x(), f.y()]).collect::<Vec<_>>(), "off_by_m": feet.iter().map(|f| sphere_m(*f, q)).collect::<Vec<_>>()})) }
        }
        // Intersection exactly when P lies on the arc
        let spelled = case["spelled"].as_bool().unwrap();
        let sub = format!("{pfx}_{}", if kind == "intersection" { if spelled { "intersection_when_on_arc" } else { "intersection_when_on_arc_other_spelling" } } else { "single_point_when_off_arc" });
        if is_int == (kind == "intersection") { cx.ok(&sub) } else { cx.bad("X09", &sub, case, json!({"what": what, "got": format!("{got:?}"), "want": kind})) }
        // distance to the returned point
        if dist >= 0.0 && !q.x().is_nan() && !q.y().is_nan() {
            let (want, dg) = (dist * unit_m, Haversine.distance(p, q));
            if (dg - want).abs() <= XT_TOL_ABS + XT_TOL_REL * want { cx.ok(&format!("{pfx}_closest_distance")) } else { cx.bad("X09", &format!("{pfx}_closest_distance"), case, json!({"what": format!("Haversine.distance(P, closest) for {what}"), "got": dg, "want_m": want})) }
            if inside && s > 0.0 {
                if let Some(x) = xt_got {
                    if (dg - x).abs() <= XT_TOL_ABS + XT_TOL_REL * want { cx.ok(&format!("{pfx}_distance_is_cross_track")) } else { cx.bad("X09", &format!("{pfx}_distance_is_cross_track"), case, json!({"what": what, "distance_to_closest": dg, "cross_track_distance": x})) }
                }
            }
        }
    }
}

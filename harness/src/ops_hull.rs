//! C08: replay of Gen_Hull cases.
use crate::ctx::{guard, Ctx};
use crate::gj::{coords, exact_maps};
use geo::algorithm::convex_hull::{graham_hull, quick_hull};
use geo::{Area, ConvexHull, Coord, LineString, MinimumRotatedRect, MultiPoint, Point, Polygon};
use serde_json::{json, Value};

fn cycle_eq<T: PartialEq + Copy>(got: &[Coord<T>], want: &[Coord<T>]) -> bool
where
    Coord<T>: PartialEq,
    T: geo::CoordNum,
{
    // both closed rings; compare as cycles in the same direction
    if got.len() != want.len() || got.len() < 2 || got[0] != got[got.len() - 1] {
        return false;
    }
    let n = got.len() - 1;
    (0..n).any(|k| (0..n).all(|i| got[i] == want[(i + k) % n]))
}

fn orders(pts: &[Coord<f64>], n: u64, seed: u64) -> Vec<(String, Vec<Coord<f64>>)> {
    let mut out = vec![("sorted".to_string(), pts.to_vec())];
    let mut r = pts.to_vec();
    r.reverse();
    out.push(("reversed".into(), r));
    let k = ((n + seed) as usize) % pts.len();
    let mut rot = pts.to_vec();
    rot.rotate_left(k);
    out.push((format!("rotated {k}"), rot.clone()));
    // deterministic shuffle
    let mut sh = pts.to_vec();
    let mut x = n.wrapping_mul(6364136223846793005).wrapping_add(seed).wrapping_add(1442695040888963407);
    for i in (1..sh.len()).rev() {
        x = x.wrapping_mul(6364136223846793005).wrapping_add(1442695040888963407);
        sh.swap(i, (x >> 33) as usize % (i + 1));
    }
    out.push(("shuffled".into(), sh.clone()));
    // duplicates: every point twice, and the first point three times at the end
    let mut dup: Vec<Coord<f64>> = sh.iter().flat_map(|c| [*c, *c]).collect();
    dup.push(pts[0]);
    out.push(("with duplicates".into(), dup));
    out
}

pub fn hull_case(cx: &mut Ctx, n: u64, case: &Value) {
    if !cx.wants("C08") {
        return;
    }
    let pts = coords(&case["pts"]);
    let degenerate = case["degenerate"].as_bool().unwrap();
    if n % 1013 == 0 {
        cx.sample(case.clone());
    }
    cx.count(if degenerate { "hull_degenerate_cases" } else { "hull_cases" }, 1);
    if degenerate {
        // fewer than three non-collinear points: the property demands nothing but an answer
        for (name, v) in orders(&pts, n, cx.seed) {
            let r = guard(|| (quick_hull(&mut v.clone()), graham_hull(&mut v.clone(), false), MultiPoint::new(v.iter().map(|c| Point(*c)).collect()).minimum_rotated_rect()));
            if r.is_ok() { cx.ok("degenerate_no_panic"); } else { cx.bad("C08", "degenerate_no_panic", case, json!({"what": name, "got": format!("{r:?}")})); }
        }
        return;
    }
    let ring = coords(&case["ring"]);
    let maps = exact_maps();
    let id = crate::gj::ExactMap { name: "identity", m: [1.0, 0.0, 0.0, 0.0, 1.0, 0.0], axis: true };
    let mut todo: Vec<&crate::gj::ExactMap> = vec![&id];
    for k in 0..2usize {
        todo.push(&maps[(n as usize + cx.seed as usize + 3 * k) % maps.len()]);
    }
    // "large coordinates where the farthest-point selection is subject to rounding": exact translations / scalings that
    // put the lattice next to 2^50 (ulp 1/4), 2^52 (ulp 1) and at 1e8 with steps of 2^-24 (51 significant bits)
    let p2 = |k: i32| 2f64.powi(k);
    let large = [
        crate::gj::ExactMap { name: "tr_2p50", m: [1.0, 0.0, p2(50), 0.0, 1.0, -p2(50)], axis: true },
        crate::gj::ExactMap { name: "tr_2p52", m: [1.0, 0.0, -p2(52), 0.0, 1.0, p2(52)], axis: true },
        crate::gj::ExactMap { name: "fine_1e8", m: [p2(-24), 0.0, 1.0e8, 0.0, p2(-24), 1.0e8], axis: true },
        crate::gj::ExactMap { name: "tr_2p50_mixed", m: [1.0, 0.0, p2(50), 0.0, 1.0, 3.0], axis: true },
    ];
    for m in &large {
        todo.push(m);
    }
    for m in todo {
        let mut want: Vec<Coord<f64>> = ring.iter().map(|c| m.apply(*c)).collect();
        if m.det() < 0.0 {
            want.reverse();
        }
        let sfx = if m.name == "identity" { "" } else { "_exact_map" };
        for (name, v0) in orders(&pts, n, cx.seed) {
            let v: Vec<Coord<f64>> = v0.iter().map(|c| m.apply(*c)).collect();
            let what = format!("{name}, map {}", m.name);
            let mut chk = |sub: &str, algo: &str, got: Result<LineString<f64>, String>| match got {
                Ok(l) if cycle_eq(&l.0, &want) => cx.ok(&format!("{sub}{sfx}")),
                other => cx.bad("C08", &format!("{sub}{sfx}"), case, json!({"what": format!("{algo}: {what}"), "input": v.iter().map(|c| [c.x, c.y]).collect::<Vec<_>>(), "got": format!("{other:?}"), "want": want.iter().map(|c| [c.x, c.y]).collect::<Vec<_>>()})),
            };
            chk("quick_hull", "quick_hull", guard(|| quick_hull(&mut v.clone())));
            chk("graham_hull", "graham_hull(false)", guard(|| graham_hull(&mut v.clone(), false)));
            chk("convex_hull", "MultiPoint::convex_hull", guard(|| MultiPoint::new(v.iter().map(|c| Point(*c)).collect()).convex_hull().exterior().clone()));
            chk("convex_hull", "LineString::convex_hull", guard(|| LineString::new(v.clone()).convex_hull().exterior().clone()));
            chk("convex_hull", "Polygon::convex_hull", guard(|| Polygon::new(LineString::new(v.clone()), vec![]).convex_hull().exterior().clone()));
        }
    }
    // f32 scalar type (lattice coordinates are exact in f32; the robust kernel is selected for every float type)
    {
        let wf: Vec<Coord<f32>> = ring.iter().map(|c| Coord { x: c.x as f32, y: c.y as f32 }).collect();
        for (name, v0) in orders(&pts, n, cx.seed) {
            let v: Vec<Coord<f32>> = v0.iter().map(|c| Coord { x: c.x as f32, y: c.y as f32 }).collect();
            for (algo, got) in [("quick_hull<f32>", guard(|| quick_hull(&mut v.clone()))), ("graham_hull<f32>", guard(|| graham_hull(&mut v.clone(), false))),
                                ("MultiPoint<f32>::convex_hull", guard(|| MultiPoint::new(v.iter().map(|c| Point(*c)).collect()).convex_hull().exterior().clone())),
                                ("LineString<f32>::convex_hull", guard(|| LineString::new(v.clone()).convex_hull().exterior().clone()))] {
                match got {
                    Ok(l) if cycle_eq(&l.0, &wf) => cx.ok("hull_f32"),
                    other => cx.bad("C08", "hull_f32", case, json!({"what": format!("{algo}: {name}"), "got": format!("{other:?}")})),
                }
            }
        }
    }
    // integer scalar type
    let wi: Vec<Coord<i64>> = ring.iter().map(|c| Coord { x: (c.x as i64 - 1) * 1000, y: (c.y as i64 - 2) * 1000 }).collect();
    for (name, v0) in orders(&pts, n, cx.seed) {
        let v: Vec<Coord<i64>> = v0.iter().map(|c| Coord { x: (c.x as i64 - 1) * 1000, y: (c.y as i64 - 2) * 1000 }).collect();
        for (algo, got) in [("quick_hull<i64>", guard(|| quick_hull(&mut v.clone()))), ("graham_hull<i64>", guard(|| graham_hull(&mut v.clone(), false)))] {
            match got {
                Ok(l) if cycle_eq(&l.0, &wi) => cx.ok("hull_i64"),
                other => cx.bad("C08", "hull_i64", case, json!({"what": format!("{algo}: {name}"), "got": format!("{other:?}")})),
            }
        }
    }
    // minimum rotated rectangle: contains every input coordinate, area = exact minimum <= bbox area
    let want_area = case["mrr"][0].as_f64().unwrap() / case["mrr"][1].as_f64().unwrap();
    let bbox = case["bbox2"].as_f64().unwrap();
    let mp = MultiPoint::new(pts.iter().map(|c| Point(*c)).collect());
    match guard(|| mp.minimum_rotated_rect()) {
        Ok(Some(r)) => {
            let a = r.unsigned_area();
            let e = &r.exterior().0;
            let sgn = if r.signed_area() >= 0.0 { 1.0 } else { -1.0 };
            let contains_all = pts.iter().all(|p| (0..e.len() - 1).all(|i| {
                let (s, t) = (e[i], e[i + 1]);
                sgn * ((t.x - s.x) * (p.y - s.y) - (t.y - s.y) * (p.x - s.x)) >= -1e-9 * 16.0
            }));
            if contains_all && e.len() == 5 { cx.ok("mrr_contains_input"); } else { cx.bad("C08", "mrr_contains_input", case, json!({"got": format!("{r:?}")})); }
            if a <= bbox + 1e-9 * bbox.max(1.0) { cx.ok("mrr_not_larger_than_bbox"); } else { cx.bad("C08", "mrr_not_larger_than_bbox", case, json!({"got": a, "bbox": bbox})); }
            if (a - want_area).abs() <= 1e-9 * want_area.max(1.0) { cx.ok("mrr_area_is_minimum"); } else { cx.bad("C08", "mrr_area_is_minimum", case, json!({"got": a, "want": want_area})); }
        }
        other => cx.bad("C08", "mrr_contains_input", case, json!({"got": format!("{other:?}")})),
    }
}

/// C08 on large inputs: record the rings returned for seeded random lattice multisets; Trace_Hull.tla judges them.
pub fn record(w: &mut dyn std::io::Write, seed: u64, n_events: usize) {
    use rand::{rngs::StdRng, seq::SliceRandom, Rng, SeedableRng};
    let mut rng = StdRng::seed_from_u64(seed ^ 0xC08);
    for k in 0..n_events {
        crate::ctx::beat(&format!("{{\"record\": \"c08\", \"seed\": {seed}, \"event\": {k}}}"));
        let n = if k % 97 == 13 { [1030usize, 2060, 4100, 520][(k / 97) % 4] }      // a few large sets (size-gated code paths)
                else { match k % 4 { 0 => rng.gen_range(8..20), 1 => rng.gen_range(20..60), 2 => rng.gen_range(60..400), _ => rng.gen_range(3..8) } };
        let span = if n > 500 { 300 } else { match k % 3 { 0 => 6, 1 => 20, _ => 60 } };          // small spans: many duplicates and collinear runs
        let style = k % 5;
        let mut pts: Vec<Coord<f64>> = (0..n).map(|_| {
            let (x, y) = match style {
                0 | 1 => (rng.gen_range(0..=span), rng.gen_range(0..=span)),
                2 => { let t = rng.gen_range(0..=span); (t, if rng.gen_bool(0.5) { 0 } else { span }) }                        // two parallel runs
                3 => { let x = rng.gen_range(0..=span); (x, rng.gen_range(0..=span - x)) }                                  // lattice triangle
                _ => { let t = rng.gen_range(0..=span); (t, t) }                                                          // all collinear
            };
            Coord { x: x as f64, y: y as f64 }
        }).collect();
        pts.shuffle(&mut rng);
        // some inputs arrive as a closed ring that turns left at every vertex but winds around twice (every second point of a
        // large circle): locally convex, not a convex ring
        if k % 53 == 29 {
            let m = [41usize, 67, 101][(k / 53) % 3];
            let circle: Vec<Coord<f64>> = (0..m).map(|i| { let t = 2.0 * std::f64::consts::PI * i as f64 / m as f64; Coord { x: (10000.0 * t.cos()).round(), y: (10000.0 * t.sin()).round() } }).collect();
            pts = (0..=m).map(|i| circle[(2 * i) % m]).collect();
        }
        let ints = |v: &[Coord<f64>]| -> Value { Value::Array(v.iter().map(|c| json!([c.x as i64, c.y as i64])).collect()) };
        let r = guard(|| {
            let q = quick_hull(&mut pts.clone());
            let g = graham_hull(&mut pts.clone(), false);
            let c = MultiPoint::new(pts.iter().map(|c| Point(*c)).collect()).convex_hull().exterior().clone();
            let l = LineString::new(pts.clone()).convex_hull().exterior().clone();
            let qi = quick_hull(&mut pts.iter().map(|c| Coord { x: c.x as i64, y: c.y as i64 }).collect::<Vec<_>>());
            (q, g, c, l, qi)
        });
        let ev = match r {
            Ok((q, g, c, l, qi)) => json!({"pts": ints(&pts), "collinear": style == 4, "st": "ok", "rings": [
                {"f": "quick_hull", "h": ints(&q.0)}, {"f": "graham_hull", "h": ints(&g.0)}, {"f": "MultiPoint::convex_hull", "h": ints(&c.0)},
                {"f": "LineString::convex_hull", "h": ints(&l.0)}, {"f": "quick_hull<i64>", "h": Value::Array(qi.0.iter().map(|c| json!([c.x, c.y])).collect())}]}),
            Err(e) => json!({"pts": ints(&pts), "collinear": style == 4, "st": format!("panic: {e}"), "rings": []}),
        };
        writeln!(w, "{ev}").unwrap();
    }
    w.flush().unwrap();
}

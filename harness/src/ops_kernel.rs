//! C03 (and the perturbed classification part of C11): replay of Gen_Kernel cases.
use crate::ctx::{guard, Ctx};
use geo::algorithm::kernels::{Kernel, Orientation, RobustKernel, SimpleKernel};
use geo::algorithm::winding_order::{Winding, WindingOrder};
use geo::coordinate_position::{coord_pos_relative_to_ring, CoordPos, CoordinatePosition};
use geo::line_intersection::{line_intersection, LineIntersection};
use geo::{Coord, Intersects, Line, LineString, Polygon, Triangle};
use serde_json::{json, Value};

const U: f64 = 3.552713678800501e-15; // 2^-48 = one ulp in [16, 32)
const V: f64 = 1.1102230246251565e-16; // 2^-53 = one ulp in [0.5, 1)
/// Placement of the abstract universe in f64.  Mode 0: every base coordinate x0 -> 16 + x0 (one
/// binade, u = 2^-48).  Mode 1 (only c perturbed): x0 -> 0.5 + 6 (x0 - c0), so the perturbed point
/// sits at (0.5, 0.5) with u = 2^-53 while the other points are 6..24 units away - coordinates of
/// different magnitude, whose differences are not representable.
#[derive(Clone, Copy)]
struct Place { mode: u8, scale: f64, cx: f64, cy: f64 }
impl Place {
    fn base(&self, x0: f64, is_y: bool) -> f64 {
        match self.mode {
            0 => 16.0 + x0,
            1 => 0.5 + 6.0 * (x0 - if is_y { self.cy } else { self.cx }),
            // Mode 2: long edges with non-integer coordinates.  x0 -> A + 1048573 x0 (an odd 20-bit factor, so that edge vectors have many significant bits) with A = 70.8486328125 (x) / 302.5009765625 (y):
            // lattice edges become ~10^6 long, perturbations are multiples of 2^-30 (one ulp at 2^22).  All values are
            // representable (<= 52 significant bits); the products of the naive determinant need ~75 bits, so its rounding
            // error (~2^-7) exceeds the true determinant of a few 2^-9 - the regime where unguarded arithmetic gives a
            // wrong, non-zero sign.
            _ => (if is_y { 302.5009765625 } else { 70.8486328125 }) + 1048573.0 * x0,
        }
    }
    fn unit(&self) -> f64 { match self.mode { 0 => U, 1 => V, _ => 9.313225746154785e-10 } }
    fn pp(&self, v: &Value) -> Coord<f64> {
        let f = |w: &Value, is_y: bool| (self.base(w[0].as_f64().unwrap(), is_y) + w[1].as_f64().unwrap() * self.unit()) * self.scale;
        Coord { x: f(&v[0], false), y: f(&v[1], true) }
    }
    fn lat(&self, v: &Value) -> Coord<f64> {
        Coord { x: self.base(v[0].as_f64().unwrap(), false) * self.scale, y: self.base(v[1].as_f64().unwrap(), true) * self.scale }
    }
}
fn sign_of(o: Orientation) -> i64 {
    match o { Orientation::CounterClockwise => 1, Orientation::Clockwise => -1, Orientation::Collinear => 0 }
}
fn pos_char(p: CoordPos) -> &'static str {
    match p { CoordPos::Inside => "I", CoordPos::OnBoundary => "B", CoordPos::Outside => "E" }
}

pub fn kernel_case(cx: &mut Ctx, n: u64, case: &Value) {
    let want3 = cx.wants("C03");
    let want11 = cx.wants("C11");
    if !(want3 || want11) {
        return;
    }
    debug_assert!(U == 2f64.powi(-48));
    if n % 20011 == 0 {
        cx.sample(case.clone());
    }
    let scales = [1.0, 2f64.powi(30), 2f64.powi(-40)];
    let scale = scales[((n + cx.seed) % 3) as usize];
    let b_unperturbed = case["b"][0][1] == 0 && case["b"][1][1] == 0;
    kernel_placed(cx, case, Place { mode: 0, scale, cx: 0.0, cy: 0.0 }, want3, want11);
    kernel_placed(cx, case, Place { mode: 2, scale: if scale == 1.0 { 1.0 } else if scale > 1.0 { 2f64.powi(20) } else { scale }, cx: 0.0, cy: 0.0 }, want3, want11);
    if b_unperturbed {
        let pl = Place { mode: 1, scale, cx: case["c"][0][0].as_f64().unwrap(), cy: case["c"][1][0].as_f64().unwrap() };
        kernel_placed(cx, case, pl, want3, want11);
    }
}

fn kernel_placed(cx: &mut Ctx, case: &Value, pl: Place, want3: bool, want11: bool) {
    let scale = pl.scale;
    let (a, b, c) = (pl.pp(&case["a"]), pl.pp(&case["b"]), pl.pp(&case["c"]));
    let so = case["orient"].as_i64().unwrap();
    let mid = case["mid"].as_bool().unwrap();
    cx.count(&format!("kernel_orient_{so}"), 1);
    if want3 {
        let got = sign_of(RobustKernel::orient2d(a, b, c));
        if got == so { cx.ok("orient2d_robust"); } else { cx.bad("C03", "orient2d_robust", case, json!({"what": format!("scale {scale} placement {}", pl.mode), "got": got, "want": so})); }
        // all argument rotations / swaps
        let g2 = sign_of(RobustKernel::orient2d(b, c, a));
        let g3 = sign_of(RobustKernel::orient2d(b, a, c));
        if g2 == so && g3 == -so { cx.ok("orient2d_symmetries"); } else { cx.bad("C03", "orient2d_symmetries", case, json!({"got": [g2, g3], "want": [so, -so]})); }
        let on = case["on_seg"].as_bool().unwrap();
        let got = Line::new(a, b).intersects(&c);
        if got == on { cx.ok("point_on_segment"); } else { cx.bad("C03", "point_on_segment", case, json!({"what": "Line(a,b).intersects(coord c)", "got": got, "want": on})); }
        // winding order of the ring a, b, c
        let ring = LineString::new(vec![a, b, c, a]);
        let want = match so { 1 => Some(WindingOrder::CounterClockwise), -1 => Some(WindingOrder::Clockwise), _ => None };
        let got = ring.winding_order();
        if got == want { cx.ok("winding_order"); } else { cx.bad("C03", "winding_order", case, json!({"got": format!("{got:?}"), "want": format!("{want:?}")})); }
        // the same ring written with a repeated vertex, starting elsewhere
        for (k, r) in [vec![a, a, b, c, a], vec![b, b, c, a, b], vec![c, c, a, b, c], vec![b, c, c, a, a, b]].into_iter().enumerate() {
            let got = LineString::new(r).winding_order();
            if got == want { cx.ok("winding_order_repeated_vertex"); } else { cx.bad("C03", "winding_order_repeated_vertex", case, json!({"what": format!("form {k}"), "got": format!("{got:?}"), "want": format!("{want:?}")})); }
        }
        if mid {
            let apex = pl.lat(&case["apex"]);
            let want = case["tri_pos"].as_str().unwrap();
            let ring = LineString::new(vec![a, b, apex, a]);
            let got = pos_char(coord_pos_relative_to_ring(c, &ring));
            if got == want { cx.ok("point_in_ring"); } else { cx.bad("C03", "point_in_ring", case, json!({"what": format!("coord_pos_relative_to_ring, placement {} scale {scale}", pl.mode), "got": got, "want": want})); }
            let rring = LineString::new(vec![a, apex, b, a]);
            let got = pos_char(coord_pos_relative_to_ring(c, &rring));
            if got == want { cx.ok("point_in_ring"); } else { cx.bad("C03", "point_in_ring", case, json!({"what": "coord_pos_relative_to_ring (cw ring)", "got": got, "want": want})); }
            let got = pos_char(Polygon::new(ring.clone(), vec![]).coordinate_position(&c));
            if got == want { cx.ok("point_in_polygon"); } else { cx.bad("C03", "point_in_polygon", case, json!({"got": got, "want": want})); }
            let tri = Triangle::new(a, b, apex);
            let got = pos_char(tri.coordinate_position(&c));
            if got == want { cx.ok("point_in_triangle"); } else { cx.bad("C03", "point_in_triangle", case, json!({"what": "Triangle::coordinate_position", "got": got, "want": want})); }
            let got = tri.intersects(&c);
            if got == (want != "E") { cx.ok("point_in_triangle"); } else { cx.bad("C03", "point_in_triangle", case, json!({"what": "Triangle::intersects(coord)", "got": got, "want": want != "E"})); }
            // the same triangle stored in the other vertex orders (the tuple constructor and From keep the order given: clockwise too)
            for (tn, t) in [("Triangle(a, apex, b)", Triangle(a, apex, b)), ("Triangle(b, a, apex)", Triangle(b, a, apex)), ("Triangle::from([apex, a, b])", Triangle::from([apex, a, b]))] {
                use geo::Contains;
                let got = (pos_char(t.coordinate_position(&c)), t.intersects(&c), t.contains(&c));
                if got == (want, want != "E", want == "I") { cx.ok("point_in_triangle_any_order"); } else {
                    cx.bad("C03", "point_in_triangle_any_order", case, json!({"what": format!("{tn}: coordinate_position / intersects / contains"), "got": format!("{got:?}"), "want": want}));
                }
            }
            let d = pl.lat(&case["d"]);
            let meets = case["seg_meets"].as_bool().unwrap();
            let got = Line::new(a, b).intersects(&Line::new(c, d));
            let got2 = Line::new(d, c).intersects(&Line::new(b, a));
            if got == meets && got2 == meets { cx.ok("segment_intersects"); } else { cx.bad("C03", "segment_intersects", case, json!({"got": [got, got2], "want": meets})); }
        }
    }
    if want11 && mid {
        let d = pl.lat(&case["d"]);
        let meets = case["seg_meets"].as_bool().unwrap();
        let proper = case["seg_proper"].as_bool().unwrap();
        // the true crossing is within a few ulps (times a bounded factor) of c
        let near_c = |i: &Coord<f64>| (i.x - c.x).abs() <= 1e-9 * 64.0 * scale && (i.y - c.y).abs() <= 1e-9 * 64.0 * scale;
        for (p, q, what) in [(Line::new(a, b), Line::new(c, d), "(ab, cd)"), (Line::new(c, d), Line::new(a, b), "(cd, ab)"), (Line::new(b, a), Line::new(d, c), "(ba, dc)"), (Line::new(d, c), Line::new(b, a), "(dc, ba)")] {
            let got = guard(|| line_intersection(p, q));
            let ok = match &got {
                Ok(None) => !meets,
                Ok(Some(LineIntersection::SinglePoint { intersection, is_proper })) => {
                    meets && *is_proper == proper && (if proper { near_c(intersection) } else { intersection.x.to_bits() == c.x.to_bits() && intersection.y.to_bits() == c.y.to_bits() })
                }
                _ => false,
            };
            if ok { cx.ok("line_intersection_perturbed"); } else {
                cx.bad("C11", "line_intersection_perturbed", case, json!({"what": format!("{what} scale {scale}"), "got": format!("{got:?}"), "want_meets": meets, "want_proper": proper}));
            }
        }
    }
}

/// integer kernels and huge exact lattice scalings on Gen_Segments cases (fields o1, o2)
pub fn lattice_orient(cx: &mut Ctx, case: &Value) {
    let g = |k: &str| (case[k][0].as_i64().unwrap(), case[k][1].as_i64().unwrap());
    let (a, b, c, d) = (g("a"), g("b"), g("c"), g("d"));
    for (q, key) in [(c, "o1"), (d, "o2")] {
        let want = case[key].as_i64().unwrap();
        let s52 = 2f64.powi(52);
        let f = |p: (i64, i64), s: f64| Coord { x: p.0 as f64 * s, y: p.1 as f64 * s };
        let got = sign_of(RobustKernel::orient2d(f(a, s52), f(b, s52), f(q, s52)));
        if got == want { cx.ok("orient2d_lattice_2p52"); } else { cx.bad("C03", "orient2d_lattice_2p52", case, json!({"got": got, "want": want})); }
        let got = sign_of(RobustKernel::orient2d(f(a, 2f64.powi(-500)), f(b, 2f64.powi(-500)), f(q, 2f64.powi(-500))));
        if got == want { cx.ok("orient2d_lattice_2m500"); } else { cx.bad("C03", "orient2d_lattice_2m500", case, json!({"got": got, "want": want})); }
        let i = |p: (i64, i64)| Coord { x: (p.0 - 2) << 28, y: (p.1 - 1) << 28 };
        let got = sign_of(SimpleKernel::orient2d(i(a), i(b), i(q)));
        if got == want { cx.ok("orient2d_i64"); } else { cx.bad("C03", "orient2d_i64", case, json!({"got": got, "want": want})); }
        let j = |p: (i64, i64)| Coord { x: ((p.0 - 2) << 12) as i32, y: ((p.1 - 1) << 12) as i32 };
        let got = sign_of(SimpleKernel::orient2d(j(a), j(b), j(q)));
        if got == want { cx.ok("orient2d_i32"); } else { cx.bad("C03", "orient2d_i32", case, json!({"got": got, "want": want})); }
    }
    // winding order of the triangle a b q written with extra collinear vertices (edge midpoints) and with zeros of MIXED sign
    // (0.0 == -0.0: the same points; an ordering that separates the two zeros picks another "least" vertex)
    for (q, key) in [(c, "o1"), (d, "o2")] {
        let want = case[key].as_i64().unwrap();
        if want == 0 || a == b {
            continue;
        }
        let f = |p: (i64, i64)| Coord { x: p.0 as f64, y: p.1 as f64 };
        let mid = |p: (i64, i64), r: (i64, i64)| Coord { x: (p.0 + r.0) as f64 / 2.0, y: (p.1 + r.1) as f64 / 2.0 };
        let base = vec![f(a), mid(a, b), f(b), mid(b, q), f(q), mid(q, a), f(a)];
        let want_wo = Some(if want == 1 { WindingOrder::CounterClockwise } else { WindingOrder::Clockwise });
        for parity in 0..3usize {
            let ring: Vec<Coord<f64>> = base.iter().enumerate().map(|(i, c)| if parity < 2 && i % 2 == parity {
                Coord { x: if c.x == 0.0 { -0.0 } else { c.x }, y: if c.y == 0.0 { -0.0 } else { c.y } } } else { *c }).collect();
            let ls = LineString::new(ring);
            let got = ls.winding_order();
            if got == want_wo && ls.is_ccw() == (want == 1) && ls.is_cw() == (want == -1) { cx.ok("winding_order_signed_zeros"); } else {
                cx.bad("C03", "winding_order_signed_zeros", case, json!({"what": format!("triangle a b {key} with edge midpoints, zeros at positions of parity {parity} negative"),
                    "ring": ls.0.iter().map(|c| format!("{:?} {:?}", c.x, c.y)).collect::<Vec<_>>(), "got": format!("{got:?}"), "want": format!("{want_wo:?}")}));
            }
        }
    }
    // the f32 kernel on triples that mix magnitudes: q = (k, k) and r = (3, 3) on the main diagonal, p = t (2, 1) or t (1, 2) with
    // t tiny: (r - q) x (p - q) = (3 - k) t (p.y - p.x) / t ... its sign is that of p.y - p.x whatever t is (structural, no
    // arithmetic): clockwise for (2, 1), counter-clockwise for (1, 2); likewise mirrored through the origin
    static F32_MIXED_DONE: std::sync::atomic::AtomicBool = std::sync::atomic::AtomicBool::new(false);
    if !F32_MIXED_DONE.swap(true, std::sync::atomic::Ordering::SeqCst) {
        for t in [1e-20f32, 1e-30, 2f32.powi(-100), 2f32.powi(-140), 1e-3, 1.0] {
            for (px, py, want) in [(2.0f32, 1.0f32, -1i64), (1.0, 2.0, 1), (-2.0, -1.0, 1), (-1.0, -2.0, -1)] {
                for k in [1.0f32, 2.0, -5.0] {
                    let (p, q, r) = (Coord { x: px * t, y: py * t }, Coord { x: k, y: k }, Coord { x: 3.0f32, y: 3.0 });
                    let got = [sign_of(RobustKernel::orient2d(q, r, p)), sign_of(RobustKernel::orient2d(r, p, q)), sign_of(RobustKernel::orient2d(p, q, r)), -sign_of(RobustKernel::orient2d(r, q, p))];
                    let w = if k > 3.0 { -want } else { want };
                    if got == [w; 4] { cx.ok("orient2d_f32_mixed_magnitudes"); } else {
                        cx.bad("C03", "orient2d_f32_mixed_magnitudes", case, json!({"what": format!("f32: p = {t:e} * ({px}, {py}), q = ({k}, {k}), r = (3, 3)"), "got": got, "want": w}));
                    }
                    let on = Line::new(q, r).intersects(&p);
                    if !on { cx.ok("orient2d_f32_mixed_magnitudes"); } else { cx.bad("C03", "orient2d_f32_mixed_magnitudes", case, json!({"what": format!("f32: Line(q, r).intersects(p), p = {t:e} * ({px}, {py})"), "got": on})); }
                }
            }
        }
    }
    // dot_product_sign on vectors whose products cancel to the last bit: u = (1 + a 2^-52, 1), v = (1 - b 2^-53, -1), a, b small:
    // u . v = (2 a - b) 2^-53 - a b 2^-105, so its sign is that of the integer (2 a - b) 2^52 - a b (exact in i128)
    static DOT_DONE: std::sync::atomic::AtomicBool = std::sync::atomic::AtomicBool::new(false);
    if !DOT_DONE.swap(true, std::sync::atomic::Ordering::SeqCst) {
        for a_ in 0..6i128 {
            for b_ in 0..12i128 {
                let exact = (2 * a_ - b_) * (1i128 << 52) - a_ * b_;
                let want = if exact > 0 { 1 } else if exact < 0 { -1 } else { 0 };
                let u = Coord { x: 1.0 + a_ as f64 * 2f64.powi(-52), y: 1.0 };
                let v = Coord { x: 1.0 - b_ as f64 * 2f64.powi(-53), y: -1.0 };
                for (s, what) in [(1.0f64, "as is"), (2f64.powi(30), "scaled by 2^30"), (2f64.powi(-200), "scaled by 2^-200")] {
                    let (us, vs) = (Coord { x: u.x * s, y: u.y * s }, Coord { x: v.x * s, y: v.y * s });
                    let got = [sign_of(RobustKernel::dot_product_sign(us, vs)), sign_of(RobustKernel::dot_product_sign(vs, us)),
                               -sign_of(RobustKernel::dot_product_sign(us, Coord { x: -vs.x, y: -vs.y }))];
                    if got == [want; 3] { cx.ok("dot_product_sign_cancelling"); } else {
                        cx.bad("C03", "dot_product_sign_cancelling", case, json!({"what": format!("u = (1 + {a_} 2^-52, 1), v = (1 - {b_} 2^-53, -1) {what}: (u, v) (v, u) -(u, -v)"), "got": got, "want": want}));
                    }
                }
            }
        }
    }
    // the two other kernel helpers: sign of a dot product (robust) and the squared distance
    {
        let want = case["dots"].as_i64().unwrap();
        for s in [1.0f64, 2f64.powi(52), 2f64.powi(-500)] {
            let f = |p: (i64, i64)| Coord { x: p.0 as f64 * s, y: p.1 as f64 * s };
            let (u, v) = (f((b.0 - a.0, b.1 - a.1)), f((d.0 - c.0, d.1 - c.1)));
            let got = sign_of(RobustKernel::dot_product_sign(u, v));
            if got == want { cx.ok("dot_product_sign"); } else { cx.bad("C03", "dot_product_sign", case, json!({"scale": s, "got": got, "want": want})); }
        }
        let fi = |p: (i64, i64)| Coord { x: p.0 as f64, y: p.1 as f64 };
        let got = RobustKernel::square_euclidean_distance(fi(a), fi(c));
        let ii = |p: (i64, i64)| Coord { x: p.0 << 20, y: p.1 << 20 };
        let goti = SimpleKernel::square_euclidean_distance(ii(a), ii(c));
        let w = case["d2ac"].as_i64().unwrap();
        if got == w as f64 && goti == w << 40 { cx.ok("square_euclidean_distance"); } else { cx.bad("C03", "square_euclidean_distance", case, json!({"got": [got, goti as f64], "want": w})); }
    }
    // integer segment intersects agrees with the lattice relation
    let i = |p: (i64, i64)| Coord { x: (p.0 - 2) << 20, y: (p.1 - 1) << 20 };
    let got = Line::new(i(a), i(b)).intersects(&Line::new(i(c), i(d)));
    let want = case["rel"]["kind"] != "none";
    if got == want { cx.ok("segment_intersects_i64"); } else { cx.bad("C03", "segment_intersects_i64", case, json!({"got": got, "want": want})); }
}

/// Gen_Cassini cases: a = (0,0), b = (F(n+1), F(n)), c = (F(m+1), F(m)); exact orientation known from d'Ocagne's identity.
/// Coordinates have up to 31 significant bits, so every input below is exactly representable; the determinant is a small
/// integer (times the square of the scale) although its two products are ~2^60.
pub fn kernel_fib_case(cx: &mut Ctx, n: u64, case: &Value) {
    if !cx.wants("C03") {
        return;
    }
    let g = |k: &str| (case[k][0].as_f64().unwrap(), case[k][1].as_f64().unwrap());
    let (b0, c0) = (g("b"), g("c"));
    let so = case["orient"].as_i64().unwrap();
    if n % 37 == 0 {
        cx.sample(case.clone());
    }
    cx.count("kernel_fib_cases", 1);
    kernel_fib_i64(cx, case, b0, c0, so);
    // exact images: scalings by powers of two, the eight symmetries of the square, small integer translations
    let d4: [(f64, f64, f64, f64, i64); 8] = [(1.0, 0.0, 0.0, 1.0, 1), (0.0, -1.0, 1.0, 0.0, 1), (-1.0, 0.0, 0.0, -1.0, 1), (0.0, 1.0, -1.0, 0.0, 1),
                                              (-1.0, 0.0, 0.0, 1.0, -1), (1.0, 0.0, 0.0, -1.0, -1), (0.0, 1.0, 1.0, 0.0, -1), (0.0, -1.0, -1.0, 0.0, -1)];
    for (si, scale) in [1.0f64, 2f64.powi(-20), 2f64.powi(-31), 2f64.powi(12), 2f64.powi(-200)].iter().enumerate() {
        for (di, (m0, m1, m2, m3, dsign)) in d4.iter().enumerate() {
            if (di + si + n as usize) % 3 != 0 && di != 0 {
                continue;
            }
            let t = if si == 0 && di % 2 == 0 { (3.0, -5.0) } else { (0.0, 0.0) };
            let f = |p: (f64, f64)| Coord { x: (m0 * p.0 + m1 * p.1 + t.0) * scale, y: (m2 * p.0 + m3 * p.1 + t.1) * scale };
            let (a, b, c) = (f((0.0, 0.0)), f(b0), f(c0));
            let want = so * dsign;
            let what = format!("scale 2^{} symmetry {di}", scale.log2());
            let got = sign_of(RobustKernel::orient2d(a, b, c));
            if got == want { cx.ok("fib_orient2d"); } else { cx.bad("C03", "fib_orient2d", case, json!({"what": what, "got": got, "want": want})); }
            let got = sign_of(RobustKernel::orient2d(c, a, b));
            if got == want { cx.ok("fib_orient2d"); } else { cx.bad("C03", "fib_orient2d", case, json!({"what": format!("{what} rotated arguments"), "got": got, "want": want})); }
            // ring a -> b -> apex -> a with the apex on the left of a b (b turned by a quarter turn about a): c is inside iff it is left of a b
            // (the image of the apex that is on the left of a b in the original frame: c is inside iff it was left of a b there)
            let apex = f((-b0.1, b0.0));
            let ring = LineString::new(vec![a, b, apex, a]);
            let want_pos = if so == 1 { "I" } else { "E" };
            for (rw, r) in [("ccw", ring.clone()), ("cw", LineString::new(vec![a, apex, b, a])), ("rotated", LineString::new(vec![b, apex, a, b]))] {
                let got = pos_char(coord_pos_relative_to_ring(c, &r));
                if got == want_pos { cx.ok("fib_point_in_ring"); } else { cx.bad("C03", "fib_point_in_ring", case, json!({"what": format!("{what} ring {rw}"), "got": got, "want": want_pos})); }
            }
            let got = pos_char(Polygon::new(ring.clone(), vec![]).coordinate_position(&c));
            if got == want_pos { cx.ok("fib_point_in_polygon"); } else { cx.bad("C03", "fib_point_in_polygon", case, json!({"what": what, "got": got, "want": want_pos})); }
            let tri = Triangle::new(a, b, apex);
            let got = pos_char(tri.coordinate_position(&c));
            if got == want_pos { cx.ok("fib_point_in_triangle"); } else { cx.bad("C03", "fib_point_in_triangle", case, json!({"what": what, "got": got, "want": want_pos})); }
            let got = Line::new(a, b).intersects(&c);
            if !got { cx.ok("fib_point_on_segment"); } else { cx.bad("C03", "fib_point_on_segment", case, json!({"what": what, "got": got, "want": false})); }
            let wo = LineString::new(vec![a, b, c, a]).winding_order();
            let want_wo = if want == 1 { Some(WindingOrder::CounterClockwise) } else { Some(WindingOrder::Clockwise) };
            if wo == want_wo { cx.ok("fib_winding_order"); } else { cx.bad("C03", "fib_winding_order", case, json!({"what": what, "got": format!("{wo:?}"), "want": format!("{want_wo:?}")})); }
            // the segment from c to the apex side / away from it: meets a b iff c is on the far side
            let inner = f((-b0.1 / 2.0, b0.0 / 2.0));        // a point well inside the triangle (coordinates halved: exact)
            let meets = Line::new(a, b).intersects(&Line::new(c, inner));
            if meets == (want_pos == "E") { cx.ok("fib_segment_intersects"); } else { cx.bad("C03", "fib_segment_intersects", case, json!({"what": what, "got": meets, "want": want_pos == "E"})); }
        }
    }
}

/// Fibonacci triples through the INTEGER kernel: coordinates below 2^31, so both products of the determinant fit i64 (but not
/// the 53-bit significand of f64): the exact sign is required (C03: "for the integer coordinate types the same holds whenever the
/// intermediate products fit the type").
fn kernel_fib_i64(cx: &mut Ctx, case: &Value, b0: (f64, f64), c0: (f64, f64), so: i64) {
    let lim = 2f64.powi(31);
    if [b0.0, b0.1, c0.0, c0.1].iter().any(|v| v.abs() >= lim || v.fract() != 0.0) {
        cx.count("kernel_fib_i64_skipped", 1);
        return;
    }
    cx.count("kernel_fib_i64_cases", 1);
    for (t, what) in [((0i64, 0i64), "a at the origin"), ((3, -5), "translated by (3, -5)"), ((-1_000_000, 999_999), "translated by (-10^6, 10^6 - 1)")] {
        let i = |p: (f64, f64)| Coord { x: p.0 as i64 + t.0, y: p.1 as i64 + t.1 };
        let (a, b, c) = (i((0.0, 0.0)), i(b0), i(c0));
        let got = [sign_of(SimpleKernel::orient2d(a, b, c)), sign_of(SimpleKernel::orient2d(c, a, b)), -sign_of(SimpleKernel::orient2d(b, a, c))];
        if got == [so, so, so] { cx.ok("fib_orient2d_i64"); } else { cx.bad("C03", "fib_orient2d_i64", case, json!({"what": what, "got": got, "want": so})); }
        let on = guard(|| Line::new(a, b).intersects(&c));
        if on == Ok(false) { cx.ok("fib_point_on_segment_i64"); } else { cx.bad("C03", "fib_point_on_segment_i64", case, json!({"what": what, "got": format!("{on:?}"), "want": false})); }
        let wo = guard(|| LineString::new(vec![a, b, c, a]).winding_order());
        let want_wo = if so == 1 { Some(WindingOrder::CounterClockwise) } else { Some(WindingOrder::Clockwise) };
        if wo == Ok(want_wo) { cx.ok("fib_winding_order_i64"); } else { cx.bad("C03", "fib_winding_order_i64", case, json!({"what": what, "got": format!("{wo:?}"), "want": format!("{want_wo:?}")})); }
        // c against the triangle a, b, apex (apex = b turned by a quarter turn about a, on the left of a b): inside iff left of a b
        if [b0.0, b0.1, c0.0, c0.1].iter().any(|v| v.abs() >= 2f64.powi(29)) {
            continue;       // the ring test multiplies differences with the apex: keep every product inside i64
        }
        let apex = Coord { x: a.x - (b.y - a.y), y: a.y + (b.x - a.x) };
        let want_pos = if so == 1 { "I" } else { "E" };
        let pos = guard(|| pos_char(coord_pos_relative_to_ring(c, &LineString::new(vec![a, b, apex, a]))));
        if pos.as_deref() == Ok(want_pos) { cx.ok("fib_point_in_ring_i64"); } else { cx.bad("C03", "fib_point_in_ring_i64", case, json!({"what": what, "got": format!("{pos:?}"), "want": want_pos})); }
    }
}

/// Gen_Orient cases: coordinates given as limbs (base 2^13, least significant first) and a binary exponent; every value has
/// at most 53 significant bits, so the sum below is exact.  The exact orientation comes from BigInt.tla.
pub fn kernel_big_case(cx: &mut Ctx, n: u64, case: &Value) {
    if cx.wants("C05") && !cx.wants("C03") {
        return winding_big_case(cx, case);
    }
    if !cx.wants("C03") {
        return;
    }
    let num = |k: &str, e: &str| -> f64 {
        let limbs: Vec<f64> = case[k].as_array().unwrap().iter().map(|v| v.as_f64().unwrap()).collect();
        let mut v = 0.0f64;
        for l in limbs.iter().rev() {
            v = v * 8192.0 + l;          // exact: every prefix has fewer significant bits than the whole
        }
        v * 2f64.powi(case[e].as_i64().unwrap() as i32)
    };
    let (a0, b0, c0) = ((num("ax", "aexp"), num("ay", "aexp")), (num("bx", "bexp"), num("by", "bexp")), (num("cx", "cexp"), num("cy", "cexp")));
    let so = case["orient"].as_i64().unwrap();
    if n % 499 == 0 {
        cx.sample(case.clone());
    }
    cx.count("kernel_big_cases", 1);
    cx.count(&format!("kernel_big_orient_{so}"), 1);
    let d4: [(f64, f64, f64, f64, i64); 4] = [(1.0, 0.0, 0.0, 1.0, 1), (0.0, -1.0, 1.0, 0.0, 1), (-1.0, 0.0, 0.0, 1.0, -1), (0.0, 1.0, 1.0, 0.0, -1)];
    for (si, scale) in [1.0f64, 2f64.powi(40), 2f64.powi(-300)].iter().enumerate() {
        let (m0, m1, m2, m3, dsign) = d4[(n as usize + si) % 4];
        let f = |p: (f64, f64)| Coord { x: (m0 * p.0 + m1 * p.1) * scale, y: (m2 * p.0 + m3 * p.1) * scale };
        let (a, b, c) = (f(a0), f(b0), f(c0));
        let want = so * dsign;
        let what = format!("scale 2^{} symmetry {}", scale.log2(), (n as usize + si) % 4);
        for (args, got) in [("(a,b,c)", sign_of(RobustKernel::orient2d(a, b, c))), ("(b,c,a)", sign_of(RobustKernel::orient2d(b, c, a))), ("(c,b,a)", -sign_of(RobustKernel::orient2d(c, b, a)))] {
            if got == want { cx.ok("big_orient2d"); } else { cx.bad("C03", "big_orient2d", case, json!({"what": format!("{what} {args}"), "got": got, "want": want})); }
        }
        // triangle a, b, apex with the apex a quarter turn of b about the origin (a is within 64 units of the origin, b ~ 2^29 away):
        // c is next to the middle of the edge a b, so it is inside iff strictly left of a b in the original frame
        let apex = f((-b0.1, b0.0));
        let want_pos = match so { 1 => "I", 0 => "B", _ => "E" };
        for (rw, r) in [("ccw", LineString::new(vec![a, b, apex, a])), ("cw", LineString::new(vec![a, apex, b, a])), ("rotated", LineString::new(vec![apex, a, b, apex]))] {
            let got = pos_char(coord_pos_relative_to_ring(c, &r));
            if got == want_pos { cx.ok("big_point_in_ring"); } else { cx.bad("C03", "big_point_in_ring", case, json!({"what": format!("{what} ring {rw}"), "got": got, "want": want_pos})); }
        }
        let got = pos_char(Polygon::new(LineString::new(vec![a, b, apex, a]), vec![]).coordinate_position(&c));
        if got == want_pos { cx.ok("big_point_in_polygon"); } else { cx.bad("C03", "big_point_in_polygon", case, json!({"what": what, "got": got, "want": want_pos})); }
        let got = pos_char(Triangle::new(a, b, apex).coordinate_position(&c));
        if got == want_pos { cx.ok("big_point_in_triangle"); } else { cx.bad("C03", "big_point_in_triangle", case, json!({"what": what, "got": got, "want": want_pos})); }
        let got = Line::new(a, b).intersects(&c);
        if got == (so == 0) { cx.ok("big_point_on_segment"); } else { cx.bad("C03", "big_point_on_segment", case, json!({"what": what, "got": got, "want": so == 0})); }
        let wo = LineString::new(vec![a, b, c, a]).winding_order();
        let want_wo = match want { 1 => Some(WindingOrder::CounterClockwise), -1 => Some(WindingOrder::Clockwise), _ => None };
        if wo == want_wo { cx.ok("big_winding_order"); } else { cx.bad("C03", "big_winding_order", case, json!({"what": what, "got": format!("{wo:?}"), "want": format!("{want_wo:?}")})); }
        // a segment from c to a point well inside the triangle meets the edge a b iff c is not strictly inside
        let inner = f((-b0.1 / 4.0, b0.0 / 4.0));
        let meets = Line::new(a, b).intersects(&Line::new(c, inner));
        if meets == (so != 1) { cx.ok("big_segment_intersects"); } else { cx.bad("C03", "big_segment_intersects", case, json!({"what": what, "got": meets, "want": so != 1})); }
    }
}

/// C05 on the Gen_Orient triples: the thin ring a, b, c, a (generic 53-bit mantissas, a very sharp corner at its
/// lexicographically least vertex) has the winding order given by the exact sign, and orient() turns it accordingly.
fn winding_big_case(cx: &mut Ctx, case: &Value) {
    use geo::orient::{Direction, Orient};
    let num = |k: &str, e: &str| -> f64 {
        let mut v = 0.0f64;
        for l in case[k].as_array().unwrap().iter().rev() {
            v = v * 8192.0 + l.as_f64().unwrap();
        }
        v * 2f64.powi(case[e].as_i64().unwrap() as i32)
    };
    let (a, b, c) = (Coord { x: num("ax", "aexp"), y: num("ay", "aexp") }, Coord { x: num("bx", "bexp"), y: num("by", "bexp") }, Coord { x: num("cx", "cexp"), y: num("cy", "cexp") });
    let so = case["orient"].as_i64().unwrap();
    cx.count("winding_big_cases", 1);
    if so == 0 {
        return;
    }
    let want = if so == 1 { WindingOrder::CounterClockwise } else { WindingOrder::Clockwise };
    for (what, ring) in [("a b c a", vec![a, b, c, a]), ("b c a b", vec![b, c, a, b]), ("c a b c", vec![c, a, b, c])] {
        let ls = LineString::new(ring);
        let got = ls.winding_order();
        if got == Some(want) && ls.is_ccw() == (so == 1) && ls.is_cw() == (so == -1) { cx.ok("winding_order_thin_ring"); } else {
            cx.bad("C05", "winding_order_thin_ring", case, json!({"what": what, "got": format!("{got:?}"), "want": format!("{want:?}")}));
        }
        let rev = LineString::new(ls.0.iter().rev().cloned().collect());
        let gotr = rev.winding_order();
        let wantr = if so == 1 { WindingOrder::Clockwise } else { WindingOrder::CounterClockwise };
        if gotr == Some(wantr) { cx.ok("winding_order_thin_ring"); } else {
            cx.bad("C05", "winding_order_thin_ring", case, json!({"what": format!("{what} reversed"), "got": format!("{gotr:?}"), "want": format!("{wantr:?}")}));
        }
        // orient: exterior counter-clockwise by default
        let o = Polygon::new(ls.clone(), vec![]).orient(Direction::Default);
        let keeps = o.exterior().0 == ls.0;
        if keeps == (so == 1) { cx.ok("orient_thin_ring"); } else {
            cx.bad("C05", "orient_thin_ring", case, json!({"what": what, "kept_as_is": keeps, "ring_is_ccw": so == 1}));
        }
    }
}

/// Gen_OrientPinned cases: adversarial triples (limbs + one exponent per point) on which the plain determinant is confidently
/// wrong; the exact sign comes from BigInt.tla.  Every argument order, exact power-of-two scalings and the symmetries of the square.
pub fn kernel_pinned_case(cx: &mut Ctx, n: u64, case: &Value) {
    if !cx.wants("C03") {
        return;
    }
    let num = |k: &str, e: &str| -> f64 {
        let mut v = 0.0f64;
        for l in case[k].as_array().unwrap().iter().rev() {
            v = v * 8192.0 + l.as_f64().unwrap();
        }
        v * 2f64.powi(case[e].as_i64().unwrap() as i32)
    };
    let (a0, b0, c0) = ((num("ax", "aexp"), num("ay", "aexp")), (num("bx", "bexp"), num("by", "bexp")), (num("cx", "cexp"), num("cy", "cexp")));
    let so = case["orient"].as_i64().unwrap();
    cx.count("kernel_pinned_cases", 1);
    cx.count(&format!("kernel_pinned_band_{}", case["band"]), 1);
    if n % 97 == 0 {
        cx.sample(case.clone());
    }
    let d4: [(f64, f64, f64, f64, i64); 4] = [(1.0, 0.0, 0.0, 1.0, 1), (0.0, -1.0, 1.0, 0.0, 1), (-1.0, 0.0, 0.0, 1.0, -1), (0.0, 1.0, 1.0, 0.0, -1)];
    for (si, scale) in [1.0f64, 2f64.powi(40), 2f64.powi(-300)].iter().enumerate() {
        for (di, (m0, m1, m2, m3, dsign)) in d4.iter().enumerate() {
            if si > 0 && di != (n as usize + si) % 4 { continue; }
            let f = |p: (f64, f64)| Coord { x: (m0 * p.0 + m1 * p.1) * scale, y: (m2 * p.0 + m3 * p.1) * scale };
            let (a, b, c) = (f(a0), f(b0), f(c0));
            let want = so * dsign;
            let got = [sign_of(RobustKernel::orient2d(a, b, c)), sign_of(RobustKernel::orient2d(b, c, a)), sign_of(RobustKernel::orient2d(c, a, b)),
                       -sign_of(RobustKernel::orient2d(b, a, c)), -sign_of(RobustKernel::orient2d(a, c, b)), -sign_of(RobustKernel::orient2d(c, b, a))];
            if got == [want; 6] { cx.ok("pinned_orient2d"); } else { cx.bad("C03", "pinned_orient2d", case, json!({"what": format!("scale 2^{} symmetry {di}: (a,b,c) (b,c,a) (c,a,b) -(b,a,c) -(a,c,b) -(c,b,a)", scale.log2()), "got": got, "want": want})); }
            let on = [Line::new(a, b).intersects(&c), Line::new(b, c).intersects(&a), Line::new(c, a).intersects(&b)];
            if on == [false; 3] { cx.ok("pinned_point_on_segment"); } else { cx.bad("C03", "pinned_point_on_segment", case, json!({"what": "a point that is not exactly on the line reported on the segment", "got": on})); }
            let wo = LineString::new(vec![a, b, c, a]).winding_order();
            let want_wo = if want == 1 { Some(WindingOrder::CounterClockwise) } else { Some(WindingOrder::Clockwise) };
            if wo == want_wo { cx.ok("pinned_winding_order"); } else { cx.bad("C03", "pinned_winding_order", case, json!({"got": format!("{wo:?}"), "want": format!("{want_wo:?}")})); }
        }
    }
}

//! C15: replay of Gen_LineMeasure cases.
use crate::ctx::{guard, Ctx};
use crate::gj::coords;
#[allow(deprecated)]
use geo::{Coord, Densify, Euclidean, InterpolatableLine, Length, Line, LineInterpolatePoint, LineLocatePoint, LineString, Point, Polygon, Rect, Triangle};
use serde_json::{json, Value};

fn rat(v: &Value) -> f64 {
    v[0].as_f64().unwrap() / v[1].as_f64().unwrap()
}
fn rpt(v: &Value) -> Coord<f64> {
    Coord { x: rat(&v[0]), y: rat(&v[1]) }
}
fn close(p: Option<Point<f64>>, w: Coord<f64>, tol: f64) -> bool {
    matches!(p, Some(q) if (q.x() - w.x).abs() <= tol && (q.y() - w.y).abs() <= tol)
}

#[allow(deprecated)]
pub fn linemeasure_case(cx: &mut Ctx, n: u64, case: &Value) {
    if !cx.wants("C15") {
        return;
    }
    let cs = coords(&case["cs"]);
    let ls = LineString::new(cs.clone());
    let total = case["len"].as_f64().unwrap();
    let tol = 1e-12 * total.max(1.0);
    if n % 997 == 0 {
        cx.sample(json!({"op":"linemeasure","cs":case["cs"],"len":case["len"],"at":case["at"][2],"densify":case["densify"][1]}));
    }
    cx.count("linemeasure_cases", 1);
    let got_len = Euclidean.length(&ls);
    if (got_len - total).abs() <= tol { cx.ok("length"); } else { cx.bad("C15", "length", case, json!({"got": got_len, "want": total})); }
    {
        // the deprecated length trait, Length of the single segments, and InterpolatePoint between two points (distance and ratio forms agree)
        #[allow(deprecated)]
        let legacy = { use geo::EuclideanLength; ls.euclidean_length() };
        let by_lines: f64 = ls.lines().map(|l| Euclidean.length(&l)).sum();
        if (legacy - total).abs() <= tol && (by_lines - total).abs() <= tol { cx.ok("length_legacy_and_by_segment"); } else { cx.bad("C15", "length_legacy_and_by_segment", case, json!({"legacy": legacy, "by_lines": by_lines, "want": total})); }
        use geo::InterpolatePoint;
        let mut ok = true;
        let mut detail = String::new();
        for w in cs.windows(2) {
            let (p, q) = (Point(w[0]), Point(w[1]));
            let d = ((w[1].x - w[0].x).powi(2) + (w[1].y - w[0].y).powi(2)).sqrt();
            for k in 0..=4 {
                let r = k as f64 / 4.0;
                let a = Euclidean.point_at_ratio_between(p, q, r);
                let b = Euclidean.point_at_distance_between(p, q, r * d);
                let want = Coord { x: w[0].x + (w[1].x - w[0].x) * r, y: w[0].y + (w[1].y - w[0].y) * r };
                if d > 0.0 && !((a.x() - want.x).abs() <= tol && (a.y() - want.y).abs() <= tol && (b.x() - want.x).abs() <= tol && (b.y() - want.y).abs() <= tol) {
                    ok = false;
                    detail = format!("segment {:?} ratio {r}: ratio form {a:?}, distance form {b:?}, want {want:?}", w);
                }
            }
        }
        if ok { cx.ok("point_between_two_points"); } else { cx.bad("C15", "point_between_two_points", case, json!({"detail": detail})); }
    }
    for at in case["at"].as_array().unwrap() {
        let r = rat(&at["r"]);
        let (ws, we) = (rpt(&at["from_start"]), rpt(&at["from_end"]));
        let mut chk = |sub: &str, what: String, got: Result<Option<Point<f64>>, String>, want: Coord<f64>| match got {
            Ok(p) if close(p, want, tol) => cx.ok(sub),
            other => cx.bad("C15", sub, case, json!({"what": what, "got": format!("{other:?}"), "want": [want.x, want.y]})),
        };
        chk("ratio_from_start", format!("point_at_ratio_from_start({r})"), guard(|| ls.point_at_ratio_from_start(&Euclidean, r)), ws);
        chk("ratio_from_end", format!("point_at_ratio_from_end({r})"), guard(|| ls.point_at_ratio_from_end(&Euclidean, r)), we);
        chk("ratio_from_end_is_mirror", format!("point_at_ratio_from_end(1 - {r})"), guard(|| ls.point_at_ratio_from_end(&Euclidean, 1.0 - r)), ws);
        chk("distance_from_start", format!("point_at_distance_from_start({})", r * total), guard(|| ls.point_at_distance_from_start(&Euclidean, r * total)), ws);
        chk("distance_from_end", format!("point_at_distance_from_end({})", r * total), guard(|| ls.point_at_distance_from_end(&Euclidean, r * total)), we);
        chk("legacy_line_interpolate_point", format!("line_interpolate_point({r})"), guard(|| ls.line_interpolate_point(r)), ws);
        if cs.len() == 2 {
            let l = Line::new(cs[0], cs[1]);
            chk("line_ratio_from_start", format!("Line::point_at_ratio_from_start({r})"), guard(|| Some(l.point_at_ratio_from_start(&Euclidean, r))), ws);
            chk("line_ratio_from_end", format!("Line::point_at_ratio_from_end({r})"), guard(|| Some(l.point_at_ratio_from_end(&Euclidean, r))), we);
            chk("line_distance_from_start", format!("Line::point_at_distance_from_start({})", r * total), guard(|| Some(l.point_at_distance_from_start(&Euclidean, r * total))), ws);
            chk("line_distance_from_end", format!("Line::point_at_distance_from_end({})", r * total), guard(|| Some(l.point_at_distance_from_end(&Euclidean, r * total))), we);
        }
        // the same line scaled exactly by a power of two (tiny and huge magnitudes: an absolute epsilon shows here): ratio forms,
        // distance forms and the round trip through line_locate_point scale along
        for sc in [2f64.powi(-40), 2f64.powi(-80), 2f64.powi(60)] {
            let lss = LineString::new(cs.iter().map(|c| Coord { x: c.x * sc, y: c.y * sc }).collect());
            let (wss, wes) = (Coord { x: ws.x * sc, y: ws.y * sc }, Coord { x: we.x * sc, y: we.y * sc });
            let tols = tol * sc;
            let mut chks = |sub: &str, what: String, got: Result<Option<Point<f64>>, String>, want: Coord<f64>| match got {
                Ok(p) if close(p, want, tols) => cx.ok(sub),
                other => cx.bad("C15", sub, case, json!({"what": what, "scale": sc, "got": format!("{other:?}"), "want": [want.x, want.y]})),
            };
            chks("scaled_ratio_from_start", format!("scaled line: point_at_ratio_from_start({r})"), guard(|| lss.point_at_ratio_from_start(&Euclidean, r)), wss);
            chks("scaled_ratio_from_end", format!("scaled line: point_at_ratio_from_end({r})"), guard(|| lss.point_at_ratio_from_end(&Euclidean, r)), wes);
            chks("scaled_distance_from_start", format!("scaled line: point_at_distance_from_start({})", r * total * sc), guard(|| lss.point_at_distance_from_start(&Euclidean, r * total * sc)), wss);
            chks("scaled_legacy_line_interpolate_point", format!("scaled line: line_interpolate_point({r})"), guard(|| lss.line_interpolate_point(r)), wss);
            if case["simple"].as_bool().unwrap() && total > 0.0 && (0.0..=1.0).contains(&r) && !(cs[0] == cs[cs.len() - 1] && (r == 0.0 || r == 1.0)) {
                match guard(|| lss.line_locate_point(&Point(wss))) {
                    Ok(Some(f)) if (f - r).abs() <= 1e-9 => cx.ok("scaled_locate_round_trip"),
                    other => cx.bad("C15", "scaled_locate_round_trip", case, json!({"what": format!("scaled line: line_locate_point(point_at({r}))"), "scale": sc, "got": format!("{other:?}"), "want": r})),
                }
                if cs.len() == 2 {
                    match guard(|| Line::new(lss.0[0], lss.0[1]).line_locate_point(&Point(wss))) {
                        Ok(Some(f)) if (f - r).abs() <= 1e-9 => cx.ok("scaled_locate_round_trip"),
                        other => cx.bad("C15", "scaled_locate_round_trip", case, json!({"what": format!("scaled Line: line_locate_point(point_at({r}))"), "scale": sc, "got": format!("{other:?}"), "want": r})),
                    }
                }
            }
        }
        // round trip through line_locate_point on simple lines
        if case["simple"].as_bool().unwrap() && total > 0.0 && (0.0..=1.0).contains(&r) && !(cs[0] == cs[cs.len() - 1] && (r == 0.0 || r == 1.0)) {
            let back = guard(|| ls.line_locate_point(&Point(ws)));
            match back {
                Ok(Some(f)) if (f - r).abs() <= 1e-9 => cx.ok("locate_round_trip"),
                other => cx.bad("C15", "locate_round_trip", case, json!({"what": format!("line_locate_point(point_at({r}))"), "got": format!("{other:?}"), "want": r})),
            }
        }
    }
    // once per replay: a bound more than 2^21 times shorter than the segment (two million pieces): still no piece longer than the bound
    static TINY_MAX_DONE: std::sync::atomic::AtomicBool = std::sync::atomic::AtomicBool::new(false);
    if !TINY_MAX_DONE.swap(true, std::sync::atomic::Ordering::SeqCst) {
        let l = LineString::new(vec![Coord { x: 0.0, y: 0.0 }, Coord { x: 3.0, y: 4.0 }, Coord { x: 3.0, y: 5.0 }]);
        let max = 5.0 / 2_200_000.0;
        let got = guard(|| Euclidean.densify(&l, max));
        let ok = match &got {
            Ok(o) => o.0.first() == l.0.first() && o.0.last() == l.0.last() && o.0.contains(&l.0[1])
                && o.0.windows(2).all(|w: &[Coord<f64>]| { let (dx, dy): (f64, f64) = (w[1].x - w[0].x, w[1].y - w[0].y); (dx * dx + dy * dy).sqrt() <= max * (1.0 + 1e-9) }),
            Err(_) => false,
        };
        if ok { cx.ok("densify_two_million_pieces"); } else { cx.bad("C15", "densify_two_million_pieces", case, json!({"what": format!("densify([(0,0),(3,4),(3,5)], {max}): a piece is longer than the bound, or a vertex is missing"), "points": got.as_ref().map(|o| o.0.len()).unwrap_or(0)})); }
    }
    // densify with bounds just below a whole fraction of a segment's length (length / max a hair above an integer: one piece more
    // is needed than the integer suggests); the three postconditions that need no count from the specification
    {
        let seglens: Vec<f64> = cs.windows(2).map(|w| ((w[1].x - w[0].x).powi(2) + (w[1].y - w[0].y).powi(2)).sqrt()).filter(|l| *l > 0.0).collect();
        if let Some(l0) = seglens.first() {
            for max in [l0 / 3.0000005, l0 / 1.0000002, l0 / 7.00000001, l0 * 0.999999999] {
                let got = guard(|| Euclidean.densify(&ls, max));
                let r = got.as_ref().map_err(|e| e.clone()).and_then(|o| {
                    let out = &o.0;
                    let mut j = 0;
                    for c in out { if j < cs.len() && *c == cs[j] { j += 1; } }
                    if j != cs.len() { return Err("an original vertex is missing or out of order".to_string()); }
                    let mut sum = 0.0;
                    for w in out.windows(2) {
                        let l = ((w[1].x - w[0].x).powi(2) + (w[1].y - w[0].y).powi(2)).sqrt();
                        if l > max * (1.0 + 1e-12) { return Err(format!("segment of length {l} > max {max}")); }
                        sum += l;
                    }
                    if (sum - total).abs() > 1e-9 * total.max(1.0) { return Err(format!("total length {sum} != {total}")); }
                    Ok(())
                });
                match r {
                    Ok(()) => cx.ok("densify_near_integer_ratio"),
                    Err(e) => cx.bad("C15", "densify_near_integer_ratio", case, json!({"what": format!("densify(max = {max}), first segment length {l0}"), "detail": e})),
                }
            }
        }
    }
    // densify
    for d in case["densify"].as_array().unwrap() {
        let max = rat(&d["max"]);
        let minpts = d["minpts"].as_u64().unwrap() as usize;
        let judge = |orig: &[Coord<f64>], out: &[Coord<f64>], total: f64, minpts: usize| -> Result<(), String> {
            // every original vertex in order
            let mut j = 0;
            for c in out { if j < orig.len() && *c == orig[j] { j += 1; } }
            if j != orig.len() { return Err("an original vertex is missing or out of order".into()); }
            if out.first() != orig.first() || out.last() != orig.last() { return Err("ends differ".into()); }
            let mut sum = 0.0;
            for w in out.windows(2) {
                let l = ((w[1].x - w[0].x).powi(2) + (w[1].y - w[0].y).powi(2)).sqrt();
                if l > max * (1.0 + 1e-12) { return Err(format!("segment of length {l} > max {max}")); }
                sum += l;
            }
            if (sum - total).abs() > 1e-9 * total.max(1.0) { return Err(format!("total length {sum} != {total} (a point is off the original segments)")); }
            if out.len() < minpts { return Err(format!("{} points, at least {minpts} needed", out.len())); }
            Ok(())
        };
        let got = guard(|| Euclidean.densify(&ls, max));
        match got.as_ref().map_err(|e| e.clone()).and_then(|o| judge(&cs, &o.0, total, minpts)) {
            Ok(()) => cx.ok("densify_linestring"),
            Err(e) => cx.bad("C15", "densify_linestring", case, json!({"what": format!("densify(max = {max})"), "detail": e, "got": format!("{got:?}")})),
        }
        if cs.len() == 2 {
            let got = guard(|| Euclidean.densify(&Line::new(cs[0], cs[1]), max));
            match got.as_ref().map_err(|e| e.clone()).and_then(|o| judge(&cs, &o.0, total, minpts)) {
                Ok(()) => cx.ok("densify_line"),
                Err(e) => cx.bad("C15", "densify_line", case, json!({"what": format!("Line densify(max = {max})"), "detail": e, "got": format!("{got:?}")})),
            }
        }
        if cs.len() >= 4 && cs[0] == cs[cs.len() - 1] {
            let got = guard(|| Euclidean.densify(&Polygon::new(ls.clone(), vec![ls.clone()]), max));
            let r = got.as_ref().map_err(|e| e.clone()).and_then(|p| judge(&cs, &p.exterior().0, total, minpts).and_then(|_| judge(&cs, &p.interiors()[0].0, total, minpts)));
            match r {
                Ok(()) => cx.ok("densify_polygon"),
                Err(e) => cx.bad("C15", "densify_polygon", case, json!({"what": format!("Polygon densify(max = {max})"), "detail": e})),
            }
        }
    }
    // Rect and Triangle densify: the polygon form of the shape, same postconditions (perimeter from the harness-free Length)
    if cs.len() >= 3 {
        let max = 0.75;
        let tri = Triangle::new(cs[0], cs[1], cs[2]);
        let rect = Rect::new(cs[0], cs[2]);
        for (what, orig, out) in [("Triangle", tri.to_polygon(), guard(|| Euclidean.densify(&tri, max))), ("Rect", rect.to_polygon(), guard(|| Euclidean.densify(&rect, max)))] {
            let ok = match &out {
                Ok(p) => {
                    let o = &p.exterior().0;
                    let e = &orig.exterior().0;
                    let mut j = 0;
                    for c in o { if j < e.len() && *c == e[j] { j += 1; } }
                    let per_in = Euclidean.length(orig.exterior());
                    let per_out = Euclidean.length(p.exterior());
                    j == e.len() && (per_in - per_out).abs() <= 1e-9 * per_in.max(1.0)
                        && o.windows(2).all(|w| ((w[1].x - w[0].x).powi(2) + (w[1].y - w[0].y).powi(2)).sqrt() <= max * (1.0 + 1e-12))
                }
                Err(_) => false,
            };
            if ok { cx.ok("densify_rect_triangle"); } else { cx.bad("C15", "densify_rect_triangle", case, json!({"what": what, "got": format!("{out:?}")})); }
        }
    }
}

/// General slopes (irrational segment lengths): exact ends + the laws that relate the forms to each other.
#[allow(deprecated)]
pub fn linemeasure_general_case(cx: &mut Ctx, n: u64, case: &Value) {
    if !cx.wants("C15") {
        return;
    }
    let cs = coords(&case["cs"]);
    let ls = LineString::new(cs.clone());
    let (first, last) = (cs[0], cs[cs.len() - 1]);
    let total: f64 = case["seg2"].as_array().unwrap().iter().map(|v| v.as_f64().unwrap().sqrt()).sum();
    let tol = 1e-12 * total.max(1.0);
    if n % 1499 == 0 {
        cx.sample(case.clone());
    }
    cx.count("linemeasure_general_cases", 1);
    if case["irrational"].as_bool().unwrap() {
        cx.count("linemeasure_irrational_cases", 1);
    }
    // (the required answer is the end vertex; the implementation reaches it through arithmetic, so: within tolerance)
    let exact = |p: Option<Point<f64>>, w: Coord<f64>| close(p, w, tol);
    // at or beyond the ends: exactly the end vertices (no arithmetic is involved in the required answer)
    for r in [1.0f64, 1.0 + f64::EPSILON, 1.5, 2.0, 1e300, f64::INFINITY] {
        if !r.is_finite() && total == 0.0 { continue; }     // an infinite ratio of a zero length is not a position
        let mut chk = |sub: &str, what: String, got: Result<Option<Point<f64>>, String>, want: Coord<f64>| match got {
            Ok(p) if exact(p, want) => cx.ok(sub),
            other => cx.bad("C15", sub, case, json!({"what": what, "got": format!("{other:?}"), "want": [want.x, want.y]})),
        };
        chk("beyond_end_from_start", format!("point_at_ratio_from_start({r})"), guard(|| ls.point_at_ratio_from_start(&Euclidean, r)), last);
        chk("beyond_end_from_end", format!("point_at_ratio_from_end({r})"), guard(|| ls.point_at_ratio_from_end(&Euclidean, r)), first);
        chk("beyond_end_legacy", format!("line_interpolate_point({r})"), guard(|| ls.line_interpolate_point(r)), last);
        if r.is_finite() && r < 1e100 {
            chk("beyond_end_distance", format!("point_at_distance_from_start({})", r * total * (1.0 + 1e-9)), guard(|| ls.point_at_distance_from_start(&Euclidean, r * total * (1.0 + 1e-9))), last);
        }
    }
    for r in [0.0f64, -0.0, -0.5, -1e300, f64::NEG_INFINITY] {
        if !r.is_finite() && total == 0.0 { continue; }
        let mut chk = |sub: &str, what: String, got: Result<Option<Point<f64>>, String>, want: Coord<f64>| match got {
            Ok(p) if exact(p, want) => cx.ok(sub),
            other => cx.bad("C15", sub, case, json!({"what": what, "got": format!("{other:?}"), "want": [want.x, want.y]})),
        };
        chk("before_start_from_start", format!("point_at_ratio_from_start({r})"), guard(|| ls.point_at_ratio_from_start(&Euclidean, r)), first);
        chk("before_start_from_end", format!("point_at_ratio_from_end({r})"), guard(|| ls.point_at_ratio_from_end(&Euclidean, r)), last);
        chk("before_start_legacy", format!("line_interpolate_point({r})"), guard(|| ls.line_interpolate_point(r)), first);
    }
    // interior ratios: the forms agree with each other and locate maps back (laws of the property on geo's own output)
    for k in 1..8 {
        let r = k as f64 / 8.0;
        let a = guard(|| ls.point_at_ratio_from_start(&Euclidean, r));
        let b = guard(|| ls.point_at_ratio_from_end(&Euclidean, 1.0 - r));
        let c = guard(|| ls.point_at_distance_from_start(&Euclidean, r * total));
        let d = guard(|| ls.line_interpolate_point(r));
        match (&a, &b, &c, &d) {
            (Ok(Some(pa)), Ok(Some(pb)), Ok(Some(pc)), Ok(Some(pd)))
                if (pa.x() - pb.x()).abs() <= 1e-9 && (pa.y() - pb.y()).abs() <= 1e-9 && (pa.x() - pc.x()).abs() <= 1e-9 && (pa.y() - pc.y()).abs() <= 1e-9
                    && (pa.x() - pd.x()).abs() <= 1e-9 && (pa.y() - pd.y()).abs() <= 1e-9 => cx.ok("forms_agree"),
            _ => cx.bad("C15", "forms_agree", case, json!({"what": format!("ratio {r}: from_start / from_end(1-r) / distance / legacy"), "got": format!("{a:?} {b:?} {c:?} {d:?}")})),
        }
        if let Ok(Some(pa)) = a {
            // the arc length up to the point, measured through the located fraction, is r * total
            if case["simple"].as_bool().unwrap() && cs[0] != cs[cs.len() - 1] {
                match guard(|| ls.line_locate_point(&pa)) {
                    Ok(Some(f)) if (f - r).abs() <= 1e-9 => cx.ok("locate_round_trip"),
                    other => cx.bad("C15", "locate_round_trip", case, json!({"what": format!("line_locate_point(point_at({r}))"), "got": format!("{other:?}"), "want": r})),
                }
            }
        }
    }
    // densify with a bound below / at / above segment lengths: the four postconditions
    for max in [0.3f64, 1.0, 1.5, total.max(0.5), 1e6] {
        let got = guard(|| Euclidean.densify(&ls, max));
        let ok = match &got {
            Ok(o) => {
                let out = &o.0;
                let mut j = 0;
                for c in out { if j < cs.len() && *c == cs[j] { j += 1; } }
                let sum: f64 = out.windows(2).map(|w| ((w[1].x - w[0].x).powi(2) + (w[1].y - w[0].y).powi(2)).sqrt()).sum();
                j == cs.len() && out.windows(2).all(|w| ((w[1].x - w[0].x).powi(2) + (w[1].y - w[0].y).powi(2)).sqrt() <= max * (1.0 + 1e-12)) && (sum - total).abs() <= 1e-9 * total.max(1.0)
            }
            Err(_) => false,
        };
        if ok { cx.ok("densify_general"); } else { cx.bad("C15", "densify_general", case, json!({"what": format!("densify(max = {max})"), "got": format!("{got:?}").chars().take(300).collect::<String>()})); }
    }
}

//! Replay of Gen_Poly cases: area / winding / orient (C05), polygon centroid (C06), validity (C14).
use crate::ctx::{guard, Ctx};
use crate::gj::{self, exact_maps, G};
use geo::algorithm::orient::{Direction, Orient};
use geo::algorithm::winding_order::{Winding, WindingOrder};
use geo::{Area, Centroid, Coord, Geometry, GeometryCollection, LineString, MultiPolygon, Polygon, Rect, Triangle};
use serde_json::{json, Value};

fn rev(l: &LineString<f64>) -> LineString<f64> {
    LineString::new(l.0.iter().rev().cloned().collect())
}
fn rot(l: &LineString<f64>, k: usize) -> LineString<f64> {
    let n = l.0.len() - 1;
    let mut v: Vec<Coord<f64>> = (0..n).map(|i| l.0[(i + k) % n]).collect();
    v.push(v[0]);
    LineString::new(v)
}
fn ulp(x: f64) -> f64 {
    let x = x.abs().max(f64::MIN_POSITIVE);
    f64::from_bits(x.to_bits() + 1) - x
}
fn rat(v: &Value) -> f64 {
    v[0].as_f64().unwrap() / v[1].as_f64().unwrap()
}
fn same_cycle(a: &LineString<f64>, b: &LineString<f64>) -> bool {
    // equal as closed rings up to the start vertex (same direction)
    if a.0.len() != b.0.len() || a.0.len() < 2 {
        return a.0 == b.0;
    }
    let n = a.0.len() - 1;
    (0..n).any(|k| (0..n).all(|i| a.0[i] == b.0[(i + k) % n]))
}

pub fn poly_case(cx: &mut Ctx, n: u64, case: &Value) {
    let ext = LineString::new(gj::coords(&case["ext"]));
    let holes: Vec<LineString<f64>> = case["holes"].as_array().unwrap().iter().map(|h| LineString::new(gj::coords(h))).collect();
    let a2e = case["a2ext"].as_f64().unwrap();
    let a2h = case["a2hole"].as_f64().unwrap();
    let area = (a2e - a2h) / 2.0;
    if n % 1009 == 0 {
        cx.sample(case.clone());
    }
    cx.count("poly_cases", 1);
    let maps = exact_maps();
    if cx.wants("C05") {
        // all windings of shell and hole; rotations of the start vertex
        for (ei, e) in [ext.clone(), rev(&ext), rot(&ext, 1), rot(&rev(&ext), 2)].iter().enumerate() {
            let e_ccw = ei == 0 || ei == 2;
            for hv in 0..3 {
                // hole windings: all as given (ccw), all reversed, alternating
                let hs: Vec<LineString<f64>> = holes.iter().enumerate().map(|(i, h)| match hv { 0 => h.clone(), 1 => rev(h), _ => if i % 2 == 0 { rev(h) } else { h.clone() } }).collect();
                if (hv == 1 && hs.is_empty()) || (hv == 2 && hs.len() < 2) {
                    continue;
                }
                let p = Polygon::new(e.clone(), hs);
                let want = if e_ccw { area } else { -area };
                let got = p.signed_area();
                if got == want { cx.ok("signed_area"); } else {
                    cx.bad("C05", "signed_area", case, json!({"what": format!("shell variant {ei}, hole variant {hv}"), "got": got, "want": want}));
                }
                let got = p.unsigned_area();
                if got == area { cx.ok("unsigned_area"); } else {
                    cx.bad("C05", "unsigned_area", case, json!({"what": format!("shell variant {ei}, hole variant {hv}"), "got": got, "want": area}));
                }
                let got = Geometry::Polygon(p.clone()).signed_area();
                if got == want { cx.ok("signed_area_geometry_enum"); } else {
                    cx.bad("C05", "signed_area_geometry_enum", case, json!({"got": got, "want": want}));
                }
                // orient: same rings, exterior ccw / holes cw (or the reverse)
                for (dir, ext_ccw) in [(Direction::Default, true), (Direction::Reversed, false)] {
                    let o = p.orient(dir);
                    let ok_e = o.exterior().winding_order() == Some(if ext_ccw { WindingOrder::CounterClockwise } else { WindingOrder::Clockwise })
                        && (same_cycle(o.exterior(), e) || same_cycle(o.exterior(), &rev(e)));
                    let ok_h = o.interiors().len() == p.interiors().len()
                        && o.interiors().iter().zip(p.interiors()).all(|(a, b)| {
                            a.winding_order() == Some(if ext_ccw { WindingOrder::Clockwise } else { WindingOrder::CounterClockwise })
                                && (same_cycle(a, b) || same_cycle(a, &rev(b)))
                        });
                    let ok_area = o.unsigned_area() == area && (o.signed_area() > 0.0) == ext_ccw;
                    if ok_e && ok_h && ok_area { cx.ok("orient"); } else {
                        cx.bad("C05", "orient", case, json!({"what": format!("{dir:?} shell variant {ei} hole variant {hv}"), "got": gj::geometry_to_json(&Geometry::Polygon(o))}));
                    }
                }
            }
            // winding order of the ring itself, also with a repeated vertex
            let want = if e_ccw { WindingOrder::CounterClockwise } else { WindingOrder::Clockwise };
            let mut dup = e.0.clone();
            let k = (n as usize + ei) % (dup.len() - 1);
            dup.insert(k, dup[k]);
            // the other methods of the Winding trait on this ring: is_cw / is_ccw, points_cw / points_ccw (the ring or its reverse),
            // make_cw_winding / make_ccw_winding / make_winding_order (in place), clone_to_winding_order
            {
                let fwd: Vec<Coord<f64>> = e.0.clone();
                let bwd: Vec<Coord<f64>> = e.0.iter().rev().cloned().collect();
                let (cw_seq, ccw_seq) = if e_ccw { (&bwd, &fwd) } else { (&fwd, &bwd) };
                let ok = e.is_ccw() == e_ccw && e.is_cw() != e_ccw
                    && e.points_cw().map(|p| p.0).collect::<Vec<_>>() == *cw_seq && e.points_ccw().map(|p| p.0).collect::<Vec<_>>() == *ccw_seq;
                let mut m1 = e.clone(); m1.make_cw_winding();
                let mut m2 = e.clone(); m2.make_ccw_winding();
                let mut m3 = e.clone(); m3.make_winding_order(WindingOrder::Clockwise);
                let mut m4 = e.clone(); m4.make_winding_order(WindingOrder::CounterClockwise);
                let ok2 = m1.0 == *cw_seq && m2.0 == *ccw_seq && m3.0 == *cw_seq && m4.0 == *ccw_seq
                    && e.clone_to_winding_order(WindingOrder::Clockwise).0 == *cw_seq && e.clone_to_winding_order(WindingOrder::CounterClockwise).0 == *ccw_seq;
                if ok && ok2 { cx.ok("winding_trait_methods"); } else {
                    cx.bad("C05", "winding_trait_methods", case, json!({"what": format!("shell variant {ei}"), "is_ccw": e.is_ccw(), "is_cw": e.is_cw(), "iterators_ok": ok, "mutators_ok": ok2}));
                }
            }
            // more repetition: every vertex three times; the closing vertex twice more; the first vertex twice more
            let tripled = LineString::new(e.0.iter().flat_map(|c| [*c, *c, *c]).collect());
            let mut closed_thrice = e.0.clone();
            closed_thrice.push(*e.0.last().unwrap());
            closed_thrice.push(*e.0.last().unwrap());
            let mut opened_thrice = e.0.clone();
            opened_thrice.insert(0, e.0[0]);
            opened_thrice.insert(0, e.0[0]);
            // orient must also turn such rings (same region, repeated coordinates)
            for (dir, ext_ccw) in [(Direction::Default, true), (Direction::Reversed, false)] {
                let o = Polygon::new(LineString::new(closed_thrice.clone()), holes.iter().map(|h| { let mut v = h.0.clone(); v.push(*h.0.last().unwrap()); v.push(*h.0.last().unwrap()); LineString::new(v) }).collect()).orient(dir);
                let ok = (o.signed_area() > 0.0) == ext_ccw && o.unsigned_area() == area
                    && o.interiors().iter().all(|h| (Polygon::new(h.clone(), vec![]).signed_area() > 0.0) != ext_ccw);
                if ok { cx.ok("orient_repeated_closing_vertex"); } else {
                    cx.bad("C05", "orient_repeated_closing_vertex", case, json!({"what": format!("{dir:?} shell variant {ei}"), "got": gj::geometry_to_json(&Geometry::Polygon(o))}));
                }
            }
            // collinear vertices: every edge split at its midpoint, and the ring started at each of the first midpoints (a start
            // vertex in the middle of a straight side, whatever side is lowest / leftmost)
            let mut with_mids: Vec<Coord<f64>> = vec![];
            for w in e.0.windows(2) { with_mids.push(w[0]); with_mids.push(Coord { x: (w[0].x + w[1].x) / 2.0, y: (w[0].y + w[1].y) / 2.0 }); }
            let mid_forms: Vec<(String, LineString<f64>)> = (0..with_mids.len().min(8)).filter(|k| k % 2 == 1).map(|k| {
                let mut r: Vec<Coord<f64>> = with_mids[k..].iter().chain(with_mids[..k].iter()).cloned().collect();
                r.push(r[0]);
                (format!("edge midpoints inserted, started at midpoint {k}"), LineString::new(r))
            }).collect();
            for (what, ring) in mid_forms.iter().map(|(a, b)| (a.as_str(), b.clone())).chain([("ring", e.clone()), ("ring with a repeated vertex", LineString::new(dup)), ("every vertex three times", tripled),
                                 ("closing vertex three times", LineString::new(closed_thrice)), ("first vertex three times", LineString::new(opened_thrice))]) {
                let got = ring.winding_order();
                if got == Some(want) { cx.ok("winding_order"); } else {
                    cx.bad("C05", "winding_order", case, json!({"what": format!("{what}, shell variant {ei}"), "ring": ring.0.iter().map(|c| [c.x, c.y]).collect::<Vec<_>>(), "got": format!("{got:?}"), "want": format!("{want:?}")}));
                }
            }
        }
        // other scalar types: the shoelace sum of small lattice polygons is exact in f32; winding order of integer rings
        {
            use geo::MapCoords;
            let p0 = Polygon::new(ext.clone(), holes.clone());
            let pi = p0.map_coords(|c| geo::Coord { x: c.x as i64, y: c.y as i64 });
            // (Area is implemented for float polygons only; Rect / Triangle / Line areas of integers are covered by C19-style traversal)
            let pf = p0.map_coords(|c| geo::Coord { x: c.x as f32, y: c.y as f32 });
            if area < 4096.0 {
                let got = pf.signed_area();
                if got as f64 == area { cx.ok("signed_area_f32"); } else { cx.bad("C05", "signed_area_f32", case, json!({"got": got, "want": area})); }
            }
            let wo = pi.exterior().winding_order();
            if wo == Some(WindingOrder::CounterClockwise) { cx.ok("winding_order_i64"); } else { cx.bad("C05", "winding_order_i64", case, json!({"got": format!("{wo:?}")})); }
        }
        // Rect and Triangle = their polygon forms; collections = sums
        let p0 = Polygon::new(ext.clone(), holes.clone());
        let tri2 = case["tri2"].as_f64().unwrap();
        let b: Vec<f64> = case["bbox"].as_array().unwrap().iter().map(|v| v.as_f64().unwrap()).collect();
        let rect2 = case["rect2"].as_f64().unwrap();
        let tri = Triangle::new(ext.0[0], ext.0[1], ext.0[2]);
        let rect = Rect::new(Coord { x: b[0], y: b[1] }, Coord { x: b[2], y: b[3] });
        let mut eqf = |sub: &str, what: &str, got: f64, want: f64| {
            if got == want { cx.ok(sub); } else { cx.bad("C05", sub, case, json!({"what": what, "got": got, "want": want})); }
        };
        eqf("triangle_area", "Triangle::unsigned_area", tri.unsigned_area(), tri2 / 2.0);
        eqf("triangle_area", "Triangle::to_polygon().unsigned_area", tri.to_polygon().unsigned_area(), tri2 / 2.0);
        eqf("triangle_area", "Triangle::signed_area (stored ccw)", tri.signed_area().abs(), tri2 / 2.0);
        // triangles that are NOT stored counter-clockwise: only Triangle::new reorders; the tuple constructor and From<[_; 3]> keep
        // the given order (as do ear-cut / Delaunay triangles), so both orders of the same three vertices are measured
        if let Some(ts) = case["tri_sign"].as_i64() {
            let (a0, b0, c0) = (ext.0[0], ext.0[1], ext.0[2]);
            let exact_sign = ts as f64;       // sign of Cross(a0, b0, c0), computed by TLC
            for (t, sgn, what) in [(Triangle(a0, b0, c0), exact_sign, "Triangle(a, b, c)"), (Triangle(a0, c0, b0), -exact_sign, "Triangle(a, c, b)"),
                                   (Triangle::from([c0, b0, a0]), -exact_sign, "Triangle::from([c, b, a])"), (Triangle::from([b0, c0, a0]), exact_sign, "Triangle::from([b, c, a])")] {
                eqf("triangle_area_any_order", &format!("{what}.unsigned_area"), t.unsigned_area(), tri2 / 2.0);
                {
                    // the free function triangle_winding_order: the stored order of the triangle, None for a flat one
                    let w = geo::algorithm::winding_order::triangle_winding_order(&t);
                    let want_w = if sgn > 0.0 { Some(WindingOrder::CounterClockwise) } else if sgn < 0.0 { Some(WindingOrder::Clockwise) } else { None };
                    eqf("triangle_area_any_order", &format!("triangle_winding_order({what}) = {w:?}, want {want_w:?}"), if w == want_w { 1.0 } else { 0.0 }, 1.0);
                }
                eqf("triangle_area_any_order", &format!("{what}.signed_area"), t.signed_area(), sgn * tri2 / 2.0);
                eqf("triangle_area_any_order", &format!("{what}.to_polygon().signed_area"), t.to_polygon().signed_area(), sgn * tri2 / 2.0);
                eqf("triangle_area_any_order", &format!("Geometry::{what}.unsigned_area"), Geometry::Triangle(t).unsigned_area(), tri2 / 2.0);
                let gct = GeometryCollection::new_from(vec![Geometry::Triangle(t), Geometry::Triangle(Triangle(t.0, t.2, t.1))]);
                eqf("triangle_area_any_order", &format!("GeometryCollection[{what}, reversed].unsigned_area"), gct.unsigned_area(), tri2);
                eqf("triangle_area_any_order", &format!("GeometryCollection[{what}, reversed].signed_area"), gct.signed_area(), 0.0);
            }
        }
        eqf("rect_area", "Rect::unsigned_area", rect.unsigned_area(), rect2 / 2.0);
        eqf("rect_area", "Rect::signed_area", rect.signed_area(), rect2 / 2.0);
        eqf("rect_area", "Rect::to_polygon().signed_area", rect.to_polygon().signed_area(), rect2 / 2.0);
        let shift = |p: &Polygon<f64>, dx: f64| G::Polygon(p.clone()).map(&|c| Coord { x: c.x + dx, y: c.y }, true);
        let p1 = match shift(&p0, 10.0) { G::Polygon(p) => p, _ => unreachable!() };
        let p1r = Polygon::new(rev(p1.exterior()), p1.interiors().to_vec());
        let mp = MultiPolygon::new(vec![p0.clone(), p1.clone()]);
        eqf("collection_area", "MultiPolygon[p, p+10].signed_area", mp.signed_area(), 2.0 * area);
        eqf("collection_area", "MultiPolygon[p, p+10].unsigned_area", mp.unsigned_area(), 2.0 * area);
        let mpr = MultiPolygon::new(vec![p0.clone(), p1r.clone()]);
        eqf("collection_area", "MultiPolygon[p, reversed p+10].unsigned_area", mpr.unsigned_area(), 2.0 * area);
        eqf("collection_area", "MultiPolygon[p, reversed p+10].signed_area", mpr.signed_area(), 0.0);
        let gc = GeometryCollection::new_from(vec![Geometry::Polygon(p0.clone()), Geometry::Rect(rect), Geometry::Triangle(tri),
            Geometry::GeometryCollection(GeometryCollection::new_from(vec![Geometry::MultiPolygon(mp.clone()), Geometry::Point(geo::Point(ext.0[0])), Geometry::LineString(ext.clone())]))]);
        eqf("collection_area", "nested GeometryCollection.unsigned_area", gc.unsigned_area(), area + rect2 / 2.0 + tri2 / 2.0 + 2.0 * area);
        eqf("collection_area", "nested GeometryCollection.signed_area", gc.signed_area(), area + rect2 / 2.0 + tri2 / 2.0 + 2.0 * area);
        let gcr = GeometryCollection::new_from(vec![Geometry::Polygon(p0.clone()), Geometry::Polygon(p1r.clone())]);
        eqf("collection_area", "GeometryCollection[p, reversed p+10].unsigned_area", gcr.unsigned_area(), 2.0 * area);
        // exact maps: area scales by |det| exactly for power-of-two maps; translations far away stay within rounding
        for k in 0..3usize {
            let m = &maps[(n as usize + cx.seed as usize + 5 * k) % maps.len()];
            let tp = match m.on(&G::Polygon(p0.clone())) { G::Polygon(p) => p, _ => unreachable!() };
            let want = area * m.det().abs();
            let maxc = tp.exterior().0.iter().fold(0f64, |a, c| a.max(c.x.abs()).max(c.y.abs()));
            let ext_size = 8.0 * m.m[0].abs().max(m.m[1].abs()).max(m.m[3].abs()).max(m.m[4].abs());
            let tol = 4.0 * ulp(maxc) * ext_size;
            let got = tp.unsigned_area();
            if (got - want).abs() <= tol { cx.ok("area_exact_map"); } else {
                cx.bad("C05", "area_exact_map", case, json!({"what": format!("map {}", m.name), "got": got, "want": want, "tol": tol}));
            }
            let got_sign = tp.signed_area() > 0.0;
            if got_sign == (m.det() > 0.0) { cx.ok("area_sign_exact_map"); } else {
                cx.bad("C05", "area_sign_exact_map", case, json!({"what": format!("map {}", m.name), "got": tp.signed_area()}));
            }
            let wo = tp.exterior().winding_order();
            let want_wo = if m.det() > 0.0 { WindingOrder::CounterClockwise } else { WindingOrder::Clockwise };
            if wo == Some(want_wo) { cx.ok("winding_order_exact_map"); } else {
                cx.bad("C05", "winding_order_exact_map", case, json!({"what": format!("map {}", m.name), "got": format!("{wo:?}")}));
            }
        }
    }
    if cx.wants("C06") {
        let (wx, wy) = (rat(&case["cx"]), rat(&case["cy"]));
        let extent0 = ext.0.iter().fold(1f64, |a, c| a.max(c.x.abs()).max(c.y.abs()));
        for (ei, e) in [ext.clone(), rev(&ext), rot(&ext, 2)].iter().enumerate() {
            for hv in 0..3 {
                if (hv == 1 && holes.is_empty()) || (hv == 2 && holes.len() < 2) { continue; }
                let hs: Vec<LineString<f64>> = holes.iter().enumerate().map(|(i, h)| match hv { 0 => h.clone(), 1 => rev(h), _ => if i % 2 == 0 { rev(h) } else { h.clone() } }).collect();
                let p = Polygon::new(e.clone(), hs);
                match guard(|| p.centroid()) {
                    Ok(Some(c)) if (c.x() - wx).abs() <= 1e-9 * extent0.max(8.0) && (c.y() - wy).abs() <= 1e-9 * extent0.max(8.0) => cx.ok("polygon_centroid"),
                    other => cx.bad("C06", "polygon_centroid", case, json!({"what": format!("shell variant {ei}, hole variant {hv}"), "got": format!("{other:?}"), "want": [wx, wy]})),
                }
            }
        }
        {
            // a flat polygon with DECIMAL coordinates on the main diagonal (x = y: exactly collinear whatever the rounding), built from
            // the x and y values of this shell re-labelled by v -> 0.1 v + 0.3: zero area, so its centroid is that of its outline
            for pick_y in [false, true] {
                let mut d: Vec<Coord<f64>> = ext.0.iter().map(|c| { let v = (if pick_y { c.y } else { c.x }) * 0.1 + 0.3; Coord { x: v, y: v } }).collect();
                d.dedup();
                if d.len() >= 3 && d.first() == d.last() && d.len() <= 40 {
                    let (ring, poly) = (LineString::new(d.clone()), Polygon::new(LineString::new(d.clone()), vec![]));
                    let (a, b) = (guard(|| poly.centroid()), guard(|| ring.centroid()));
                    let ok = matches!((&a, &b), (Ok(Some(x)), Ok(Some(y))) if (x.x() - y.x()).abs() <= 1e-12 && (x.y() - y.y()).abs() <= 1e-12);
                    if ok { cx.ok("flat_polygon_falls_back_to_outline"); } else {
                        cx.bad("C06", "flat_polygon_falls_back_to_outline", case, json!({"what": "flat polygon on the main diagonal with decimal coordinates: Polygon::centroid vs centroid of its exterior",
                            "ring": d.iter().map(|c| c.x).collect::<Vec<_>>(), "polygon": format!("{a:?}"), "outline": format!("{b:?}")}));
                    }
                }
            }
        }
        let p0 = Polygon::new(ext.clone(), holes.clone());
        {
            // f32 scalar type (lattice coordinates are exact; the accumulated sums are not: tolerance 1e-4 of the extent)
            use geo::MapCoords;
            let pf = p0.map_coords(|c| geo::Coord { x: c.x as f32, y: c.y as f32 });
            if extent0 <= 16.0 {
                match guard(|| pf.centroid()) {
                    Ok(Some(c)) if (c.x() as f64 - wx).abs() <= 1e-4 * extent0.max(8.0) && (c.y() as f64 - wy).abs() <= 1e-4 * extent0.max(8.0) => cx.ok("polygon_centroid_f32"),
                    other => cx.bad("C06", "polygon_centroid_f32", case, json!({"got": format!("{other:?}"), "want": [wx, wy]})),
                }
            }
        }
        // the property promises equivariance under translation and uniform scaling (similarity maps), not under shears
        let sims: Vec<&crate::gj::ExactMap> = maps.iter().filter(|m| m.similarity().is_some()).collect();
        let extent = ext.0.iter().fold(1f64, |a, c| a.max(c.x.abs()).max(c.y.abs()));
        for k in 0..3usize {
            let m = sims[(n as usize + cx.seed as usize + 5 * k) % sims.len()];
            let tp = m.on(&G::Polygon(p0.clone()));
            let want = m.apply(Coord { x: wx, y: wy });
            let maxc = match &tp { G::Polygon(p) => p.exterior().0.iter().fold(0f64, |a, c| a.max(c.x.abs()).max(c.y.abs())), _ => 1.0 };
            let scale = m.m[0].abs().max(m.m[1].abs()).max(m.m[3].abs()).max(m.m[4].abs());
            let tol = 8.0 * ulp(maxc) + 1e-9 * extent.max(8.0) * scale;
            match guard(|| tp.geometry().centroid()) {
                Ok(Some(c)) if (c.x() - want.x).abs() <= tol && (c.y() - want.y).abs() <= tol => cx.ok("polygon_centroid_exact_map"),
                other => cx.bad("C06", "polygon_centroid_exact_map", case, json!({"what": format!("map {}", m.name), "got": format!("{other:?}"), "want": [want.x, want.y], "tol": tol})),
            }
        }
    }
    if cx.wants("C13") && !cx.wants("C05") {
        // commutation clause: exact maps scale the area by exactly |det| and keep / flip the winding
        let p0 = Polygon::new(ext.clone(), holes.clone());
        for m in maps.iter() {
            let tp = match m.on(&G::Polygon(p0.clone())) { G::Polygon(p) => p, _ => unreachable!() };
            let want = area * m.det().abs();
            let maxc = tp.exterior().0.iter().fold(0f64, |a, c| a.max(c.x.abs()).max(c.y.abs()));
            let ext_size = 8.0 * m.m[0].abs().max(m.m[1].abs()).max(m.m[3].abs()).max(m.m[4].abs());
            let tol = 4.0 * ulp(maxc) * ext_size;
            let got = tp.unsigned_area();
            if (got - want).abs() <= tol && (tp.signed_area() > 0.0) == (m.det() > 0.0) { cx.ok("area_exact_map"); } else {
                cx.bad("C13", "area_exact_map", case, json!({"what": format!("map {}", m.name), "got": got, "want": want, "tol": tol}));
            }
        }
    }
    if cx.wants("C14") {
        crate::ops_valid::valid_polygon_case(cx, n, case, &Polygon::new(ext.clone(), holes.clone()));
    }
}

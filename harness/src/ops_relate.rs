//! Replay of TLC-generated relate / predicate / coordinate_position cases (C01, C02, C13, C17).
use crate::ctx::{guard, Ctx};
use crate::gj::{self, exact_maps, G};
use crate::{with_g, with_gg};
use geo::coordinate_position::{CoordPos, CoordinatePosition};
use geo::{Contains, Coord, Geometry, Intersects, PreparedGeometry, Relate, Within};
use serde_json::{json, Value};

pub fn im_string(im: &geo::relate::IntersectionMatrix) -> String {
    let s = format!("{im:?}");
    s.trim_start_matches("IntersectionMatrix(").trim_end_matches(')').to_string()
}
fn transpose(im: &str) -> String {
    let c: Vec<char> = im.chars().collect();
    [0, 3, 6, 1, 4, 7, 2, 5, 8].iter().map(|&i| c[i]).collect()
}
fn relate_cc(a: &G, b: &G) -> Result<String, String> {
    guard(|| with_gg!(a, b, x, y => im_string(&x.relate(y))))
}
fn relate_gg(a: &G, b: &G) -> Result<String, String> {
    let (ga, gb) = (a.geometry(), b.geometry());
    guard(|| im_string(&ga.relate(&gb)))
}
fn relate_cg(a: &G, b: &G) -> Result<String, String> {
    let gb = b.geometry();
    guard(|| with_g!(a, x => im_string(&x.relate(&gb))))
}
fn relate_gc(a: &G, b: &G) -> Result<String, String> {
    let ga = a.geometry();
    guard(|| with_g!(b, y => im_string(&ga.relate(y))))
}
fn prepared_all(a: &G, b: &G) -> Result<Vec<String>, String> {
    let (ga, gb) = (a.geometry(), b.geometry());
    guard(|| {
        let pa = PreparedGeometry::from(&ga);
        let pb = PreparedGeometry::from(&gb);
        let mut v = vec![
            im_string(&pa.relate(&pb)),
            im_string(&pa.relate(&gb)),
            im_string(&ga.relate(&pb)),
            // reuse after having been used in the other position
            transpose(&im_string(&pb.relate(&pa))),
            im_string(&pa.relate(&pb)),
        ];
        // concrete-typed prepared operand
        v.push(with_g!(a, x => { let px = PreparedGeometry::from(x); im_string(&px.relate(&pb)) }));
        v.push(with_g!(b, y => { let py = PreparedGeometry::from(y); im_string(&pa.relate(&py)) }));
        // the owning form: prepared from the value, used, and handed back unchanged by into_geometry
        let po = PreparedGeometry::from(ga.clone());
        v.push(im_string(&po.relate(&pb)));
        v.push(im_string(&po.relate(&gb)));
        v.push(if *po.geometry() == ga && po.into_geometry() == ga { im_string(&ga.relate(&gb)) } else { "into_geometry / geometry() differ from the geometry prepared".to_string() });
        v
    })
}

fn chk(cx: &mut Ctx, prop: &str, sub: &str, case: &Value, what: String, got: Result<String, String>, want: &str) {
    match got {
        Ok(s) if s == want => cx.ok(sub),
        Ok(s) => cx.bad(prop, sub, case, json!({"what": what, "got": s, "want": want})),
        Err(p) => cx.bad(prop, sub, case, json!({"what": what, "got": format!("PANIC: {p}"), "want": want})),
    }
}
fn chkb(cx: &mut Ctx, prop: &str, sub: &str, case: &Value, what: String, got: Result<bool, String>, want: bool) {
    match got {
        Ok(s) if s == want => cx.ok(sub),
        Ok(s) => cx.bad(prop, sub, case, json!({"what": what, "got": s, "want": want})),
        Err(p) => cx.bad(prop, sub, case, json!({"what": what, "got": format!("PANIC: {p}"), "want": want})),
    }
}

fn intersects_cc(a: &G, b: &G) -> Result<bool, String> {
    guard(|| with_gg!(a, b, x, y => x.intersects(y)))
}
fn contains_cc(a: &G, b: &G) -> Result<bool, String> {
    guard(|| with_gg!(a, b, x, y => x.contains(y)))
}
fn within_cc(a: &G, b: &G) -> Result<bool, String> {
    guard(|| with_gg!(a, b, x, y => x.is_within(y)))
}
fn intersects_gg(a: &G, b: &G) -> Result<bool, String> {
    let (ga, gb) = (a.geometry(), b.geometry());
    guard(|| ga.intersects(&gb))
}
fn contains_gg(a: &G, b: &G) -> Result<bool, String> {
    let (ga, gb) = (a.geometry(), b.geometry());
    guard(|| ga.contains(&gb))
}
fn intersects_cg(a: &G, b: &G) -> Result<bool, String> {
    let gb = b.geometry();
    guard(|| with_g!(a, x => x.intersects(&gb)))
}
fn intersects_gc(a: &G, b: &G) -> Result<bool, String> {
    let ga = a.geometry();
    guard(|| with_g!(b, y => ga.intersects(y)))
}
fn contains_gc(a: &G, b: &G) -> Result<bool, String> {
    let ga = a.geometry();
    guard(|| with_g!(b, y => ga.contains(y)))
}
/// concrete.contains(&Geometry): not implemented for MultiPoint and MultiPolygon receivers
fn contains_cg(a: &G, b: &G) -> Option<Result<bool, String>> {
    let gb = b.geometry();
    Some(guard(|| match a {
        G::Point(x) => x.contains(&gb),
        G::Line(x) => x.contains(&gb),
        G::LineString(x) => x.contains(&gb),
        G::Polygon(x) => x.contains(&gb),
        G::MultiLineString(x) => x.contains(&gb),
        G::Rect(x) => x.contains(&gb),
        G::Triangle(x) => x.contains(&gb),
        G::GeometryCollection(x) => x.contains(&gb),
        G::MultiPoint(_) | G::MultiPolygon(_) => return false,
    }))
    .filter(|_| !matches!(a, G::MultiPoint(_) | G::MultiPolygon(_)))
}

pub fn relate_case(cx: &mut Ctx, n: u64, case: &Value) {
    let a = gj::parse(&case["a"]);
    let b = gj::parse(&case["b"]);
    let im = case["im"].as_str().expect("im").to_string();
    let imt = transpose(&im);
    cx.count("relate_cases", 1);
    if n % 997 == 0 {
        cx.sample(case.clone());
    }
    let maps = exact_maps();
    // a deterministic, seed-dependent choice of three maps per case; all maps are used over a run
    let pick: Vec<usize> = (0..3).map(|k| ((n + cx.seed) as usize * 3 + k * 5 + 1) % maps.len()).collect();

    if let Some(pm) = case.get("pin_map").and_then(|v| v.as_str()).and_then(gj::pinned_map) {
        // pinned case of findings/pinned_cases.ndjson: exactly this input under exactly this map
        if cx.wants("C01") {
            let (ta, tb) = (pm.on(&a), pm.on(&b));
            chk(cx, "C01", "relate_exact_map", case, format!("map {}", pm.name), relate_cc(&ta, &tb), &im);
        }
        return;
    }
    if cx.wants("C01") {
        // hook H6: which path relate took (disjoint-envelope shortcut or full topology graph) - a vacuity guard:
        // bin/check demands that both paths are exercised by every run
        let _ = geo::verif_hooks::take();
        let r0 = relate_cc(&a, &b);
        for l in geo::verif_hooks::take() {
            if l.starts_with("relate:") {
                cx.count(&format!("path_{}", &l[7..]), 1);
            }
        }
        chk(cx, "C01", "relate", case, "a.relate(b)".into(), r0, &im);
        chk(cx, "C01", "relate_transposed", case, "b.relate(a)".into(), relate_cc(&b, &a), &imt);
        chk(cx, "C01", "relate_geometry_enum", case, "Geometry(a).relate(Geometry(b))".into(), relate_gg(&a, &b), &im);
        chk(cx, "C01", "relate_geometry_enum", case, "a.relate(Geometry(b))".into(), relate_cg(&a, &b), &im);
        chk(cx, "C01", "relate_geometry_enum", case, "Geometry(a).relate(b)".into(), relate_gc(&a, &b), &im);
        // the same operands with f32 coordinates (lattice coordinates are exact in f32)
        {
            use geo::MapCoords;
            let (fa, fb) = (a.geometry().map_coords(|c| geo::Coord { x: c.x as f32, y: c.y as f32 }), b.geometry().map_coords(|c| geo::Coord { x: c.x as f32, y: c.y as f32 }));
            chk(cx, "C01", "relate_f32", case, "Geometry<f32>(a).relate(b)".into(), guard(|| im_string(&fa.relate(&fb))), &im);
        }
        for (name, va) in a.variants() {
            chk(cx, "C01", "relate_variant", case, format!("variant {name} of a"), relate_cc(&va, &b), &im);
        }
        for (name, vb) in b.variants() {
            chk(cx, "C01", "relate_variant", case, format!("variant {name} of b"), relate_cc(&a, &vb), &im);
        }
    }
    // the accessors of the returned IntersectionMatrix: get, matches and the named predicates is_* (functions of the matrix, by
    // their OGC definitions - TLC computed them from the true matrix and the true dimensions of the operands)
    if case.get("named").is_some() && (cx.wants("C01") || cx.wants("C02")) {
        use geo::coordinate_position::CoordPos;
        use geo::dimensions::Dimensions;
        let gb = |k: &str| case["named"][k].as_bool().unwrap();
        let ix = case["pred"]["i"].as_bool().unwrap();
        let r = guard(|| {
            let m = a.geometry().relate(&b.geometry());
            let named = [("is_disjoint", m.is_disjoint(), gb("disjoint")), ("is_intersects", m.is_intersects(), ix),
                         ("is_within", m.is_within(), case["pred"]["w"].as_bool().unwrap()), ("is_contains", m.is_contains(), case["pred"]["c"].as_bool().unwrap()),
                         ("is_covers", m.is_covers(), gb("covers")), ("is_coveredby", m.is_coveredby(), gb("coveredby")), ("is_equal_topo", m.is_equal_topo(), gb("equals")),
                         ("is_touches", m.is_touches(), gb("touches")), ("is_crosses", m.is_crosses(), gb("crosses")), ("is_overlaps", m.is_overlaps(), gb("overlaps"))];
            let bad: Vec<String> = named.iter().filter(|(_, got, want)| got != want).map(|(n, got, want)| format!("{n} = {got}, want {want}")).collect();
            // get(): entry by entry
            let pos = [CoordPos::Inside, CoordPos::OnBoundary, CoordPos::Outside];
            let mut cells = String::new();
            for p in pos { for q in pos { cells.push(match m.get(p, q) { Dimensions::Empty => 'F', Dimensions::ZeroDimensional => '0', Dimensions::OneDimensional => '1', Dimensions::TwoDimensional => '2' }); } }
            // matches(): the matrix itself, its T / F / * generalisations, and every pattern that contradicts it in one place
            let t_pat: String = im.chars().map(|c| if c == 'F' { 'F' } else { 'T' }).collect();
            let mut mbad = vec![];
            if !matches!(m.matches(&im), Ok(true)) { mbad.push(format!("matches({im})")); }
            if !matches!(m.matches(&t_pat), Ok(true)) { mbad.push(format!("matches({t_pat})")); }
            if !matches!(m.matches("*********"), Ok(true)) { mbad.push("matches(*********)".to_string()); }
            for k in 0..9 {
                let star: String = im.chars().enumerate().map(|(i, c)| if i == k { c } else { '*' }).collect();
                if !matches!(m.matches(&star), Ok(true)) { mbad.push(format!("matches({star})")); }
                let flip: String = t_pat.chars().enumerate().map(|(i, c)| if i == k { if c == 'F' { 'T' } else { 'F' } } else { '*' }).collect();
                if !matches!(m.matches(&flip), Ok(false)) { mbad.push(format!("matches({flip}) must be false")); }
                let wrong_dim: String = im.chars().enumerate().map(|(i, c)| if i == k { match c { 'F' => '0', '0' => '1', '1' => '2', _ => '1' } } else { '*' }).collect();
                if !matches!(m.matches(&wrong_dim), Ok(false)) { mbad.push(format!("matches({wrong_dim}) must be false")); }
            }
            // (a pattern with an invalid letter is only rejected if matching gets that far: "FFFFFFFFX" is answered Ok(false)
            // when an earlier entry already differs - lazily validated, not judged here; a pattern of the wrong length is an error)
            if m.matches("12").is_ok() { mbad.push("matches accepts a pattern that is not 9 characters long".to_string()); }
            (bad, cells, mbad)
        });
        for prop in ["C01", "C02"] {
            if !cx.wants(prop) { continue; }
            match &r {
                Ok((bad, cells, mbad)) => {
                    if bad.is_empty() { cx.ok("matrix_named_predicates"); } else { cx.bad(prop, "matrix_named_predicates", case, json!({"what": "IntersectionMatrix::is_* of relate(a, b)", "wrong": bad, "matrix": im})); }
                    if *cells == im { cx.ok("matrix_get"); } else { cx.bad(prop, "matrix_get", case, json!({"what": "IntersectionMatrix::get, entry by entry", "got": cells, "want": im})); }
                    if mbad.is_empty() { cx.ok("matrix_matches"); } else { cx.bad(prop, "matrix_matches", case, json!({"what": "IntersectionMatrix::matches", "wrong": mbad, "matrix": im})); }
                }
                Err(p) => cx.bad(prop, "matrix_named_predicates", case, json!({"what": "panic", "got": p})),
            }
        }
    }
    if cx.wants("C01") || cx.wants("C13") {
        let prop = if cx.wants("C01") { "C01" } else { "C13" };
        // C13 (commutation): the mapped answer must equal the implementation's own unmapped answer
        let base = if prop == "C13" { relate_cc(&a, &b).unwrap_or_else(|p| format!("PANIC: {p}")) } else { im.clone() };
        for &k in &pick {
            let m = &maps[k];
            let (ta, tb) = (m.on(&a), m.on(&b));
            chk(cx, prop, "relate_exact_map", case, format!("map {}", m.name), relate_cc(&ta, &tb), &base);
        }
        if case["noproper"].as_bool() == Some(true) {
            let m = gj::pinned_map("shear_2p20").unwrap();
            chk(cx, prop, "relate_exact_map", case, format!("map {} (no proper crossing)", m.name), relate_cc(&m.on(&a), &m.on(&b)), &base);
        }
    }
    if cx.wants("C17") {
        match prepared_all(&a, &b) {
            Ok(v) => {
                for (i, s) in v.iter().enumerate() {
                    if *s == im { cx.ok("prepared_pair"); } else {
                        cx.bad("C17", "prepared_pair", case, json!({"what": format!("prepared form {i}"), "got": s, "want": im}));
                    }
                }
            }
            Err(p) => cx.bad("C17", "prepared_pair", case, json!({"what":"prepared","got":format!("PANIC: {p}"),"want":im})),
        }
    }
    if cx.wants("C02") || cx.wants("C13") {
        let ix = case["pred"]["i"].as_bool().expect("pred.i");
        let ct = case["pred"]["c"].as_bool().expect("pred.c");
        let wi = case["pred"]["w"].as_bool().expect("pred.w");
        if cx.wants("C02") {
            chkb(cx, "C02", "intersects", case, "a.intersects(b)".into(), intersects_cc(&a, &b), ix);
            chkb(cx, "C02", "intersects_symmetric", case, "b.intersects(a)".into(), intersects_cc(&b, &a), ix);
            chkb(cx, "C02", "intersects_geometry_enum", case, "Geometry(a).intersects(Geometry(b))".into(), intersects_gg(&a, &b), ix);
            chkb(cx, "C02", "intersects_geometry_enum", case, "a.intersects(Geometry(b))".into(), intersects_cg(&a, &b), ix);
            chkb(cx, "C02", "intersects_geometry_enum", case, "Geometry(a).intersects(b)".into(), intersects_gc(&a, &b), ix);
            chkb(cx, "C02", "contains", case, "a.contains(b)".into(), contains_cc(&a, &b), ct);
            chkb(cx, "C02", "contains_geometry_enum", case, "Geometry(a).contains(Geometry(b))".into(), contains_gg(&a, &b), ct);
            chkb(cx, "C02", "contains_geometry_enum", case, "Geometry(a).contains(b)".into(), contains_gc(&a, &b), ct);
            if let Some(r) = contains_cg(&a, &b) {
                chkb(cx, "C02", "contains_geometry_enum", case, "a.contains(Geometry(b))".into(), r, ct);
            }
            {
                // other scalar types: f32 (all three predicates) and i64 (intersects is implemented for every GeoNum)
                use geo::MapCoords;
                let (fa, fb) = (a.geometry().map_coords(|c| geo::Coord { x: c.x as f32, y: c.y as f32 }), b.geometry().map_coords(|c| geo::Coord { x: c.x as f32, y: c.y as f32 }));
                chkb(cx, "C02", "intersects_f32", case, "Geometry<f32>(a).intersects(b)".into(), guard(|| fa.intersects(&fb)), ix);
                chkb(cx, "C02", "contains_f32", case, "Geometry<f32>(a).contains(b)".into(), guard(|| fa.contains(&fb)), ct);
                chkb(cx, "C02", "within_f32", case, "Geometry<f32>(a).is_within(b)".into(), guard(|| fa.is_within(&fb)), wi);
                let (ia, ib) = (a.geometry().map_coords(|c| geo::Coord { x: c.x as i64, y: c.y as i64 }), b.geometry().map_coords(|c| geo::Coord { x: c.x as i64, y: c.y as i64 }));
                chkb(cx, "C02", "intersects_i64", case, "Geometry<i64>(a).intersects(b)".into(), guard(|| ia.intersects(&ib)), ix);
                chkb(cx, "C02", "intersects_i64", case, "Geometry<i64>(b).intersects(a)".into(), guard(|| ib.intersects(&ia)), ix);
            }
            chkb(cx, "C02", "within", case, "a.is_within(b)".into(), within_cc(&a, &b), wi);
            chkb(cx, "C02", "within_is_contains_swapped", case, "b.contains(a)".into(), contains_cc(&b, &a), wi);
            for (name, va) in a.variants() {
                chkb(cx, "C02", "intersects_variant", case, format!("variant {name} of a"), intersects_cc(&va, &b), ix);
                chkb(cx, "C02", "contains_variant", case, format!("variant {name} of a"), contains_cc(&va, &b), ct);
            }
            for (name, vb) in b.variants() {
                chkb(cx, "C02", "intersects_variant", case, format!("variant {name} of b"), intersects_cc(&a, &vb), ix);
                chkb(cx, "C02", "contains_variant", case, format!("variant {name} of b"), contains_cc(&a, &vb), ct);
            }
            // Coord operand forms
            if let G::Point(p) = &b {
                let c: Coord<f64> = p.0;
                chkb(cx, "C02", "intersects_coord", case, "a.intersects(coord b)".into(), guard(|| with_g!(&a, x => x.intersects(&c))), ix);
                if !matches!(a, G::MultiLineString(_)) {
                    let r = guard(|| match &a {
                        G::Point(x) => x.contains(&c), G::Line(x) => x.contains(&c), G::LineString(x) => x.contains(&c),
                        G::Polygon(x) => x.contains(&c), G::MultiPoint(x) => x.contains(&c), G::MultiPolygon(x) => x.contains(&c),
                        G::Rect(x) => x.contains(&c), G::Triangle(x) => x.contains(&c), G::GeometryCollection(x) => x.contains(&c),
                        G::MultiLineString(_) => unreachable!(),
                    });
                    chkb(cx, "C02", "contains_coord", case, "a.contains(coord b)".into(), r, ct);
                }
                if !matches!(a, G::MultiLineString(_) | G::MultiPolygon(_)) {
                    let r = guard(|| match &a {
                        G::Point(x) => c.intersects(x), G::Line(x) => c.intersects(x), G::LineString(x) => c.intersects(x),
                        G::Polygon(x) => c.intersects(x), G::MultiPoint(x) => c.intersects(x),
                        G::Rect(x) => c.intersects(x), G::Triangle(x) => c.intersects(x), G::GeometryCollection(x) => c.intersects(x),
                        _ => unreachable!(),
                    });
                    chkb(cx, "C02", "intersects_coord", case, "coord b.intersects(a)".into(), r, ix);
                }
            }
        }
        let prop = if cx.wants("C02") { "C02" } else { "C13" };
        let (bix, bct) = if prop == "C13" { (intersects_cc(&a, &b).unwrap_or(ix), contains_cc(&a, &b).unwrap_or(ct)) } else { (ix, ct) };
        for &k in &pick {
            let m = &maps[k];
            let (ta, tb) = (m.on(&a), m.on(&b));
            chkb(cx, prop, "intersects_exact_map", case, format!("map {}", m.name), intersects_cc(&ta, &tb), bix);
            chkb(cx, prop, "contains_exact_map", case, format!("map {}", m.name), contains_cc(&ta, &tb), bct);
        }
    }
}

fn pos_char(p: CoordPos) -> &'static str {
    match p {
        CoordPos::Inside => "I",
        CoordPos::OnBoundary => "B",
        CoordPos::Outside => "E",
    }
}

/// case: {op:"coordpos", g, lo, hi, pos:[...]}; pos lists Pos(g,(x,y)) for x in lo..=hi (outer), y in lo..=hi (inner)
pub fn coordpos_case(cx: &mut Ctx, n: u64, case: &Value) {
    if !(cx.wants("C02") || cx.wants("C13")) {
        return;
    }
    let g = gj::parse(&case["g"]);
    let lo = case["lo"].as_i64().unwrap();
    let hi = case["hi"].as_i64().unwrap();
    let pos: Vec<&str> = case["pos"].as_array().unwrap().iter().map(|v| v.as_str().unwrap()).collect();
    cx.count("coordpos_cases", 1);
    if n % 97 == 0 {
        cx.sample(json!({"op":"coordpos","g":case["g"],"lo":lo,"hi":hi}));
    }
    let mut i = 0usize;
    for x in lo..=hi {
        for y in lo..=hi {
            coordpos_point(cx, n, &g, &case["g"], x, y, pos[i]);
            i += 1;
        }
    }
}
/// single-point form (used by replay files): {op:"coordpos_pt", g, c:[x,y], pos:"I"}
pub fn coordpos_pt_case(cx: &mut Ctx, n: u64, case: &Value) {
    if !(cx.wants("C02") || cx.wants("C13")) {
        return;
    }
    let g = gj::parse(&case["g"]);
    let x = case["c"][0].as_i64().unwrap();
    let y = case["c"][1].as_i64().unwrap();
    coordpos_point(cx, n, &g, &case["g"], x, y, case["pos"].as_str().unwrap());
}

fn coordpos_point(cx: &mut Ctx, n: u64, g: &G, gjson: &Value, x: i64, y: i64, want: &str) {
    let prop = if cx.wants("C02") { "C02" } else { "C13" };
    let gg: Geometry<f64> = g.geometry();
    let maps = exact_maps();
    let m = &maps[((n + cx.seed) as usize + (x * 31 + y * 7).unsigned_abs() as usize) % maps.len()];
    let c = Coord { x: x as f64, y: y as f64 };
    let sub_case = json!({"op":"coordpos_pt","g":gjson,"c":[x,y],"pos":want});
    let got = guard(|| with_g!(g, z => pos_char(z.coordinate_position(&c))));
    // C13 (commutation): the mapped answer must equal the implementation's own unmapped answer
    let base13 = got.clone().unwrap_or("PANIC").to_string();
    let want = if prop == "C13" { base13.as_str() } else { want };
    if prop == "C02" {
        chk(cx, prop, "coordinate_position", &sub_case, "g.coordinate_position(c)".into(), got.map(|s| s.to_string()), want);
    }
    if prop == "C02" {
        let got = guard(|| pos_char(gg.coordinate_position(&c)));
        chk(cx, prop, "coordinate_position_geometry_enum", &sub_case, "Geometry(g).coordinate_position(c)".into(), got.map(|s| s.to_string()), want);
        for (name, v) in g.variants() {
            let got = guard(|| with_g!(&v, z => pos_char(z.coordinate_position(&c))));
            chk(cx, prop, "coordinate_position_variant", &sub_case, format!("variant {name}"), got.map(|s| s.to_string()), want);
        }
        chkb(cx, prop, "intersects_coord", &sub_case, "g.intersects(c)".into(), guard(|| with_g!(g, z => z.intersects(&c))), want != "E");
        chkb(cx, prop, "intersects_coord", &sub_case, "Geometry(g).intersects(c)".into(), guard(|| gg.intersects(&c)), want != "E");
        chkb(cx, prop, "contains_coord", &sub_case, "Geometry(g).contains(c)".into(), guard(|| gg.contains(&c)), want == "I");
        // other scalar types (lattice coordinates are exact in both)
        {
            use geo::MapCoords;
            let gi = gg.map_coords(|c| geo::Coord { x: c.x as i64, y: c.y as i64 });
            let ci = geo::Coord { x, y };
            let got = guard(|| pos_char(gi.coordinate_position(&ci)));
            chk(cx, prop, "coordinate_position_i64", &sub_case, "Geometry<i64>(g).coordinate_position(c)".into(), got.map(|s| s.to_string()), want);
            chkb(cx, prop, "intersects_coord_i64", &sub_case, "Geometry<i64>(g).intersects(c)".into(), guard(|| gi.intersects(&ci)), want != "E");
            let gf = gg.map_coords(|c| geo::Coord { x: c.x as f32, y: c.y as f32 });
            let cf = geo::Coord { x: x as f32, y: y as f32 };
            let got = guard(|| pos_char(gf.coordinate_position(&cf)));
            chk(cx, prop, "coordinate_position_f32", &sub_case, "Geometry<f32>(g).coordinate_position(c)".into(), got.map(|s| s.to_string()), want);
        }
    }
    let tg = m.on(g);
    let tc = m.apply(c);
    let got = guard(|| with_g!(&tg, z => pos_char(z.coordinate_position(&tc))));
    chk(cx, prop, "coordinate_position_exact_map", &sub_case, format!("map {}", m.name), got.map(|s| s.to_string()), want);
}

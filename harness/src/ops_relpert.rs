//! C01 / C02 on the perturbed-degenerate universe (Gen_RelPert.tla): a line leaving a vertex of a triangle in a direction that
//! differs from the triangle's edge only in the last bit.  Every expected value is TLC's; here the operands are assembled from
//! the limbs and every spelling of the pair is put through relate and the predicates.
use crate::ctx::{guard, Ctx};
use geo::{Contains, Coord, Intersects, Line, LineString, Polygon, Relate, Triangle};
use serde_json::{json, Value};

fn num(limbs: &Value, exp: i64) -> f64 {
    let mut v = 0.0f64;
    for l in limbs.as_array().unwrap().iter().rev() {
        v = v * 8192.0 + l.as_f64().unwrap();
    }
    v * 2f64.powi(exp as i32)
}

pub fn relpert_case(cx: &mut Ctx, n: u64, case: &Value) {
    let (nexp, qexp) = (case["nexp"].as_i64().unwrap(), case["qexp"].as_i64().unwrap());
    let nn = Coord { x: num(&case["nx"], nexp), y: num(&case["ny"], nexp) };
    let q = Coord { x: num(&case["qx"], qexp), y: num(&case["qy"], qexp) };
    let p1 = Coord { x: nn.x * 16.0, y: nn.y * 16.0 };
    let r = Coord { x: case["r"][0].as_f64().unwrap(), y: case["r"][1].as_f64().unwrap() };
    let k = case["k"].as_i64().unwrap();
    let (im, imt) = (case["im"].as_str().unwrap().to_string(), case["imt"].as_str().unwrap().to_string());
    if n % 501 == 0 {
        cx.sample(case.clone());
    }
    cx.count("relpert_cases", 1);
    cx.count(if k == 0 { "relpert_on_edge" } else if case["contains"].as_bool().unwrap() { "relpert_inside" } else { "relpert_outside" }, 1);
    // the construction itself: q is 4 n moved by k units in the last place of its y coordinate
    let e = Coord { x: nn.x * 4.0, y: nn.y * 4.0 };
    let built = q.x == e.x && (q.y.to_bits() as i64 - e.y.to_bits() as i64) == k;
    if !built {
        cx.bad("C01", "relpert_construction", case, json!({"what": "harness: q is not 4 n moved by k ulps", "n": [nn.x, nn.y], "q": [q.x, q.y]}));
        return;
    }
    let s = |m: geo::relate::IntersectionMatrix| format!("{m:?}").replace("IntersectionMatrix(", "").replace(')', "");
    let polys = [("polygon n p1 r", Polygon::new(LineString::new(vec![nn, p1, r, nn]), vec![])), ("polygon n r p1", Polygon::new(LineString::new(vec![nn, r, p1, nn]), vec![])),
                 ("polygon p1 r n", Polygon::new(LineString::new(vec![p1, r, nn, p1]), vec![]))];
    let tris = [("Triangle::new", Triangle::new(nn, p1, r)), ("Triangle(n, r, p1)", Triangle(nn, r, p1)), ("Triangle(n, p1, r)", Triangle(nn, p1, r))];
    let lines = [("Line n q", Line::new(nn, q)), ("Line q n", Line::new(q, nn))];
    if cx.wants("C01") {
        let mut chk = |cx: &mut Ctx, what: String, got: Result<String, String>, want: &str| {
            if got.as_deref() == Ok(want) { cx.ok("relate_perturbed"); } else { cx.bad("C01", "relate_perturbed", case, json!({"what": what, "got": format!("{got:?}"), "want": want})); }
        };
        for (ln, l) in &lines {
            let ls = LineString::new(vec![l.start, l.end]);
            for (pn, p) in &polys {
                chk(cx, format!("{ln} relate {pn}"), guard(|| s(l.relate(p))), &im);
                chk(cx, format!("{pn} relate {ln}"), guard(|| s(p.relate(l))), &imt);
                chk(cx, format!("LineString({ln}) relate {pn}"), guard(|| s(ls.relate(p))), &im);
                chk(cx, format!("Geometry({pn}) relate Geometry(LineString({ln}))"), guard(|| s(geo::Geometry::Polygon(p.clone()).relate(&geo::Geometry::LineString(ls.clone())))), &imt);
            }
            for (tn, t) in &tris {
                chk(cx, format!("{ln} relate {tn}"), guard(|| s(l.relate(t))), &im);
                chk(cx, format!("{tn} relate LineString({ln})"), guard(|| s(t.relate(&ls))), &imt);
            }
        }
    }
    if cx.wants("C02") {
        let (wc, wi) = (case["contains"].as_bool().unwrap(), case["intersects"].as_bool().unwrap());
        let mut chkb = |cx: &mut Ctx, sub: &str, what: String, got: Result<bool, String>, want: bool| {
            if got == Ok(want) { cx.ok(sub); } else { cx.bad("C02", sub, case, json!({"what": what, "got": format!("{got:?}"), "want": want})); }
        };
        for (ln, l) in &lines {
            let ls = LineString::new(vec![l.start, l.end]);
            for (pn, p) in &polys {
                chkb(cx, "contains_perturbed", format!("{pn} contains {ln}"), guard(|| p.contains(l)), wc);
                chkb(cx, "contains_perturbed", format!("{pn} contains LineString({ln})"), guard(|| p.contains(&ls)), wc);
                chkb(cx, "intersects_perturbed", format!("{pn} intersects {ln}"), guard(|| p.intersects(l) && l.intersects(p)), wi);
                // the far end q alone: inside the polygon exactly when the line's interior is
                chkb(cx, "contains_perturbed", format!("{pn} contains the point q"), guard(|| p.contains(&q)), wc);
                chkb(cx, "intersects_perturbed", format!("{pn} intersects the point q"), guard(|| p.intersects(&q)), wc || k == 0);
            }
            for (tn, t) in &tris {
                chkb(cx, "intersects_perturbed", format!("{tn} intersects the point q"), guard(|| t.intersects(&q)), wc || k == 0);
                chkb(cx, "contains_perturbed", format!("{tn} contains the point q"), guard(|| t.contains(&q)), wc);
            }
        }
    }
}

//! C11: replay of Gen_Segments cases into line_intersection / Line::intersects.
use crate::ctx::{guard, Ctx};
use crate::gj::{coord, exact_maps};
use geo::line_intersection::{line_intersection, LineIntersection};
use geo::{Coord, Intersects, Line};
use serde_json::{json, Value};

fn ulp(x: f64) -> f64 {
    let x = x.abs().max(f64::MIN_POSITIVE);
    f64::from_bits(x.to_bits() + 1) - x
}

pub fn segseg_case(cx: &mut Ctx, n: u64, case: &Value) {
    if cx.wants("C03") {
        crate::ops_kernel::lattice_orient(cx, case);
    }
    if cx.wants("C02") {
        segseg_c02(cx, case);
    }
    if !cx.wants("C11") {
        return;
    }
    // once per replay: 300 000 seeded random pairs with DECIMAL coordinates in which one segment ends a few units in the last place
    // beyond the other (a proper crossing right next to an end point).  No expected value is needed for what the property promises
    // there: a point flagged proper lies in BOTH bounding boxes, and Some / None agrees with intersects in both operand orders
    static NEAR_END_DONE: std::sync::atomic::AtomicBool = std::sync::atomic::AtomicBool::new(false);
    if !NEAR_END_DONE.swap(true, std::sync::atomic::Ordering::SeqCst) {
        use rand::{rngs::StdRng, Rng, SeedableRng};
        let mut rng = StdRng::seed_from_u64(cx.seed ^ 0xC11);
        let ulps = |v: f64, k: i64| f64::from_bits((v.to_bits() as i64 + if v >= 0.0 { k } else { -k }) as u64);
        let mut bad = 0usize;
        for _ in 0..300_000 {
            let r = |rng: &mut StdRng| (rng.gen_range(-2000..2000) as f64) / 100.0 + rng.gen_range(0..1000) as f64 * 1e-7;
            let q = Line::new(Coord { x: r(&mut rng), y: r(&mut rng) }, Coord { x: r(&mut rng), y: r(&mut rng) });
            let t = rng.gen_range(0.1..0.9);
            let m = Coord { x: q.start.x + t * (q.end.x - q.start.x), y: q.start.y + t * (q.end.y - q.start.y) };
            let far = Coord { x: r(&mut rng), y: r(&mut rng) };
            let (kx, ky) = (rng.gen_range(0..3i64), rng.gen_range(0..3i64));
            let end = Coord { x: ulps(m.x, if m.x >= far.x { kx } else { -kx }), y: ulps(m.y, if m.y >= far.y { ky } else { -ky }) };
            let p = if rng.gen_bool(0.5) { Line::new(far, end) } else { Line::new(end, far) };
            for (l1, l2) in [(p, q), (q, p)] {
                let got = guard(|| (line_intersection(l1, l2), l1.intersects(&l2)));
                let ok = match &got {
                    Ok((None, ix)) => !*ix,
                    Ok((Some(LineIntersection::SinglePoint { intersection: i, is_proper }), ix)) => {
                        let inbox = |l: &Line<f64>| i.x >= l.start.x.min(l.end.x) && i.x <= l.start.x.max(l.end.x) && i.y >= l.start.y.min(l.end.y) && i.y <= l.start.y.max(l.end.y);
                        *ix && (!*is_proper || (inbox(&l1) && inbox(&l2)))
                    }
                    Ok((Some(_), ix)) => *ix,
                    Err(_) => false,
                };
                if ok { cx.ok("proper_point_in_both_boxes_random"); } else if bad < 20 {
                    bad += 1;
                    cx.bad("C11", "proper_point_in_both_boxes_random", case, json!({"what": "random decimal pair, one segment ending a few ulps beyond the other", "p": [l1.start.x, l1.start.y, l1.end.x, l1.end.y], "q": [l2.start.x, l2.start.y, l2.end.x, l2.end.y], "got": format!("{got:?}")}));
                }
            }
        }
    }
    let (a, b, c, d) = (coord(&case["a"]), coord(&case["b"]), coord(&case["c"]), coord(&case["d"]));
    let rel = &case["rel"];
    let kind = rel["kind"].as_str().unwrap();
    if n % 4099 == 0 {
        cx.sample(case.clone());
    }
    cx.count(&format!("segseg_{}{}", kind, if kind == "point" { if rel["proper"].as_bool().unwrap() { "_proper" } else { "_improper" } } else { "" }), 1);
    let maps = exact_maps();
    let id = crate::gj::ExactMap { name: "identity", m: [1.0, 0.0, 0.0, 0.0, 1.0, 0.0], axis: true };
    let mut todo: Vec<&crate::gj::ExactMap> = vec![&id];
    for k in 0..2usize {
        todo.push(&maps[(n as usize + cx.seed as usize + 7 * k) % maps.len()]);
    }
    for m in todo {
        let (ta, tb, tc, td) = (m.apply(a), m.apply(b), m.apply(c), m.apply(d));
        let sub = if m.name == "identity" { "line_intersection" } else { "line_intersection_exact_map" };
        // both argument orders and reversed directions
        for (p, q, what) in [(Line::new(ta, tb), Line::new(tc, td), "(ab, cd)"), (Line::new(tc, td), Line::new(ta, tb), "(cd, ab)"), (Line::new(tb, ta), Line::new(td, tc), "(ba, dc)")] {
            let _ = geo::verif_hooks::take();
            let got = guard(|| line_intersection(p, q));
            // hook H5: the branch of the decision tree the code took, compared with the branch of the TLA+ model (Gen_Segments!Decide);
            // judged for the case as generated (identity map, order (ab, cd))
            let labels: Vec<&'static str> = geo::verif_hooks::take().into_iter().filter(|l| l.starts_with("li:")).collect();
            if m.name == "identity" && what == "(ab, cd)" {
                let want = case["branch"].as_str().unwrap_or("");
                let got_b = labels.last().map(|l| &l[3..]).unwrap_or("none");
                cx.count(&format!("branch_{got_b}"), 1);
                // advisory only: which branch a correct result came from is not part of C11, so a disagreement is counted in the
                // evidence (decision_tree_agrees / decision_tree_differs) and never reported as a violation
                cx.count(if got_b == want { "decision_tree_agrees" } else { "decision_tree_differs" }, 1);
            }
            let ok = match (&got, kind) {
                (Ok(None), "none") => Ok(()),
                (Ok(Some(LineIntersection::Collinear { intersection })), "collinear") => {
                    let (lo, hi) = (m.apply(coord(&rel["lo"])), m.apply(coord(&rel["hi"])));
                    if (intersection.start == lo && intersection.end == hi) || (intersection.start == hi && intersection.end == lo) { Ok(()) } else { Err("wrong shared sub-segment".to_string()) }
                }
                (Ok(Some(LineIntersection::SinglePoint { intersection, is_proper })), "point") => {
                    let want_proper = rel["proper"].as_bool().unwrap();
                    if *is_proper != want_proper {
                        Err(format!("is_proper {is_proper} want {want_proper}"))
                    } else if !want_proper {
                        let at = m.apply(coord(&rel["at"]));
                        // bit-identical to the endpoint involved
                        if intersection.x.to_bits() == at.x.to_bits() && intersection.y.to_bits() == at.y.to_bits() { Ok(()) } else { Err("improper point is not the endpoint".to_string()) }
                    } else {
                        let q0 = Coord { x: rel["x"][0].as_f64().unwrap() / rel["x"][1].as_f64().unwrap(), y: rel["y"][0].as_f64().unwrap() / rel["y"][1].as_f64().unwrap() };
                        let w = m.apply(q0);
                        let maxc = [ta, tb, tc, td].iter().fold(0f64, |acc, c| acc.max(c.x.abs()).max(c.y.abs()));
                        let tol = 4.0 * ulp(maxc);
                        let inbox = |l: &Line<f64>| intersection.x >= l.start.x.min(l.end.x) && intersection.x <= l.start.x.max(l.end.x) && intersection.y >= l.start.y.min(l.end.y) && intersection.y <= l.start.y.max(l.end.y);
                        if (intersection.x - w.x).abs() > tol || (intersection.y - w.y).abs() > tol { Err(format!("proper point off by more than 4 ulp: want {w:?} tol {tol}")) }
                        else if !inbox(&p) || !inbox(&q) { Err("proper point outside a segment's bounding box".to_string()) } else { Ok(()) }
                    }
                }
                _ => Err("wrong classification".to_string()),
            };
            // LineIntersection::is_proper(): the flag of a single point, false for a collinear overlap
            if let Ok(Some(li)) = &got {
                let want_p = kind == "point" && rel["proper"].as_bool().unwrap_or(false);
                if li.is_proper() == want_p { cx.ok("is_proper_method"); } else { cx.bad("C11", "is_proper_method", case, json!({"what": format!("{what} map {}", m.name), "got": li.is_proper(), "want": want_p})); }
            }
            match ok {
                Ok(()) => cx.ok(sub),
                Err(e) => cx.bad("C11", sub, case, json!({"what": format!("{what} map {}", m.name), "got": format!("{got:?}"), "detail": e})),
            }
            let ix = guard(|| p.intersects(&q));
            if ix == Ok(kind != "none") { cx.ok("agrees_with_intersects"); } else {
                cx.bad("C11", "agrees_with_intersects", case, json!({"what": format!("Line::intersects {what} map {}", m.name), "got": format!("{ix:?}"), "want": kind != "none"}));
            }
        }
    }
    // f32 scalar type and the Geometry-level entry points (lattice coordinates are exact in f32)
    {
        let f = |c: Coord<f64>| Coord { x: c.x as f32, y: c.y as f32 };
        let (p, q) = (Line::new(f(a), f(b)), Line::new(f(c), f(d)));
        for (l1, l2, what) in [(p, q, "(ab, cd)"), (q, p, "(cd, ab)")] {
            let got = guard(|| line_intersection(l1, l2));
            let ok = match (&got, kind) {
                (Ok(None), "none") => true,
                (Ok(Some(LineIntersection::Collinear { intersection })), "collinear") => {
                    let (lo, hi) = (f(coord(&rel["lo"])), f(coord(&rel["hi"])));
                    (intersection.start == lo && intersection.end == hi) || (intersection.start == hi && intersection.end == lo)
                }
                (Ok(Some(LineIntersection::SinglePoint { intersection, is_proper })), "point") => {
                    let want_proper = rel["proper"].as_bool().unwrap();
                    *is_proper == want_proper && if !want_proper { *intersection == f(coord(&rel["at"])) } else {
                        let w = Coord { x: (rel["x"][0].as_f64().unwrap() / rel["x"][1].as_f64().unwrap()) as f32, y: (rel["y"][0].as_f64().unwrap() / rel["y"][1].as_f64().unwrap()) as f32 };
                        (intersection.x - w.x).abs() <= 1e-5 && (intersection.y - w.y).abs() <= 1e-5
                    }
                }
                _ => false,
            };
            if ok { cx.ok("line_intersection_f32"); } else { cx.bad("C11", "line_intersection_f32", case, json!({"what": format!("Line<f32> {what}"), "got": format!("{got:?}")})); }
            let ix = guard(|| l1.intersects(&l2));
            if ix == Ok(kind != "none") { cx.ok("agrees_with_intersects_f32"); } else { cx.bad("C11", "agrees_with_intersects_f32", case, json!({"what": format!("Line<f32>::intersects {what}"), "got": format!("{ix:?}")})); }
        }
        // Line::intersects through the Geometry enum and against the one-segment LineString form of the other operand
        let (ga, gb) = (geo::Geometry::Line(Line::new(a, b)), geo::Geometry::LineString(geo::LineString::new(vec![c, d])));
        let ix = guard(|| (ga.intersects(&gb), gb.intersects(&ga), Line::new(a, b).intersects(&geo::LineString::new(vec![c, d]))));
        let w = kind != "none";
        if c != d || a != b { if ix == Ok((w, w, w)) { cx.ok("agrees_with_intersects_other_forms"); } else {
            cx.bad("C11", "agrees_with_intersects_other_forms", case, json!({"what": "Geometry::Line(ab) / LineString(cd) intersects", "got": format!("{ix:?}"), "want": w})); } }
    }
}

/// C02 on every pair of lattice segments (zero-length ones included): `intersects` in every spelling of the two operands must say
/// what the exact relation of Gen_Segments says (kind != none), whichever operand is degenerate and whichever comes first.
fn segseg_c02(cx: &mut Ctx, case: &Value) {
    use geo::{Geometry, LineString, MultiLineString, Point};
    let (a, b, c, d) = (coord(&case["a"]), coord(&case["b"]), coord(&case["c"]), coord(&case["d"]));
    let meets = case["rel"]["kind"].as_str().unwrap() != "none";
    cx.count("segseg_c02_cases", 1);
    if a == b || c == d { cx.count("segseg_c02_degenerate", 1); }
    let mut chk = |cx: &mut Ctx, what: &str, got: Result<bool, String>| {
        if got == Ok(meets) { cx.ok("segment_pair_intersects"); } else { cx.bad("C02", "segment_pair_intersects", case, json!({"what": what, "got": format!("{got:?}"), "want": meets})); }
    };
    let (p, q) = (Line::new(a, b), Line::new(c, d));
    let (pr, qr) = (Line::new(b, a), Line::new(d, c));
    chk(cx, "Line(ab).intersects(Line(cd))", guard(|| p.intersects(&q)));
    chk(cx, "Line(cd).intersects(Line(ab))", guard(|| q.intersects(&p)));
    chk(cx, "Line(ba).intersects(Line(dc))", guard(|| pr.intersects(&qr)));
    chk(cx, "Line(dc).intersects(Line(ab))", guard(|| qr.intersects(&p)));
    let (lp, lq) = (LineString::new(vec![a, b]), LineString::new(vec![c, d]));
    let (lp2, lq2) = (LineString::new(vec![a, a, b]), LineString::new(vec![c, d, d]));
    chk(cx, "LineString(ab).intersects(Line(cd))", guard(|| lp.intersects(&q)));
    chk(cx, "Line(cd).intersects(LineString(ab))", guard(|| q.intersects(&lp)));
    chk(cx, "LineString(ab).intersects(LineString(cd))", guard(|| lp.intersects(&lq)));
    chk(cx, "LineString(aab).intersects(Line(cd))", guard(|| lp2.intersects(&q)));
    chk(cx, "LineString(cdd).intersects(Line(ab))", guard(|| lq2.intersects(&p)));
    chk(cx, "LineString(aab).intersects(LineString(cdd))", guard(|| lp2.intersects(&lq2)));
    chk(cx, "MultiLineString[ab].intersects(Line(cd))", guard(|| MultiLineString::new(vec![lp.clone()]).intersects(&q)));
    chk(cx, "Geometry::Line(ab).intersects(Geometry::Line(cd))", guard(|| Geometry::Line(p).intersects(&Geometry::Line(q))));
    chk(cx, "Geometry::Line(cd).intersects(Geometry::LineString(aab))", guard(|| Geometry::Line(q).intersects(&Geometry::LineString(lp2.clone()))));
    if a == b {
        chk(cx, "Point(a).intersects(Line(cd))", guard(|| Point(a).intersects(&q)));
        chk(cx, "Line(cd).intersects(Point(a))", guard(|| q.intersects(&Point(a))));
        chk(cx, "Line(cd).intersects(Coord a)", guard(|| q.intersects(&a)));
    }
    if c == d {
        chk(cx, "Line(ab).intersects(Point(c))", guard(|| p.intersects(&Point(c))));
        chk(cx, "Point(c).intersects(LineString(aab))", guard(|| Point(c).intersects(&lp2)));
    }
}

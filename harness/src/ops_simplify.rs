//! C09: replay of Gen_Simplify cases (admissible output sets computed by TLC).
use crate::ctx::{guard, Ctx};
use crate::gj::coords;
use geo::{Coord, LineString, MultiLineString, MultiPolygon, Polygon, Simplify, SimplifyIdx, SimplifyVw, SimplifyVwIdx, SimplifyVwPreserve};
use serde_json::{json, Value};

fn adm(v: &Value) -> Vec<Vec<usize>> {
    v.as_array().unwrap().iter().map(|s| s.as_array().unwrap().iter().map(|k| k.as_u64().unwrap() as usize - 1).collect()).collect()
}
fn pick(cs: &[Coord<f64>], idx: &[usize]) -> Vec<Coord<f64>> {
    idx.iter().map(|&i| cs[i]).collect()
}
/// positions of `out` as a subsequence of `cs` keeping both ends (greedy match), if it is one
fn is_subseq_with_ends(cs: &[Coord<f64>], out: &[Coord<f64>]) -> bool {
    if cs.is_empty() { return out.is_empty(); }
    if out.is_empty() || out[0] != cs[0] || out[out.len() - 1] != cs[cs.len() - 1] { return false; }
    let mut j = 0;
    for c in cs { if j < out.len() && out[j] == *c { j += 1; } }
    j == out.len()
}

pub fn simplify_case(cx: &mut Ctx, n: u64, case: &Value) {
    if !cx.wants("C09") {
        return;
    }
    let cs = coords(&case["cs"]);
    let eps = case["eps"][0].as_f64().unwrap() / case["eps"][1].as_f64().unwrap();
    let ls = LineString::new(cs.clone());
    let (rdp, vw) = (adm(&case["rdp"]), adm(&case["vw"]));
    let all: Vec<usize> = (0..cs.len()).collect();
    if n % 3001 == 0 {
        cx.sample(case.clone());
    }
    cx.count("simplify_cases", 1);
    if rdp.len() > 1 || vw.len() > 1 { cx.count("simplify_cases_with_ties", 1); }
    let member = |cx: &mut Ctx, sub: &str, what: &str, got: Result<Vec<usize>, String>, set: &[Vec<usize>]| match got {
        Ok(g) if set.iter().any(|s| *s == g) => cx.ok(sub),
        other => cx.bad("C09", sub, case, json!({"what": what, "got": format!("{other:?}"), "admissible": set})),
    };
    // index variants
    member(cx, "rdp_idx", "simplify_idx(eps)", guard(|| ls.simplify_idx(eps)), &rdp);
    member(cx, "vw_idx", "simplify_vw_idx(eps)", guard(|| ls.simplify_vw_idx(eps)), &vw);
    member(cx, "rdp_idx_nonpositive_eps", "simplify_idx(0)", guard(|| ls.simplify_idx(0.0)), &[all.clone()]);
    member(cx, "rdp_idx_nonpositive_eps", "simplify_idx(-1)", guard(|| ls.simplify_idx(-1.0)), &[all.clone()]);
    member(cx, "vw_idx_nonpositive_eps", "simplify_vw_idx(0)", guard(|| ls.simplify_vw_idx(0.0)), &[all.clone()]);
    member(cx, "vw_idx_nonpositive_eps", "simplify_vw_idx(-1)", guard(|| ls.simplify_vw_idx(-1.0)), &[all.clone()]);
    // coordinate variants must list exactly the coordinates at the positions the index variants return
    let coords_eq = |cx: &mut Ctx, sub: &str, what: &str, got: Result<Vec<Coord<f64>>, String>, idx: Result<Vec<usize>, String>, set: &[Vec<usize>]| {
        let ok = match (&got, &idx) {
            (Ok(g), Ok(i)) => *g == pick(&cs, i) && set.iter().any(|s| pick(&cs, s) == *g),
            _ => false,
        };
        if ok { cx.ok(sub); } else { cx.bad("C09", sub, case, json!({"what": what, "got": format!("{got:?}"), "idx": format!("{idx:?}"), "admissible": set})); }
    };
    coords_eq(cx, "rdp_coords", "simplify(eps) vs simplify_idx(eps)", guard(|| ls.simplify(eps).0), guard(|| ls.simplify_idx(eps)), &rdp);
    coords_eq(cx, "vw_coords", "simplify_vw(eps) vs simplify_vw_idx(eps)", guard(|| ls.simplify_vw(eps).0), guard(|| ls.simplify_vw_idx(eps)), &vw);
    coords_eq(cx, "rdp_coords_nonpositive_eps", "simplify(0)", guard(|| ls.simplify(0.0).0), Ok(all.clone()), &[all.clone()]);
    coords_eq(cx, "vw_coords_nonpositive_eps", "simplify_vw(0)", guard(|| ls.simplify_vw(0.0).0), Ok(all.clone()), &[all.clone()]);
    coords_eq(cx, "vw_coords_nonpositive_eps", "simplify_vw(-1)", guard(|| ls.simplify_vw(-1.0).0), Ok(all.clone()), &[all.clone()]);
    // f32 scalar type: lattice coordinates and the tolerances k / 4 are exact in f32; the admissible sets already allow either
    // decision where a distance or area equals eps exactly
    {
        let lf: LineString<f32> = LineString::new(cs.iter().map(|c| Coord { x: c.x as f32, y: c.y as f32 }).collect());
        let ef = eps as f32;
        member(cx, "rdp_idx_f32", "LineString<f32>::simplify_idx(eps)", guard(|| lf.simplify_idx(ef)), &rdp);
        member(cx, "vw_idx_f32", "LineString<f32>::simplify_vw_idx(eps)", guard(|| lf.simplify_vw_idx(ef)), &vw);
        let back = |l: LineString<f32>| -> Vec<Coord<f64>> { l.0.iter().map(|c| Coord { x: c.x as f64, y: c.y as f64 }).collect() };
        coords_eq(cx, "rdp_coords_f32", "LineString<f32>::simplify(eps) vs simplify_idx(eps)", guard(|| back(lf.simplify(ef))), guard(|| lf.simplify_idx(ef)), &rdp);
        coords_eq(cx, "vw_coords_f32", "LineString<f32>::simplify_vw(eps) vs simplify_vw_idx(eps)", guard(|| back(lf.simplify_vw(ef))), guard(|| lf.simplify_vw_idx(ef)), &vw);
        coords_eq(cx, "rdp_coords_f32", "LineString<f32>::simplify(0)", guard(|| back(lf.simplify(0.0))), Ok(all.clone()), &[all.clone()]);
        coords_eq(cx, "vw_coords_f32", "LineString<f32>::simplify_vw(-1)", guard(|| back(lf.simplify_vw(-1.0))), Ok(all.clone()), &[all.clone()]);
    }
    // far from the origin, with coordinates that are not integers (translated by a decimal offset; whatever the rounding of the
    // sums gives IS the input): the result is still a subsequence of exactly these coordinates with both ends, and the index
    // variant names exactly the coordinates the coordinate variant returns (WHICH vertices are kept is not judged here: a distance
    // or area that equals eps exactly on the lattice is decided by rounding after the translation)
    for (sc, ox, oy) in [(1.0f64, 8_238_310.24f64, -4_942_194.78f64), (1.0, -2_097_153.3, 1_048_577.1), (4_119_100.13, -8_238_310.24, 4_942_194.78), (-1_400_000.77, 2_800_000.9, -1_400_000.3), (0.37, 3_000_000.7, -1_200_000.1)] {
        // (a scale factor spreads the vertices over several binades around the far first vertex)
        let far: Vec<Coord<f64>> = cs.iter().map(|c| Coord { x: c.x * sc + ox, y: c.y * sc + oy }).collect();
        // one variant replaces the lattice values by unrelated decimal numbers of very different size (projected coordinates)
        const TX: [f64; 6] = [-8_238_310.24, -14_226.63, 1_492_232.65, 261_845.71, -7_910_240.56, 33.125];
        const TY: [f64; 6] = [4_942_194.78, 6_678_077.70, 6_250_564.35, 5_215_074.24, 6_894_701.26, -0.7];
        let far: Vec<Coord<f64>> = if sc < 0.0 { cs.iter().map(|c| Coord { x: TX[(c.x.abs() as usize) % 6], y: TY[(c.y.abs() as usize) % 6] }).collect() } else { far };
        let eps = if sc < 0.0 { 1000.0 } else { eps * sc };
        let lf = LineString::new(far.clone());
        let pickf = |idx: &[usize]| -> Vec<Coord<f64>> { idx.iter().map(|i| far[*i]).collect() };
        let (ri, vi) = (guard(|| lf.simplify_idx(eps)), guard(|| lf.simplify_vw_idx(eps)));
        let (rc, vc) = (guard(|| lf.simplify(eps).0), guard(|| lf.simplify_vw(eps).0));
        let shape = |i: &Vec<usize>| i.windows(2).all(|w| w[0] < w[1]) && (far.is_empty() && i.is_empty() || !far.is_empty() && i.first() == Some(&0) && i.last() == Some(&(far.len() - 1)));
        let ok_r = matches!((&ri, &rc), (Ok(i), Ok(c)) if *c == pickf(i) && shape(i));
        let ok_v = matches!((&vi, &vc), (Ok(i), Ok(c)) if *c == pickf(i) && shape(i));
        if ok_r { cx.ok("rdp_far_from_origin"); } else { cx.bad("C09", "rdp_far_from_origin", case, json!({"what": format!("input scaled by {sc} and translated by ({ox}, {oy}): simplify / simplify_idx"), "idx": format!("{ri:?}"), "coords": format!("{rc:?}"), "admissible": rdp})); }
        if ok_v { cx.ok("vw_far_from_origin"); } else { cx.bad("C09", "vw_far_from_origin", case, json!({"what": format!("input scaled by {sc} and translated by ({ox}, {oy}): simplify_vw / simplify_vw_idx"), "idx": format!("{vi:?}"), "coords": format!("{vc:?}"), "admissible": vw})); }
    }
    // MultiLineString: member-wise
    let mls = MultiLineString::new(vec![ls.clone(), ls.clone()]);
    coords_eq(cx, "rdp_multi", "MultiLineString::simplify", guard(|| mls.simplify(eps).0[1].0.clone()), guard(|| ls.simplify_idx(eps)), &rdp);
    coords_eq(cx, "vw_multi", "MultiLineString::simplify_vw", guard(|| mls.simplify_vw(eps).0[0].0.clone()), guard(|| ls.simplify_vw_idx(eps)), &vw);
    // topology-preserving VW: structural postconditions only
    let structural = |cx: &mut Ctx, sub: &str, what: &str, got: Result<Vec<Coord<f64>>, String>, ring: bool| {
        let ok = match &got {
            Ok(g) => is_subseq_with_ends(&cs, g) && (!ring || (g.len() >= 4 && g[0] == g[g.len() - 1])),
            _ => false,
        };
        if ok { cx.ok(sub); } else { cx.bad("C09", sub, case, json!({"what": what, "got": format!("{got:?}")})); }
    };
    structural(cx, "vw_preserve", "LineString::simplify_vw_preserve", guard(|| ls.simplify_vw_preserve(eps).0), false);
    structural(cx, "vw_preserve", "LineString::simplify_vw_preserve(0)", guard(|| ls.simplify_vw_preserve(0.0).0), false);
    if case["ring"].as_bool().unwrap() {
        let rr = adm(&case["rdp_ring"]);
        let poly = Polygon::new(ls.clone(), vec![ls.clone()]);
        coords_eq(cx, "rdp_polygon_ring", "Polygon::simplify exterior", guard(|| poly.simplify(eps).exterior().0.clone()), Ok(vec![]).and_then(|_: Vec<usize>| guard(|| {
            let out = poly.simplify(eps).exterior().0.clone();
            rr.iter().find(|s| pick(&cs, s) == out).cloned().unwrap_or_default()
        })), &rr);
        coords_eq(cx, "rdp_polygon_ring", "Polygon::simplify interior", guard(|| poly.simplify(eps).interiors()[0].0.clone()), guard(|| {
            let out = poly.simplify(eps).interiors()[0].0.clone();
            rr.iter().find(|s| pick(&cs, s) == out).cloned().unwrap_or_default()
        }), &rr);
        let mp = MultiPolygon::new(vec![poly.clone()]);
        structural(cx, "rdp_polygon_ring_closed", "MultiPolygon::simplify exterior closed, >= 4", guard(|| mp.simplify(eps).0[0].exterior().0.clone()), true);
        structural(cx, "vw_preserve_ring", "Polygon::simplify_vw_preserve exterior", guard(|| Polygon::new(ls.clone(), vec![]).simplify_vw_preserve(eps).exterior().0.clone()), true);
        structural(cx, "vw_preserve_ring", "MultiPolygon::simplify_vw_preserve exterior", guard(|| MultiPolygon::new(vec![Polygon::new(ls.clone(), vec![])]).simplify_vw_preserve(eps).0[0].exterior().0.clone()), true);
        // plain VW on polygons: rings stay closed
        let got = guard(|| Polygon::new(ls.clone(), vec![]).simplify_vw(eps).exterior().0.clone());
        let ok = matches!(&got, Ok(g) if is_subseq_with_ends(&cs, g) && g[0] == g[g.len() - 1]);
        if ok { cx.ok("vw_polygon_ring_closed"); } else { cx.bad("C09", "vw_polygon_ring_closed", case, json!({"got": format!("{got:?}")})); }
    }
}

/// C09 on long inputs: record what simplify / simplify_vw (+ idx, + ring forms) return for seeded random lattice walks;
/// Trace_Simplify.tla evaluates the property's postconditions exactly.  Nothing is judged here.
pub fn record(w: &mut dyn std::io::Write, seed: u64, n_events: usize) {
    use rand::{rngs::StdRng, Rng, SeedableRng};
    let mut rng = StdRng::seed_from_u64(seed ^ 0xC09);
    let eps_list: [(i64, i64); 9] = [(0, 1), (-1, 2), (1, 4), (1, 2), (1, 1), (3, 2), (5, 2), (7, 1), (100, 1)];
    for k in 0..n_events {
        crate::ctx::beat(&format!("{{\"record\": \"c09\", \"seed\": {seed}, \"event\": {k}}}"));
        let nv = if k % 89 == 7 { [130usize, 300, 1100, 2100][(k / 89) % 4] }          // a few long inputs (size-gated code paths)
                 else { match k % 5 { 0 => rng.gen_range(7..12), 1 => rng.gen_range(12..30), 2 => rng.gen_range(30..80), 3 => rng.gen_range(0..4), _ => rng.gen_range(7..20) } };
        let style = k % 4;
        let mut cs: Vec<Coord<f64>> = vec![];
        let (mut x, mut y) = (rng.gen_range(0..40i64), rng.gen_range(0..40i64));
        for _ in 0..nv {
            cs.push(Coord { x: x as f64, y: y as f64 });
            match style {
                0 => { x = (x + rng.gen_range(-3..=3)).clamp(0, 40); y = (y + rng.gen_range(-3..=3)).clamp(0, 40); }      // random walk (repeats, back-tracking)
                1 => { x = (x + rng.gen_range(0..=3)).clamp(0, 40); y = (y + rng.gen_range(-1..=1)).clamp(0, 40); }       // nearly monotone, many collinear runs
                2 => { x = rng.gen_range(0..40); y = rng.gen_range(0..40); }                                               // wild
                _ => { x = (x + 1).clamp(0, 40); if rng.gen_range(0..6) == 0 { y = (y + rng.gen_range(-4..=4)).clamp(0, 40); } }   // flat with spikes
            }
        }
        let closed = k % 3 == 0 && cs.len() >= 3;
        if closed {
            let f = cs[0];
            cs.push(f);
        }
        let (en, ed) = eps_list[rng.gen_range(0..eps_list.len())];
        let eps = en as f64 / ed as f64;
        let ls = LineString::new(cs.clone());
        let ints = |v: &[Coord<f64>]| -> Value { Value::Array(v.iter().map(|c| json!([c.x as i64, c.y as i64])).collect()) };
        let idx1 = |v: Vec<usize>| -> Value { Value::Array(v.into_iter().map(|i| json!(i + 1)).collect()) };
        let r = guard(|| {
            let rdp = ls.simplify_idx(eps);
            let vw = ls.simplify_vw_idx(eps);
            let rdp_cs = ls.simplify(eps).0;
            let vw_cs = ls.simplify_vw(eps).0;
            let (ring_rdp, ring_vwp) = if closed {
                (Polygon::new(ls.clone(), vec![]).simplify(eps).exterior().0.clone(), Polygon::new(ls.clone(), vec![]).simplify_vw_preserve(eps).exterior().0.clone())
            } else { (vec![], vec![]) };
            (rdp, vw, rdp_cs, vw_cs, ring_rdp, ring_vwp)
        });
        let ev = match r {
            Ok((rdp, vw, rdp_cs, vw_cs, ring_rdp, ring_vwp)) => json!({"cs": ints(&cs), "eps": [en, ed], "closed": closed, "rdp": idx1(rdp), "vw": idx1(vw),
                "rdp_cs": ints(&rdp_cs), "vw_cs": ints(&vw_cs), "ring_rdp": ints(&ring_rdp), "ring_vwp": ints(&ring_vwp), "st": "ok"}),
            Err(e) => json!({"cs": ints(&cs), "eps": [en, ed], "closed": closed, "rdp": [], "vw": [], "rdp_cs": [], "vw_cs": [], "ring_rdp": [], "ring_vwp": [], "st": format!("panic: {e}")}),
        };
        writeln!(w, "{ev}").unwrap();
    }
    w.flush().unwrap();
}

/// X10 (H2/H3): record the STEPS the simplification state machines take (vertex removals of Visvalingam-Whyatt, interval
/// split / cull / keep of Douglas-Peucker) together with the result; Trace_SimplifySteps.tla replays every step through the
/// actions of SimplifySM.tla.  Nothing is judged here.
pub fn record_steps(w: &mut dyn std::io::Write, seed: u64, n_events: usize) {
    use rand::{rngs::StdRng, Rng, SeedableRng};
    let mut rng = StdRng::seed_from_u64(seed ^ 0x510);
    let eps_list: [(i64, i64); 8] = [(1, 4), (1, 2), (1, 1), (3, 2), (5, 2), (7, 1), (20, 1), (100, 1)];
    for k in 0..n_events {
        crate::ctx::beat(&format!("{{\"record\": \"c09\", \"seed\": {seed}, \"event\": {k}}}"));
        let nv = match k % 5 { 0 => rng.gen_range(3..8), 1 => rng.gen_range(8..20), 2 => rng.gen_range(20..40), 3 => rng.gen_range(0..4), _ => rng.gen_range(5..14) };
        let style = k % 4;
        let span = if k % 7 == 0 { 3 } else { 20 };
        let mut cs: Vec<Coord<f64>> = vec![];
        let (mut x, mut y) = (rng.gen_range(0..=span), rng.gen_range(0..=span));
        for _ in 0..nv {
            cs.push(Coord { x: x as f64, y: y as f64 });
            match style {
                0 => { x = (x + rng.gen_range(-3..=3i64)).clamp(0, span); y = (y + rng.gen_range(-3..=3i64)).clamp(0, span); }
                1 => { x = (x + rng.gen_range(0..=3i64)).clamp(0, span); y = (y + rng.gen_range(-1..=1i64)).clamp(0, span); }
                2 => { x = rng.gen_range(0..=span); y = rng.gen_range(0..=span); }
                _ => { x = (x + 1).clamp(0, span); if rng.gen_range(0..5) == 0 { y = (y + rng.gen_range(-4..=4i64)).clamp(0, span); } }
            }
        }
        let closed = k % 3 == 0 && cs.len() >= 3;
        if closed {
            let f = cs[0];
            cs.push(f);
        }
        let (en, ed) = eps_list[rng.gen_range(0..eps_list.len())];
        let eps = en as f64 / ed as f64;
        let ls = LineString::new(cs.clone());
        let ints = |v: &[Coord<f64>]| -> Value { Value::Array(v.iter().map(|c| json!([c.x as i64, c.y as i64])).collect()) };
        let idx1 = |v: Vec<usize>| -> Value { Value::Array(v.into_iter().map(|i| json!(i + 1)).collect()) };
        let steps = || -> Value { Value::Array(geo::verif_hooks::take_steps().into_iter().map(|(l, a)| json!([l, a[0], a[1], a[2]])).collect()) };
        // which call is recorded: the index variants on the line string, or (closed inputs) Polygon::simplify on the ring (minimum 4)
        let ring_mode = closed && k % 2 == 0;
        let r = guard(|| {
            let _ = geo::verif_hooks::take_steps();
            if ring_mode {
                let out = Polygon::new(ls.clone(), vec![]).simplify(eps).exterior().0.clone();
                let s_rdp = steps();
                (vec![], s_rdp, vec![], Value::Array(vec![]), out)
            } else {
                let rdp = ls.simplify_idx(eps);
                let s_rdp = steps();
                let vw = ls.simplify_vw_idx(eps);
                let s_vw = steps();
                (rdp, s_rdp, vw, s_vw, vec![])
            }
        });
        let ev = match r {
            Ok((rdp, s_rdp, vw, s_vw, ring_cs)) => json!({"cs": ints(&cs), "eps": [en, ed], "minpts": if ring_mode { 4 } else { 2 }, "ring": ring_mode,
                "ring_cs": ints(&ring_cs), "rdp": idx1(rdp), "rdp_steps": s_rdp, "vw": idx1(vw), "vw_steps": s_vw, "st": "ok"}),
            Err(e) => json!({"cs": ints(&cs), "eps": [en, ed], "minpts": 2, "ring": ring_mode, "ring_cs": [], "rdp": [], "rdp_steps": [], "vw": [], "vw_steps": [], "st": format!("panic: {e}")}),
        };
        writeln!(w, "{ev}").unwrap();
    }
    w.flush().unwrap();
}

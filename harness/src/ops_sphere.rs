//! C16: (A) replay of Gen_Sphere axis journeys into Haversine / HaversineMeasure::new / Rhumb /
//! Geodesic / GeodesicMeasure::new and the legacy traits; (B) `record c16`: seeded random probes of
//! the same calls, every quantity computed by geo itself, quantised to two-limb integers and logged
//! for Trace_Sphere.tla.  Nothing is judged in part B: the harness only rounds and logs.
use crate::ctx::{guard, Ctx};
#[allow(deprecated)]
use geo::{
    Bearing, Destination, Distance, Geodesic, GeodesicBearing, GeodesicDestination, GeodesicDistance, GeodesicIntermediate,
    GeodesicLength, GeodesicMeasure, Haversine, HaversineBearing, HaversineDestination, HaversineDistance,
    HaversineIntermediate, HaversineLength, HaversineMeasure, InterpolatePoint, Length, LineString, Point, Rhumb,
    RhumbBearing, RhumbDestination, RhumbDistance, RhumbIntermediate, RhumbLength,
};
use serde_json::{json, Value};
use std::f64::consts::PI;
use std::io::Write;

pub const MEAN_R: f64 = 6_371_008.8; // HaversineMeasure::GRS80_MEAN_RADIUS, also Rhumb's sphere
pub const CUSTOM_R: f64 = 3_389_500.0; // HaversineMeasure::new(CUSTOM_R)
pub const WGS84_A: f64 = 6_378_137.0;
pub const CUSTOM_A: f64 = 3_396_200.0; // GeodesicMeasure::new(CUSTOM_A, CUSTOM_F) (the doc example's Mars)
pub const CUSTOM_F: f64 = 0.00589;

/// tolerances of part A (stated in the RULE text of lib/props/C16.py)
const TOL_DEG: f64 = 1e-9; // coordinates and bearings, degrees (about 0.1 mm)
const TOL_M_ABS: f64 = 1e-6; // distances: 1e-6 m + 1e-12 relative
const TOL_M_REL: f64 = 1e-12;
const TOL_M_ANTIPODAL: f64 = 100.0; // exactly antipodal ends (excluded by the property): coarse sanity bound only
const TOL_DEG_POLE: f64 = 1e-4; // arrival exactly at a pole (excluded by the property): coarse sanity bound on the latitude

type P = Point<f64>;
/// one metric space (or its legacy-trait spelling) as plain closures over the geo API
pub struct Space {
    pub name: &'static str,
    pub family: &'static str,  // "gc" great circle, "rh" rhumb, "ge" geodesic
    pub unit: f64,             // metres per degree of arc (equator arc for "ge")
    pub canonical_bearing: bool, // bearing documented in [0, 360)
    pub dist: Box<dyn Fn(P, P) -> f64>,
    pub bear: Box<dyn Fn(P, P) -> f64>,
    pub dest: Box<dyn Fn(P, f64, f64) -> P>,
    pub ratio: Box<dyn Fn(P, P, f64) -> P>,
    pub dist_between: Option<Box<dyn Fn(P, P, f64) -> P>>,   // InterpolatePoint::point_at_distance_between (new API only)
    pub along: Box<dyn Fn(P, P, f64, bool) -> Vec<P>>,
    pub len: Box<dyn Fn(&LineString<f64>) -> f64>,
}

#[allow(deprecated)]
pub fn spaces(with_legacy: bool) -> Vec<Space> {
    let hr: &'static HaversineMeasure = Box::leak(Box::new(HaversineMeasure::new(CUSTOM_R)));
    let gc = Box::leak(Box::new(GeodesicMeasure::new(CUSTOM_A, CUSTOM_F)));
    let gc: &'static _ = gc;
    let mut v = vec![
        Space {
            name: "hav", family: "gc", unit: PI * MEAN_R / 180.0, canonical_bearing: true,
            dist: Box::new(|a, b| Haversine.distance(a, b)),
            bear: Box::new(|a, b| Haversine.bearing(a, b)),
            dest: Box::new(|a, t, d| Haversine.destination(a, t, d)),
            ratio: Box::new(|a, b, r| Haversine.point_at_ratio_between(a, b, r)),
            dist_between: Some(Box::new(|a, b, d| Haversine.point_at_distance_between(a, b, d))),
            along: Box::new(|a, b, m, e| Haversine.points_along_line(a, b, m, e).collect()),
            len: Box::new(|l| Haversine.length(l)),
        },
        Space {
            name: "havR", family: "gc", unit: PI * CUSTOM_R / 180.0, canonical_bearing: true,
            dist: Box::new(move |a, b| hr.distance(a, b)),
            bear: Box::new(move |a, b| hr.bearing(a, b)),
            dest: Box::new(move |a, t, d| hr.destination(a, t, d)),
            ratio: Box::new(move |a, b, r| hr.point_at_ratio_between(a, b, r)),
            dist_between: Some(Box::new(move |a, b, d| hr.point_at_distance_between(a, b, d))),
            along: Box::new(move |a, b, m, e| hr.points_along_line(a, b, m, e).collect()),
            len: Box::new(move |l| hr.length(l)),
        },
        Space {
            name: "geod", family: "ge", unit: PI * WGS84_A / 180.0, canonical_bearing: true,
            dist: Box::new(|a, b| Geodesic.distance(a, b)),
            bear: Box::new(|a, b| Geodesic.bearing(a, b)),
            dest: Box::new(|a, t, d| Geodesic.destination(a, t, d)),
            ratio: Box::new(|a, b, r| Geodesic.point_at_ratio_between(a, b, r)),
            dist_between: Some(Box::new(|a, b, d| Geodesic.point_at_distance_between(a, b, d))),
            along: Box::new(|a, b, m, e| Geodesic.points_along_line(a, b, m, e).collect()),
            len: Box::new(|l| Geodesic.length(l)),
        },
        Space {
            name: "geodC", family: "ge", unit: PI * CUSTOM_A / 180.0, canonical_bearing: true,
            dist: Box::new(move |a, b| gc.distance(a, b)),
            bear: Box::new(move |a, b| gc.bearing(a, b)),
            dest: Box::new(move |a, t, d| gc.destination(a, t, d)),
            ratio: Box::new(move |a, b, r| gc.point_at_ratio_between(a, b, r)),
            dist_between: Some(Box::new(move |a, b, d| gc.point_at_distance_between(a, b, d))),
            along: Box::new(move |a, b, m, e| gc.points_along_line(a, b, m, e).collect()),
            len: Box::new(move |l| gc.length(l)),
        },
        Space {
            name: "rhumb", family: "rh", unit: PI * MEAN_R / 180.0, canonical_bearing: true,
            dist: Box::new(|a, b| Rhumb.distance(a, b)),
            bear: Box::new(|a, b| Rhumb.bearing(a, b)),
            dest: Box::new(|a, t, d| Rhumb.destination(a, t, d)),
            ratio: Box::new(|a, b, r| Rhumb.point_at_ratio_between(a, b, r)),
            dist_between: Some(Box::new(|a, b, d| Rhumb.point_at_distance_between(a, b, d))),
            along: Box::new(|a, b, m, e| Rhumb.points_along_line(a, b, m, e).collect()),
            len: Box::new(|l| Rhumb.length(l)),
        },
    ];
    if with_legacy {
        v.push(Space {
            name: "hav_legacy", family: "gc", unit: PI * MEAN_R / 180.0, canonical_bearing: false, // documented (-180, 180]
            dist: Box::new(|a, b| a.haversine_distance(&b)),
            bear: Box::new(|a, b| a.haversine_bearing(b)),
            dest: Box::new(|a, t, d| a.haversine_destination(t, d)),
            ratio: Box::new(|a, b, r| a.haversine_intermediate(&b, r)),
            dist_between: None,
            along: Box::new(|a, b, m, e| a.haversine_intermediate_fill(&b, m, e)),
            len: Box::new(|l| l.haversine_length()),
        });
        v.push(Space {
            name: "geod_legacy", family: "ge", unit: PI * WGS84_A / 180.0, canonical_bearing: false,
            // geodesic_bearing_distance must be the pair (geodesic_bearing, geodesic_distance): a disagreement turns into NaN,
            // which no expectation accepts
            dist: Box::new(|a, b| { let d = a.geodesic_distance(&b); let (_, d2) = a.geodesic_bearing_distance(b); if (d - d2).abs() <= 1e-6 { d } else { f64::NAN } }),
            bear: Box::new(|a, b| { let t = a.geodesic_bearing(b); let (t2, _) = a.geodesic_bearing_distance(b); if (t - t2).abs() <= 1e-9 || t.is_nan() { t } else { f64::NAN } }),
            dest: Box::new(|a, t, d| a.geodesic_destination(t, d)),
            ratio: Box::new(|a, b, r| a.geodesic_intermediate(&b, r)),
            dist_between: None,
            along: Box::new(|a, b, m, e| a.geodesic_intermediate_fill(&b, m, e)),
            len: Box::new(|l| l.geodesic_length()),
        });
        v.push(Space {
            name: "rhumb_legacy", family: "rh", unit: PI * MEAN_R / 180.0, canonical_bearing: true,
            dist: Box::new(|a, b| a.rhumb_distance(&b)),
            bear: Box::new(|a, b| a.rhumb_bearing(b)),
            dest: Box::new(|a, t, d| a.rhumb_destination(t, d)),
            ratio: Box::new(|a, b, r| a.rhumb_intermediate(&b, r)),
            dist_between: None,
            along: Box::new(|a, b, m, e| a.rhumb_intermediate_fill(&b, m, e)),
            len: Box::new(|l| l.rhumb_length()),
        });
    }
    v
}

// ------------------------------------------------------------------------------------------------
// part A: replay
// ------------------------------------------------------------------------------------------------
struct Expect {
    lat: f64,
    lons: Vec<f64>,
    free: bool,
}
fn expect_of(v: &Value) -> Expect {
    Expect {
        lat: v["lat"].as_f64().unwrap() / 4.0,
        lons: v["lons"].as_array().unwrap().iter().map(|x| x.as_f64().unwrap() / 4.0).collect(),
        free: v["free"].as_bool().unwrap(),
    }
}
impl Expect {
    fn points(&self) -> Vec<P> {
        self.lons.iter().map(|&l| Point::new(l, self.lat)).collect()
    }
    /// coordinate error in degrees against the nearest admissible spelling
    fn err(&self, p: P) -> f64 {
        let elat = (p.y() - self.lat).abs();
        if self.free {
            // at a pole every longitude spells the same point: only the latitude is compared
            return if elat.is_nan() { f64::INFINITY } else { elat };
        }
        let elon = self.lons.iter().map(|&l| (p.x() - l).abs()).fold(f64::INFINITY, f64::min);
        if elon.is_nan() || elat.is_nan() { f64::INFINITY } else { elon.max(elat) }
    }
}
fn circ_err(got: f64, want: f64) -> f64 {
    if !got.is_finite() {
        return f64::INFINITY;
    }
    (((got - want) % 360.0 + 540.0) % 360.0 - 180.0).abs()
}
fn bump(cx: &mut Ctx, key: String, v: f64) {
    let q = if v.is_finite() { v.max(0.0).min(1e18) as u64 } else { u64::MAX / 4 };
    let e = cx.extra.entry(key).or_insert(0);
    if q > *e {
        *e = q;
    }
}

struct Judge<'a> {
    cx: &'a mut Ctx,
    case: &'a Value,
    space: &'static str,
    long_west: bool,
}
impl<'a> Judge<'a> {
    fn sub(&self, s: &str) -> String {
        if self.long_west { "journey_rhumb_long_west".to_string() } else { s.to_string() }
    }
    fn point(&mut self, sub: &str, what: String, got: Result<P, String>, want: &Expect, tol: f64) {
        match got {
            Ok(p) => {
                let e = want.err(p);
                if e <= tol {
                    // observed error of PASSING checks, absolute and as parts per million of the tolerance
                    bump(self.cx, format!("max_e15deg_{}{}_{}", sub, if want.free { "_at_pole" } else { "" }, self.space), e * 1e15);
                    bump(self.cx, format!("maxppm_of_tol_{}{}_{}", sub, if want.free { "_at_pole" } else { "" }, self.space), e / tol * 1e6);
                }
                if want.free && !(p.x() >= -180.0 && p.x() <= 180.0) {
                    self.cx.count(&format!("pole_arrival_longitude_not_in_range_{}", self.space), 1);
                }
                if e <= tol {
                    self.cx.ok(sub);
                } else {
                    let s = self.sub(sub);
                    self.cx.bad("C16", &s, self.case, json!({"space": self.space, "what": what, "got": [p.x(), p.y()],
                        "want_lat": want.lat, "want_lon_any_of": want.lons, "lon_free": want.free, "err_deg": e, "tol_deg": tol}));
                }
            }
            Err(m) => {
                let s = self.sub(sub);
                self.cx.bad("C16", &s, self.case, json!({"space": self.space, "what": what, "panic": m}));
            }
        }
    }
    fn metres(&mut self, sub: &str, what: String, got: Result<f64, String>, want: f64, tol_scale: f64) {
        match got {
            Ok(d) => {
                let e = (d - want).abs();
                let tol = if tol_scale > 1.0 { TOL_M_ANTIPODAL } else { tol_scale * (TOL_M_ABS + TOL_M_REL * want.abs()) };
                if e <= tol && tol > 0.0 {
                    bump(self.cx, format!("max_nm_{}{}_{}", sub, if tol_scale > 1.0 { "_antipodal" } else { "" }, self.space), e * 1e9);
                    bump(self.cx, format!("maxppm_of_tol_{}{}_{}", sub, if tol_scale > 1.0 { "_antipodal" } else { "" }, self.space), e / tol * 1e6);
                }
                if e <= tol && d >= 0.0 {
                    self.cx.ok(sub);
                } else {
                    self.cx.bad("C16", sub, self.case, json!({"space": self.space, "what": what, "got_m": d, "want_m": want, "err_m": e, "tol_m": tol}));
                }
            }
            Err(m) => self.cx.bad("C16", sub, self.case, json!({"space": self.space, "what": what, "panic": m})),
        }
    }
    fn bearing(&mut self, sub: &str, what: String, got: Result<f64, String>, want: Option<f64>, canonical: bool) {
        match got {
            Ok(t) => {
                if canonical {
                    if t >= 0.0 && t < 360.0 {
                        self.cx.ok("bearing_range");
                    } else {
                        self.cx.bad("C16", "bearing_range", self.case, json!({"space": self.space, "what": what, "got": t, "want": "0 <= bearing < 360"}));
                    }
                }
                if let Some(w) = want {
                    let e = circ_err(t, w);
                    if e <= TOL_DEG {
                        bump(self.cx, format!("max_e15deg_{}_{}", sub, self.space), e * 1e15);
                        bump(self.cx, format!("maxppm_of_tol_{}_{}", sub, self.space), e / TOL_DEG * 1e6);
                        self.cx.ok(sub);
                    } else {
                        self.cx.bad("C16", sub, self.case, json!({"space": self.space, "what": what, "got": t, "want": w, "err_deg": e, "tol_deg": TOL_DEG}));
                    }
                }
            }
            Err(m) => self.cx.bad("C16", sub, self.case, json!({"space": self.space, "what": what, "panic": m})),
        }
    }
}

pub fn sphere_case(cx: &mut Ctx, n: u64, case: &Value) {
    if !cx.wants("C16") {
        return;
    }
    if case.get("kind").is_some() {
        // a recorded probe: re-execute it against the current tree and log the fresh event
        let sp = spaces(false);
        let ev = match case["kind"].as_str().unwrap_or("") {
            "pair" => probe_pair(&sp, case),
            "ls" => probe_ls(&sp, case),
            _ => return,
        };
        writeln!(cx.out, "{ev}").unwrap();
        cx.count("probes_reexecuted", 1);
        return;
    }
    thread_local! { static SPACES: Vec<Space> = spaces(true); }
    SPACES.with(|sp| journey(cx, n, case, sp));
}

fn journey(cx: &mut Ctx, n: u64, case: &Value, sp: &[Space]) {
    let fam = case["fam"].as_str().unwrap();
    let is_rh = fam.starts_with("rh_");
    let a = Point::new(case["a"][0].as_f64().unwrap() / 4.0, case["a"][1].as_f64().unwrap() / 4.0);
    let brg = case["brg"].as_f64().unwrap();
    let arc = case["dist"].as_f64().unwrap() / 4.0; // degrees of arc travelled
    let dab = case["dab"].as_f64().unwrap() / 4.0; // degrees of arc, shortest
    let dest = expect_of(&case["dest"]);
    let start = expect_of(&case["start"]);
    let via = expect_of(&case["via"]);
    let bab = case["bab"].as_array().unwrap().first().map(|v| v.as_f64().unwrap());
    let bba = case["bba"].as_array().unwrap().first().map(|v| v.as_f64().unwrap());
    let quarters: Vec<Expect> = case["quarters"].as_array().unwrap().iter().map(expect_of).collect();
    let geod_eq = case["geod_eq"].as_bool().unwrap();
    let geod_mer = case["geod_mer"].as_bool().unwrap();
    let antipodal = case["antipodal"].as_bool().unwrap();
    let long_west = case["long_west"].as_bool().unwrap();
    let steps = case["n"].as_u64().unwrap();
    if n % 4001 == 0 {
        cx.sample(case.clone());
    }
    cx.count(&format!("journeys_{fam}"), 1);
    if antipodal { cx.count("journeys_antipodal", 1); }
    if dest.free { cx.count("journeys_ending_at_a_pole", 1); }
    if long_west { cx.count("journeys_long_west", 1); }
    // arrival exactly at a pole: latitude comes out of asin at 1 (property: "away from poles"); only the
    // admissibility of the longitude and a coarse latitude are demanded there
    let tol_pt = |e: &Expect| if e.free { TOL_DEG_POLE } else { TOL_DEG };
    // courses that deviate from due north / south only by a few units in the last place of the longitude: the bearing is a
    // tiny angle on either side of 0 (or 180) and must still be reported in [0, 360)
    if a.x().abs() < 179.0 && a.y().abs() <= 60.0 {
        let ulps = |v: f64, k: i64| -> f64 { if v == 0.0 { k as f64 * 5e-324 * 1e300 * 1e8 } else { f64::from_bits((v.to_bits() as i64 + if v > 0.0 { k } else { -k }) as u64) } };
        for s in sp.iter().filter(|s| s.canonical_bearing) {
            let mut j = Judge { cx: &mut *cx, case, space: s.name, long_west: false };
            for (k, dlat, want) in [(-1i64, 10.0, 0.0), (1, 10.0, 0.0), (-3, 25.0, 0.0), (2, 5.0, 0.0), (-1, -10.0, 180.0), (1, -20.0, 180.0)] {
                let b = Point::new(ulps(a.x(), k), a.y() + dlat);
                j.bearing("bearing_near_meridian", format!("bearing(a, b), b = a moved by {k} ulps in longitude and {dlat} degrees in latitude"), guard(|| (s.bear)(a, b)), Some(want), true);
            }
        }
    }
    for s in sp {
        let exact = match s.family {
            "gc" => !is_rh,
            "rh" => is_rh,
            _ => geod_eq,
        };
        let relational = s.family == "ge" && geod_mer;
        if !exact && !relational {
            continue;
        }
        let mut j = Judge { cx: &mut *cx, case, space: s.name, long_west: long_west && is_rh };
        if relational {
            // geodesic along a meridian: arc lengths are not whole degrees; relations between geo's own outputs
            for b in dest.points() {
                let d = guard(|| (s.dist)(a, b));
                let dv = d.clone().unwrap_or(f64::NAN);
                j.metres("geod_meridian_symmetric", "distance(b, a) vs distance(a, b)".into(), guard(|| (s.dist)(b, a)), dv, 1.0);
                j.bearing("geod_meridian_bearing", "bearing(a, b)".into(), guard(|| (s.bear)(a, b)), bab, s.canonical_bearing);
                if !dest.free {
                    j.bearing("geod_meridian_bearing", "bearing(b, a)".into(), guard(|| (s.bear)(b, a)), bba, s.canonical_bearing);
                }
                j.point("geod_meridian_closure", "destination(a, bearing(a, b), distance(a, b))".into(),
                        guard(|| (s.dest)(a, (s.bear)(a, b), (s.dist)(a, b))), &dest, tol_pt(&dest));
                for v in via.points() {
                    j.metres("geod_meridian_additive", "distance(a, via) + distance(via, b) vs distance(a, b)".into(),
                             guard(|| (s.dist)(a, v) + (s.dist)(v, b)), dv, 1.0);
                    let ls = LineString::from(vec![a, v, b]);
                    j.metres("geod_meridian_length", "length([a, via, b]) vs distance(a, b)".into(), guard(|| (s.len)(&ls)), dv, 1.0);
                }
            }
            continue;
        }
        let m = arc * s.unit;
        // ---- destination: the journey itself, equivalent bearings, negative arc along the opposite bearing
        j.point("dest", format!("destination(a, {brg}, {m})"), guard(|| (s.dest)(a, brg, m)), &dest, tol_pt(&dest));
        for t in case["brgs"].as_array().unwrap() {
            let t = t.as_f64().unwrap();
            j.point("dest_bearing_equiv", format!("destination(a, {t}, {m})"), guard(|| (s.dest)(a, t, m)), &dest, tol_pt(&dest));
        }
        if steps > 0 {
            let (nb, nd) = (case["neg"]["brg"].as_f64().unwrap(), case["neg"]["dist"].as_f64().unwrap() / 4.0 * s.unit);
            j.point("dest_negative_distance", format!("destination(a, {nb}, {nd})"), guard(|| (s.dest)(a, nb, nd)), &dest, tol_pt(&dest));
        }
        // ---- the pair (a, b): every admissible spelling of b
        let want_d = dab * s.unit;
        for b in dest.points() {
            // exactly antipodal ends: asin at 1 loses half the digits (property: "away from antipodes")
            let scale = if antipodal { 2.0 } else { 1.0 };
            j.metres("distance", "distance(a, b)".into(), guard(|| (s.dist)(a, b)), want_d, scale);
            j.metres("distance_symmetric", "distance(b, a)".into(), guard(|| (s.dist)(b, a)), want_d, scale);
            j.metres("distance_self", "distance(b, b)".into(), guard(|| (s.dist)(b, b)), 0.0, 0.0);
            if steps > 0 || bab.is_some() {
                j.bearing("bearing", "bearing(a, b)".into(), guard(|| (s.bear)(a, b)), bab, s.canonical_bearing);
            }
            if !dest.free {
                j.bearing("bearing_back", "bearing(b, a)".into(), guard(|| (s.bear)(b, a)), bba, s.canonical_bearing);
            }
            if bab.is_some() {
                j.point("closure", "destination(a, bearing(a, b), distance(a, b))".into(),
                        guard(|| (s.dest)(a, (s.bear)(a, b), (s.dist)(a, b))), &dest, tol_pt(&dest));
            }
            let l2 = LineString::from(vec![a, b]);
            j.metres("length", "length([a, b])".into(), guard(|| (s.len)(&l2)), want_d, scale);
            let l3 = LineString::from(vec![a, b, a]);
            j.metres("length", "length([a, b, a])".into(), guard(|| (s.len)(&l3)), 2.0 * want_d, scale);
            if !quarters.is_empty() {
                j.point("ratio", "point_at_ratio_between(a, b, 0)".into(), guard(|| (s.ratio)(a, b, 0.0)), &start, TOL_DEG);
                j.point("ratio", "point_at_ratio_between(a, b, 1)".into(), guard(|| (s.ratio)(a, b, 1.0)), &dest, tol_pt(&dest));
                for (k, q) in quarters.iter().enumerate() {
                    let r = (k + 1) as f64 / 4.0;
                    j.point("ratio", format!("point_at_ratio_between(a, b, {r})"), guard(|| (s.ratio)(a, b, r)), q, tol_pt(q));
                    // the distance form of the same interpolation (metres measured by the same space)
                    if let Some(db) = &s.dist_between {
                        j.point("distance_between", format!("point_at_distance_between(a, b, {r} * distance(a, b))"), guard(|| db(a, b, r * (s.dist)(a, b))), q, tol_pt(q));
                    }
                }
                if let Some(db) = &s.dist_between {
                    j.point("distance_between", "point_at_distance_between(a, b, 0)".into(), guard(|| db(a, b, 0.0)), &start, TOL_DEG);
                    j.point("distance_between", "point_at_distance_between(a, b, distance(a, b))".into(), guard(|| db(a, b, (s.dist)(a, b))), &dest, tol_pt(&dest));
                }
                if steps > 0 && dab > 0.0 {
                    let mid = quarters[1].points()[0];
                    let l = LineString::from(vec![a, mid, b]);
                    j.metres("length", "length([a, midpoint, b])".into(), guard(|| (s.len)(&l)), want_d, scale);
                    // max_distance a hair above a quarter of the arc: exactly the three quarter points in between
                    let maxd = want_d / 4.0 * (1.0 + 1e-9);
                    match guard(|| (s.along)(a, b, maxd, true)) {
                        Ok(pts) if pts.len() == 5 => {
                            j.point("points_along_line", "points_along_line[0]".into(), Ok(pts[0]), &start, TOL_DEG);
                            for k in 0..3 {
                                j.point("points_along_line", format!("points_along_line[{}]", k + 1), Ok(pts[k + 1]), &quarters[k], tol_pt(&quarters[k]));
                            }
                            j.point("points_along_line", "points_along_line[4]".into(), Ok(pts[4]), &dest, tol_pt(&dest));
                        }
                        other => j.cx.bad("C16", "points_along_line", case, json!({"space": s.name, "what": "points_along_line(a, b, d/4 (1+1e-9), true) must be a, 3 quarter points, b",
                                          "got": format!("{other:?}")})),
                    }
                }
            }
        }
    }
}

// ------------------------------------------------------------------------------------------------
// part B: record
// ------------------------------------------------------------------------------------------------
const NANO: i64 = 1_000_000_000;
fn limb(q: i64) -> Value {
    json!([q.div_euclid(NANO), q.rem_euclid(NANO)])
}
/// which quantities could not be quantised (NaN / infinite / absurd) or panicked, by group
#[derive(Default)]
struct Bad {
    core: Vec<String>,  // distances and bearings of the input points themselves
    trip: Vec<String>,  // destination(a, bearing, distance) and what is measured from it
    mid: Vec<String>,   // point_at_ratio_between and what is measured from it
    panic: Vec<String>, // any panic
    group: usize,
}
impl Bad {
    fn note(&mut self, name: &str, what: String, panicked: bool) {
        let msg = format!("{name}: {what}");
        if panicked { self.panic.push(msg.clone()); }
        match self.group { 0 => self.core.push(msg), 1 => self.trip.push(msg), _ => self.mid.push(msg) }
    }
    fn json(&self) -> Value {
        json!({"core": self.core, "trip": self.trip, "mid": self.mid, "panic": self.panic})
    }
}
/// metres -> micrometres, rounded to nearest, as [km, um]
fn um(bad: &mut Bad, name: &str, d: Result<f64, String>) -> Value {
    match d {
        Ok(x) if x.is_finite() && x.abs() < 1e12 => limb((x * 1e6).round() as i64),
        Ok(x) => { bad.note(name, format!("{x}"), false); json!([0, 0]) }
        Err(m) => { bad.note(name, m.clone(), m.starts_with("PANIC")); json!([0, 0]) }
    }
}
/// degrees -> nanodegrees, rounded DOWN (so that 0 <= x < 360 is preserved), as [deg, ndeg]
fn nd(bad: &mut Bad, name: &str, x: Result<f64, String>) -> Value {
    match x {
        Ok(x) if x.is_finite() && x.abs() < 1e9 => limb((x * 1e9).floor() as i64),
        Ok(x) => { bad.note(name, format!("{x}"), false); json!([0, 0]) }
        Err(m) => { bad.note(name, m.clone(), m.starts_with("PANIC")); json!([0, 0]) }
    }
}
fn pt_nd(bad: &mut Bad, name: &str, p: &Result<P, String>) -> Value {
    json!([nd(bad, &format!("{name}.lon"), p.clone().map(|p| p.x())), nd(bad, &format!("{name}.lat"), p.clone().map(|p| p.y()))])
}
/// a geo call; a panic is data ("PANIC: ..."), a missing input is passed on
fn call<T>(f: impl FnOnce() -> T) -> Result<T, String> {
    guard(f).map_err(|m| format!("PANIC: {m}"))
}
fn ndeg_of(v: &Value) -> i64 {
    v[0].as_i64().unwrap() * NANO + v[1].as_i64().unwrap()
}
fn point_of(v: &Value) -> P {
    Point::new(ndeg_of(&v[0]) as f64 / 1e9, ndeg_of(&v[1]) as f64 / 1e9)
}
fn pt_in(lon_n: i64, lat_n: i64) -> Value {
    json!([limb(lon_n), limb(lat_n)])
}
fn space_named<'a>(sp: &'a [Space], name: &str) -> &'a Space {
    sp.iter().find(|s| s.name == name).expect("space")
}

/// all geo calls of one pair probe; inputs (space, cls, a, b, r16) are taken from `inp`
fn probe_pair(sp: &[Space], inp: &Value) -> Value {
    let s = space_named(sp, inp["space"].as_str().unwrap());
    let (a, b) = (point_of(&inp["a"]), point_of(&inp["b"]));
    let r16 = inp["r16"].as_i64().unwrap();
    let r = r16 as f64 / 16.0;
    let mut bad = Bad::default();
    let d_ab = call(|| (s.dist)(a, b));
    let brg = call(|| (s.bear)(a, b));
    let dest = match (&d_ab, &brg) {
        (Ok(d), Ok(t)) => call(|| (s.dest)(a, *t, *d)),
        _ => Err("no bearing / distance to travel".to_string()),
    };
    let closure = dest.clone().and_then(|p| call(|| (s.dist)(p, b)));
    let mid = call(|| (s.ratio)(a, b, r));
    let d_am = mid.clone().and_then(|m| call(|| (s.dist)(a, m)));
    let d_mb = mid.clone().and_then(|m| call(|| (s.dist)(m, b)));
    let mut e = json!({"op": "sphere", "kind": "pair", "seq": inp["seq"], "space": inp["space"], "cls": inp["cls"],
                       "a": inp["a"], "b": inp["b"], "r16": r16});
    e["d_ab"] = um(&mut bad, "distance(a,b)", d_ab);
    e["d_ba"] = um(&mut bad, "distance(b,a)", call(|| (s.dist)(b, a)));
    e["d_aa"] = um(&mut bad, "distance(a,a)", call(|| (s.dist)(a, a)));
    e["d_bb"] = um(&mut bad, "distance(b,b)", call(|| (s.dist)(b, b)));
    e["brg_ab"] = nd(&mut bad, "bearing(a,b)", brg);
    e["brg_ba"] = nd(&mut bad, "bearing(b,a)", call(|| (s.bear)(b, a)));
    bad.group = 1;
    e["dest"] = pt_nd(&mut bad, "destination(a,bearing(a,b),distance(a,b))", &dest);
    e["closure"] = um(&mut bad, "distance(destination(..),b)", closure);
    bad.group = 2;
    e["mid"] = pt_nd(&mut bad, "point_at_ratio_between(a,b,r)", &mid);
    e["d_am"] = um(&mut bad, "distance(a,mid)", d_am);
    e["d_mb"] = um(&mut bad, "distance(mid,b)", d_mb);
    e["bad"] = bad.json();
    e
}
fn probe_ls(sp: &[Space], inp: &Value) -> Value {
    let s = space_named(sp, inp["space"].as_str().unwrap());
    let pts: Vec<P> = inp["pts"].as_array().unwrap().iter().map(point_of).collect();
    let mut bad = Bad::default();
    let segs: Vec<Value> = pts.windows(2).map(|w| um(&mut bad, "distance(p_i,p_i+1)", call(|| (s.dist)(w[0], w[1])))).collect();
    let ls = LineString::from(pts);
    let len = um(&mut bad, "length(line string)", call(|| (s.len)(&ls)));
    json!({"op": "sphere", "kind": "ls", "seq": inp["seq"], "space": inp["space"], "cls": inp["cls"], "pts": inp["pts"],
           "segs": segs, "len": len, "bad": bad.json()})
}

use rand::{rngs::StdRng, Rng, SeedableRng};
fn log_uniform(rng: &mut StdRng, lo: f64, hi: f64) -> i64 {
    // magnitude in nanodegrees, random sign
    let m = (rng.gen_range(lo.ln()..hi.ln()).exp() * 1e9).round() as i64;
    if rng.gen_bool(0.5) { m } else { -m }
}
fn wrap_n(l: i64) -> i64 {
    (l + 180 * NANO).rem_euclid(360 * NANO) - 180 * NANO
}
fn clamp_lat(l: i64) -> i64 {
    l.clamp(-90 * NANO, 90 * NANO)
}
pub const CLASSES: [&str; 9] = ["generic", "antimeridian", "high_latitude", "coincident", "antipodal", "identical", "polar", "near_parallel", "same_latitude"];
/// a pair of input points (nanodegrees) of the given generator class
fn gen_pair(rng: &mut StdRng, cls: &str) -> ((i64, i64), (i64, i64)) {
    let lon = |rng: &mut StdRng| rng.gen_range(-180 * NANO..=180 * NANO);
    let lat = |rng: &mut StdRng, lo: i64, hi: i64| rng.gen_range(lo * NANO..=hi * NANO);
    match cls {
        "generic" => ((lon(rng), lat(rng, -89, 89)), (lon(rng), lat(rng, -89, 89))),
        "antimeridian" => {
            let (w, e) = ((rng.gen_range(150 * NANO..=180 * NANO), lat(rng, -85, 85)), (rng.gen_range(-180 * NANO..=-150 * NANO), lat(rng, -85, 85)));
            if rng.gen_bool(0.5) { (w, e) } else { (e, w) }
        }
        "high_latitude" => {
            let s = if rng.gen_bool(0.5) { 1 } else { -1 };
            ((lon(rng), s * lat(rng, 80, 89)), (lon(rng), s * lat(rng, 80, 89)))
        }
        "coincident" => {
            // one pair in three sits right at the antimeridian, so that the nearby partner is on the other side of it
            let a0 = if rng.gen_range(0..3) == 0 {
                let s = if rng.gen_bool(0.5) { 1 } else { -1 };
                s * (180 * NANO - log_uniform(rng, 1e-7, 1e-4).abs())
            } else { rng.gen_range(-179 * NANO..=179 * NANO) };
            let a = (a0, lat(rng, -88, 88));
            (a, (wrap_n(a.0 + log_uniform(rng, 1e-6, 1e-3)), a.1 + log_uniform(rng, 1e-6, 1e-3)))
        }
        "antipodal" => {
            let a = (lon(rng), lat(rng, -88, 88));
            (a, (wrap_n(a.0 + 180 * NANO + log_uniform(rng, 1e-6, 0.5)), clamp_lat(-a.1 + log_uniform(rng, 1e-6, 0.5))))
        }
        "identical" => {
            let a = (lon(rng), lat(rng, -90, 90));
            (a, a)
        }
        "polar" => {
            let s = if rng.gen_bool(0.5) { 1 } else { -1 };
            let off = if rng.gen_range(0..4) == 0 { 0 } else { log_uniform(rng, 1e-9, 1.0).abs() };
            let p = (lon(rng), s * (90 * NANO - off));
            let q = (lon(rng), lat(rng, -89, 89));
            if rng.gen_bool(0.5) { (p, q) } else { (q, p) }
        }
        "near_parallel" => {
            let a = (lon(rng), lat(rng, -88, 88));
            (a, (lon(rng), a.1 + log_uniform(rng, 1e-9, 1e-4)))
        }
        "same_latitude" => {
            let a = (lon(rng), lat(rng, -88, 88));
            (a, (lon(rng), a.1))
        }
        _ => unreachable!(),
    }
}
fn pick_class(rng: &mut StdRng) -> &'static str {
    // weights in 1/32
    const W: [(u32, &str); 9] = [(9, "generic"), (5, "antimeridian"), (4, "high_latitude"), (4, "coincident"), (3, "antipodal"),
                                (1, "identical"), (2, "polar"), (2, "near_parallel"), (2, "same_latitude")];
    let mut k = rng.gen_range(0..32u32);
    for (w, c) in W {
        if k < w { return c; }
        k -= w;
    }
    "generic"
}
/// pinned deterministic probes (always the first events of every trace): nearly east-west rhumb courses
const PINNED: [((i64, i64), (i64, i64), i64); 3] = [
    ((0, 45 * NANO), (90 * NANO, 45 * NANO + 10), 8),       // dlat = 1e-8 deg
    ((0, 45 * NANO), (90 * NANO, 45 * NANO + 10_000), 8),   // dlat = 1e-5 deg
    ((0, 45 * NANO), (90 * NANO, 45 * NANO + 1), 4),        // dlat = 1e-9 deg
];

pub fn record(out: &mut dyn std::io::Write, seed: u64, n_events: usize) {
    let mut rng = StdRng::seed_from_u64(seed ^ 0xC16);
    let sp = spaces(false);
    let names: Vec<&str> = sp.iter().map(|s| s.name).collect();
    let mut seq = 0usize;
    for (a, b, r16) in PINNED {
        seq += 1;
        let inp = json!({"seq": seq, "space": "rhumb", "cls": "pinned_near_parallel", "a": pt_in(a.0, a.1), "b": pt_in(b.0, b.1), "r16": r16});
        writeln!(out, "{}", probe_pair(&sp, &inp)).unwrap();
    }
    while seq < n_events {
        crate::ctx::beat(&format!("{{\"record\": \"c16\", \"seed\": {seed}, \"event\": {seq}}}"));
        seq += 1;
        let space = names[seq % names.len()];
        if seq % 1500 == 12 || (seq <= 200 && seq % 25 == 12) {
            // a long track (size-gated code paths: more than 128 / 256 / 512 coordinates): a random walk with steps of at
            // most 0.05 degrees that stays between latitudes -80 and 80
            let nv = [129usize, 130, 200, 257, 513, 1000][rng.gen_range(0..6)];
            let (mut lon, mut lat) = (rng.gen_range(-170 * NANO..170 * NANO), rng.gen_range(-60 * NANO..60 * NANO));
            let mut pts = vec![];
            for _ in 0..nv {
                pts.push(pt_in(lon, lat));
                lon = (lon + rng.gen_range(-50_000_000..50_000_000i64)).clamp(-179 * NANO, 179 * NANO);
                lat = (lat + rng.gen_range(-50_000_000..50_000_000i64)).clamp(-80 * NANO, 80 * NANO);
            }
            let inp = json!({"seq": seq, "space": space, "cls": "long_track", "pts": pts});
            writeln!(out, "{}", probe_ls(&sp, &inp)).unwrap();
        } else if seq % 6 == 0 {
            // a line string of 2..5 vertices drawn from the pair classes
            let cls = pick_class(&mut rng);
            let nv = rng.gen_range(2..=5usize);
            let mut pts = vec![];
            while pts.len() < nv {
                let (a, b) = gen_pair(&mut rng, cls);
                pts.push(pt_in(a.0, a.1));
                if pts.len() < nv { pts.push(pt_in(b.0, b.1)); }
            }
            let inp = json!({"seq": seq, "space": space, "cls": cls, "pts": pts});
            writeln!(out, "{}", probe_ls(&sp, &inp)).unwrap();
        } else {
            let cls = pick_class(&mut rng);
            let (a, b) = gen_pair(&mut rng, cls);
            let r16 = rng.gen_range(0..=16i64);
            let inp = json!({"seq": seq, "space": space, "cls": cls, "a": pt_in(a.0, a.1), "b": pt_in(b.0, b.1), "r16": r16});
            writeln!(out, "{}", probe_pair(&sp, &inp)).unwrap();
        }
    }
    out.flush().unwrap();
}

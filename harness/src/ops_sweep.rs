//! X01 (extension): replay of Gen_Sweep cases into geo::sweep::Intersections.
use crate::ctx::{guard, Ctx};
use geo::sweep::Intersections;
use geo::{Coord, Line, LineIntersection};
use serde_json::{json, Value};
use std::collections::BTreeMap;

pub fn sweep_case(cx: &mut Ctx, n: u64, case: &Value) {
    if !cx.wants("X01") {
        return;
    }
    let segs: Vec<Line<f64>> = case["segs"].as_array().unwrap().iter().map(|s| {
        Line::new(Coord { x: s[0][0].as_f64().unwrap(), y: s[0][1].as_f64().unwrap() }, Coord { x: s[1][0].as_f64().unwrap(), y: s[1][1].as_f64().unwrap() })
    }).collect();
    let mut want: BTreeMap<(usize, usize), String> = BTreeMap::new();
    for p in case["pairs"].as_array().unwrap() {
        want.insert((p[0].as_u64().unwrap() as usize - 1, p[1].as_u64().unwrap() as usize - 1), p[2].as_str().unwrap().to_string());
    }
    if n % 997 == 0 {
        cx.sample(case.clone());
    }
    cx.count("sweep_cases", 1);
    cx.count(if want.is_empty() { "sweep_cases_without_intersection" } else { "sweep_cases_with_intersection" }, 1);
    // three input orders / directions: as given, reversed order, every second segment flipped
    for variant in 0..3 {
        let input: Vec<Line<f64>> = match variant {
            0 => segs.clone(),
            1 => segs.iter().rev().cloned().collect(),
            _ => segs.iter().enumerate().map(|(i, l)| if i % 2 == 0 { Line::new(l.end, l.start) } else { *l }).collect(),
        };
        let idx_of = |l: &Line<f64>| segs.iter().position(|s| (s.start == l.start && s.end == l.end) || (s.start == l.end && s.end == l.start));
        let got = guard(|| Intersections::<Line<f64>>::from_iter(input.clone()).map(|(a, b, i)| (a, b, i)).collect::<Vec<_>>());
        let sub = ["sweep", "sweep_reversed_input", "sweep_flipped_segments"][variant];
        match got {
            Err(e) => cx.bad("X01", sub, case, json!({"what": "panic", "got": e})),
            Ok(list) => {
                let mut seen: BTreeMap<(usize, usize), (u32, String)> = BTreeMap::new();
                let mut unknown = 0;
                for (a, b, i) in &list {
                    match (idx_of(a), idx_of(b)) {
                        (Some(x), Some(y)) => {
                            let k = (x.min(y), x.max(y));
                            let kind = match i { LineIntersection::SinglePoint { .. } => "point", LineIntersection::Collinear { .. } => "overlap" };
                            let e = seen.entry(k).or_insert((0, kind.to_string()));
                            e.0 += 1;
                        }
                        _ => unknown += 1,
                    }
                }
                let got_set: BTreeMap<(usize, usize), String> = seen.iter().map(|(k, v)| (*k, v.1.clone())).collect();
                let dup = seen.values().any(|v| v.0 > 1);
                if unknown == 0 && got_set == want && !dup {
                    cx.ok(sub);
                } else {
                    cx.bad("X01", sub, case, json!({"what": "reported pairs differ from the exact set", "got": format!("{got_set:?}"), "want": format!("{want:?}"), "duplicates": dup, "unknown_segments": unknown}));
                }
            }
        }
    }
}

#![allow(deprecated)]
//! C10: executor for triangulations, monotone subdivision and stitching.  Polygons come from the
//! TLC-generated pools (Gen_BoolOps.tla: octilinear, holes may touch; Gen_Poly.tla: general slopes);
//! this driver applies exact maps, calls geo, maps the output back to the lattice and logs one event
//! per call.  Nothing is judged here: Trace_Tiling.tla validates every event.
use crate::ctx::guard;
use crate::gj::{self, exact_maps, ExactMap, G};
use geo::algorithm::monotone::{monotone_subdivision, MonotonicPolygons};
use geo::{Coord, Intersects, LineString, MultiPolygon, Polygon, StitchTriangles, Triangle, TriangulateDelaunay, TriangulateEarcut, TriangulateSpade};
use rand::rngs::StdRng;
use rand::{Rng, SeedableRng};
use serde_json::{json, Value};
use std::io::{BufRead, BufReader, Write};

fn inv_map(m: &ExactMap) -> impl Fn(Coord<f64>) -> Coord<f64> {
    let (a, b, tx, c, d, ty) = (m.m[0], m.m[1], m.m[2], m.m[3], m.m[4], m.m[5]);
    let det = a * d - b * c;
    move |p: Coord<f64>| {
        let (x, y) = (p.x - tx, p.y - ty);
        Coord { x: (d * x - b * y) / det, y: (-c * x + a * y) / det }
    }
}
/// corners of triangles / pieces are input vertices, so mapped back they must be integers exactly
fn pc(c: Coord<f64>, bad: &mut bool) -> Value {
    if !(c.x.is_finite() && c.y.is_finite()) || c.x != c.x.round() || c.y != c.y.round() || c.x.abs() > 1e6 || c.y.abs() > 1e6 {
        *bad = true;
        return json!([0, 0]);
    }
    json!([c.x as i64, c.y as i64])
}
fn ring_json(l: &LineString<f64>, f: &dyn Fn(Coord<f64>) -> Coord<f64>, flip: bool, bad: &mut bool) -> Value {
    let mut v: Vec<Value> = l.0.iter().map(|c| pc(f(*c), bad)).collect();
    if flip {
        v.reverse();
    }
    Value::Array(v)
}
fn mp_json(m: &MultiPolygon<f64>, f: &dyn Fn(Coord<f64>) -> Coord<f64>, flip: bool, bad: &mut bool) -> Value {
    json!({"ps": m.0.iter().map(|p| json!({"ext": ring_json(p.exterior(), f, flip, bad),
        "holes": p.interiors().iter().map(|h| ring_json(h, f, flip, bad)).collect::<Vec<_>>()})).collect::<Vec<_>>()})
}
fn tris_json(ts: &[Triangle<f64>], f: &dyn Fn(Coord<f64>) -> Coord<f64>, bad: &mut bool) -> Value {
    Value::Array(ts.iter().map(|t| json!([pc(f(t.0), bad), pc(f(t.1), bad), pc(f(t.2), bad)])).collect())
}
fn id(c: Coord<f64>) -> Coord<f64> {
    c
}
fn as_mp(g: &G) -> Option<MultiPolygon<f64>> {
    match g {
        G::Polygon(p) => Some(MultiPolygon::new(vec![p.clone()])),
        G::MultiPolygon(m) => Some(m.clone()),
        _ => None,
    }
}
fn st(bad: bool) -> &'static str {
    if bad { "noninteger_corner" } else { "ok" }
}

struct Item {
    mp: MultiPolygon<f64>,
    touch: i64,
    general: bool,
    stress: bool,
}

pub fn record(pool_paths: &str, w: &mut dyn Write, seed: u64, n_events: usize) {
    let mut items: Vec<Item> = vec![];
    for path in pool_paths.split(',') {
        let f = BufReader::new(std::fs::File::open(path).expect("open pool"));
        for line in f.lines() {
            let v: Value = serde_json::from_str(&line.unwrap()).unwrap();
            let stress = v["k"] == "monostress";
            let (g, touch, general) = if v.get("g").is_some() {
                (gj::parse(&v["g"]), v["touch"].as_i64().unwrap_or(0), stress)
            } else if v["op"] == "poly" {
                // Gen_Poly case: general-slope lattice polygon, holes never touch anything
                // (scaled by 2 - exact - so that the fine-lattice query points also fall between its vertices)
                (gj::parse(&json!({"t":"Polygon","ext":v["ext"],"holes":v["holes"]})).map(&|c| Coord { x: 2.0 * c.x, y: 2.0 * c.y }, true), v["touch"].as_i64().unwrap_or(0), true)
            } else {
                continue;
            };
            if let Some(mp) = as_mp(&g) {
                items.push(Item { mp, touch, general, stress });
            }
        }
    }
    assert!(!items.is_empty(), "empty pool");
    // (scale-down maps are excluded: the Delaunay routines snap points closer than the documented snap radius)
    let has_both = items.iter().any(|i| i.general) && items.iter().any(|i| !i.general);
    let multi: Vec<usize> = (0..items.len()).filter(|i| !items[*i].stress && items[*i].mp.0.iter().any(|p| p.interiors().len() >= 2)).collect();
    let stress: Vec<usize> = (0..items.len()).filter(|i| items[*i].stress).collect();
    let mut rng = StdRng::seed_from_u64(seed ^ 0xC10);
    let maps: Vec<ExactMap> = exact_maps().into_iter().filter(|m| !m.name.starts_with("scale_2m") && m.name != "scale_2p100" && m.name != "shear_huge").collect();
    let mut emitted = 0usize;
    let mut k = 0usize;
    while emitted < n_events {
        crate::ctx::beat(&format!("{{\"record\": \"c10\", \"seed\": {seed}, \"event\": {emitted}}}"));
        k += 1;
        let want_general = k % 3 == 2;
        // every fourth polygon has at least two holes (hole bookkeeping of the triangulators), if the pools have any
        let want_multi = k % 4 == 3 && !multi.is_empty();
        let want_stress = k % 6 == 1 && !stress.is_empty();
        let it = if want_stress { &items[stress[rng.gen_range(0..stress.len())]] } else if want_multi { &items[multi[rng.gen_range(0..multi.len())]] } else { loop {
            let c = &items[rng.gen_range(0..items.len())];
            if c.general == want_general || !has_both { break c; }
        } };
        let mi = if k % 3 == 1 { Some(&maps[rng.gen_range(0..maps.len())]) } else { None };
        let a = if k % 8 == 7 {
            // the same polygon with its holes listed in the opposite order
            MultiPolygon::new(it.mp.0.iter().map(|p| Polygon::new(p.exterior().clone(), p.interiors().iter().rev().cloned().collect())).collect())
        } else if k % 5 == 0 {
            // either winding: same polygon
            MultiPolygon::new(it.mp.0.iter().map(|p| Polygon::new(LineString::new(p.exterior().0.iter().rev().cloned().collect()), p.interiors().iter().map(|h| LineString::new(h.0.iter().rev().cloned().collect())).collect())).collect())
        } else {
            it.mp.clone()
        };
        emitted += exec_all(w, &a, it.touch, it.general, mi, k, false, false);
        if k % 3 == 0 {
            // a polygon drawn at random (star-shaped shell with notches, holes placed to touch the shell / each other): its validity is
            // decided by the validator (ValidExact.tla), not here
            let rp = random_polygon(&mut rng);
            let mi2 = if k % 2 == 0 { Some(&maps[rng.gen_range(0..maps.len())]) } else { None };
            // a candidate that geo's own validation rejects is not executed: on an invalid polygon a triangulation may do anything,
            // including not returning (seen: a hole partly outside the shell), and the property speaks about valid input only.  This
            // is a filter on what is EXECUTED; whether an executed candidate is in the domain is still decided by ValidExact.tla
            let geo_valid = { use geo::Validation; matches!(guard(|| rp.is_valid()), Ok(true)) };
            if geo_valid {
                emitted += exec_all(w, &MultiPolygon::new(vec![rp]), 0, true, mi2, k, k % 6 == 0, true);
            }
        }
    }
    w.flush().unwrap();
}

/// every call kind selected by `k` (all of them when `all`) on polygon `a` under exact map `mi`; returns the number of events
fn exec_all(w: &mut dyn Write, a: &MultiPolygon<f64>, touch: i64, general: bool, mi: Option<&ExactMap>, k: usize, all: bool, rand: bool) -> usize {
    let mut emitted = 0usize;
    {
        let ma = match mi { Some(m) => as_mp(&m.on(&G::MultiPolygon(a.clone()))).unwrap(), None => a.clone() };
        let back: Box<dyn Fn(Coord<f64>) -> Coord<f64>> = match mi { Some(m) => Box::new(inv_map(m)), None => Box::new(id) };
        let flip = mi.map(|m| m.det() < 0.0).unwrap_or(false);
        let mname = mi.map(|m| m.name).unwrap_or("id");
        let mut b0 = false;
        let jp = mp_json(&a, &id, false, &mut b0);
        let single = ma.0.len() == 1;
        let note = format!("touch:{} general:{} map:{}", touch, general, mname);
        let tri_event = |w: &mut dyn Write, kind: &str, r: Result<Result<Vec<Triangle<f64>>, String>, String>| {
            let ev = match r {
                Ok(Ok(ts)) => {
                    let mut bad = false;
                    let jt = tris_json(&ts, &*back, &mut bad);
                    json!({"ev":"tri","kind":kind,"p":jp,"tris":jt,"st":st(bad),"note":note,"rand":rand})
                }
                Ok(Err(e)) => json!({"ev":"tri","kind":kind,"p":jp,"tris":[],"st":"error","note":format!("{note} {e}"),"rand":rand}),
                Err(e) => json!({"ev":"tri","kind":kind,"p":jp,"tris":[],"st":"panic","note":format!("{note} {e}"),"rand":rand}),
            };
            writeln!(w, "{ev}").unwrap();
        };
        // ---- ear-cut: single polygons whose rings do not touch one another
        if single && touch == 0 {
            let p = &ma.0[0];
            tri_event(w, "earcut", guard(|| Ok(p.earcut_triangles())));
            emitted += 1;
            if all || k % 4 == 1 {
                // the two other entry points: the lazy iterator and the raw (flat vertices + index triples) form, decoded here
                tri_event(w, "earcut", guard(|| Ok(p.earcut_triangles_iter().collect::<Vec<_>>())));
                tri_event(w, "earcut", guard(|| {
                    let raw = p.earcut_triangles_raw();
                    let v = |i: usize| Coord { x: raw.vertices[2 * i], y: raw.vertices[2 * i + 1] };
                    Ok(raw.triangle_indices.chunks(3).map(|t| Triangle::new(v(t[0]), v(t[1]), v(t[2]))).collect::<Vec<_>>())
                }));
                emitted += 2;
            }
        }
        // ---- Delaunay (both trait generations), Polygon or MultiPolygon entry point
        let cdt = if single && k % 2 == 0 {
            guard(|| TriangulateDelaunay::constrained_triangulation(&ma.0[0], Default::default()).map_err(|e| format!("{e:?}")))
        } else {
            guard(|| TriangulateDelaunay::constrained_triangulation(&ma, Default::default()).map_err(|e| format!("{e:?}")))
        };
        let cdt_tris = match &cdt { Ok(Ok(t)) => Some(t.clone()), _ => None };
        tri_event(w, "cdt", cdt);
        emitted += 1;
        if all || k % 3 == 0 {
            tri_event(w, "cdt_spade", guard(|| TriangulateSpade::constrained_triangulation(&ma, Default::default()).map_err(|e| format!("{e:?}"))));
            tri_event(w, "udt", guard(|| TriangulateDelaunay::unconstrained_triangulation(&ma).map_err(|e| format!("{e:?}"))));
            tri_event(w, "hull_cdt", guard(|| TriangulateDelaunay::constrained_outer_triangulation(&ma, Default::default()).map_err(|e| format!("{e:?}"))));
            emitted += 3;
        }
        if all || k % 7 == 0 {
            tri_event(w, "udt", guard(|| TriangulateSpade::unconstrained_triangulation(&ma).map_err(|e| format!("{e:?}"))));
            emitted += 1;
        }
        // ---- stitching the constrained triangulation back together
        if let Some(ts) = cdt_tris {
            if all || k % 2 == 1 {
                let r = guard(|| ts.stitch_triangulation().map_err(|e| format!("{e:?}")));
                let mut bad = false;
                let jt = tris_json(&ts, &*back, &mut bad);
                let ev = match r {
                    Ok(Ok(m)) => { let jr = mp_json(&m, &*back, flip, &mut bad); json!({"ev":"stitch","p":jp,"tris":jt,"r":jr,"st":st(bad),"note":note,"rand":rand}) }
                    Ok(Err(e)) => json!({"ev":"stitch","p":jp,"tris":jt,"r":{"ps":[]},"st":"error","note":format!("{note} {e}"),"rand":rand}),
                    Err(e) => json!({"ev":"stitch","p":jp,"tris":jt,"r":{"ps":[]},"st":"panic","note":format!("{note} {e}"),"rand":rand}),
                };
                writeln!(w, "{ev}").unwrap();
                emitted += 1;
            }
        }
        // ---- monotone subdivision: the pieces, and point location on a 15 x 15 grid of lattice points starting at (-1,-1) whose step
        // is chosen so that the grid covers the polygon (step 1: every fine-lattice point of -1..13)
        {
            let ext_max = a.0.iter().flat_map(|p| p.exterior().0.iter()).fold(0f64, |m, c| m.max(c.x).max(c.y));
            let step: i64 = if ext_max <= 13.0 { 1 } else { ((ext_max + 2.0) / 14.0).ceil() as i64 };
            let r = guard(|| {
                let pieces = monotone_subdivision(ma.0.clone());
                let idx: MonotonicPolygons<f64> = if single && k % 2 == 0 { ma.0[0].clone().into() } else { ma.clone().into() };
                let fwd = |c: Coord<f64>| match mi { Some(m) => m.apply(c), None => c };
                let mut hits = Vec::with_capacity(225);
                for i in 0..15 {
                    for j in 0..15 {
                        hits.push(if idx.intersects(&fwd(Coord { x: (-1 + step * i) as f64, y: (-1 + step * j) as f64 })) { 1 } else { 0 });
                    }
                }
                // the accessors of the index hold the very pieces the free function returns
                let same = *idx.subdivisions() == pieces && idx.clone().into_subdivisions() == pieces;
                (pieces, hits, same)
            });
            let ev = match r {
                Ok((pieces, hits, same)) => {
                    let mut bad = !same;
                    let jpieces: Vec<Value> = pieces.iter().map(|m| json!({"top": ring_json(m.top(), &*back, false, &mut bad), "bot": ring_json(m.bot(), &*back, false, &mut bad)})).collect();
                    // x-monotonicity is a statement about the mapped coordinates: logged for the identity map only
                    json!({"ev":"mono","p":jp,"pieces":jpieces,"hits":hits,"step":step,"xmono": mi.is_none(),"st":st(bad),"note":note,"rand":rand})
                }
                Err(e) => json!({"ev":"mono","p":jp,"pieces":[],"hits":[],"step":step,"xmono":false,"st":"panic","note":format!("{note} {e}"),"rand":rand}),
            };
            writeln!(w, "{ev}").unwrap();
            emitted += 1;
        }
        let _ = b0;
    }
    emitted
}

/// Re-run every call kind on the polygons of logged events (replay files) under the logged exact map.
pub fn rerun(path: &str, w: &mut dyn Write) {
    let f = BufReader::new(std::fs::File::open(path).expect("open events"));
    let all_maps = exact_maps();
    for line in f.lines() {
        let line = line.unwrap();
        if line.trim().is_empty() { continue; }
        let v: Value = serde_json::from_str(&line).unwrap();
        let e = if v.get("case").is_some() { v["case"].clone() } else { v };
        let note = e["note"].as_str().unwrap_or("").to_string();
        let mname = note.rsplit("map:").next().unwrap_or("id").split_whitespace().next().unwrap_or("id").to_string();
        let touch: i64 = note.split("touch:").nth(1).and_then(|t| t.split_whitespace().next()).and_then(|t| t.parse().ok()).unwrap_or(1);
        let ring = |r: &Value| LineString::new(r.as_array().map(|a| a.iter().map(|c| Coord { x: c[0].as_f64().unwrap(), y: c[1].as_f64().unwrap() }).collect()).unwrap_or_default());
        let a = MultiPolygon::new(e["p"]["ps"].as_array().map(|ps| ps.iter().map(|p| Polygon::new(ring(&p["ext"]), p["holes"].as_array().map(|h| h.iter().map(|r| ring(r)).collect()).unwrap_or_default())).collect()).unwrap_or_default());
        exec_all(w, &a, touch, note.contains("general:true"), all_maps.iter().find(|m| m.name == mname), 0, true, e["rand"].as_bool().unwrap_or(false));
    }
    w.flush().unwrap();
}

/// A candidate polygon on the lattice 0..13: a star-shaped shell (vertices sorted by angle around the centre, radii drawn
/// at random, so notches are common) with 0 - 2 small triangular or square holes, some of them moved so that one of their
/// vertices coincides with a shell vertex, a point on a shell edge or a vertex of the other hole.  Many candidates are
/// not valid polygons; the validator decides.
fn random_polygon(rng: &mut StdRng) -> Polygon<f64> {
    let n = rng.gen_range(4..11);
    let (cx, cy) = (6.5f64, 6.5f64);
    let mut pts: Vec<(i64, i64)> = vec![];
    let mut tries = 0;
    while pts.len() < n && tries < 200 {
        tries += 1;
        let p = (rng.gen_range(0..=13i64), rng.gen_range(0..=13i64));
        if !pts.contains(&p) {
            pts.push(p);
        }
    }
    pts.sort_by(|a, b| {
        let (aa, ab) = ((a.1 as f64 - cy).atan2(a.0 as f64 - cx), (b.1 as f64 - cy).atan2(b.0 as f64 - cx));
        aa.partial_cmp(&ab).unwrap()
    });
    let ring = |v: &[(i64, i64)]| { let mut c: Vec<Coord<f64>> = v.iter().map(|p| Coord { x: p.0 as f64, y: p.1 as f64 }).collect(); c.push(c[0]); LineString::new(c) };
    let nh = rng.gen_range(0..3);
    let mut holes: Vec<Vec<(i64, i64)>> = vec![];
    for _ in 0..nh {
        let (x, y) = (rng.gen_range(2..11i64), rng.gen_range(2..11i64));
        let mut h: Vec<(i64, i64)> = match rng.gen_range(0..4) {
            0 => vec![(x, y), (x + 1, y), (x, y + 1)],
            1 => vec![(x, y), (x + 2, y + 1), (x + 1, y + 2)],
            2 => vec![(x, y), (x + 1, y), (x + 1, y + 1), (x, y + 1)],
            _ => vec![(x, y), (x + 2, y), (x + 1, y + 2)],
        };
        // move one hole vertex onto a shell vertex / a lattice point of a shell edge / a vertex of the previous hole
        match rng.gen_range(0..4) {
            0 => { let t = pts[rng.gen_range(0..pts.len())]; let k = rng.gen_range(0..h.len()); h[k] = t; }
            1 => { let i = rng.gen_range(0..pts.len()); let (a, b) = (pts[i], pts[(i + 1) % pts.len()]); if (a.0 + b.0) % 2 == 0 && (a.1 + b.1) % 2 == 0 { let k = rng.gen_range(0..h.len()); h[k] = ((a.0 + b.0) / 2, (a.1 + b.1) / 2); } }
            2 => { if let Some(prev) = holes.last() { let t = prev[rng.gen_range(0..prev.len())]; let k = rng.gen_range(0..h.len()); h[k] = t; } }
            _ => {}
        }
        holes.push(h);
    }
    Polygon::new(ring(&pts), holes.iter().map(|h| ring(h)).collect())
}

//! C19: replay of Gen_Traversal cases.
use crate::ctx::{guard, Ctx};
use crate::gj::{self, coords, ToGeom, G};
use crate::with_g;
use geo::{BoundingRect, Coord, CoordsIter, Extremes, Geometry, LinesIter, MapCoords, MapCoordsInPlace};
use serde_json::{json, Value};

fn apply(f: &str, c: Coord<f64>) -> Coord<f64> {
    match f {
        "affine" => Coord { x: c.x + 1.0, y: 2.0 * c.y },
        "swap" => Coord { x: c.y, y: c.x },
        "const" => Coord { x: 7.0, y: 7.0 },
        "negx" => Coord { x: -c.x, y: c.y },
        _ => panic!("unknown coordinate function {f}"),
    }
}

/// X02 (extension): HasDimensions against the specification's Dim / BDim / IsEmptyG
fn dims_case(cx: &mut Ctx, case: &Value) {
    use geo::dimensions::{Dimensions, HasDimensions};
    // (a polygon without shell but with holes has coordinates and no point set: "empty" is not defined for it; not judged here)
    if case["g"].to_string().contains("\"ext\":[],\"holes\":[[") {
        cx.count("dims_shellless_polygon_skipped", 1);
        return;
    }
    let g = gj::parse(&case["g"]);
    let gg = g.geometry();
    let num = |d: Dimensions| match d { Dimensions::Empty => -1, Dimensions::ZeroDimensional => 0, Dimensions::OneDimensional => 1, Dimensions::TwoDimensional => 2 };
    let want = (case["dim"].as_i64().unwrap(), case["bdim"].as_i64().unwrap(), case["empty"].as_bool().unwrap());
    let got_enum = crate::ctx::guard(|| (num(gg.dimensions()), num(gg.boundary_dimensions()), HasDimensions::is_empty(&gg)));
    let got_conc = crate::ctx::guard(|| crate::with_g!(&g, x => (num(x.dimensions()), num(x.boundary_dimensions()), HasDimensions::is_empty(x))));
    for (sub, got) in [("dimensions_geometry_enum", got_enum), ("dimensions_concrete", got_conc)] {
        match got {
            Ok(t) if t == want => cx.ok(sub),
            other => cx.bad("X02", sub, case, json!({"what": "(dimensions, boundary_dimensions, is_empty)", "got": format!("{other:?}"), "want": format!("{want:?}")})),
        }
    }
}

pub fn traversal_case(cx: &mut Ctx, n: u64, case: &Value) {
    if cx.wants("X02") && cx.props.iter().any(|p| p == "X02") && case["f"] == "affine" {
        dims_case(cx, case);
    }
    if !cx.wants("C19") || (cx.props.iter().any(|p| p == "X02") && !cx.props.iter().any(|p| p == "C19")) {
        return;
    }
    let g = gj::parse(&case["g"]);
    let gg = g.geometry();
    let want_coords = coords(&case["coords"]);
    let want_ext = coords(&case["ext"]);
    let f = case["f"].as_str().unwrap().to_string();
    if n % 503 == 0 {
        cx.sample(json!({"op":"traversal","g":case["g"],"f":f,"count":case["count"],"bbox":case["bbox"]}));
    }
    cx.count("traversal_cases", 1);
    let mut eq = |sub: &str, what: &str, ok: bool, got: String| {
        if ok { cx.ok(sub); } else { cx.bad("C19", sub, case, json!({"what": what, "got": got})); }
    };
    // traversal through the enum and the concrete type
    let got: Vec<Coord<f64>> = gg.coords_iter().collect();
    eq("coords_iter", "Geometry::coords_iter", got == want_coords, format!("{got:?}"));
    let got: Vec<Coord<f64>> = with_g!(&g, x => x.coords_iter().collect());
    eq("coords_iter", "concrete coords_iter", got == want_coords, format!("{got:?}"));
    // iterator protocol: size_hint brackets the true count before and during iteration; partial consumption (nth, skip, last)
    // yields the corresponding part of the sequence
    {
        let mut it = gg.coords_iter();
        let (lo, hi) = it.size_hint();
        let mut ok = lo <= want_coords.len() && hi.map_or(true, |h| h >= want_coords.len());
        let mut seen = 0usize;
        while let Some(c) = it.next() {
            ok &= c == want_coords[seen];
            seen += 1;
            let (lo, hi) = it.size_hint();
            let rest = want_coords.len() - seen;
            ok &= lo <= rest && hi.map_or(true, |h| h >= rest);
        }
        ok &= seen == want_coords.len();
        let k = want_coords.len() / 2;
        ok &= gg.coords_iter().nth(k) == want_coords.get(k).copied() && gg.coords_iter().skip(k).collect::<Vec<_>>() == want_coords[k..].to_vec()
            && gg.coords_iter().last() == want_coords.last().copied() && gg.exterior_coords_iter().last() == want_ext.last().copied()
            && gg.exterior_coords_iter().count() == want_ext.len();
        let ok2: bool = with_g!(&g, x => {
            let (lo, hi) = x.coords_iter().size_hint();
            lo <= want_coords.len() && hi.map_or(true, |h| h >= want_coords.len()) && x.coords_iter().skip(k).collect::<Vec<_>>() == want_coords[k..].to_vec()
        });
        eq("iterator_protocol", "size_hint / nth / skip / last / count of coords_iter and exterior_coords_iter", ok && ok2, String::new());
    }
    let cnt = case["count"].as_u64().unwrap() as usize;
    eq("coords_count", "Geometry::coords_count", gg.coords_count() == cnt, format!("{}", gg.coords_count()));
    eq("coords_count", "concrete coords_count", with_g!(&g, x => x.coords_count()) == cnt, String::new());
    let got: Vec<Coord<f64>> = gg.exterior_coords_iter().collect();
    eq("exterior_coords_iter", "Geometry::exterior_coords_iter", got == want_ext, format!("{got:?}"));
    let got: Vec<Coord<f64>> = with_g!(&g, x => x.exterior_coords_iter().collect());
    eq("exterior_coords_iter", "concrete exterior_coords_iter", got == want_ext, format!("{got:?}"));
    if case["has_lines"].as_bool().unwrap() {
        let want: Vec<(Coord<f64>, Coord<f64>)> = case["lines"].as_array().unwrap().iter().map(|l| (gj::coord(&l[0]), gj::coord(&l[1]))).collect();
        let got: Vec<(Coord<f64>, Coord<f64>)> = match &g {
            G::Line(x) => x.lines_iter().map(|l| (l.start, l.end)).collect(),
            G::LineString(x) => x.lines_iter().map(|l| (l.start, l.end)).collect(),
            G::MultiLineString(x) => x.lines_iter().map(|l| (l.start, l.end)).collect(),
            G::Polygon(x) => x.lines_iter().map(|l| (l.start, l.end)).collect(),
            G::MultiPolygon(x) => x.lines_iter().map(|l| (l.start, l.end)).collect(),
            G::Rect(x) => x.lines_iter().map(|l| (l.start, l.end)).collect(),
            G::Triangle(x) => x.lines_iter().map(|l| (l.start, l.end)).collect(),
            _ => vec![],
        };
        eq("lines_iter", "lines_iter", got == want, format!("{got:?}"));
    }
    // mapping
    let want_mapped = gj::parse(&case["mapped"]).geometry();
    let mapped = gg.map_coords(|c| apply(&f, c));
    eq("map_coords", "Geometry::map_coords", mapped == want_mapped, format!("{mapped:?}"));
    let cm: Geometry<f64> = with_g!(&g, x => x.map_coords(|c| apply(&f, c)).to_geom());
    eq("map_coords", "concrete map_coords", cm == want_mapped, format!("{cm:?}"));
    let mut inplace = gg.clone();
    inplace.map_coords_in_place(|c| apply(&f, c));
    eq("map_coords_in_place", "Geometry::map_coords_in_place", inplace == want_mapped, format!("{inplace:?}"));
    let ci: Geometry<f64> = with_g!(&g, x => { let mut y = x.clone(); y.map_coords_in_place(|c| apply(&f, c)); y.to_geom() });
    eq("map_coords_in_place", "concrete map_coords_in_place", ci == want_mapped, format!("{ci:?}"));
    let tm: Result<Geometry<f64>, ()> = gg.try_map_coords(|c| Ok(apply(&f, c)));
    eq("try_map_coords_ok", "try_map_coords with an infallible function", tm == Ok(want_mapped.clone()), format!("{tm:?}"));
    // (Geometry / GeometryCollection::try_map_coords_in_place cannot be instantiated: the impl recurses through `&func`)
    macro_rules! try_in_place {
        ($clos:expr) => {
            match &g {
                G::Point(x) => { let mut y = x.clone(); let r = y.try_map_coords_in_place($clos); Some((r, y.to_geom())) }
                G::Line(x) => { let mut y = x.clone(); let r = y.try_map_coords_in_place($clos); Some((r, y.to_geom())) }
                G::LineString(x) => { let mut y = x.clone(); let r = y.try_map_coords_in_place($clos); Some((r, y.to_geom())) }
                G::Polygon(x) => { let mut y = x.clone(); let r = y.try_map_coords_in_place($clos); Some((r, y.to_geom())) }
                G::MultiPoint(x) => { let mut y = x.clone(); let r = y.try_map_coords_in_place($clos); Some((r, y.to_geom())) }
                G::MultiLineString(x) => { let mut y = x.clone(); let r = y.try_map_coords_in_place($clos); Some((r, y.to_geom())) }
                G::MultiPolygon(x) => { let mut y = x.clone(); let r = y.try_map_coords_in_place($clos); Some((r, y.to_geom())) }
                G::Rect(x) => { let mut y = x.clone(); let r = y.try_map_coords_in_place($clos); Some((r, y.to_geom())) }
                G::Triangle(x) => { let mut y = x.clone(); let r = y.try_map_coords_in_place($clos); Some((r, y.to_geom())) }
                G::GeometryCollection(_) => None,
            }
        };
    }
    if let Some((r, h)) = try_in_place!(|c| Ok::<_, ()>(apply(&f, c))) {
        eq("try_map_coords_ok", "try_map_coords_in_place with an infallible function", r.is_ok() && h == want_mapped, format!("{h:?}"));
    }
    // visited coordinates, in order, are exactly the traversal (Rect visits its two defining corners)
    let has_rect = format!("{:?}", case["g"]).contains("Rect");
    if !has_rect {
        let seen = std::cell::RefCell::new(vec![]);
        let _ = gg.map_coords(|c| { seen.borrow_mut().push(c); c });
        let seen = seen.into_inner();
        eq("map_visits_traversal", "map_coords visits coords_iter order", seen == want_coords, format!("{seen:?}"));
    }
    if !has_rect {
        // try_map_coords visits in traversal order as well ...
        let seen = std::cell::RefCell::new(vec![]);
        let _: Result<Geometry<f64>, ()> = gg.try_map_coords(|c| { seen.borrow_mut().push(c); Ok(c) });
        let seen = seen.into_inner();
        eq("map_visits_traversal", "try_map_coords visits coords_iter order", seen == want_coords, format!("{seen:?}"));
        // ... and a function that fails on a SET of coordinates (by value) reports the failure of the first of them in traversal
        // order: the error carries the coordinate, the failing set is a tail of the traversal
        let bits = |c: Coord<f64>| (c.x.to_bits(), c.y.to_bits());
        for k in [0usize, want_coords.len() / 3, want_coords.len() / 2, (2 * want_coords.len()) / 3, want_coords.len().saturating_sub(1)] {
            if k >= want_coords.len() { continue; }
            let failing: std::collections::BTreeSet<(u64, u64)> = want_coords[k..].iter().map(|c| bits(*c)).collect();
            let first = want_coords.iter().find(|c| failing.contains(&bits(**c))).copied().unwrap();
            let r: Result<Geometry<f64>, (u64, u64)> = gg.try_map_coords(|c| if failing.contains(&bits(c)) { Err(bits(c)) } else { Ok(apply(&f, c)) });
            eq("try_map_coords_first_failure", &format!("try_map_coords failing on the coordinates from position {k} on"), r == Err(bits(first)), format!("{r:?} want Err({first:?})"));
            if let Some((r, _)) = try_in_place!(|c| if failing.contains(&bits(c)) { Err(bits(c)) } else { Ok(apply(&f, c)) }) {
                eq("try_map_coords_first_failure", &format!("try_map_coords_in_place failing on the coordinates from position {k} on"), r == Err(bits(first)), format!("{r:?} want Err({first:?})"));
            }
        }
    }
    // a function failing at its k-th call: Err for every k below the number of calls, Ok otherwise
    let calls = { let k = std::cell::Cell::new(0usize); let _ = gg.map_coords(|c| { k.set(k.get() + 1); c }); k.get() };
    for k in 0..=calls {
        let i = std::cell::Cell::new(0usize);
        let r: Result<Geometry<f64>, String> = gg.try_map_coords(|c| { i.set(i.get() + 1); if i.get() - 1 == k { Err(format!("fail at {k}")) } else { Ok(apply(&f, c)) } });
        let ok = if k < calls { r == Err(format!("fail at {k}")) } else { r == Ok(want_mapped.clone()) };
        eq("try_map_coords_failing", &format!("try_map_coords failing at call {k} of {calls}"), ok, format!("{r:?}"));
        let i = std::cell::Cell::new(0usize);
        if let Some((r, h)) = try_in_place!(|c| { i.set(i.get() + 1); if i.get() - 1 == k { Err(format!("fail at {k}")) } else { Ok(apply(&f, c)) } }) {
            let ok = if k < calls { r == Err(format!("fail at {k}")) } else { r.is_ok() && h == want_mapped };
            eq("try_map_coords_in_place_failing", &format!("try_map_coords_in_place failing at call {k} of {calls}"), ok, format!("{r:?}"));
        }
    }
    // the same traversal facts on integer and f32 coordinates (map_coords to another scalar type, then traverse)
    {
        let gi: Geometry<i32> = gg.map_coords(|c| Coord { x: c.x as i32, y: c.y as i32 });
        let wi: Vec<Coord<i32>> = want_coords.iter().map(|c| Coord { x: c.x as i32, y: c.y as i32 }).collect();
        let lossless = want_coords.iter().all(|c| c.x.fract() == 0.0 && c.y.fract() == 0.0 && c.x.abs() < 1e9 && c.y.abs() < 1e9);
        if lossless {
            let ok = gi.coords_iter().collect::<Vec<_>>() == wi && gi.coords_count() == wi.len()
                && gi.exterior_coords_iter().count() == want_ext.len()
                && gi.map_coords(|c| Coord { x: c.x as f64, y: c.y as f64 }) == gg;
            eq("other_scalar_types", "Geometry<i32>: coords_iter / coords_count / exterior count / round trip through map_coords", ok, format!("{:?}", gi));
            let bi = guard(|| gi.bounding_rect());
            let wb: Vec<f64> = case["bbox"].as_array().unwrap().iter().map(|v| v.as_f64().unwrap()).collect();
            let okb = match &bi { Ok(None) => wb.is_empty(), Ok(Some(r)) => wb.len() == 4 && r.min().x as f64 == wb[0] && r.min().y as f64 == wb[1] && r.max().x as f64 == wb[2] && r.max().y as f64 == wb[3], Err(_) => false };
            eq("other_scalar_types", "Geometry<i32>::bounding_rect", okb, format!("{bi:?}"));
            let gf: Geometry<f32> = gg.map_coords(|c| Coord { x: c.x as f32, y: c.y as f32 });
            let okf = gf.coords_iter().map(|c| Coord { x: c.x as f64, y: c.y as f64 }).collect::<Vec<_>>() == want_coords
                && match guard(|| gf.bounding_rect()) { Ok(None) => wb.is_empty(), Ok(Some(r)) => wb.len() == 4 && r.min().x as f64 == wb[0] && r.max().y as f64 == wb[3], Err(_) => false };
            eq("other_scalar_types", "Geometry<f32>: coords_iter / bounding_rect", okf, format!("{:?}", gf));
        }
    }
    // bounding rect
    let bb = guard(|| gg.bounding_rect());
    let want_bb: Vec<f64> = case["bbox"].as_array().unwrap().iter().map(|v| v.as_f64().unwrap()).collect();
    let ok = match &bb {
        Ok(None) => want_bb.is_empty(),
        Ok(Some(r)) => want_bb.len() == 4 && r.min().x == want_bb[0] && r.min().y == want_bb[1] && r.max().x == want_bb[2] && r.max().y == want_bb[3],
        Err(_) => false,
    };
    eq("bounding_rect", "Geometry::bounding_rect", ok, format!("{bb:?}"));
    // extremes over the exterior traversal
    let ex = guard(|| gg.extremes());
    let want_eb: Vec<f64> = case["ext_bbox"].as_array().unwrap().iter().map(|v| v.as_f64().unwrap()).collect();
    let ok = match &ex {
        Ok(None) => want_eb.is_empty(),
        Ok(Some(o)) => {
            want_eb.len() == 4
                && o.x_min.coord.x == want_eb[0] && o.y_min.coord.y == want_eb[1] && o.x_max.coord.x == want_eb[2] && o.y_max.coord.y == want_eb[3]
                && [&o.x_min, &o.y_min, &o.x_max, &o.y_max].iter().all(|e| e.index < want_ext.len() && want_ext[e.index] == e.coord)
        }
        Err(_) => false,
    };
    eq("extremes", "Geometry::extremes", ok, format!("{ex:?}"));
}

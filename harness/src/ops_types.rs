//! X11 (extension): replay of Gen_Types cases - the value algebra of the geo-types primitives.
//! Every expected value (integers, rationals [num, den], brackets, admissible alternatives) comes from the case; the code here
//! builds the inputs from plain struct literals, calls the real constructors / accessors / operators / iterators / conversions
//! (each call inside `guard`, so that a panic is data) for f64, f32, i64 and i32, and compares with `==`.
//! Sub-assertion names are `<type>_<what>` + scalar suffix ("" for f64, "_f32", "_i64", "_i32"); the prefix up to the first `_`
//! is the group whose evaluations are counted in `types_<group>_checks` (vacuity: lib/props/X11.py).
#![allow(deprecated)]
use crate::ctx::{guard, Ctx};
use geo_types::{
    Coord, CoordFloat, CoordNum, Error, Geometry, GeometryCollection, Line, LineString, MultiLineString, MultiPoint, MultiPolygon, Point,
    Polygon, Rect, Triangle,
};
use geo::{Convert, TryConvert, Vector2DOps};
use serde_json::{json, Value};
use std::convert::TryFrom;
use std::fmt::Debug;
use std::ops::Neg;

pub trait Sc: CoordNum + Neg<Output = Self> + 'static {
    const SUF: &'static str;
    const NAME: &'static str;
    const FLOAT: bool;
    fn of(v: i64) -> Self;
    fn f(self) -> f64;
}
macro_rules! sc {
    ($t:ty, $suf:expr, $float:expr) => {
        impl Sc for $t {
            const SUF: &'static str = $suf;
            const NAME: &'static str = stringify!($t);
            const FLOAT: bool = $float;
            fn of(v: i64) -> Self {
                v as $t
            }
            fn f(self) -> f64 {
                self as f64
            }
        }
    };
}
sc!(f64, "", true);
sc!(f32, "_f32", true);
sc!(i64, "_i64", false);
sc!(i32, "_i32", false);

// ------------------------------------------------------------------------------------------------ the case -> plain values
fn iv(v: &Value) -> i64 {
    v.as_i64().unwrap_or_else(|| panic!("not an integer: {v}"))
}
fn arr(v: &Value) -> &Vec<Value> {
    v.as_array().unwrap_or_else(|| panic!("not an array: {v}"))
}
fn co<T: Sc>(v: &Value) -> Coord<T> {
    Coord { x: T::of(iv(&v[0])), y: T::of(iv(&v[1])) }
}
fn cos<T: Sc>(v: &Value) -> Vec<Coord<T>> {
    arr(v).iter().map(co).collect()
}
fn ln<T: Sc>(v: &Value) -> Line<T> {
    Line { start: co(&v[0]), end: co(&v[1]) }
}
fn lns<T: Sc>(v: &Value) -> Vec<Line<T>> {
    arr(v).iter().map(ln).collect()
}
fn t3<T: Sc>(v: &Value) -> (Coord<T>, Coord<T>, Coord<T>) {
    (co(&v[0]), co(&v[1]), co(&v[2]))
}
/// a rational [num, den] in the scalar type (exact for integers only when den = 1: see `integral`)
fn qf<T: Sc>(v: &Value) -> T {
    T::of(iv(&v[0])) / T::of(iv(&v[1]))
}
fn qc<T: Sc>(v: &Value) -> Coord<T> {
    Coord { x: qf(&v[0]), y: qf(&v[1]) }
}
fn integral(v: &Value) -> bool {
    iv(&v[1]) == 1
}
/// [[min, max], [min, max]] with rational coordinates
fn halves<T: Sc>(v: &Value) -> Vec<(Coord<T>, Coord<T>)> {
    arr(v).iter().map(|h| (qc(&h[0]), qc(&h[1]))).collect()
}
fn halves_integral(v: &Value) -> bool {
    arr(v).iter().all(|h| arr(h).iter().all(|c| arr(c).iter().all(integral)))
}
fn within(got: f64, br: &Value) -> bool {
    let lo = iv(&br[0][0]) as f64 / iv(&br[0][1]) as f64;
    let hi = iv(&br[1][0]) as f64 / iv(&br[1][1]) as f64;
    lo <= got && got <= hi
}
fn tup<T: Sc>(c: Coord<T>) -> (T, T) {
    (c.x, c.y)
}
fn tups<T: Sc>(cs: &[Coord<T>]) -> Vec<(T, T)> {
    cs.iter().map(|c| (c.x, c.y)).collect()
}

// ------------------------------------------------------------------------------------------------ recording
struct K<'a> {
    cx: &'a mut Ctx,
    case: &'a Value,
    suf: &'static str,
    ty: &'static str,
}
impl<'a> K<'a> {
    fn new<T: Sc>(cx: &'a mut Ctx, case: &'a Value) -> Self {
        K { cx, case, suf: T::SUF, ty: T::NAME }
    }
    fn tick(&mut self, sub: &str) -> String {
        let g = sub.split('_').next().unwrap_or("");
        self.cx.count(&format!("types_{g}_checks"), 1);
        format!("{sub}{}", self.suf)
    }
    /// the call returned, and returned `want`
    fn eq<V: PartialEq + Debug>(&mut self, sub: &str, what: &str, got: Result<V, String>, want: V) -> bool {
        let name = self.tick(sub);
        match got {
            Ok(g) if g == want => {
                self.cx.ok(&name);
                true
            }
            Ok(g) => {
                self.cx.bad("X11", &name, self.case, json!({"what": what, "scalar": self.ty, "got": format!("{g:?}"), "want": format!("{want:?}")}));
                false
            }
            Err(e) => {
                self.cx.bad("X11", &name, self.case, json!({"what": what, "scalar": self.ty, "got": format!("panic: {e}"), "want": format!("{want:?}")}));
                false
            }
        }
    }
    /// the call returned a value for which the stated condition holds (`got` = Ok((value, holds)))
    fn holds<V: Debug>(&mut self, sub: &str, what: &str, got: Result<(V, bool), String>, want: &str) -> bool {
        let name = self.tick(sub);
        match got {
            Ok((_, true)) => {
                self.cx.ok(&name);
                true
            }
            Ok((g, false)) => {
                self.cx.bad("X11", &name, self.case, json!({"what": what, "scalar": self.ty, "got": format!("{g:?}"), "want": want}));
                false
            }
            Err(e) => {
                self.cx.bad("X11", &name, self.case, json!({"what": what, "scalar": self.ty, "got": format!("panic: {e}"), "want": want}));
                false
            }
        }
    }
    /// the call panicked (documented)
    fn panics<V: Debug>(&mut self, sub: &str, what: &str, got: Result<V, String>) -> bool {
        let name = self.tick(sub);
        match got {
            Err(_) => {
                self.cx.ok(&name);
                true
            }
            Ok(g) => {
                self.cx.bad("X11", &name, self.case, json!({"what": what, "scalar": self.ty, "got": format!("{g:?}"), "want": "a panic"}));
                false
            }
        }
    }
}

// ------------------------------------------------------------------------------------------------ pair: Coord, Point, Line, Rect
fn pair_t<T: Sc>(cx: &mut Ctx, case: &Value) {
    let mut k = K::new::<T>(cx, case);
    let (a, b): (Coord<T>, Coord<T>) = (co(&case["a"]), co(&case["b"]));
    let (ax, ay, bx, by) = (a.x, a.y, b.x, b.y);
    let (pa, pb) = (Point(a), Point(b));
    let eq = case["eq"].as_bool().unwrap();

    // ---- Coord
    k.eq("coord_add", "Coord a + Coord b", guard(|| a + b), co(&case["add"]));
    k.eq("coord_sub", "Coord a - Coord b", guard(|| a - b), co(&case["sub"]));
    k.eq("coord_neg", "-Coord a", guard(|| -a), co(&case["neg"]));
    k.eq("coord_zero", "Coord::zero()", guard(|| Coord::<T>::zero()), co(&case["zero"]));
    k.eq("coord_add_zero", "Coord a + Coord::zero()", guard(|| a + Coord::zero()), a);
    k.eq("coord_eq_zero", "Coord a == Coord::zero()", guard(|| a == Coord::zero()), case["a_is_zero"].as_bool().unwrap());
    k.eq("coord_x_y", "Coord a .x_y()", guard(|| a.x_y()), (ax, ay));
    k.eq("coord_eq", "Coord a == Coord b", guard(|| a == b), eq);
    k.eq("coord_ne", "Coord a != Coord b", guard(|| a != b), !eq);
    k.eq("coord_from_tuple", "Coord::from((x, y))", guard(|| Coord::from((ax, ay))), a);
    k.eq("coord_from_array", "Coord::from([x, y])", guard(|| Coord::from([ax, ay])), a);
    k.eq("coord_from_point", "Coord::from(Point a)", guard(|| Coord::from(pa)), a);
    k.eq("coord_into_tuple", "<(T, T)>::from(Coord a)", guard(|| <(T, T)>::from(a)), (ax, ay));
    k.eq("coord_into_array", "<[T; 2]>::from(Coord a)", guard(|| <[T; 2]>::from(a)), [ax, ay]);
    // ---- Point
    k.eq("point_new", "Point::new(x, y)", guard(|| Point::new(ax, ay)), pa);
    k.eq("point_from_coord", "Point::from(Coord a)", guard(|| Point::from(a)), pa);
    k.eq("point_from_tuple", "Point::from((x, y))", guard(|| Point::from((ax, ay))), pa);
    k.eq("point_from_array", "Point::from([x, y])", guard(|| Point::from([ax, ay])), pa);
    k.eq("point_into_tuple", "<(T, T)>::from(Point a)", guard(|| <(T, T)>::from(pa)), (ax, ay));
    k.eq("point_into_array", "<[T; 2]>::from(Point a)", guard(|| <[T; 2]>::from(pa)), [ax, ay]);
    k.eq("point_x", "Point a .x()", guard(|| pa.x()), ax);
    k.eq("point_y", "Point a .y()", guard(|| pa.y()), ay);
    k.eq("point_x_y", "Point a .x_y()", guard(|| pa.x_y()), (ax, ay));
    k.eq("point_set_x", "Point a .set_x(b.x)", guard(|| { let mut p = pa; p.set_x(bx); p }), Point(Coord { x: bx, y: ay }));
    k.eq("point_set_y", "Point a .set_y(b.y)", guard(|| { let mut p = pa; p.set_y(by); p }), Point(Coord { x: ax, y: by }));
    k.eq("point_x_mut", "*Point a .x_mut() = b.x", guard(|| { let mut p = pa; *p.x_mut() = bx; p }), Point(Coord { x: bx, y: ay }));
    k.eq("point_y_mut", "*Point a .y_mut() = b.y", guard(|| { let mut p = pa; *p.y_mut() = by; p }), Point(Coord { x: ax, y: by }));
    k.eq("point_add", "Point a + Point b", guard(|| pa + pb), Point(co(&case["add"])));
    k.eq("point_sub", "Point a - Point b", guard(|| pa - pb), Point(co(&case["sub"])));
    k.eq("point_neg", "-Point a", guard(|| -pa), Point(co(&case["neg"])));
    k.eq("point_add_assign", "Point a += Point b", guard(|| { let mut p = pa; p += pb; p }), Point(co(&case["add"])));
    k.eq("point_sub_assign", "Point a -= Point b", guard(|| { let mut p = pa; p -= pb; p }), Point(co(&case["sub"])));
    k.eq("point_eq", "Point a == Point b", guard(|| pa == pb), eq);
    k.eq("point_dot", "Point a .dot(Point b)", guard(|| pa.dot(pb)), T::of(iv(&case["dot"])));
    // ---- scalars
    for (i, kv) in arr(&case["ks"]).iter().enumerate() {
        let s = T::of(iv(kv));
        let m: Coord<T> = co(&case["mul"][i]);
        k.eq("coord_mul", "Coord a * k", guard(|| a * s), m);
        k.eq("point_mul", "Point a * k", guard(|| pa * s), Point(m));
        k.eq("point_mul_assign", "Point a *= k", guard(|| { let mut p = pa; p *= s; p }), Point(m));
        if iv(kv) == 0 {
            k.cx.count("types_division_by_zero_not_replayed", 1);
            continue;
        }
        // floats: the correctly rounded quotient; integers: the quotient rounded towards zero
        let q: Coord<T> = if T::FLOAT { qc(&case["divq"][i]) } else { co(&case["divt"][i]) };
        k.eq("coord_div", "Coord a / k", guard(|| a / s), q);
        k.eq("point_div", "Point a / k", guard(|| pa / s), Point(q));
        k.eq("point_div_assign", "Point a /= k", guard(|| { let mut p = pa; p /= s; p }), Point(q));
    }

    // ---- Line a -> b
    let l = Line { start: a, end: b };
    k.eq("line_new", "Line::new(Coord a, Coord b)", guard(|| Line::new(a, b)), l);
    k.eq("line_new_from_points", "Line::new(Point a, Point b)", guard(|| Line::new(pa, pb)), l);
    k.eq("line_new_from_tuples", "Line::new((ax, ay), (bx, by))", guard(|| Line::new((ax, ay), (bx, by))), l);
    k.eq("line_from_array", "Line::from([(ax, ay), (bx, by)])", guard(|| Line::from([(ax, ay), (bx, by)])), l);
    k.eq("line_dx", "Line(a, b).dx()", guard(|| l.dx()), T::of(iv(&case["dx"])));
    k.eq("line_dy", "Line(a, b).dy()", guard(|| l.dy()), T::of(iv(&case["dy"])));
    k.eq("line_delta", "Line(a, b).delta()", guard(|| l.delta()), co(&case["delta"]));
    k.eq("line_determinant", "Line(a, b).determinant()", guard(|| l.determinant()), T::of(iv(&case["det"])));
    k.eq("line_start_point", "Line(a, b).start_point()", guard(|| l.start_point()), pa);
    k.eq("line_end_point", "Line(a, b).end_point()", guard(|| l.end_point()), pb);
    k.eq("line_points", "Line(a, b).points()", guard(|| l.points()), (pa, pb));
    k.eq("line_eq", "Line(a, b) == Line(b, a)", guard(|| l == Line { start: b, end: a }), eq);
    let r = Line { start: b, end: a };
    if !case["vertical"].as_bool().unwrap() {
        let want: T = if T::FLOAT { qf(&case["slope"]) } else { T::of(iv(&case["slope_t"])) };
        k.eq("line_slope", "Line(a, b).slope()", guard(|| l.slope()), want);
        k.eq("line_slope_reversal", "Line(a, b).slope() == Line(b, a).slope()", guard(|| l.slope() == r.slope()), true);
    } else {
        // "Equivalent to line.dy() / line.dx()" with dx = 0: the IEEE quotient for floats (infinite with the sign of dy, NaN for
        // a degenerate line), the division panic for integers
        k.cx.count("types_vertical_lines", 1);
        let s = iv(&case["dysign"]);
        if !T::FLOAT {
            k.panics("line_slope_vertical", "Line(a, b).slope(), dx = 0, integer scalar", guard(|| l.slope()));
        } else if s == 0 {
            k.holds("line_slope_vertical", "Line(a, a).slope()", guard(|| { let g = l.slope(); (g, g != g) }), "NaN (0 / 0)");
        } else {
            k.eq("line_slope_vertical", "Line(a, b).slope(), dx = 0", guard(|| l.slope()), T::of(s) / T::of(0));
        }
        // the doc comment of slope(): "Note that: Line::new(a, b).slope() == Line::new(b, a).slope()"
        if T::FLOAT {
            let sub = if s == 0 { "line_slope_reversal_degenerate" } else { "line_slope_reversal_vertical" };
            k.eq(sub, "Line(a, b).slope() == Line(b, a).slope(), dx = 0", guard(|| l.slope() == r.slope()), true);
        }
    }
    k.eq("linestring_from_line", "LineString::from(Line(a, b))", guard(|| LineString::from(l).0), vec![a, b]);
    k.eq("linestring_from_line_ref", "LineString::from(&Line(a, b))", guard(|| LineString::from(&l).0), vec![a, b]);

    // ---- Rect with the corners a, b (in this order)
    let (mn, mx): (Coord<T>, Coord<T>) = (co(&case["rmin"]), co(&case["rmax"]));
    k.eq("rect_new_min", "Rect::new(a, b).min()", guard(|| Rect::new(a, b).min()), mn);
    k.eq("rect_new_max", "Rect::new(a, b).max()", guard(|| Rect::new(a, b).max()), mx);
    k.eq("rect_new_from_tuples", "Rect::new((ax, ay), (bx, by)) min, max", guard(|| { let r = Rect::new((ax, ay), (bx, by)); (r.min(), r.max()) }), (mn, mx));
    k.eq("rect_try_new", "Rect::try_new(a, b) min, max", guard(|| Rect::try_new(a, b).ok().map(|r| (r.min(), r.max()))), Some((mn, mx)));
    k.eq("rect_eq", "Rect::new(a, b) == Rect::new(b, a)", guard(|| Rect::new(a, b) == Rect::new(b, a)), true);
    k.eq("rect_width", "Rect::new(a, b).width()", guard(|| Rect::new(a, b).width()), T::of(iv(&case["width"])));
    k.eq("rect_height", "Rect::new(a, b).height()", guard(|| Rect::new(a, b).height()), T::of(iv(&case["height"])));
    let ring: Vec<Coord<T>> = cos(&case["ring"]);
    k.eq("rect_to_polygon", "Rect::new(a, b).to_polygon() exterior, number of interiors",
         guard(|| { let p = Rect::new(a, b).to_polygon(); (p.exterior().0.clone(), p.interiors().len()) }), (ring.clone(), 0));
    k.eq("rect_to_lines", "Rect::new(a, b).to_lines()", guard(|| Rect::new(a, b).to_lines().to_vec()), lns(&case["rlines"]));
    // Polygon::from(Rect): no corner sequence is documented; the same closed counter-clockwise ring from some corner
    k.holds("polygon_from_rect", "Polygon::from(Rect::new(a, b)) exterior", guard(|| {
        let p = Polygon::from(Rect::new(a, b));
        let e = p.exterior().0.clone();
        let open = &ring[..4];
        let ok = p.interiors().is_empty() && e.len() == 5 && e[0] == e[4] && (0..4).any(|s| (0..4).all(|i| e[i] == open[(s + i) % 4]));
        (e, ok)
    }), "a rotation of the ring of to_polygon(), closed, no interiors");
    for (axis, key, keyi) in [("x", "split_x", "split_x_int"), ("y", "split_y", "split_y_int")] {
        let got = guard(|| {
            let h = if axis == "x" { Rect::new(a, b).split_x() } else { Rect::new(a, b).split_y() };
            h.iter().map(|r| (r.min(), r.max())).collect::<Vec<_>>()
        });
        if T::FLOAT || halves_integral(&case[key]) {
            k.eq(&format!("rect_split_{axis}"), "Rect::new(a, b).split_x() / split_y() halves (min, max)", got, halves::<T>(&case[key]));
        } else {
            // integer coordinates, odd extent: "equal widths" has no solution; the cut is one of the two neighbouring integers
            k.cx.count("types_rect_odd_integer_splits", 1);
            let alts: Vec<Vec<(Coord<T>, Coord<T>)>> = arr(&case[keyi]).iter().map(halves::<T>).collect();
            k.holds(&format!("rect_split_{axis}_odd_extent"), "Rect::new(a, b).split_x() / split_y() halves (min, max), integer scalar, odd extent",
                    got.map(|g| { let ok = alts.contains(&g); (g, ok) }), &format!("one of {alts:?}"));
        }
    }
    // ---- the enum
    k.eq("geometry_from_point", "Geometry::from(Point a) is Geometry::Point(a)", guard(|| matches!(Geometry::from(pa), Geometry::Point(p) if p == pa)), true);
    k.eq("geometry_from_line", "Geometry::from(Line(a, b)) is Geometry::Line", guard(|| matches!(Geometry::from(l), Geometry::Line(x) if x == l)), true);
    k.eq("geometry_from_rect", "Geometry::from(Rect::new(a, b)) is Geometry::Rect", guard(|| matches!(Geometry::from(Rect::new(a, b)), Geometry::Rect(x) if x.min() == mn && x.max() == mx)), true);
}

fn pair_float<T: Sc + CoordFloat>(cx: &mut Ctx, case: &Value) {
    let mut k = K::new::<T>(cx, case);
    let (a, b): (Coord<T>, Coord<T>) = (co(&case["a"]), co(&case["b"]));
    let pa = Point(a);
    let (deg, rad) = (&case["deg"], &case["rad"]);
    k.holds("point_to_degrees", "Point a .to_degrees()", guard(|| { let g = pa.to_degrees(); (g, within(g.x().f(), &deg[0]) && within(g.y().f(), &deg[1])) }),
            "180 x / pi with 3.14159 < pi < 3.14160 (exactly 0 for 0)");
    k.holds("point_to_radians", "Point a .to_radians()", guard(|| { let g = pa.to_radians(); (g, within(g.x().f(), &rad[0]) && within(g.y().f(), &rad[1])) }),
            "x pi / 180 with 3.14159 < pi < 3.14160 (exactly 0 for 0)");
    k.eq("rect_center", "Rect::new(a, b).center()", guard(|| Rect::new(a, b).center()), qc(&case["center"]));
    // ---- geo::Vector2DOps (implemented for float scalars only)
    k.eq("coord_vec_wedge", "a.wedge_product(b)", guard(|| a.wedge_product(b)), T::of(iv(&case["wedge"])));
    k.eq("coord_vec_wedge_swapped", "b.wedge_product(a)", guard(|| b.wedge_product(a)), T::of(-iv(&case["wedge"])));
    k.eq("coord_vec_dot", "a.dot_product(b)", guard(|| a.dot_product(b)), T::of(iv(&case["dot"])));
    k.eq("coord_vec_magnitude_squared", "a.magnitude_squared()", guard(|| a.magnitude_squared()), T::of(iv(&case["magsq"])));
    k.eq("coord_vec_left", "a.left()", guard(|| a.left()), co(&case["left"]));
    k.eq("coord_vec_right", "a.right()", guard(|| a.right()), co(&case["right"]));
    k.eq("coord_vec_is_finite", "a.is_finite()", guard(|| a.is_finite()), true);
    let r = iv(&case["isqrt"]) as f64;
    if case["mag_exact"].as_bool().unwrap() {
        k.eq("coord_vec_magnitude", "a.magnitude()", guard(|| a.magnitude()), T::of(iv(&case["isqrt"])));
    } else {
        k.holds("coord_vec_magnitude", "a.magnitude()", guard(|| { let m = a.magnitude(); (m, r < m.f() && m.f() < r + 1.0) }),
                "strictly between the integer root of x^2 + y^2 and its successor");
    }
    let sg = (iv(&case["signs"][0]), iv(&case["signs"][1]));
    if sg == (0, 0) {
        k.eq("coord_vec_try_normalize_zero", "Coord zero .try_normalize()", guard(|| a.try_normalize()), None);
    } else if case["axis"].as_bool().unwrap() {
        k.eq("coord_vec_try_normalize_axis", "a.try_normalize() of an axis-parallel vector", guard(|| a.try_normalize()),
             Some(Coord { x: T::of(sg.0), y: T::of(sg.1) }));
    } else {
        let sign = |v: f64| if v > 0.0 { 1 } else if v < 0.0 { -1 } else { 0 };
        k.holds("coord_vec_try_normalize", "a.try_normalize()", guard(|| {
            let n = a.try_normalize();
            let ok = match n {
                None => false,
                Some(u) => {
                    let (ux, uy) = (u.x.f(), u.y.f());
                    (sign(ux), sign(uy)) == sg && (ux * ux + uy * uy - 1.0).abs() < 1e-5 && (a.x.f() * uy - a.y.f() * ux).abs() < 1e-4
                }
            };
            (n, ok)
        }), "Some(u): u has the signs of a, unit length and is parallel to a (1e-5)");
    }
}

/// geo::Convert (From between scalars) and geo::TryConvert (TryFrom): values kept, Err exactly when TLC says a coordinate leaves i32
fn pair_convert(cx: &mut Ctx, case: &Value) {
    let mut k = K::new::<f64>(cx, case);
    let (a32, b32): (Coord<i32>, Coord<i32>) = (co(&case["a"]), co(&case["b"]));
    let (a64, b64): (Coord<i64>, Coord<i64>) = (co(&case["a"]), co(&case["b"]));
    let (af, bf): (Coord<f64>, Coord<f64>) = (co(&case["a"]), co(&case["b"]));
    let (af32, bf32): (Coord<f32>, Coord<f32>) = (co(&case["a"]), co(&case["b"]));
    k.eq("line_convert_i32_to_i64", "Line<i32>(a, b).convert() : Line<i64>", guard(|| { let l: Line<i64> = Line::new(a32, b32).convert(); l }), Line::new(a64, b64));
    k.eq("line_convert_i32_to_f64", "Line<i32>(a, b).convert() : Line<f64>", guard(|| { let l: Line<f64> = Line::new(a32, b32).convert(); l }), Line::new(af, bf));
    k.eq("line_convert_f32_to_f64", "Line<f32>(a, b).convert() : Line<f64>", guard(|| { let l: Line<f64> = Line::new(af32, bf32).convert(); l }), Line::new(af, bf));
    k.eq("linestring_convert_i32_to_f64", "LineString<i32>[a, b, a].convert() : LineString<f64>",
         guard(|| { let l: LineString<f64> = LineString(vec![a32, b32, a32]).convert(); l }), LineString(vec![af, bf, af]));
    k.eq("line_try_convert_small", "Line<i64>(a, b).try_convert() : Result<Line<i32>, _>",
         guard(|| { let r: Result<Line<i32>, _> = Line::new(a64, b64).try_convert(); r.ok() }), Some(Line::new(a32, b32)));
    let unit = iv(&case["conv_unit"][0]) * iv(&case["conv_unit"][1]);
    let big = |c: Coord<i64>| Coord { x: c.x * unit, y: c.y * unit };
    let want = if case["conv_fits"].as_bool().unwrap() {
        let n = |c: Coord<i64>| Coord { x: (c.x * unit) as i32, y: (c.y * unit) as i32 };
        Some(LineString(vec![n(a64), n(b64)]))
    } else {
        None
    };
    let sub = if want.is_some() { "linestring_try_convert_fits" } else { "linestring_try_convert_overflow" };
    k.eq(sub, "LineString<i64>[a * 1 400 000 000, b * 1 400 000 000].try_convert() : Result<LineString<i32>, _> (.ok())",
         guard(|| { let r: Result<LineString<i32>, _> = LineString(vec![big(a64), big(b64)]).try_convert(); r.ok() }), want);
}

pub fn pair_case(cx: &mut Ctx, n: u64, case: &Value) {
    if !cx.wants("X11") {
        return;
    }
    if n % 499 == 0 {
        cx.sample(case.clone());
    }
    cx.count("types_pair_cases", 1);
    pair_t::<f64>(cx, case);
    pair_float::<f64>(cx, case);
    pair_t::<f32>(cx, case);
    pair_float::<f32>(cx, case);
    pair_t::<i64>(cx, case);
    pair_t::<i32>(cx, case);
    pair_convert(cx, case);
}

// ------------------------------------------------------------------------------------------------ tri: cross product, Triangle, Rect setters
fn tri_t<T: Sc>(cx: &mut Ctx, case: &Value) {
    let mut k = K::new::<T>(cx, case);
    let (a, b, c): (Coord<T>, Coord<T>, Coord<T>) = (co(&case["a"]), co(&case["b"]), co(&case["c"]));
    let orient = iv(&case["orient"]);
    k.eq("point_cross_prod", "Point a .cross_prod(Point b, Point c)", guard(|| Point(a).cross_prod(Point(b), Point(c))), T::of(iv(&case["cross"])));

    let want = t3::<T>(&case["tri"]);
    let ccw: Vec<(Coord<T>, Coord<T>, Coord<T>)> = arr(&case["tri_ccw"]).iter().map(t3::<T>).collect();
    let mut sorted_in = vec![tup(a), tup(b), tup(c)];
    sorted_in.sort_by(|p, q| p.partial_cmp(q).unwrap());
    let same_vertices = |t: &(Coord<T>, Coord<T>, Coord<T>)| {
        let mut s = vec![tup(t.0), tup(t.1), tup(t.2)];
        s.sort_by(|p, q| p.partial_cmp(q).unwrap());
        s == sorted_in
    };
    let new = guard(|| { let t = Triangle::new(a, b, c); (t.0, t.1, t.2) });
    if orient != 0 {
        // "Irrespective of input order the resulting geometry has ccw order"
        k.holds("triangle_new_is_ccw", "Triangle::new(a, b, c)", new.clone().map(|t| (t, ccw.contains(&t))), "the three vertices in counter-clockwise order");
        // the to_polygon example: a clockwise input is reversed (c, b, a); a counter-clockwise input is kept
        k.eq("triangle_new_order", "Triangle::new(a, b, c)", new.clone(), want);
    } else {
        k.holds("triangle_new_collinear_keeps_vertices", "Triangle::new(a, b, c), collinear", new.clone().map(|t| (t, same_vertices(&t))), "the three vertices in some order");
    }
    k.eq("triangle_to_array", "Triangle::new(a, b, c).to_array()", guard(|| { let t = Triangle::new(a, b, c).to_array(); (t[0], t[1], t[2]) }), want);
    k.eq("triangle_to_lines", "Triangle::new(a, b, c).to_lines()", guard(|| Triangle::new(a, b, c).to_lines().to_vec()), lns(&case["tri_lines"]));
    let ring: Vec<Coord<T>> = cos(&case["tri_ring"]);
    k.eq("triangle_to_polygon", "Triangle::new(a, b, c).to_polygon() exterior, number of interiors",
         guard(|| { let p = Triangle::new(a, b, c).to_polygon(); (p.exterior().0.clone(), p.interiors().len()) }), (ring.clone(), 0));
    k.eq("polygon_from_triangle", "Polygon::from(Triangle::new(a, b, c)) exterior, number of interiors",
         guard(|| { let p = Polygon::from(Triangle::new(a, b, c)); (p.exterior().0.clone(), p.interiors().len()) }), (ring, 0));
    k.eq("geometry_from_triangle", "Geometry::from(Triangle::new(a, b, c)) is Geometry::Triangle",
         guard(|| matches!(Geometry::from(Triangle::new(a, b, c)), Geometry::Triangle(t) if (t.0, t.1, t.2) == want)), true);
    // the array conversion is a constructor of the same type ("irrespective of input order ... ccw order")
    let from = guard(|| { let t = Triangle::from([a, b, c]); (t.0, t.1, t.2) });
    let from_t = guard(|| { let t = Triangle::<T>::from([tup(a), tup(b), tup(c)]); (t.0, t.1, t.2) });
    k.holds("triangle_from_array_keeps_vertices", "Triangle::from([a, b, c])", from.clone().map(|t| (t, same_vertices(&t))), "the three vertices in some order");
    k.eq("triangle_from_array_of_tuples", "Triangle::from([(ax, ay), (bx, by), (cx, cy)]) == Triangle::from([a, b, c])", from_t, from.clone().unwrap_or((a, a, a)));
    if orient > 0 {
        k.holds("triangle_from_array_is_ccw", "Triangle::from([a, b, c]), a b c counter-clockwise", from.map(|t| (t, ccw.contains(&t))), "the three vertices in counter-clockwise order");
    } else if orient < 0 {
        k.holds("triangle_from_array_is_ccw_cw_input", "Triangle::from([a, b, c]), a b c clockwise", from.map(|t| (t, ccw.contains(&t))), "the three vertices in counter-clockwise order");
    }
    k.cx.count(if orient > 0 { "types_triangle_ccw_inputs" } else if orient < 0 { "types_triangle_cw_inputs" } else { "types_triangle_collinear_inputs" }, 1);

    // Rect::new(a, b) then set_min(c) / set_max(c)
    let (mn, mx): (Coord<T>, Coord<T>) = (co(&case["rmin"]), co(&case["rmax"]));
    let smin = guard(|| { let mut r = Rect::new(a, b); r.set_min(c); (r.min(), r.max()) });
    if case["set_min_ok"].as_bool().unwrap() {
        k.eq("rect_set_min", "Rect::new(a, b).set_min(c) min, max", smin, (c, mx));
    } else {
        k.panics("rect_set_min_panics", "Rect::new(a, b).set_min(c), c above max", smin);
    }
    let smax = guard(|| { let mut r = Rect::new(a, b); r.set_max(c); (r.min(), r.max()) });
    if case["set_max_ok"].as_bool().unwrap() {
        k.eq("rect_set_max", "Rect::new(a, b).set_max(c) min, max", smax, (mn, c));
    } else {
        k.panics("rect_set_max_panics", "Rect::new(a, b).set_max(c), c below min", smax);
    }
}

pub fn tri_case(cx: &mut Ctx, n: u64, case: &Value) {
    if !cx.wants("X11") {
        return;
    }
    if n % 9973 == 0 {
        cx.sample(case.clone());
    }
    cx.count("types_tri_cases", 1);
    tri_t::<f64>(cx, case);
    tri_t::<f32>(cx, case);
    tri_t::<i64>(cx, case);
    tri_t::<i32>(cx, case);
}

// ------------------------------------------------------------------------------------------------ seq: LineString
fn seq_t<T: Sc>(cx: &mut Ctx, case: &Value) {
    let mut k = K::new::<T>(cx, case);
    let cs: Vec<Coord<T>> = cos(&case["cs"]);
    let n = iv(&case["n"]) as usize;
    let ls = LineString(cs.clone());
    let pts: Vec<Point<T>> = cs.iter().map(|c| Point(*c)).collect();
    let rev: Vec<Coord<T>> = cos(&case["rev"]);
    let close: Vec<Coord<T>> = cos(&case["close"]);
    k.eq("linestring_new", "LineString::new(cs)", guard(|| LineString::new(cs.clone()).0), cs.clone());
    k.eq("linestring_is_closed", "LineString(cs).is_closed()", guard(|| ls.is_closed()), case["closed"].as_bool().unwrap());
    let sub = if case["appended"].as_bool().unwrap() { "linestring_close_appends" } else { "linestring_close_keeps" };
    k.eq(sub, "LineString(cs).close()", guard(|| { let mut l = ls.clone(); l.close(); l.0 }), close.clone());
    k.eq("linestring_close_idempotent", "LineString(cs).close() twice", guard(|| { let mut l = ls.clone(); l.close(); l.close(); l.0 }), close.clone());
    k.eq("linestring_closed_after_close", "LineString(cs).close() then is_closed()", guard(|| { let mut l = ls.clone(); l.close(); l.is_closed() }), true);
    k.eq("linestring_lines", "LineString(cs).lines()", guard(|| ls.lines().collect::<Vec<_>>()), lns(&case["lines"]));
    k.eq("linestring_lines_len", "LineString(cs).lines().len()", guard(|| ls.lines().len()), arr(&case["lines"]).len());
    k.eq("linestring_rev_lines", "LineString(cs).rev_lines()", guard(|| ls.rev_lines().collect::<Vec<_>>()), lns(&case["rev_lines"]));
    k.eq("linestring_rev_lines_len", "LineString(cs).rev_lines().len()", guard(|| ls.rev_lines().len()), arr(&case["rev_lines"]).len());
    let tris: Vec<(Coord<T>, Coord<T>, Coord<T>)> = arr(&case["triangles"]).iter().map(t3::<T>).collect();
    k.eq("linestring_triangles", "LineString(cs).triangles()", guard(|| ls.triangles().map(|t| (t.0, t.1, t.2)).collect::<Vec<_>>()), tris.clone());
    k.eq("linestring_triangles_len", "LineString(cs).triangles().len()", guard(|| ls.triangles().len()), tris.len());
    k.eq("linestring_points", "LineString(cs).points()", guard(|| ls.points().collect::<Vec<_>>()), pts.clone());
    k.eq("linestring_points_len", "LineString(cs).points().len()", guard(|| ls.points().len()), n);
    k.eq("linestring_points_rev", "LineString(cs).points().rev()", guard(|| ls.points().rev().map(|p| p.0).collect::<Vec<_>>()), rev.clone());
    k.eq("linestring_points_iter", "LineString(cs).points_iter()", guard(|| ls.points_iter().collect::<Vec<_>>()), pts.clone());
    k.eq("linestring_coords", "LineString(cs).coords()", guard(|| ls.coords().copied().collect::<Vec<_>>()), cs.clone());
    k.eq("linestring_coords_rev", "LineString(cs).coords().rev()", guard(|| ls.coords().rev().copied().collect::<Vec<_>>()), rev.clone());
    k.eq("linestring_coords_mut", "LineString(cs).coords_mut() visits every coordinate once, in order",
         guard(|| { let mut l = ls.clone(); let mut seen = vec![]; for c in l.coords_mut() { seen.push(*c); *c = Coord::zero(); } (seen, l.0.iter().all(|c| *c == Coord::zero())) }), (cs.clone(), true));
    k.eq("linestring_into_iter", "LineString(cs).into_iter()", guard(|| ls.clone().into_iter().collect::<Vec<Coord<T>>>()), cs.clone());
    k.eq("linestring_ref_into_iter", "(&LineString(cs)).into_iter()", guard(|| (&ls).into_iter().copied().collect::<Vec<_>>()), cs.clone());
    k.eq("linestring_ref_into_iter_len", "(&LineString(cs)).into_iter().len()", guard(|| (&ls).into_iter().len()), n);
    k.eq("linestring_ref_into_iter_rev", "(&LineString(cs)).into_iter().rev()", guard(|| (&ls).into_iter().rev().copied().collect::<Vec<_>>()), rev);
    k.eq("linestring_mut_into_iter", "(&mut LineString(cs)).into_iter()", guard(|| { let mut l = ls.clone(); (&mut l).into_iter().map(|c| *c).collect::<Vec<_>>() }), cs.clone());
    k.eq("linestring_into_points", "LineString(cs).into_points()", guard(|| ls.clone().into_points()), pts.clone());
    k.eq("linestring_into_inner", "LineString(cs).into_inner()", guard(|| ls.clone().into_inner()), cs.clone());
    k.eq("linestring_num_coords", "LineString(cs).num_coords()", guard(|| ls.num_coords()), n);
    for i in 0..n {
        k.eq("linestring_index", "LineString(cs)[i]", guard(|| ls[i]), cs[i]);
    }
    if n > 0 {
        k.eq("linestring_index_mut", "LineString(cs)[n - 1] = cs[0]", guard(|| { let mut l = ls.clone(); l[n - 1] = cs[0]; l.0 }), { let mut w = cs.clone(); w[n - 1] = cs[0]; w });
    }
    k.eq("linestring_from_iter", "cs.into_iter().collect::<LineString>()", guard(|| cs.iter().copied().collect::<LineString<T>>().0), cs.clone());
    k.eq("linestring_from_iter_of_tuples", "tuples.into_iter().collect::<LineString>()", guard(|| tups(&cs).into_iter().collect::<LineString<T>>().0), cs.clone());
    k.eq("linestring_from_vec_of_tuples", "LineString::from(vec![(x, y), ..])", guard(|| LineString::<T>::from(tups(&cs)).0), cs.clone());
    k.eq("linestring_from_vec_of_arrays", "LineString::from(vec![[x, y], ..])", guard(|| LineString::<T>::from(cs.iter().map(|c| [c.x, c.y]).collect::<Vec<_>>()).0), cs.clone());
    k.eq("linestring_from_vec_of_points", "LineString::from(vec![Point, ..])", guard(|| LineString::<T>::from(pts.clone()).0), cs.clone());
    k.eq("linestring_eq", "LineString(cs) == LineString(close(cs))", guard(|| ls == LineString(close.clone())), !case["appended"].as_bool().unwrap());
    k.eq("polygon_new_closes_exterior", "Polygon::new(LineString(cs), vec![]).exterior()", guard(|| Polygon::new(ls.clone(), vec![]).exterior().0.clone()), close);
    k.eq("geometry_from_linestring", "Geometry::from(LineString(cs)) is Geometry::LineString", guard(|| matches!(Geometry::from(ls.clone()), Geometry::LineString(x) if x.0 == cs)), true);
    k.cx.count(if case["appended"].as_bool().unwrap() { "types_close_appended" } else if n == 0 { "types_close_empty" } else { "types_close_already_closed" }, 1);
}

pub fn seq_case(cx: &mut Ctx, n: u64, case: &Value) {
    if !cx.wants("X11") {
        return;
    }
    if n % 1999 == 0 {
        cx.sample(case.clone());
    }
    cx.count("types_seq_cases", 1);
    seq_t::<f64>(cx, case);
    seq_t::<f32>(cx, case);
    seq_t::<i64>(cx, case);
    seq_t::<i32>(cx, case);
}

// ------------------------------------------------------------------------------------------------ rings: Polygon, Multi*, collection, enum
fn describe<T: Sc>(g: &Geometry<T>) -> (String, Vec<Coord<T>>) {
    match g {
        Geometry::LineString(l) => ("LineString".into(), l.0.clone()),
        Geometry::Polygon(p) => ("Polygon".into(), p.exterior().0.clone()),
        Geometry::MultiPoint(m) => ("MultiPoint".into(), m.0.iter().map(|p| p.0).collect()),
        _ => ("other".into(), vec![]),
    }
}
/// the type named by a `core::any::type_name` string: last path segment, type parameters dropped (a default parameter is not printed)
fn type_of(s: &str) -> &str {
    s.split('<').next().unwrap_or("").rsplit("::").next().unwrap_or("")
}
fn variant_name<T: Sc>(g: &Geometry<T>) -> &'static str {
    match g {
        Geometry::Point(_) => "Point",
        Geometry::Line(_) => "Line",
        Geometry::LineString(_) => "LineString",
        Geometry::Polygon(_) => "Polygon",
        Geometry::MultiPoint(_) => "MultiPoint",
        Geometry::MultiLineString(_) => "MultiLineString",
        Geometry::MultiPolygon(_) => "MultiPolygon",
        Geometry::GeometryCollection(_) => "GeometryCollection",
        Geometry::Rect(_) => "Rect",
        Geometry::Triangle(_) => "Triangle",
    }
}

fn rings_t<T: Sc>(cx: &mut Ctx, case: &Value) {
    let mut k = K::new::<T>(cx, case);
    let members: Vec<Vec<Coord<T>>> = arr(&case["members"]).iter().map(cos::<T>).collect();
    let closed_members: Vec<Vec<Coord<T>>> = arr(&case["closed_members"]).iter().map(cos::<T>).collect();
    let n = iv(&case["n"]) as usize;
    let empty = case["empty"].as_bool().unwrap();
    let lss: Vec<LineString<T>> = members.iter().map(|m| LineString(m.clone())).collect();

    // ---- MultiLineString
    let mls = MultiLineString(lss.clone());
    k.eq("multilinestring_new", "MultiLineString::new(members)", guard(|| MultiLineString::new(lss.clone()).0), lss.clone());
    k.eq("multilinestring_iter", "MultiLineString(members).iter()", guard(|| mls.iter().map(|l| l.0.clone()).collect::<Vec<_>>()), members.clone());
    k.eq("multilinestring_iter_mut", "MultiLineString(members).iter_mut()", guard(|| { let mut m = mls.clone(); m.iter_mut().map(|l| l.0.clone()).collect::<Vec<_>>() }), members.clone());
    k.eq("multilinestring_into_iter", "MultiLineString(members).into_iter()", guard(|| mls.clone().into_iter().map(|l| l.0).collect::<Vec<_>>()), members.clone());
    k.eq("multilinestring_ref_into_iter", "(&MultiLineString(members)).into_iter()", guard(|| (&mls).into_iter().map(|l| l.0.clone()).collect::<Vec<_>>()), members.clone());
    k.eq("multilinestring_from_iter", "members.into_iter().collect::<MultiLineString>()", guard(|| lss.iter().cloned().collect::<MultiLineString<T>>().0), lss.clone());
    k.eq("multilinestring_from_iter_of_vecs", "vecs of tuples .into_iter().collect::<MultiLineString>()", guard(|| members.iter().map(|m| tups(m)).collect::<MultiLineString<T>>().0), lss.clone());
    let sub = if empty { "multilinestring_is_closed_empty" } else { "multilinestring_is_closed" };
    k.eq(sub, "MultiLineString(members).is_closed()", guard(|| mls.is_closed()), case["mls_closed"].as_bool().unwrap());
    k.eq("geometry_from_multilinestring", "Geometry::from(MultiLineString) is Geometry::MultiLineString", guard(|| matches!(Geometry::from(mls.clone()), Geometry::MultiLineString(x) if x.0 == lss)), true);

    // ---- MultiPoint (the vertices of the first member)
    let fp: Vec<Coord<T>> = cos(&case["first_points"]);
    let pts: Vec<Point<T>> = fp.iter().map(|c| Point(*c)).collect();
    let mp = MultiPoint(pts.clone());
    k.eq("multipoint_new", "MultiPoint::new(points)", guard(|| MultiPoint::new(pts.clone()).0), pts.clone());
    k.eq("multipoint_len", "MultiPoint(points).len()", guard(|| mp.len()), iv(&case["mp_len"]) as usize);
    k.eq("multipoint_is_empty", "MultiPoint(points).is_empty()", guard(|| mp.is_empty()), case["mp_empty"].as_bool().unwrap());
    k.eq("multipoint_iter", "MultiPoint(points).iter()", guard(|| mp.iter().copied().collect::<Vec<_>>()), pts.clone());
    k.eq("multipoint_iter_mut", "MultiPoint(points).iter_mut()", guard(|| { let mut m = mp.clone(); m.iter_mut().map(|p| *p).collect::<Vec<_>>() }), pts.clone());
    k.eq("multipoint_into_iter", "MultiPoint(points).into_iter()", guard(|| mp.clone().into_iter().collect::<Vec<_>>()), pts.clone());
    k.eq("multipoint_ref_into_iter", "(&MultiPoint(points)).into_iter()", guard(|| (&mp).into_iter().copied().collect::<Vec<_>>()), pts.clone());
    k.eq("multipoint_from_iter", "points.into_iter().collect::<MultiPoint>()", guard(|| pts.iter().copied().collect::<MultiPoint<T>>().0), pts.clone());
    k.eq("multipoint_from_iter_of_tuples", "tuples.into_iter().collect::<MultiPoint>()", guard(|| tups(&fp).into_iter().collect::<MultiPoint<T>>().0), pts.clone());
    k.eq("multipoint_from_vec", "MultiPoint::from(vec![(x, y), ..])", guard(|| MultiPoint::<T>::from(tups(&fp)).0), pts.clone());
    k.eq("multipoint_from_vec_of_points", "MultiPoint::from(vec![Point, ..])", guard(|| MultiPoint::<T>::from(pts.clone()).0), pts.clone());
    if let Some(p0) = pts.first().copied() {
        k.eq("multipoint_from_single", "MultiPoint::from(Point)", guard(|| MultiPoint::<T>::from(p0).0), vec![p0]);
    }
    k.eq("geometry_from_multipoint", "Geometry::from(MultiPoint) is Geometry::MultiPoint", guard(|| matches!(Geometry::from(mp.clone()), Geometry::MultiPoint(x) if x.0 == pts)), true);

    // ---- Polygon: the first member is the exterior, the others the interiors
    let ext: Vec<Coord<T>> = cos(&case["ext"]);
    let ints: Vec<Vec<Coord<T>>> = arr(&case["ints"]).iter().map(cos::<T>).collect();
    let poly = if n >= 1 {
        let new = || Polygon::new(lss[0].clone(), lss[1..].to_vec());
        k.eq("polygon_new_exterior", "Polygon::new(m1, [m2, ..]).exterior()", guard(|| new().exterior().0.clone()), ext.clone());
        k.eq("polygon_new_interiors", "Polygon::new(m1, [m2, ..]).interiors()", guard(|| new().interiors().iter().map(|l| l.0.clone()).collect::<Vec<_>>()), ints.clone());
        k.eq("polygon_into_inner", "Polygon::new(m1, [m2, ..]).into_inner()", guard(|| { let (e, i) = new().into_inner(); (e.0, i.into_iter().map(|l| l.0).collect::<Vec<_>>()) }), (ext.clone(), ints.clone()));
        k.eq("polygon_num_rings", "Polygon::new(m1, [m2, ..]).num_rings()", guard(|| new().num_rings()), iv(&case["num_rings"]) as usize);
        k.eq("polygon_num_interior_rings", "Polygon::new(m1, [m2, ..]).num_interior_rings()", guard(|| new().num_interior_rings()), iv(&case["num_interior_rings"]) as usize);
        k.eq("polygon_rings_are_closed", "every ring of Polygon::new(m1, [m2, ..]) is_closed()", guard(|| { let p = new(); p.exterior().is_closed() && p.interiors().iter().all(|l| l.is_closed()) }), true);
        if n >= 2 {
            let push = || { let mut p = Polygon::new(lss[0].clone(), lss[1..n - 1].to_vec()); p.interiors_push(lss[n - 1].clone()); p };
            k.eq("polygon_interiors_push", "Polygon::new(m1, [m2, .., m(n-1)]).interiors_push(mn) interiors", guard(|| push().interiors().iter().map(|l| l.0.clone()).collect::<Vec<_>>()), ints.clone());
            k.eq("polygon_interiors_push_tuples", "Polygon::new(m1, [m2, .., m(n-1)]).interiors_push(vec![(x, y), ..]) interiors",
                 guard(|| { let mut p = Polygon::new(lss[0].clone(), lss[1..n - 1].to_vec()); p.interiors_push(tups(&members[n - 1])); p.interiors().iter().map(|l| l.0.clone()).collect::<Vec<_>>() }), ints.clone());
            k.eq("polygon_interiors_push_exterior_kept", "Polygon::new(m1, ..).interiors_push(mn) exterior", guard(|| push().exterior().0.clone()), ext.clone());
            k.eq("polygon_eq", "Polygon built by interiors_push == Polygon built by new", guard(|| push() == new()), true);
        }
        guard(new).ok()
    } else {
        None
    };
    if let Some(p) = &poly {
        k.eq("geometry_from_polygon", "Geometry::from(Polygon) is Geometry::Polygon", guard(|| matches!(Geometry::from(p.clone()), Geometry::Polygon(x) if &x == p)), true);
    }

    // ---- MultiPolygon: one polygon without holes per member
    let polys: Vec<Polygon<T>> = match guard(|| lss.iter().map(|l| Polygon::new(l.clone(), vec![])).collect::<Vec<_>>()) { Ok(p) => p, Err(_) => vec![] };
    let exts = |ps: &[Polygon<T>]| ps.iter().map(|p| p.exterior().0.clone()).collect::<Vec<_>>();
    let mpoly = MultiPolygon(polys.clone());
    k.eq("multipolygon_new", "MultiPolygon::new(polygons) exteriors", guard(|| exts(&MultiPolygon::new(polys.clone()).0)), closed_members.clone());
    k.eq("multipolygon_iter", "MultiPolygon(polygons).iter() exteriors", guard(|| mpoly.iter().map(|p| p.exterior().0.clone()).collect::<Vec<_>>()), closed_members.clone());
    k.eq("multipolygon_iter_mut", "MultiPolygon(polygons).iter_mut() exteriors", guard(|| { let mut m = mpoly.clone(); m.iter_mut().map(|p| p.exterior().0.clone()).collect::<Vec<_>>() }), closed_members.clone());
    k.eq("multipolygon_into_iter", "MultiPolygon(polygons).into_iter() exteriors", guard(|| mpoly.clone().into_iter().map(|p| p.exterior().0.clone()).collect::<Vec<_>>()), closed_members.clone());
    k.eq("multipolygon_ref_into_iter", "(&MultiPolygon(polygons)).into_iter() exteriors", guard(|| (&mpoly).into_iter().map(|p| p.exterior().0.clone()).collect::<Vec<_>>()), closed_members.clone());
    k.eq("multipolygon_from_iter", "polygons.into_iter().collect::<MultiPolygon>()", guard(|| polys.iter().cloned().collect::<MultiPolygon<T>>().0), polys.clone());
    k.eq("multipolygon_from_vec", "MultiPolygon::from(vec![Polygon, ..])", guard(|| MultiPolygon::<T>::from(polys.clone()).0), polys.clone());
    if let Some(p0) = polys.first() {
        k.eq("multipolygon_from_single", "MultiPolygon::from(Polygon)", guard(|| MultiPolygon::<T>::from(p0.clone()).0), vec![p0.clone()]);
        k.eq("multilinestring_from_single", "MultiLineString::from(LineString)", guard(|| MultiLineString::<T>::from(lss[0].clone()).0), vec![lss[0].clone()]);
    }
    k.eq("geometry_from_multipolygon", "Geometry::from(MultiPolygon) is Geometry::MultiPolygon", guard(|| matches!(Geometry::from(mpoly.clone()), Geometry::MultiPolygon(x) if x.0 == polys)), true);

    // ---- GeometryCollection: LineString, Polygon, MultiPoint, LineString, ..
    let want_gc: Vec<(String, Vec<Coord<T>>)> = arr(&case["gc"]).iter().map(|g| (g["t"].as_str().unwrap().to_string(), cos::<T>(&g["cs"]))).collect();
    let geoms: Vec<Geometry<T>> = members.iter().enumerate().map(|(i, m)| match i % 3 {
        0 => Geometry::LineString(LineString(m.clone())),
        1 => Geometry::Polygon(polys.get(i).cloned().unwrap_or_else(|| Polygon::new(LineString(vec![]), vec![]))),
        _ => Geometry::MultiPoint(MultiPoint(m.iter().map(|c| Point(*c)).collect())),
    }).collect();
    let gc = GeometryCollection(geoms.clone());
    k.eq("collection_new_from", "GeometryCollection::new_from(geometries) members", guard(|| GeometryCollection::new_from(geoms.clone()).0.iter().map(describe).collect::<Vec<_>>()), want_gc.clone());
    k.eq("collection_len", "GeometryCollection(geometries).len()", guard(|| gc.len()), n);
    k.eq("collection_is_empty", "GeometryCollection(geometries).is_empty()", guard(|| gc.is_empty()), empty);
    k.eq("collection_iter", "GeometryCollection(geometries).iter()", guard(|| gc.iter().map(describe).collect::<Vec<_>>()), want_gc.clone());
    k.eq("collection_iter_mut", "GeometryCollection(geometries).iter_mut()", guard(|| { let mut g = gc.clone(); g.iter_mut().map(|x| describe(x)).collect::<Vec<_>>() }), want_gc.clone());
    k.eq("collection_into_iter", "GeometryCollection(geometries).into_iter()", guard(|| gc.clone().into_iter().map(|g| describe(&g)).collect::<Vec<_>>()), want_gc.clone());
    k.eq("collection_ref_into_iter", "(&GeometryCollection(geometries)).into_iter()", guard(|| (&gc).into_iter().map(describe).collect::<Vec<_>>()), want_gc.clone());
    for i in 0..n {
        k.eq("collection_index", "GeometryCollection(geometries)[i]", guard(|| describe(&gc[i])), want_gc[i].clone());
    }
    k.eq("collection_from_iter", "geometries.into_iter().collect::<GeometryCollection>()", guard(|| geoms.iter().cloned().collect::<GeometryCollection<T>>().0), geoms.clone());
    k.eq("collection_from_iter_of_members", "line strings .into_iter().collect::<GeometryCollection>() (Into<Geometry>)",
         guard(|| lss.iter().cloned().collect::<GeometryCollection<T>>().0.iter().map(variant_name).collect::<Vec<_>>()), vec!["LineString"; n]);
    k.eq("collection_from_vec", "GeometryCollection::from(vec![Geometry, ..])", guard(|| GeometryCollection::<T>::from(geoms.clone()).0), geoms.clone());
    k.eq("collection_default", "GeometryCollection::default() len, is_empty", guard(|| { let g = GeometryCollection::<T>::default(); (g.len(), g.is_empty()) }), (0, true));
    k.eq("collection_new", "GeometryCollection::new() len, is_empty", guard(|| { let g = GeometryCollection::<T>::new(); (g.len(), g.is_empty()) }), (0, true));
    if let Some(g0) = geoms.first() {
        k.eq("collection_from_single", "GeometryCollection::from(LineString)", guard(|| GeometryCollection::<T>::from(lss[0].clone()).0), vec![g0.clone()]);
    }
    k.eq("collection_eq", "GeometryCollection(geometries) == GeometryCollection::default()", guard(|| gc == GeometryCollection::default()), empty);

    // ---- the enum: TryFrom<Geometry> for each concrete type, from each variant
    let (p, q, r): (Coord<T>, Coord<T>, Coord<T>) = (co(&case["p"]), co(&case["q"]), co(&case["r"]));
    let v_point = Point(p);
    let v_line = Line { start: p, end: q };
    let v_ls = lss.first().cloned().unwrap_or_else(|| LineString(vec![]));
    let v_poly = poly.clone().unwrap_or_else(|| polys.first().cloned().unwrap_or_else(|| match guard(|| Polygon::new(LineString(vec![]), vec![])) { Ok(p) => p, Err(e) => panic!("Polygon::new(empty): {e}") }));
    let (v_mp, v_mls, v_mpoly) = (mp.clone(), mls.clone(), mpoly.clone());
    let v_rect = match guard(|| Rect::new(p, q)) { Ok(x) => x, Err(e) => panic!("Rect::new: {e}") };
    let v_tri = Triangle(p, q, r);
    let sources: Vec<Geometry<T>> = vec![
        Geometry::Point(v_point), Geometry::Line(v_line), Geometry::LineString(v_ls.clone()), Geometry::Polygon(v_poly.clone()),
        Geometry::MultiPoint(v_mp.clone()), Geometry::MultiLineString(v_mls.clone()), Geometry::MultiPolygon(v_mpoly.clone()),
        Geometry::GeometryCollection(gc.clone()), Geometry::Rect(v_rect), Geometry::Triangle(v_tri),
    ];
    let variants: Vec<&str> = arr(&case["variants"]).iter().map(|v| v.as_str().unwrap()).collect();
    let targets: Vec<&str> = arr(&case["targets"]).iter().map(|v| v.as_str().unwrap()).collect();
    for (vi, vname) in variants.iter().enumerate() {
        let g = &sources[vi];
        if variant_name(g) != *vname {
            panic!("harness: variant table out of step with the specification");
        }
        for (ti, tname) in targets.iter().enumerate() {
            let want_ok = case["try_from_ok"][vi][ti].as_bool().unwrap();
            macro_rules! try_one {
                ($ty:ident, $orig:expr) => {{
                    let got = guard(|| $ty::<T>::try_from(g.clone()));
                    if want_ok {
                        k.holds("geometry_try_from_matching", "T::try_from(Geometry::T(value))", got.map(|r| { let ok = matches!(&r, Ok(x) if *x == $orig); (r, ok) }), "Ok(value)");
                    } else {
                        k.holds("geometry_try_from_mismatch", "T::try_from(Geometry::U(value)), U != T", got.map(|r| {
                            let ok = match &r {
                                Err(Error::MismatchedGeometry { expected, found }) => type_of(expected) == *tname && type_of(found) == *vname,
                                Ok(_) => false,
                            };
                            (r.map(|_| "Ok(..)"), ok)
                        }), "Err(MismatchedGeometry { expected: T, found: U })");
                    }
                }};
            }
            match *tname {
                "Point" => try_one!(Point, v_point),
                "Line" => try_one!(Line, v_line),
                "LineString" => try_one!(LineString, v_ls),
                "Polygon" => try_one!(Polygon, v_poly),
                "MultiPoint" => try_one!(MultiPoint, v_mp),
                "MultiLineString" => try_one!(MultiLineString, v_mls),
                "MultiPolygon" => try_one!(MultiPolygon, v_mpoly),
                "Rect" => try_one!(Rect, v_rect),
                "Triangle" => try_one!(Triangle, v_tri),
                other => panic!("harness: unknown target type {other}"),
            }
        }
        // the Option accessors: "If this Geometry is a T, then return that, else None"
        let is = |t: &str| *vname == t;
        k.eq("geometry_into_point", "Geometry::into_point()", guard(|| g.clone().into_point()), if is("Point") { Some(v_point) } else { None });
        k.eq("geometry_into_line", "Geometry::into_line()", guard(|| g.clone().into_line()), if is("Line") { Some(v_line) } else { None });
        k.eq("geometry_into_line_string", "Geometry::into_line_string()", guard(|| g.clone().into_line_string()), if is("LineString") { Some(v_ls.clone()) } else { None });
        k.eq("geometry_into_polygon", "Geometry::into_polygon()", guard(|| g.clone().into_polygon()), if is("Polygon") { Some(v_poly.clone()) } else { None });
        k.eq("geometry_into_multi_point", "Geometry::into_multi_point()", guard(|| g.clone().into_multi_point()), if is("MultiPoint") { Some(v_mp.clone()) } else { None });
        k.eq("geometry_into_multi_line_string", "Geometry::into_multi_line_string()", guard(|| g.clone().into_multi_line_string()), if is("MultiLineString") { Some(v_mls.clone()) } else { None });
        k.eq("geometry_into_multi_polygon", "Geometry::into_multi_polygon()", guard(|| g.clone().into_multi_polygon()), if is("MultiPolygon") { Some(v_mpoly.clone()) } else { None });
    }
    k.cx.count(if empty { "types_rings_empty_lists" } else { "types_rings_nonempty_lists" }, 1);
}

pub fn rings_case(cx: &mut Ctx, n: u64, case: &Value) {
    if !cx.wants("X11") {
        return;
    }
    if n % 997 == 0 {
        cx.sample(case.clone());
    }
    cx.count("types_rings_cases", 1);
    rings_t::<f64>(cx, case);
    rings_t::<f32>(cx, case);
    rings_t::<i64>(cx, case);
    rings_t::<i32>(cx, case);
}

//! C14: validation replay.
use crate::ctx::{guard, Ctx};
use geo::algorithm::validation::Validation;
use geo::Polygon;
use serde_json::{json, Value};

/// a polygon the specification constructed as valid must be accepted
pub fn valid_polygon_case(cx: &mut Ctx, _n: u64, case: &Value, p: &Polygon<f64>) {
    let want = case["valid"].as_bool().unwrap();
    match guard(|| (p.is_valid(), format!("{:?}", p.validation_errors()))) {
        Ok((v, errs)) => {
            if v == want { cx.ok("polygon_is_valid"); } else { cx.bad("C14", "polygon_is_valid", case, json!({"got": v, "want": want, "errors": errs})); }
            let has_err = errs != "[]";
            if has_err == !want { cx.ok("validation_errors_iff_invalid"); } else { cx.bad("C14", "validation_errors_iff_invalid", case, json!({"errors": errs, "want_valid": want})); }
        }
        Err(p) => cx.bad("C14", "polygon_is_valid", case, json!({"got": format!("PANIC {p}")})),
    }
}

fn ring_no(s: &str) -> Vec<i64> {
    // ring roles named inside an error's Debug text: Exterior -> 0, Interior(k) -> k + 1
    let mut out = vec![];
    // only the arguments: variant names such as InteriorRingNotContainedInExteriorRing contain the words themselves
    let mut rest = s.find('(').map(|i| &s[i..]).unwrap_or("");
    loop {
        let e = rest.find("Exterior");
        let i = rest.find("Interior(");
        match (e, i) {
            (None, None) => break,
            (Some(a), b) if b.map_or(true, |b| a < b) => { out.push(0); rest = &rest[a + 8..]; }
            (_, Some(b)) => {
                let tail = &rest[b + 9..];
                let end = tail.find(')').unwrap();
                out.push(tail[..end].parse::<i64>().unwrap() + 1);
                rest = &tail[end..];
            }
            _ => break,
        }
    }
    out
}

/// case {op:"valid", g, valid, few, self, notcontained, line, area [, overlap, online]}
pub fn valid_case(cx: &mut Ctx, n: u64, case: &Value) {
    use crate::gj::{self, G};
    if !cx.wants("C14") {
        return;
    }
    if n % 1499 == 0 {
        cx.sample(case.clone());
    }
    let want = case["valid"].as_bool().unwrap();
    cx.count(if want { "valid_cases" } else { "invalid_cases" }, 1);
    let g = gj::parse(&case["g"]);
    let ids = |k: &str| -> Vec<i64> { case[k].as_array().unwrap().iter().filter_map(|v| v.as_i64()).collect() };
    let pairs = |k: &str| -> Vec<(i64, i64)> { case[k].as_array().unwrap().iter().map(|v| (v[0].as_i64().unwrap(), v[1].as_i64().unwrap())).collect() };
    match &g {
        G::Polygon(p) => {
            let r = guard(|| (p.is_valid(), p.validation_errors().iter().map(|e| format!("{e:?}")).collect::<Vec<_>>()));
            match r {
                Ok((v, errs)) => {
                    if v == want { cx.ok("polygon_is_valid"); } else { cx.bad("C14", "polygon_is_valid", case, json!({"got": v, "want": want, "errors": errs})); }
                    if errs.is_empty() == want { cx.ok("validation_errors_iff_invalid"); } else { cx.bad("C14", "validation_errors_iff_invalid", case, json!({"errors": errs, "want_valid": want})); }
                    // every reported error names rings that really have a defect of that kind
                    let (few, slf, notc, line, area) = (ids("few"), ids("self"), ids("notcontained"), pairs("line"), pairs("area"));
                    for e in &errs {
                        let rings = ring_no(e);
                        let in_pair = |set: &Vec<(i64, i64)>| rings.len() == 2 && set.iter().any(|(a, b)| (*a == rings[0] && *b == rings[1]) || (*a == rings[1] && *b == rings[0]));
                        let ok = if e.starts_with("TooFewPointsInRing") { few.contains(&rings[0]) || slf.contains(&rings[0]) }
                            else if e.starts_with("SelfIntersection") { slf.contains(&rings[0]) }
                            else if e.starts_with("InteriorRingNotContained") { notc.contains(&rings[0]) }
                            else if e.starts_with("IntersectingRingsOnALine") { in_pair(&line) }
                            else if e.starts_with("IntersectingRingsOnAnArea") { in_pair(&area) }
                            else { false };
                        if ok { cx.ok("reported_error_is_real"); } else { cx.bad("C14", "reported_error_is_real", case, json!({"error": e, "all_errors": errs})); }
                    }
                    // the same polygon with an EMPTY interior ring put in front of the holes (an empty ring has no point: same validity),
                    // and every reported error must then name the rings one position further on
                    if p.exterior().0.len() >= 1 {
                        let mut hs = vec![geo::LineString::<f64>::new(vec![])];
                        hs.extend(p.interiors().iter().cloned());
                        let pe = geo::Polygon::new(p.exterior().clone(), hs);
                        let re = guard(|| (pe.is_valid(), pe.validation_errors().iter().map(|e| format!("{e:?}")).collect::<Vec<_>>()));
                        let sh = |v: &Vec<i64>| -> Vec<i64> { v.iter().map(|i| if *i >= 1 { *i + 1 } else { *i }).collect() };
                        let shp = |v: &Vec<(i64, i64)>| -> Vec<(i64, i64)> { v.iter().map(|(a, b)| (if *a >= 1 { *a + 1 } else { *a }, if *b >= 1 { *b + 1 } else { *b })).collect() };
                        let (few2, slf2, notc2, line2, area2) = (sh(&few), sh(&slf), sh(&notc), shp(&line), shp(&area));
                        let ok = match &re {
                            Ok((v2, errs2)) => *v2 == want && errs2.is_empty() == want && errs2.iter().all(|e| {
                                let rings = ring_no(e);
                                let in_pair = |set: &Vec<(i64, i64)>| rings.len() == 2 && set.iter().any(|(a, b)| (*a == rings[0] && *b == rings[1]) || (*a == rings[1] && *b == rings[0]));
                                if e.starts_with("TooFewPointsInRing") { few2.contains(&rings[0]) || slf2.contains(&rings[0]) }
                                else if e.starts_with("SelfIntersection") { slf2.contains(&rings[0]) }
                                else if e.starts_with("InteriorRingNotContained") { notc2.contains(&rings[0]) }
                                else if e.starts_with("IntersectingRingsOnALine") { in_pair(&line2) }
                                else if e.starts_with("IntersectingRingsOnAnArea") { in_pair(&area2) }
                                else { false }
                            }),
                            Err(_) => false,
                        };
                        if ok { cx.ok("polygon_with_empty_interior_ring"); } else { cx.bad("C14", "polygon_with_empty_interior_ring", case, json!({"got": format!("{re:?}"), "want_valid": want, "errors_without_the_empty_ring": errs})); }
                    }
                    // the shell ring of a hole-free case used as the HOLE of a large square (alone, and behind an empty interior ring):
                    // its per-ring defects (too few points, self-intersection) must be reported for exactly that interior ring
                    if p.interiors().is_empty() && !p.exterior().0.is_empty() && p.exterior().0.iter().all(|c| c.x.abs() < 90.0 && c.y.abs() < 90.0) {
                        let big = geo::LineString::from(vec![(-100.0, -100.0), (100.0, -100.0), (100.0, 100.0), (-100.0, 100.0), (-100.0, -100.0)]);
                        for lead_empty in [false, true] {
                            let mut hs = vec![];
                            if lead_empty { hs.push(geo::LineString::<f64>::new(vec![])); }
                            hs.push(p.exterior().clone());
                            let pp = geo::Polygon::new(big.clone(), hs);
                            let id = if lead_empty { 2 } else { 1 };
                            let r = guard(|| (pp.is_valid(), pp.validation_errors().iter().map(|e| format!("{e:?}")).collect::<Vec<_>>()));
                            let ok = match &r {
                                Ok((v2, errs2)) => *v2 == want && errs2.is_empty() == want && errs2.iter().all(|e| {
                                    let rings = ring_no(e);
                                    (e.starts_with("TooFewPointsInRing") && rings == vec![id] && (few.contains(&0) || slf.contains(&0)))
                                        || (e.starts_with("SelfIntersection") && rings == vec![id] && slf.contains(&0))
                                }),
                                Err(_) => false,
                            };
                            if ok { cx.ok("ring_as_hole_of_a_large_square"); } else {
                                cx.bad("C14", "ring_as_hole_of_a_large_square", case, json!({"what": if lead_empty { "interiors [EMPTY, ring]" } else { "interiors [ring]" }, "got": format!("{r:?}"), "want_valid": want, "ring_errors_as_shell": errs}));
                            }
                        }
                    }
                    // the other entry points of the Validation trait: check_validation (first error or Ok) and visit_validation
                    {
                        let first = guard(|| p.check_validation().err().map(|e| format!("{e:?}")));
                        let mut visited: Vec<String> = vec![];
                        let vr = guard(|| { let _ = p.visit_validation(Box::new(|e| { visited.push(format!("{e:?}")); Ok::<(), ()>(()) })); });
                        let ok = matches!(&first, Ok(f) if f.is_none() == want && f.as_ref().map_or(true, |f| errs.first() == Some(f))) && vr.is_ok() && visited == errs;
                        if ok { cx.ok("check_and_visit_validation"); } else { cx.bad("C14", "check_and_visit_validation", case, json!({"check_validation": format!("{first:?}"), "visited": visited, "validation_errors": errs})); }
                    }
                    // through the Geometry enum and as a one-member MultiPolygon
                    let gv = guard(|| g.geometry().is_valid());
                    if gv == Ok(want) { cx.ok("geometry_enum_is_valid"); } else { cx.bad("C14", "geometry_enum_is_valid", case, json!({"got": format!("{gv:?}"), "want": want})); }
                    let mv = guard(|| geo::MultiPolygon::new(vec![p.clone()]).is_valid());
                    if mv == Ok(want) { cx.ok("multipolygon_of_one_is_valid"); } else { cx.bad("C14", "multipolygon_of_one_is_valid", case, json!({"got": format!("{mv:?}"), "want": want})); }
                    // the same polygon with f32 coordinates (exact on the lattice), in a GeometryCollection, and with the ring
                    // written from another start vertex / in the opposite direction (validity is a property of the point set)
                    {
                        use geo::MapCoords;
                        let pf: geo::Polygon<f32> = p.map_coords(|c| geo::Coord { x: c.x as f32, y: c.y as f32 });
                        let fv = guard(|| (pf.is_valid(), pf.validation_errors().is_empty()));
                        if fv == Ok((want, want)) { cx.ok("polygon_f32_is_valid"); } else { cx.bad("C14", "polygon_f32_is_valid", case, json!({"got": format!("{fv:?}"), "want": want})); }
                        let gcv = guard(|| geo::GeometryCollection::new_from(vec![geo::Geometry::Point(geo::Point::new(0.0, 0.0)), geo::Geometry::Polygon(p.clone())]).is_valid());
                        if gcv == Ok(want) { cx.ok("collection_member_is_valid"); } else { cx.bad("C14", "collection_member_is_valid", case, json!({"got": format!("{gcv:?}"), "want": want})); }
                        let turn = |l: &geo::LineString<f64>, k: usize, rev: bool| -> geo::LineString<f64> {
                            if l.0.len() < 2 { return l.clone(); }
                            let mut open: Vec<geo::Coord<f64>> = l.0[..l.0.len() - 1].to_vec();
                            let kk = k % open.len();
                            open.rotate_left(kk);
                            if rev { open.reverse(); }
                            open.push(open[0]);
                            geo::LineString::new(open)
                        };
                        // every vertex written twice in a row (repeated points add no point to the ring: same verdict)
                        {
                            let dbl = |l: &geo::LineString<f64>| geo::LineString::new(l.0.iter().flat_map(|c| [*c, *c]).collect());
                            let q = geo::Polygon::new(dbl(p.exterior()), p.interiors().iter().map(dbl).collect());
                            let qv = guard(|| (q.is_valid(), q.validation_errors().is_empty()));
                            if qv == Ok((want, want)) { cx.ok("polygon_doubled_vertices_is_valid"); } else {
                                cx.bad("C14", "polygon_doubled_vertices_is_valid", case, json!({"what": "every vertex of every ring repeated once", "got": format!("{qv:?}"), "want": want}));
                            }
                        }
                        // only the two extreme vertices (lexicographically least and greatest) written twice
                        {
                            let ends = |l: &geo::LineString<f64>| -> geo::LineString<f64> {
                                let key = |c: &geo::Coord<f64>| (c.x, c.y);
                                let lo = l.0.iter().map(key).fold((f64::INFINITY, f64::INFINITY), |a, b| if b < a { b } else { a });
                                let hi = l.0.iter().map(key).fold((f64::NEG_INFINITY, f64::NEG_INFINITY), |a, b| if b > a { b } else { a });
                                geo::LineString::new(l.0.iter().flat_map(|c| if key(c) == lo || key(c) == hi { vec![*c, *c] } else { vec![*c] }).collect())
                            };
                            let q = geo::Polygon::new(ends(p.exterior()), p.interiors().iter().map(ends).collect());
                            let qv = guard(|| (q.is_valid(), q.validation_errors().is_empty()));
                            if qv == Ok((want, want)) { cx.ok("polygon_doubled_vertices_is_valid"); } else {
                                cx.bad("C14", "polygon_doubled_vertices_is_valid", case, json!({"what": "the lexicographically extreme vertices of every ring repeated once", "got": format!("{qv:?}"), "want": want}));
                            }
                        }
                        for (k, rev) in [(1usize, false), (2, true), (0, true)] {
                            let closed_input = p.exterior().0.first() == p.exterior().0.last() && p.interiors().iter().all(|h| h.0.first() == h.0.last());
                            if !closed_input { break; }
                            let q = geo::Polygon::new(turn(p.exterior(), k, rev), p.interiors().iter().map(|h| turn(h, k + 1, !rev)).collect());
                            let qv = guard(|| (q.is_valid(), q.validation_errors().is_empty()));
                            if qv == Ok((want, want)) { cx.ok("polygon_respelled_is_valid"); } else {
                                cx.bad("C14", "polygon_respelled_is_valid", case, json!({"what": format!("rings rotated by {k}, shell reversed: {rev}"), "got": format!("{qv:?}"), "want": want, "polygon": gj::geometry_to_json(&geo::Geometry::Polygon(q))}));
                            }
                        }
                    }
                    // a non-finite coordinate makes any polygon invalid, and the error names ring and index
                    if want {
                        let mut e = p.exterior().0.clone();
                        let k = (n as usize) % (e.len() - 1).max(1);
                        let bad = [f64::NAN, f64::INFINITY, f64::NEG_INFINITY][(n % 3) as usize];
                        if k == 0 { let l = e.len() - 1; e[l].x = bad; }
                        e[k].x = bad;
                        let q = Polygon::new(geo::LineString::new(e), p.interiors().to_vec());
                        let r = guard(|| (q.is_valid(), format!("{:?}", q.validation_errors())));
                        match r {
                            Ok((false, errs)) if errs.contains("NonFiniteCoord(Exterior") => cx.ok("non_finite_is_invalid"),
                            other => cx.bad("C14", "non_finite_is_invalid", case, json!({"what": format!("exterior[{k}].x = {bad}"), "got": format!("{other:?}")})),
                        }
                        // the reported index names a coordinate OF THE CALLER'S RING that is not finite - also when vertices are
                        // repeated in front of it (every vertex of the ring written twice)
                        for doubled in [false, true] {
                            let ring: Vec<geo::Coord<f64>> = if doubled { q.exterior().0.iter().flat_map(|c| [*c, *c]).collect() } else { q.exterior().0.clone() };
                            let qq = Polygon::new(geo::LineString::new(ring.clone()), p.interiors().to_vec());
                            let ring: Vec<geo::Coord<f64>> = qq.exterior().0.clone();       // as held by the polygon (Polygon::new may append a closing coordinate)
                            let r2 = guard(|| qq.validation_errors().iter().map(|e| format!("{e:?}")).collect::<Vec<_>>());
                            let ok = match &r2 {
                                Ok(errs) => {
                                    let idx: Vec<usize> = errs.iter().filter(|e| e.starts_with("NonFiniteCoord(Exterior")).filter_map(|e| e.split("CoordIndex(").nth(1).and_then(|t| t.split(')').next()).and_then(|t| t.trim().parse().ok())).collect();
                                    !idx.is_empty() && idx.iter().all(|i| *i < ring.len() && !(ring[*i].x.is_finite() && ring[*i].y.is_finite()))
                                }
                                Err(_) => false,
                            };
                            if ok { cx.ok("non_finite_index_names_the_coordinate"); } else {
                                cx.bad("C14", "non_finite_index_names_the_coordinate", case, json!({"what": format!("exterior[{k}].x = {bad}, every vertex repeated: {doubled}"), "ring": ring.iter().map(|c| format!("{} {}", c.x, c.y)).collect::<Vec<_>>(), "got": format!("{r2:?}")}));
                            }
                        }
                    }
                }
                Err(pn) => cx.bad("C14", "polygon_is_valid", case, json!({"got": format!("PANIC {pn}")})),
            }
        }
        G::MultiPolygon(mp) => {
            let r = guard(|| (mp.is_valid(), mp.validation_errors().iter().map(|e| format!("{e:?}")).collect::<Vec<_>>()));
            match r {
                Ok((v, errs)) => {
                    if v == want { cx.ok("multipolygon_is_valid"); } else { cx.bad("C14", "multipolygon_is_valid", case, json!({"got": v, "want": want, "errors": errs})); }
                    if errs.is_empty() == want { cx.ok("validation_errors_iff_invalid"); } else { cx.bad("C14", "validation_errors_iff_invalid", case, json!({"errors": errs, "want_valid": want})); }
                    for e in &errs {
                        let ok = (e.starts_with("ElementsOverlaps") && case["overlap"].as_bool().unwrap())
                            || (e.starts_with("ElementsTouchOnALine") && case["online"].as_bool().unwrap());
                        if ok { cx.ok("reported_error_is_real"); } else { cx.bad("C14", "reported_error_is_real", case, json!({"error": e, "all_errors": errs})); }
                    }
                }
                Err(pn) => cx.bad("C14", "multipolygon_is_valid", case, json!({"got": format!("PANIC {pn}")})),
            }
            // the same point set written with an empty member (first / between / last) and with the members swapped:
            // an empty polygon contributes no point, so validity and the kind of defect are unchanged
            let empty = geo::Polygon::<f64>::new(geo::LineString::new(vec![]), vec![]);
            let mut variants: Vec<(&str, Vec<geo::Polygon<f64>>)> = vec![];
            let ms = mp.0.clone();
            variants.push(("empty member first", std::iter::once(empty.clone()).chain(ms.iter().cloned()).collect()));
            variants.push(("empty member last", ms.iter().cloned().chain(std::iter::once(empty.clone())).collect()));
            if ms.len() >= 2 {
                let mut mid = ms.clone();
                mid.insert(1, empty.clone());
                variants.push(("empty member between", mid));
                variants.push(("members swapped", ms.iter().rev().cloned().collect()));
                variants.push(("two empty members first", vec![empty.clone(), empty.clone()].into_iter().chain(ms.iter().cloned()).collect()));
            }
            for (what, members) in variants {
                // positions of the non-empty members: a reported pair must name exactly two of them (the catalogue members are
                // individually valid, so no per-member error is expected)
                let real: Vec<i64> = members.iter().enumerate().filter(|(_, p)| !p.exterior().0.is_empty()).map(|(i, _)| i as i64).collect();
                let names_real_members = |e: &str| -> bool {
                    let idx: Vec<i64> = e.split("GeometryIndex(").skip(1).filter_map(|t| t.split(')').next().and_then(|n| n.trim().parse().ok())).collect();
                    !idx.is_empty() && idx.iter().all(|i| real.contains(i)) && (idx.len() < 2 || idx[0] != idx[1])
                };
                let v = geo::MultiPolygon::new(members);
                let r = guard(|| (v.is_valid(), v.validation_errors().iter().map(|e| format!("{e:?}")).collect::<Vec<_>>()));
                match r {
                    Ok((ok, errs)) if ok == want && errs.is_empty() == want
                        && errs.iter().all(|e| names_real_members(e) && ((e.starts_with("ElementsOverlaps") && case["overlap"].as_bool().unwrap()) || (e.starts_with("ElementsTouchOnALine") && case["online"].as_bool().unwrap()))) => cx.ok("multipolygon_with_empty_member"),
                    other => cx.bad("C14", "multipolygon_with_empty_member", case, json!({"what": what, "got": format!("{other:?}"), "want_valid": want})),
                }
            }
        }
        _ => cx.count("valid_unhandled_type", 1),
    }
}

//! C14: validation replay.
use crate::ctx::{guard, Ctx};
use geo::algorithm::validation::Validation;
use geo::Polygon;
use serde_json::{json, Value};

/// a polygon the specification constructed as valid must be accepted
pub fn valid_polygon_case(cx: &mut Ctx, _n: u64, case: &Value, p: &Polygon<f64>) {
    let want = case["valid"].as_bool().unwrap();
    match guard(|| (p.is_valid(), format!("{:?}", p.validation_errors()))) {
        Ok((v, errs)) => {
            if v == want { cx.ok("polygon_is_valid"); } else { cx.bad("C14", "polygon_is_valid", case, json!({"got": v, "want": want, "errors": errs})); }
            let has_err = errs != "[]";
            if has_err == !want { cx.ok("validation_errors_iff_invalid"); } else { cx.bad("C14", "validation_errors_iff_invalid", case, json!({"errors": errs, "want_valid": want})); }
        }
        Err(p) => cx.bad("C14", "polygon_is_valid", case, json!({"got": format!("PANIC {p}")})),
    }
}

"""Narrow, mechanically checkable classes for known findings (findings/known_findings.jsonl).
Each predicate takes a mismatch record and returns True only for the listed defect."""


def _mls_members(g):
    """member coordinate lists of a MultiLineString, also when wrapped by the harness variants"""
    if g.get("t") == "MultiLineString":
        return g["ls"]
    return None


def mls_even_shared_endpoint(m):
    """coordinate_position(MultiLineString, c) = Outside although c is an endpoint of an even,
    non-zero number of open members (so it is interior by the mod-2 rule).  The repository's own
    unit test coordinate_position::test::test_boundary_rule pins this answer."""
    case = m.get("case", {})
    if case.get("op") != "coordpos_pt":
        return False
    d = m.get("detail", {})
    if not (d.get("got") == "E" and d.get("want") == "I"):
        return False
    ls = _mls_members(case.get("g", {}))
    if ls is None:
        return False
    c = case["c"]
    n = sum(1 for l in ls if len(l) >= 2 and l[0] != l[-1] and (l[0] == c or l[-1] == c))
    return n >= 2 and n % 2 == 0


PREDS = {f.__name__: f for f in [mls_even_shared_endpoint]}

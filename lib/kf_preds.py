"""Narrow, mechanically checkable classes for known findings (findings/known_findings.jsonl).
Each predicate takes a mismatch record and returns True only for the listed defect."""


def _mls_members(g):
    """member coordinate lists of a MultiLineString, also when wrapped by the harness variants"""
    if g.get("t") == "MultiLineString":
        return g["ls"]
    return None


def mls_even_shared_endpoint(m):
    """coordinate_position(MultiLineString, c) = Outside although c is an endpoint of an even,
    non-zero number of open members (so it is interior by the mod-2 rule).  The repository's own
    unit test coordinate_position::test::test_boundary_rule pins this answer."""
    case = m.get("case", {})
    if case.get("op") != "coordpos_pt":
        return False
    d = m.get("detail", {})
    if not (d.get("got") == "E" and d.get("want") == "I"):
        return False
    ls = _mls_members(case.get("g", {}))
    if ls is None:
        return False
    c = case["c"]
    n = sum(1 for l in ls if len(l) >= 2 and l[0] != l[-1] and (l[0] == c or l[-1] == c))
    return n >= 2 and n % 2 == 0


def sweep_inexact_crossing(m):
    """geo::sweep::Intersections misses (or mis-reports) a pair, and some pair of the input segments crosses in a point
    whose coordinates are not dyadic rationals (not representable in f64): the sweep splits segments at the rounded
    point, after which exact incidences with the pieces are lost."""
    from fractions import Fraction as Fr
    c = m.get("case", {})
    if c.get("op") != "sweep" or m.get("detail", {}).get("what") != "reported pairs differ from the exact set":
        return False

    def dyadic(f):
        d = f.denominator
        return d & (d - 1) == 0
    for i, j, k in c["pairs"]:
        if k != "point":
            continue
        (x1, y1), (x2, y2) = c["segs"][i - 1]
        (x3, y3), (x4, y4) = c["segs"][j - 1]
        d = (x1 - x2) * (y3 - y4) - (y1 - y2) * (x3 - x4)
        if d == 0:
            continue
        px = Fr((x1 * y2 - y1 * x2) * (x3 - x4) - (x1 - x2) * (x3 * y4 - y3 * x4), d)
        py = Fr((x1 * y2 - y1 * x2) * (y3 - y4) - (y1 - y2) * (x3 * y4 - y3 * x4), d)
        if not (dyadic(px) and dyadic(py)):
            return True
    return False


def gc_all_members_empty(m):
    """HasDimensions::is_empty through the Geometry enum answers false for a collection that has members, all of them
    empty: the delegating macro calls `g.is_empty()`, which resolves to geo-types' inherent GeometryCollection::is_empty
    (no members) instead of the trait method (no coordinates)."""
    c = m.get("case", {})
    g = c.get("g", {})

    def has_gc_of_empties(g):
        if g.get("t") != "GeometryCollection":
            return False
        return len(g["gs"]) > 0

    return (m.get("sub") == "dimensions_geometry_enum" and c.get("empty") is True and has_gc_of_empties(g)
            and "false" in m.get("detail", {}).get("got", ""))


def monotone_tjunction_panic(m):
    """monotone_subdivision panics (Option::unwrap on None in monotone/builder.rs) and the input has a T-junction between
    two different rings: a vertex of one ring lies in the interior of an edge of another ring (members of a multipolygon,
    or a hole and its shell, touching in a point)."""
    e = m.get("case", {})
    if e.get("ev") != "mono" or e.get("st") != "panic" or m.get("sub") != "panic":
        return False
    rs = []
    for q in e["p"]["ps"]:
        rs.append(q["ext"])
        rs.extend(q["holes"])
    for i, r in enumerate(rs):
        for v in r:
            for j, s in enumerate(rs):
                if i == j:
                    continue
                for k in range(len(s) - 1):
                    a, b = s[k], s[k + 1]
                    if v == a or v == b:
                        continue
                    cr = (b[0] - a[0]) * (v[1] - a[1]) - (b[1] - a[1]) * (v[0] - a[0])
                    if cr == 0 and min(a[0], b[0]) <= v[0] <= max(a[0], b[0]) and min(a[1], b[1]) <= v[1] <= max(a[1], b[1]):
                        return True
    return False


def _rings_share_point(r, s):
    def on(v, a, b):
        cr = (b[0] - a[0]) * (v[1] - a[1]) - (b[1] - a[1]) * (v[0] - a[0])
        return cr == 0 and min(a[0], b[0]) <= v[0] <= max(a[0], b[0]) and min(a[1], b[1]) <= v[1] <= max(a[1], b[1])
    return any(on(v, s[k], s[k + 1]) for v in r for k in range(len(s) - 1)) or any(on(v, r[k], r[k + 1]) for v in s for k in range(len(r) - 1))


def stitch_hole_chain(m):
    """stitch_triangulation of the constrained triangles of a polygon in which one hole touches BOTH the shell and another
    hole (a chain of point contacts from the shell inwards): the boundary lines then form one self-touching ring next to
    the outer ring and the parent / child bookkeeping returns two polygons that contain each other."""
    e = m.get("case", {})
    if e.get("ev") != "stitch" or m.get("sub") not in ("stitch_area", "ring_direction", "stitch_region", "ring_not_closed"):
        return False
    for q in e["p"]["ps"]:
        hs = q["holes"]
        for i, h in enumerate(hs):
            if _rings_share_point(h, q["ext"]) and any(j != i and _rings_share_point(h, g) for j, g in enumerate(hs)):
                return True
    return False


def convex_star(m):
    """is_convex answers true for a closed ring whose consecutive triples all turn the same way but which winds around more
    than once (a star / pentagram): the implementation tests local turns only, the documentation says 'encloses a convex set'."""
    c = m.get("case", {})
    if c.get("op") != "extra_seq" or m.get("sub") != "convexity":
        return False
    cs = c["cs"]
    n = len(cs) - 1
    t = []
    for i in range(n):
        a, b, d = cs[i], cs[(i + 1) % n], cs[(i + 2) % n]
        t.append((b[0] - a[0]) * (d[1] - a[1]) - (b[1] - a[1]) * (d[0] - a[0]))
    same = all(x >= 0 for x in t) or all(x <= 0 for x in t)
    return same and "Ok((true" in m.get("detail", {}).get("got", "") and m.get("detail", {}).get("want", "").startswith("(false")


PREDS = {f.__name__: f for f in [convex_star, mls_even_shared_endpoint, sweep_inexact_crossing, gc_all_members_empty, monotone_tjunction_panic, stitch_hole_chain]}

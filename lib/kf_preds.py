"""Narrow, mechanically checkable classes for known findings (findings/known_findings.jsonl).
Each predicate takes a mismatch record and returns True only for the listed defect."""


def _mls_members(g):
    """member coordinate lists of a MultiLineString, also when wrapped by the harness variants"""
    if g.get("t") == "MultiLineString":
        return g["ls"]
    return None


def mls_even_shared_endpoint(m):
    """coordinate_position(MultiLineString, c) = Outside although c is an endpoint of an even,
    non-zero number of open members (so it is interior by the mod-2 rule).  The repository's own
    unit test coordinate_position::test::test_boundary_rule pins this answer."""
    case = m.get("case", {})
    if case.get("op") != "coordpos_pt":
        return False
    d = m.get("detail", {})
    if not (d.get("got") == "E" and d.get("want") == "I"):
        return False
    ls = _mls_members(case.get("g", {}))
    if ls is None:
        return False
    c = case["c"]
    n = sum(1 for l in ls if len(l) >= 2 and l[0] != l[-1] and (l[0] == c or l[-1] == c))
    return n >= 2 and n % 2 == 0


def sweep_inexact_crossing(m):
    """geo::sweep::Intersections misses (or mis-reports) a pair, and some pair of the input segments crosses in a point
    whose coordinates are not dyadic rationals (not representable in f64): the sweep splits segments at the rounded
    point, after which exact incidences with the pieces are lost."""
    from fractions import Fraction as Fr
    c = m.get("case", {})
    # (with four segments the same situation also ends in a panic of the sweep's bookkeeping: "segment not found in
    # active-vec-set", "unable to compare active segments!", "assertion failed ...")
    if c.get("op") != "sweep" or m.get("detail", {}).get("what") not in ("reported pairs differ from the exact set", "panic"):
        return False

    def dyadic(f):
        d = f.denominator
        return d & (d - 1) == 0
    for i, j, k in c["pairs"]:
        if k != "point":
            continue
        (x1, y1), (x2, y2) = c["segs"][i - 1]
        (x3, y3), (x4, y4) = c["segs"][j - 1]
        d = (x1 - x2) * (y3 - y4) - (y1 - y2) * (x3 - x4)
        if d == 0:
            continue
        px = Fr((x1 * y2 - y1 * x2) * (x3 - x4) - (x1 - x2) * (x3 * y4 - y3 * x4), d)
        py = Fr((x1 * y2 - y1 * x2) * (y3 - y4) - (y1 - y2) * (x3 * y4 - y3 * x4), d)
        if not (dyadic(px) and dyadic(py)):
            return True
    return False


def gc_all_members_empty(m):
    """HasDimensions::is_empty through the Geometry enum answers false for a collection that has members, all of them
    empty: the delegating macro calls `g.is_empty()`, which resolves to geo-types' inherent GeometryCollection::is_empty
    (no members) instead of the trait method (no coordinates)."""
    c = m.get("case", {})
    g = c.get("g", {})

    def has_gc_of_empties(g):
        if g.get("t") != "GeometryCollection":
            return False
        return len(g["gs"]) > 0

    return (m.get("sub") == "dimensions_geometry_enum" and c.get("empty") is True and has_gc_of_empties(g)
            and "false" in m.get("detail", {}).get("got", ""))


def monotone_tjunction_panic(m):
    """monotone_subdivision panics (Option::unwrap on None in monotone/builder.rs) and the input has a T-junction between
    two different rings: a vertex of one ring lies in the interior of an edge of another ring (members of a multipolygon,
    or a hole and its shell, touching in a point)."""
    e = m.get("case", {})
    if e.get("ev") != "mono" or e.get("st") != "panic" or m.get("sub") != "panic":
        return False
    # exactly the known panic (the unwrap in builder.rs); any other panic message at a T-junction is a different failure
    if "Option::unwrap()" not in str(e.get("note", "")):
        return False
    rs = []
    for q in e["p"]["ps"]:
        rs.append(q["ext"])
        rs.extend(q["holes"])
    for i, r in enumerate(rs):
        for v in r:
            for j, s in enumerate(rs):
                if i == j:
                    continue
                for k in range(len(s) - 1):
                    a, b = s[k], s[k + 1]
                    if v == a or v == b:
                        continue
                    cr = (b[0] - a[0]) * (v[1] - a[1]) - (b[1] - a[1]) * (v[0] - a[0])
                    if cr == 0 and min(a[0], b[0]) <= v[0] <= max(a[0], b[0]) and min(a[1], b[1]) <= v[1] <= max(a[1], b[1]):
                        return True
    return False


def _rings_share_point(r, s):
    def on(v, a, b):
        cr = (b[0] - a[0]) * (v[1] - a[1]) - (b[1] - a[1]) * (v[0] - a[0])
        return cr == 0 and min(a[0], b[0]) <= v[0] <= max(a[0], b[0]) and min(a[1], b[1]) <= v[1] <= max(a[1], b[1])
    return any(on(v, s[k], s[k + 1]) for v in r for k in range(len(s) - 1)) or any(on(v, r[k], r[k + 1]) for v in s for k in range(len(r) - 1))


def stitch_hole_chain(m):
    """stitch_triangulation of the constrained triangles of a polygon in which one hole touches BOTH the shell and another
    hole (a chain of point contacts from the shell inwards): the boundary lines then form one self-touching ring next to
    the outer ring and the parent / child bookkeeping returns two polygons that contain each other."""
    e = m.get("case", {})
    if e.get("ev") != "stitch" or m.get("sub") not in ("stitch_area", "ring_direction", "stitch_region", "ring_not_closed"):
        return False
    for q in e["p"]["ps"]:
        hs = q["holes"]
        for i, h in enumerate(hs):
            if _rings_share_point(h, q["ext"]) and any(j != i and _rings_share_point(h, g) for j, g in enumerate(hs)):
                return True
    return False


def convex_star(m):
    """is_convex answers true for a closed ring whose consecutive triples all turn the same way but which winds around more
    than once (a star / pentagram): the implementation tests local turns only, the documentation says 'encloses a convex set'."""
    c = m.get("case", {})
    if c.get("op") != "extra_seq" or m.get("sub") != "convexity":
        return False
    cs = c["cs"]
    n = len(cs) - 1
    t = []
    for i in range(n):
        a, b, d = cs[i], cs[(i + 1) % n], cs[(i + 2) % n]
        t.append((b[0] - a[0]) * (d[1] - a[1]) - (b[1] - a[1]) * (d[0] - a[0]))
    same = all(x >= 0 for x in t) or all(x <= 0 for x in t)
    return same and "Ok((true" in m.get("detail", {}).get("got", "") and m.get("detail", {}).get("want", "").startswith("(false")

# ---- extensions X07 - X09 (classes of inputs; the harness gives every class its own sub-name, the case carries the class flags)
def segmentize_zero_length(m):
    """line_segmentize(n >= 2) of a curve without length (no vertex, one vertex, all vertices equal): panics on an internal
    assertion (max_segment_length > 0) or returns Some of one empty line string instead of None / n pieces."""
    return m.get("sub") in ("zero_length_input", "hav_zero_length_input") and m.get("case", {}).get("zero") is True


def segmentize_repeated_vertex(m):
    """line_segmentize on a line string with a repeated vertex returns a wrong number of pieces (an extra zero-length piece after
    a repeated final vertex; the haversine variant also loses a piece on a repeated first vertex)."""
    return str(m.get("sub", "")).endswith("_repeated_vertex") and m.get("case", {}).get("repeats") is True


def segmentize_piece_count_off_by_one(m):
    """line_segmentize(n) on a plain line string (no repeated vertex) returns n - 1 pieces: the running length reaches the
    segment length only up to rounding (cum_length >= segment_length fails by an ulp), so one cut is skipped."""
    c, d = m.get("case", {}), m.get("detail", {})
    if m.get("sub") not in ("piece_count", "equal_piece_lengths", "hav_piece_count", "hav_equal_piece_lengths"):
        return False
    got, n = d.get("got"), d.get("n")
    return c.get("repeats") is False and c.get("zero") is False and isinstance(got, list) and isinstance(n, int) and len(got) == n - 1


def knearest_hull_not_simple(m):
    """k_nearest_concave_hull returns a ring that repeats a vertex or crosses itself: the closing edge is never tested against
    the hull built so far, and duplicated input points with a zero coordinate are not removed (float_equal(0, 0) is false)."""
    return m.get("sub") in ("knearest_simple_ring", "knearest_duplicated_points_simple_ring")


def hav_closest_pole_of_circle(m):
    """haversine_closest_point(arc, P) with P a pole of the arc's great circle (every point of the arc equally far): the Line
    form returns SinglePoint(NaN NaN), the LineString form Indeterminate."""
    return m.get("case", {}).get("any") is True and ("closest_equidistant" in str(m.get("sub")) or "closest_is_a_point" in str(m.get("sub")))


def hav_closest_arc_over_pole(m):
    """haversine_closest_point on an arc that passes over a pole (or ends at a pole spelled with the opposite meridian): the
    reverse course is taken as forward course +-180 degrees, so foot, distance and the Intersection / SinglePoint decision
    are wrong."""
    return "_over_pole_" in str(m.get("sub")) and m.get("case", {}).get("arc") == "over_pole"


def hav_closest_foot_at_end_precision(m):
    """haversine_closest_point when the foot coincides with an end of the arc: up to 0.3 m off (acos near 1)."""
    return str(m.get("sub", "")).endswith(("_foot_at_start", "_foot_at_end"))


def hav_closest_other_spelling(m):
    """haversine_closest_point returns SinglePoint of the right point instead of Intersection when P is on the arc but written
    with another spelling of the same point (longitude 180 / -180, a pole with another longitude)."""
    return str(m.get("sub", "")).endswith("_other_spelling")

def rhumb_near_parallel_as_recorded(m):
    """KF-04..06 are pinned probes: the SAME inputs on every run.  The entry only covers the failure as it was recorded - the
    closure, the asymmetry of the distance and the uneven split at the midpoint may not be more than 1.5 times what the
    unchanged tree shows (micrometres); a change that makes the known weakness worse is a new violation."""
    e = m.get("case", {})
    try:
        off = e["b"][1][1]
        rec = {10: (3_560_535, 3_184_711, 5_425_492), 10000: (15_916, 3_979, 5_767), 1: (53_172_104, 175, 3_538_164_864_361)}[off]
        um = lambda v: v[0] * 1_000_000_000 + v[1]
        closure, asym, split = um(e["closure"]), abs(um(e["d_ab"]) - um(e["d_ba"])), abs(um(e["d_am"]) - um(e["d_mb"]))
    except (KeyError, IndexError, TypeError):
        return False
    return closure <= 1.5 * rec[0] + 1000 and asym <= 1.5 * rec[1] + 1000 and split <= 1.5 * rec[2] + 1000

def shellless_polygon_bounding_rect(m):
    """bounding_rect (f64 and i32 forms) of a geometry that contains a Polygon WITHOUT exterior ring but with interior rings:
    Polygon::bounding_rect looks at the exterior only, so the hole's coordinates - which coords_iter does traverse - are ignored."""
    def has(g):
        if not isinstance(g, dict):
            return False
        if g.get("t") == "Polygon":
            return g.get("ext") == [] and len(g.get("holes", [])) > 0
        if g.get("t") == "MultiPolygon":
            return any(p.get("ext") == [] and len(p.get("holes", [])) > 0 for p in g.get("ps", []))
        if g.get("t") == "GeometryCollection":
            return any(has(x) for x in g.get("gs", []))
        return False
    return m.get("sub") in ("bounding_rect", "other_scalar_types", "extremes") and has(m.get("case", {}).get("g")) and "bounding_rect" in str(m.get("detail", {}).get("what", "")) + m.get("sub", "")


PREDS = {f.__name__: f for f in [convex_star, mls_even_shared_endpoint, sweep_inexact_crossing, gc_all_members_empty, monotone_tjunction_panic, stitch_hole_chain,
                                     segmentize_zero_length, segmentize_repeated_vertex, segmentize_piece_count_off_by_one, knearest_hull_not_simple,
                                     hav_closest_pole_of_circle, hav_closest_arc_over_pole, hav_closest_foot_at_end_precision, hav_closest_other_spelling,
                                     rhumb_near_parallel_as_recorded, shellless_polygon_bounding_rect]}

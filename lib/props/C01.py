import vf
from props import relate_common

RULE = ("TLC enumerates ordered pairs (a,b) of the Gen_Relate catalogue (all 10 types; octilinear, valid by Shapes.tla) "
        "with the witness-lattice DE-9IM matrix; one TLC state per pair. Each pair is replayed into relate() as concrete "
        "types, through the Geometry enum, transposed, in every representation variant of either operand and under exact "
        "affine maps. distinct_nontrivial = distinct pairs whose true matrix is not disjoint.")


def check(tier, seed, t0):
    relate_common.run("C01", tier, seed, t0, ["relate"], RULE)


def replay(path, seed, t0):
    vf.replay_file("C01", path, seed, t0)

import vf
from props import relate_common

RULE = ("Same TLC-enumerated pairs as C01 with the masks of the true matrix (intersects / contains / within), replayed into "
        "every implemented concrete type pair, the Geometry enum, Coord operands, swapped operands, representation variants "
        "and exact maps; plus, for every catalogue geometry, Pos(g,p) for EVERY fine-lattice point p replayed into "
        "coordinate_position / intersects(coord) / contains(coord). distinct_nontrivial = interacting pairs + geometries "
        "whose full position map was replayed.")


def check(tier, seed, t0):
    relate_common.run("C02", tier, seed, t0, ["both"], RULE)


def replay(path, seed, t0):
    vf.replay_file("C02", path, seed, t0)

import os
import vf

RULE = ("Gen_Orient + BigInt.tla: nearly collinear triples with generic 53-bit mantissas and coordinates of different magnitude (a = alpha 2^-26 near the origin, b = 30-bit integers, c = the midpoint of a b rounded to double precision and moved by -2..2 ulps per coordinate): every coordinate is representable but the differences are not; the exact sign of the 120-bit determinant is computed in TLA+ with base-2^13 limb arithmetic (self-tested against TLC integers, OrientLaws on every state). Gen_Cassini: a = (0,0), b = (F(n+1), F(n)), c = (F(m+1), F(m)) for n = 24..44, m = n-6..n-1 (Fibonacci numbers): Cross = (-1)^(m+1) F(n-m) by d'Ocagne's identity (checked by TLC where 32-bit products suffice) - triples whose determinant is a small integer although its two products are ~2^60, replayed at 5 exact scales, the symmetries of the square and a translation into orient2d, point-in-ring / polygon / triangle, point-on-segment, winding_order and segment intersects. Gen_Kernel: TLC enumerates exactly collinear base triples (a, b, c0) of the 5x5 lattice with b and c moved by whole "
        "numbers of ulps (b: -1..1, c: -2..2 per coordinate) and decides orientation as the sign of the perturbation polynomial "
        "(first non-zero coefficient; identity checked by TLC with u = 1); derived exact answers for point-on-segment, "
        "point-in-ring/polygon/triangle, segment-segment intersects and winding order. Replay at binade [16,32) (u = 2^-48) and "
        "scaled by 2^30 / 2^-40 into RobustKernel::orient2d, Line::intersects, coord_pos_relative_to_ring, Polygon / Triangle "
        "position and intersects, winding_order (also with repeated vertices). Gen_Segments: all lattice segment pairs give "
        "orientation triples replayed at scale 2^52 and 2^-500 (f64) and through the i64 / i32 kernels within product range. "
        "distinct_nontrivial = perturbed cases whose leading coefficient vanishes (answer decided at ulp level).")
ASSUME = ["u = 2^-48 is one ulp for coordinates in [16,32); |c1 u| >> |c2 u^2| for the integer coefficients that occur (<= 64)",
          "'all finite f64' is not enumerable: exactness is decided on lattice * 2^k and on the perturbed-degenerate family"]


def check(tier, seed, t0):
    st = 5 if tier == "quick" else 1
    runs = [dict(name="perturbed", module="Gen_Kernel", constants=dict(K=4, PB=1, PC=2, Stride=st, Offset=seed % st), invariants=["Identity"]),
            dict(name="lattice", module="Gen_Segments", constants=dict(K=3, Stride=st, Offset=seed % st), invariants=["RelLaws"]),
            # nearly collinear triples with 27 - 31 significant bits whose exact sign follows from Cassini / d'Ocagne
            dict(name="cassini", module="Gen_Cassini", constants=dict(NLo=24, NHi=44), workers=2),
            # generic 53-bit mantissas, coordinates of different magnitude: exact sign from the limb arithmetic of BigInt.tla
            dict(name="orient", module="Gen_Orient", constants=dict(SeedLo=1 + 400 * (seed % 5), SeedHi=(4000 if tier == "quick" else 6400) + 400 * (seed % 5)),
                 invariants=["OrientLaws"]),
            # pinned adversarial triples (plain determinant confidently wrong); exact sign recomputed by TLC from the limbs
            dict(name="pinned", module="Gen_OrientPinned", constants={}, invariants=["PinnedLaws"], workers=4,
                 env={"PINNED": os.path.join(vf.VERIF, "findings", "pinned_orient.ndjson")})]
    vf.simple_check("C03", tier, seed, t0, runs, RULE, ASSUME,
                    nontrivial=lambda c: c["op"] in ("kernel", "kernel_fib", "kernel_big", "kernel_pinned") or c["rel"]["kind"] != "none",
                    require_counters=["kernel_fib_cases", "kernel_big_cases", "kernel_big_orient_1", "kernel_big_orient_-1", "kernel_pinned_cases"])


def replay(path, seed, t0):
    vf.replay_file("C03", path, seed, t0)

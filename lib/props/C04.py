"""C04: Boolean operations compute the set-theoretic result (Gen_BoolOps pool -> geo -> Trace_BoolOps)."""
import json, os
import vf

RULE = ("generate -> execute -> validate. (1) Gen_BoolOps.tla: TLC enumerates candidate operands (all 188 simple octilinear rings "
        "with <= 6 edges on the 3x3 vertex grid, shells with one or two holes incl. holes touching the shell / each other in a point, "
        "two-member multipolygons, simple line strings) and keeps the ones that satisfy the validity predicates of Shapes.tla. "
        "(2) The harness forms seeded random pairs / collections from that pool, applies representation variants (either winding, "
        "other start vertex, collinear vertices, repeated vertex, repeated first vertex, closing vertex repeated once or twice, empty "
        "polygon / empty multipolygon operand, identical operands, Polygon vs MultiPolygon entry point, named method vs boolean_op) "
        "and exact maps (D4, translations by 1e8, scalings 2^+-20 / 2^40, unimodular shears = general slopes), calls intersection / union / difference / xor, "
        "unary_union (2-4 consistently wound members, cw or ccw, optionally led by an empty polygon; also the fold of pairwise unions) "
        "and clip (plain and inverted) and logs operands and results on the lattice. (3) Trace_BoolOps.tla judges every event from the "
        "point-set definition: membership of every face witness, no overlapping result members, ccw exteriors / cw holes, closed rings, "
        "exact area (= the three area identities), unary_union = union = fold, clip parts by edge witnesses + length conservation. "
        "distinct_nontrivial = distinct events whose result is non-empty.")
ASSUME = ["witness-lattice theorem (DESIGN.md 3.2): octilinear operands with vertices on multiples of 4; a Kind-2 witness is >= 0.35 away from every input boundary",
          "exact maps are computed without rounding; results are mapped back and must be integers up to 1e-6 (else the event is re-logged at 1/16 resolution and only witness membership / ring direction are judged)",
          "clip: a line string running along the polygon boundary must be kept by exactly one of clip(plain) / clip(inverted) (length conservation)"]


def validate(pid, trace, name):
    results, rejects, nev = vf.validate_events(name, "Trace_BoolOps", trace)
    mism = [{"kind": "mismatch", "prop": pid, "sub": why, "case": ev,
             "detail": {"what": "recorded call is not allowed by Trace_BoolOps: " + why}} for ev, why in rejects]
    return results, mism, nev


def check(tier, seed, t0):
    stride = 40 if tier == "quick" else 6
    nev = 8000 if tier == "quick" else 120000
    res = vf.run_tlc("C04_pool", "Gen_BoolOps", dict(constants=dict(Stride=stride, Offset=seed % stride), invariants=["PoolSane"]),
                     timeout=2400)
    vf.tlc_ok_or_die(res)
    pool = os.path.join(res["wd"], "pool.ndjson")
    npool = vf.extract_tagged(res["out"], "POOL", pool)
    os.remove(res["out"])
    kinds = {}
    for line in open(pool):
        k = json.loads(line)["k"]
        kinds[k] = kinds.get(k, 0) + 1
    if min(kinds.get(k, 0) for k in ("simple", "line", "hole1", "mp")) == 0:
        raise vf.ToolError("pool is missing a family: %s" % kinds)
    trace = os.path.join(vf.WORK, "C04_trace.ndjson")
    vf.run_harness(["record", "c04", trace, nev, "--seed", seed, "--pool", pool])
    results, mism, n = validate("C04", trace, "C04_validate")
    evk, nonempty, samples = {}, set(), []
    with open(trace) as f:
        for i, line in enumerate(f):
            e = json.loads(line)
            key = e["ev"] + ("_" + e["op"] if e["ev"] == "boolop" else "")
            evk[key] = evk.get(key, 0) + 1
            evk["scale_%d" % e["s"]] = evk.get("scale_%d" % e["s"], 0) + 1
            if (e["ev"] == "clip" and e["r"]) or (e["ev"] != "clip" and e["r"]["ps"]):
                nonempty.add(hash(line))
            if i in (3, 40):
                samples.append(e)
    for k in ("boolop_union", "boolop_intersection", "boolop_difference", "boolop_xor", "unary", "clip"):
        if evk.get(k, 0) < 20:
            raise vf.ToolError("recorded trace is vacuous: %s" % evk)
    os.remove(trace)
    failc = {}
    for m in mism:
        failc[m["sub"]] = failc.get(m["sub"], 0) + 1
    runs = [res] + results
    cov = {"states": sum(r["distinct"] for r in runs), "transitions": sum(r["generated"] for r in runs),
           "traces_validated_against_impl": n, "samples": samples, "evaluations": n, "distinct_nontrivial": len(nonempty),
           "rule": RULE, "pool": kinds, "recorded_event_kinds": evk, "checks_passed_by_kind": {"events_accepted": n - len(mism)},
           "checks_failed_by_kind": failc, "tlc_runs": vf.tlc_summary(runs)}
    vf.finish("C04", tier, seed, "model_checking", cov, ASSUME, t0, mism)


def replay(path, seed, t0):
    """Re-execute the logged calls of a replay file against the current tree and validate the fresh events."""
    trace = os.path.join(vf.WORK, "C04_rerun.ndjson")
    vf.run_harness(["record", "c04rerun", trace, 0, "--pool", path])
    results, mism, n = validate("C04", trace, "C04_revalidate")
    new, hit = vf.split_known("C04", mism)
    vf.log("re-executed %d logged calls: %d rejected (%d not listed as known findings)" % (n, len(mism), len(new)))
    for m in new[:10]:
        vf.log("  mismatch:", json.dumps(m)[:700])
    if new:
        vf.log("VIOLATION property=C04 replay=%s" % path)
        raise SystemExit(1)
    raise SystemExit(0)

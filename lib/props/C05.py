import vf
from props import poly_common

RULE = ("Thin rings: the triples of Gen_Orient (generic 53-bit mantissas, exact sign of the 120-bit determinant from BigInt.tla) as rings a b c a in three rotations and reversed: winding_order / is_cw / is_ccw must follow the exact sign and orient must turn or keep the ring accordingly. TLC enumerates every simple polygon of the general lattice (state space = partial simple paths, closed in canonical form, "
        "0-2 holes strictly inside) with its exact integer shoelace area; replayed with every winding of shell and holes, rotated "
        "start vertex, repeated vertex, as Geometry, as Rect / Triangle / MultiPolygon / nested GeometryCollection, through "
        "orient(Default|Reversed) and under exact affine maps (offsets to 1e8, scalings 2^-20..2^40). Areas are integers/2 < 2^53, "
        "so equality is exact; mapped areas within 4 ulp(max|coordinate|) x extent. distinct_nontrivial = polygons with a hole or a "
        "collinear / concave vertex (more than 3 vertices).")
ASSUME = ["polygons have <= 6 shell vertices on the 4x4 lattice / <= 4 on the 5x5 lattice and <= 2 triangular or square holes",
          "winding_order is only demanded for simple rings (as the property says)"]


def check(tier, seed, t0):
    runs = poly_common.poly_runs(tier, huge=True) + [
        # thin rings with generic 53-bit mantissas (exact sign from BigInt.tla): winding_order must follow the EXACT signed area
        dict(name="thin", module="Gen_Orient", constants=dict(SeedLo=1 + 100 * (seed % 7), SeedHi=(100 if tier == "quick" else 600) + 100 * (seed % 7)),
             invariants=["OrientLaws"])]
    vf.simple_check("C05", tier, seed, t0, runs, RULE, ASSUME,
                    nontrivial=lambda c: c["op"] == "kernel_big" or len(c["holes"]) > 0 or len(c["ext"]) > 4,
                    require_counters=["winding_big_cases"])


def replay(path, seed, t0):
    vf.replay_file("C05", path, seed, t0)

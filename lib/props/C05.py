import vf
from props import poly_common

RULE = ("TLC enumerates every simple polygon of the general lattice (state space = partial simple paths, closed in canonical form, "
        "0-2 holes strictly inside) with its exact integer shoelace area; replayed with every winding of shell and holes, rotated "
        "start vertex, repeated vertex, as Geometry, as Rect / Triangle / MultiPolygon / nested GeometryCollection, through "
        "orient(Default|Reversed) and under exact affine maps (offsets to 1e8, scalings 2^-20..2^40). Areas are integers/2 < 2^53, "
        "so equality is exact; mapped areas within 4 ulp(max|coordinate|) x extent. distinct_nontrivial = polygons with a hole or a "
        "collinear / concave vertex (more than 3 vertices).")
ASSUME = ["polygons have <= 6 shell vertices on the 4x4 lattice / <= 4 on the 5x5 lattice and <= 2 triangular or square holes",
          "winding_order is only demanded for simple rings (as the property says)"]


def check(tier, seed, t0):
    vf.simple_check("C05", tier, seed, t0, poly_common.poly_runs(tier), RULE, ASSUME,
                    nontrivial=lambda c: len(c["holes"]) > 0 or len(c["ext"]) > 4)


def replay(path, seed, t0):
    vf.replay_file("C05", path, seed, t0)

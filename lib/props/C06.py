import vf
from props import poly_common

RULE = ("Gen_Centroid: TLC enumerates geometry trees (1-3 members from a 39-entry pool of all 10 types incl. empty, degenerate, flat "
        "and single-point members, holes of either winding; flat or nested to depth 3) and computes the exact rational centroid "
        "by dimension dominance (WC / Merge), checking on every state that the fold order and nesting cannot matter (MergeLaws). "
        "Gen_Poly: every simple lattice polygon with 0-2 holes with its exact centroid, all windings. Each case is replayed "
        "through Geometry::centroid, the concrete impl, and exact similarity maps (offset 1e8, 2^+-k, D4); tolerance 8e-9 on a "
        "4-unit extent (+ 8 ulp of the largest coordinate under maps). distinct_nontrivial = cases with at least two members or a hole.")
ASSUME = ["1-D members have integer-length segments (axis-parallel or 3-4-5) so that the length-weighted mean is rational",
          "degenerate Rect / Triangle weigh like the outline of their polygon form (as a flat polygon does)"]


def check(tier, seed, t0):
    stride = 6 if tier == "quick" else 1
    runs = [dict(name="trees", module="Gen_Centroid", constants=dict(Stride=stride, Offset=seed % stride), invariants=["MergeLaws"])]
    runs += poly_common.poly_runs(tier, huge=True)
    vf.simple_check("C06", tier, seed, t0, runs, RULE, ASSUME,
                    nontrivial=lambda c: (c["op"] == "poly" and len(c["holes"]) > 0) or
                                         (c["op"] == "centroid" and c["g"]["t"] == "GeometryCollection" and len(c["g"]["gs"]) >= 2))


def replay(path, seed, t0):
    vf.replay_file("C06", path, seed, t0)

import vf

RULE = ("Gen_Distance: TLC enumerates (first operand: 12 big shapes incl. frames with holes, concave polygon, multi-part and mixed "
        "collections + 13 small shapes) x (13 small shapes of all 10 types) x (20 offsets) and computes the exact squared distance "
        "as a rational (0 iff the operands share a point, decided by exact predicates); DistLaws (symmetry, zero iff shared "
        "point) is checked on every state. Replay: concrete pair, swapped, Geometry enum both ways, every representation variant "
        "of either operand, exact similarity maps; d == 0.0 exactly iff the rational is 0, else |d^2 - q| <= 1e-9 max(1, q). "
        "distinct_nontrivial = pairs at positive distance (closest approach decided by a segment pair) + touching/containing pairs.")
ASSUME = ["operands on the integer lattice with coordinates in -3..12; general slopes", "pool members do not self-overlap"]


def check(tier, seed, t0):
    stride = 1
    rs = 40 if tier == "quick" else 8
    runs = [dict(name="pairs", module="Gen_Distance", constants=dict(Stride=stride, Offset=seed % stride), invariants=["DistLaws"]),
            # the catalogue of C01 (all ten types, holes, touching members, collections): distance 0 iff the true matrix says "intersects"
            dict(name="catalogue", module="Gen_Relate", constants=dict(N=2, Profile="base", Stride=rs, Offset=seed % rs, Emit="distance"), timeout=3000)]
    vf.simple_check("C07", tier, seed, t0, runs, RULE, ASSUME)


def replay(path, seed, t0):
    vf.replay_file("C07", path, seed, t0)

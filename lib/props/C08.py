import vf

RULE = ("Gen_Hull: one TLC state per subset (1..MaxN points) of the lattice; the hull ring is defined declaratively (extreme points "
        "by Caratheodory, walked counter-clockwise) and HullOK checks on every state that it is strictly convex, uses input "
        "points only and contains all of them; the exact minimum rotated-rectangle area is the rational minimum over hull edges. "
        "Replay of every set in 5 orders (sorted, reversed, rotated, shuffled, with duplicates) into quick_hull, graham_hull, "
        "convex_hull of MultiPoint / LineString / Polygon, for f64 under exact maps (offset 1e8, 2^+-k, D4, shears) and for i64; "
        "output must be the expected cycle. Degenerate sets (< 3 non-collinear points) must not panic. "
        "distinct_nontrivial = sets with at least one non-extreme (interior or collinear) point.")
ASSUME = ["subsets of the 4x4 lattice with <= 5 (quick) / 6 (thorough) points and of the 5x5 lattice with <= 4 / 5 points",
          "graham_hull is replayed with include_on_hull = false"]


def check(tier, seed, t0):
    if tier == "quick":
        runs = [dict(name="k3", module="Gen_Hull", constants=dict(K=3, MaxN=5, Stride=1, Offset=0, BigK="{4, 7, 16}"), invariants=["HullOK", "BigOK"]),
                dict(name="k4", module="Gen_Hull", constants=dict(K=4, MaxN=4, Stride=2, Offset=seed % 2, BigK="{}"), invariants=["HullOK"])]
    else:
        runs = [dict(name="k3", module="Gen_Hull", constants=dict(K=3, MaxN=7, Stride=1, Offset=0, BigK="{4, 5, 7, 12, 16, 24}"), invariants=["HullOK", "BigOK"], timeout=3000),
                dict(name="k4", module="Gen_Hull", constants=dict(K=4, MaxN=5, Stride=1, Offset=0, BigK="{}"), invariants=["HullOK"], timeout=3000)]
    vf.simple_check("C08", tier, seed, t0, runs, RULE, ASSUME,
                    nontrivial=lambda c: not c["degenerate"] and len(c["ring"]) - 1 < len(c["pts"]))


def replay(path, seed, t0):
    vf.replay_file("C08", path, seed, t0)

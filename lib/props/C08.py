import vf

RULE = ("Large inputs: 1 500 (12 000) recorded calls of quick_hull / graham_hull / MultiPoint / LineString convex_hull / quick_hull<i64> on seeded random lattice multisets of 3 - 400 points (small spans with many duplicates and collinear runs, two parallel runs, lattice triangles, all collinear) are judged by Trace_Hull.tla: the returned ring must satisfy the three conditions that determine the hull. Gen_Hull: one TLC state per subset (1..MaxN points) of the lattice; the hull ring is defined declaratively (extreme points "
        "by Caratheodory, walked counter-clockwise) and HullOK checks on every state that it is strictly convex, uses input "
        "points only and contains all of them; the exact minimum rotated-rectangle area is the rational minimum over hull edges. "
        "Replay of every set in 5 orders (sorted, reversed, rotated, shuffled, with duplicates) into quick_hull, graham_hull, "
        "convex_hull of MultiPoint / LineString / Polygon, for f64 under exact maps (offset 1e8, 2^+-k, D4, shears) and for i64; "
        "output must be the expected cycle. Degenerate sets (< 3 non-collinear points) must not panic. "
        "distinct_nontrivial = sets with at least one non-extreme (interior or collinear) point.")
ASSUME = ["subsets of the 4x4 lattice with <= 5 (quick) / 6 (thorough) points and of the 5x5 lattice with <= 4 / 5 points",
          "graham_hull is replayed with include_on_hull = false"]


def check(tier, seed, t0):
    if tier == "quick":
        runs = [dict(name="k3", module="Gen_Hull", constants=dict(K=3, MaxN=5, Stride=1, Offset=0, BigK="{4, 7, 16}"), invariants=["HullOK", "BigOK"]),
                dict(name="k4", module="Gen_Hull", constants=dict(K=4, MaxN=4, Stride=2, Offset=seed % 2, BigK="{}"), invariants=["HullOK"])]
    else:
        runs = [dict(name="k3", module="Gen_Hull", constants=dict(K=3, MaxN=7, Stride=1, Offset=0, BigK="{4, 5, 7, 12, 16, 24}"), invariants=["HullOK", "BigOK"], timeout=3000),
                dict(name="k4", module="Gen_Hull", constants=dict(K=4, MaxN=5, Stride=1, Offset=0, BigK="{}"), invariants=["HullOK"], timeout=3000)]
    # large random multisets (impl -> spec): recorded rings judged by Trace_Hull.tla
    import json, os
    trace = os.path.join(vf.WORK, "C08_trace.ndjson")
    vf.build_harness()
    nev = 1500 if tier == "quick" else 12000
    vf.run_harness(["record", "c08", trace, nev, "--seed", seed])
    results, rejects, n = vf.validate_events("C08_validate", "Trace_Hull", trace, chunk=4000)
    big = sum(1 for line in open(trace) if len(json.loads(line)["pts"]) >= 60)
    os.remove(trace)
    if n < nev or big < nev // 8:
        raise vf.ToolError("recorded hull trace is vacuous: %d events, %d with >= 60 points" % (n, big))
    extra = [{"kind": "mismatch", "prop": "C08", "sub": "trace:" + why, "case": ev,
              "detail": {"what": "recorded hull is rejected by Trace_Hull: " + why}} for ev, why in rejects]
    vf.simple_check("C08", tier, seed, t0, runs, RULE, ASSUME, extra_mismatches=extra,
                    extra_cov={"recorded_calls_validated": n, "recorded_calls_with_60_or_more_points": big,
                               "trace_validation_states": sum(r["distinct"] for r in results)},
                    nontrivial=lambda c: not c["degenerate"] and len(c["ring"]) - 1 < len(c["pts"]))


def replay(path, seed, t0):
    vf.replay_file("C08", path, seed, t0)

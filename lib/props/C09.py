import vf

RULE = ("Gen_Simplify: one TLC state per vertex sequence over the 3x3 lattice (all sequences up to MaxN vertices: repeats, collinear "
        "runs, back-tracking, closed rings) x 6 tolerances; TLC computes the SET of admissible outputs of nondeterministic exact "
        "models of compute_rdp (global simplified_len guard, any farthest vertex at ties, split-or-cull at dmax = eps) and of "
        "Visvalingam-Whyatt (remove any minimal triangle <= eps), and PostOK proves on every state that each admissible output "
        "satisfies the property (subsequence with both ends, dropped vertices within eps, remaining triangles > eps, rings >= 4). "
        "Replay: simplify / simplify_idx / simplify_vw / simplify_vw_idx outputs must be members of the set and agree with each "
        "other, eps <= 0 is the identity, MultiLineString / Polygon / MultiPolygon forms, rings closed and >= 4 coordinates, "
        "simplify_vw_preserve structural postconditions. Long inputs: 6 000 (60 000) recorded calls of simplify / simplify_idx / simplify_vw / "
        "simplify_vw_idx / Polygon::simplify / simplify_vw_preserve on seeded random lattice walks of 0 - 80 vertices (random walk, nearly "
        "monotone with collinear runs, wild, flat with spikes; open and closed; eps from -1/2 to 100) are judged by Trace_Simplify.tla, "
        "which evaluates the property's postconditions exactly on what was returned. distinct_nontrivial = cases where something is removed.")
ASSUME = ["vertex sequences of <= 5 (quick: sampled at 5) / 6 vertices on the 3x3 lattice; eps in {1/4, 1/2, 1, 3/2, 2, 100}",
          "simplify_vw_preserve is only held to its structural postconditions (its intersection test may keep extra vertices)"]


def check(tier, seed, t0):
    if tier == "quick":
        runs = [dict(name="n4", module="Gen_Simplify", constants=dict(K=2, MaxN=4, Stride=1, Offset=0), invariants=["PostOK"]),
                dict(name="n5", module="Gen_Simplify", constants=dict(K=2, MaxN=5, Stride=9, Offset=seed % 9), invariants=["PostOK"])]
    else:
        runs = [dict(name="n5", module="Gen_Simplify", constants=dict(K=2, MaxN=5, Stride=1, Offset=0), invariants=["PostOK"], timeout=3000),
                dict(name="n6", module="Gen_Simplify", constants=dict(K=2, MaxN=6, Stride=9, Offset=seed % 9), invariants=["PostOK"], timeout=3000)]
    # long inputs (impl -> spec): recorded calls on random lattice walks of 0 - 80 vertices judged by Trace_Simplify.tla
    import json, os
    trace = os.path.join(vf.WORK, "C09_trace.ndjson")
    vf.build_harness()
    nev = 6000 if tier == "quick" else 60000
    vf.run_harness(["record", "c09", trace, nev, "--seed", seed])
    results, rejects, n = vf.validate_events("C09_validate", "Trace_Simplify", trace)
    lens = {}
    with open(trace) as f:
        for line in f:
            k = min(len(json.loads(line)["cs"]) // 10, 8)
            lens[k] = lens.get(k, 0) + 1
    os.remove(trace)
    if n < nev or lens.get(3, 0) + lens.get(4, 0) + lens.get(5, 0) + lens.get(6, 0) + lens.get(7, 0) < nev // 20:
        raise vf.ToolError("recorded simplify trace is vacuous: %s" % lens)
    extra = [{"kind": "mismatch", "prop": "C09", "sub": "trace:" + why, "case": ev,
              "detail": {"what": "recorded call violates a postcondition of Trace_Simplify: " + why}} for ev, why in rejects]
    vf.simple_check("C09", tier, seed, t0, runs, RULE, ASSUME,
                    nontrivial=lambda c: any(len(r) < len(c["cs"]) for r in c["rdp"]) or any(len(r) < len(c["cs"]) for r in c["vw"]),
                    extra_mismatches=extra,
                    extra_cov={"recorded_calls_validated": n, "recorded_calls_rejected": len(rejects), "recorded_input_length_histogram_by_tens": lens,
                               "trace_validation_states": sum(r["distinct"] for r in results)})


def replay(path, seed, t0):
    vf.replay_file("C09", path, seed, t0)

import vf

RULE = ("Gen_Simplify: one TLC state per vertex sequence over the 3x3 lattice (all sequences up to MaxN vertices: repeats, collinear "
        "runs, back-tracking, closed rings) x 6 tolerances; TLC computes the SET of admissible outputs of nondeterministic exact "
        "models of compute_rdp (global simplified_len guard, any farthest vertex at ties, split-or-cull at dmax = eps) and of "
        "Visvalingam-Whyatt (remove any minimal triangle <= eps), and PostOK proves on every state that each admissible output "
        "satisfies the property (subsequence with both ends, dropped vertices within eps, remaining triangles > eps, rings >= 4). "
        "Replay: simplify / simplify_idx / simplify_vw / simplify_vw_idx outputs must be members of the set and agree with each "
        "other, eps <= 0 is the identity, MultiLineString / Polygon / MultiPolygon forms, rings closed and >= 4 coordinates, "
        "simplify_vw_preserve structural postconditions. distinct_nontrivial = cases where something is removed.")
ASSUME = ["vertex sequences of <= 5 (quick: sampled at 5) / 6 vertices on the 3x3 lattice; eps in {1/4, 1/2, 1, 3/2, 2, 100}",
          "simplify_vw_preserve is only held to its structural postconditions (its intersection test may keep extra vertices)"]


def check(tier, seed, t0):
    if tier == "quick":
        runs = [dict(name="n4", module="Gen_Simplify", constants=dict(K=2, MaxN=4, Stride=1, Offset=0), invariants=["PostOK"]),
                dict(name="n5", module="Gen_Simplify", constants=dict(K=2, MaxN=5, Stride=9, Offset=seed % 9), invariants=["PostOK"])]
    else:
        runs = [dict(name="n5", module="Gen_Simplify", constants=dict(K=2, MaxN=5, Stride=1, Offset=0), invariants=["PostOK"], timeout=3000),
                dict(name="n6", module="Gen_Simplify", constants=dict(K=2, MaxN=6, Stride=9, Offset=seed % 9), invariants=["PostOK"], timeout=3000)]
    vf.simple_check("C09", tier, seed, t0, runs, RULE, ASSUME,
                    nontrivial=lambda c: any(len(r) < len(c["cs"]) for r in c["rdp"]) or any(len(r) < len(c["cs"]) for r in c["vw"]))


def replay(path, seed, t0):
    vf.replay_file("C09", path, seed, t0)

"""C10: triangulations and the monotone subdivision tile the polygon (pools -> geo -> Trace_Tiling)."""
import json, os
import vf
from props import poly_common

RULE = ("generate -> execute -> validate. Polygons come from two TLC-generated pools: Gen_BoolOps (valid octilinear polygons and "
        "two-member multipolygons on the 4x4 vertex grid, 0-2 holes, holes touching the shell or each other in a point) and Gen_Poly "
        "(every simple general-slope lattice polygon with <= 5 vertices on the 4x4 lattice, 0-2 holes strictly inside). The harness "
        "applies exact maps (D4, shears, translation by 1e8, scaling up to 2^40; results mapped back exactly), either winding, and calls "
        "earcut_triangles (only polygons whose rings do not touch), constrained / unconstrained / constrained_outer triangulation of "
        "both trait generations (Polygon and MultiPolygon entry points), stitch_triangulation of the constrained triangles, "
        "monotone_subdivision and MonotonicPolygons::intersects for all 225 fine-lattice points. Trace_Tiling.tla judges every event "
        "with exact integer predicates: corners are polygon vertices, open triangles pairwise disjoint (separating edge), every "
        "triangle inside (centroid x3 + no polygon edge meets the open triangle), areas add up; unconstrained triangles tile the "
        "hull; monotone pieces: chains meet, vertices only, x-monotone, signed areas add up, witness membership, point location "
        "= Pos(P, c) # E; stitched result: same witnesses, same area, ring directions. distinct_nontrivial = distinct events with "
        ">= 2 triangles / pieces. Gen_MonoStress.tla adds ~6 000 valid members of a parametric family aimed at the case analysis of the "
        "monotone sweep (a notch tip touched by a hole = a sweep point with two incoming and two outgoing edges, a helper vertex before "
        "it, a split vertex after it; with / without contact and second hole), replayed under the symmetries of the square. A further family is drawn at random by the harness (star-shaped shells with notches, 0 - 2 holes moved so "
        "that they touch the shell or each other); whether such a candidate is a valid polygon is decided by the validator "
        "(ValidExact.tla, exact and conservative) - invalid candidates are skipped and counted, never judged.")
ASSUME = ["monotone pieces (diagonals of arbitrary slope) are judged by necessary conditions (exact area + witness membership), triangles by an exact tiling criterion",
          "scale-down maps are excluded: the Delaunay routines snap points closer than the documented snap radius",
          "exact maps are computed without rounding, so corners mapped back must be integers exactly"]


def validate(trace, name):
    results, rejects, nev = vf.validate_events(name, "Trace_Tiling", trace)
    mism = [{"kind": "mismatch", "prop": "C10", "sub": why, "case": {k: v for k, v in ev.items() if k != "hits"} if why != "intersects_coordinate" else ev,
             "detail": {"what": "recorded call is not allowed by Trace_Tiling: " + why}} for ev, why in rejects]
    return results, mism, nev


def check(tier, seed, t0):
    stride = 40 if tier == "quick" else 6
    nev = 6000 if tier == "quick" else 100000
    runs = []
    res = vf.run_tlc("C10_pool", "Gen_BoolOps", dict(constants=dict(Stride=stride, Offset=seed % stride), invariants=["PoolSane"]), timeout=2400)
    vf.tlc_ok_or_die(res)
    pool = os.path.join(res["wd"], "pool.ndjson")
    npool = vf.extract_tagged(res["out"], "POOL", pool)
    os.remove(res["out"])
    runs.append(res)
    # the parametric family aimed at the case analysis of the monotone sweep (validity decided by ValidExact in TLC)
    sres = vf.run_tlc("C10_monostress", "Gen_MonoStress", dict(constants={}), timeout=2400)
    vf.tlc_ok_or_die(sres)
    spool = os.path.join(sres["wd"], "pool.ndjson")
    nstress = vf.extract_tagged(sres["out"], "POOL", spool)
    os.remove(sres["out"])
    runs.append(sres)
    if nstress < 1000:
        raise vf.ToolError("Gen_MonoStress produced only %d valid polygons" % nstress)
    with open(pool, "a") as out, open(spool) as f:
        out.write(f.read())
    gpool = os.path.join(vf.WORK, "C10_gpool.ndjson")
    ngen = 0
    with open(gpool, "w") as gout:
        for g in poly_common.poly_runs(tier):          # general slopes; the second run has the shells large enough for two holes
            gres = vf.run_tlc("C10_gpool_" + g["name"], g["module"], dict(constants=g["constants"], invariants=g["invariants"]), timeout=2400)
            vf.tlc_ok_or_die(gres)
            part = os.path.join(gres["wd"], "cases.ndjson")
            ngen += vf.extract_tagged(gres["out"], "CASE", part)
            os.remove(gres["out"])
            with open(part) as f:
                gout.write(f.read())
            os.remove(part)
            runs.append(gres)
    if npool == 0 or ngen == 0:
        raise vf.ToolError("empty pool")
    trace = os.path.join(vf.WORK, "C10_trace.ndjson")
    vf.run_harness(["record", "c10", trace, nev, "--seed", seed, "--pool", pool + "," + gpool])
    os.remove(gpool)
    # pinned inputs of open findings (exact polygons and maps; findings/known_findings.jsonl) are re-executed on every run
    pinned = os.path.join(vf.VERIF, "findings", "pinned_c10.ndjson")
    if os.path.exists(pinned):
        ptrace = os.path.join(vf.WORK, "C10_pinned.ndjson")
        vf.run_harness(["record", "c10rerun", ptrace, 0, "--pool", pinned])
        with open(trace, "a") as out, open(ptrace) as f:
            out.write(f.read())
        os.remove(ptrace)
    results, mism, n = validate(trace, "C10_validate")
    evk, nontriv, samples = {}, set(), []
    with open(trace) as f:
        for i, line in enumerate(f):
            e = json.loads(line)
            key = e["ev"] + ("_" + e["kind"] if e["ev"] == "tri" else "")
            evk[key] = evk.get(key, 0) + 1
            if len(e.get("tris", [])) >= 2 or len(e.get("pieces", [])) >= 2:
                nontriv.add(hash(line))
            if i in (2, 30):
                samples.append({k: v for k, v in e.items() if k != "hits"})
    for k in ("tri_earcut", "tri_cdt", "tri_udt", "tri_cdt_spade", "tri_hull_cdt", "stitch", "mono"):
        if evk.get(k, 0) < 20:
            raise vf.ToolError("recorded trace is vacuous: %s" % evk)
    os.remove(trace)
    failc = {}
    for m in mism:
        failc[m["sub"]] = failc.get(m["sub"], 0) + 1
    runs += results
    cov = {"states": sum(r["distinct"] for r in runs), "transitions": sum(r["generated"] for r in runs),
           "traces_validated_against_impl": n, "samples": samples, "evaluations": n, "distinct_nontrivial": len(nontriv),
           "rule": RULE, "pool_sizes": {"octilinear": npool, "general": ngen, "monotone_stress_family": nstress}, "recorded_event_kinds": evk,
           "events_outside_the_domain_skipped": sum(r.get("skipped", 0) for r in results),
           "checks_passed_by_kind": {"events_accepted": n - len(mism)}, "checks_failed_by_kind": failc, "tlc_runs": vf.tlc_summary(runs)}
    vf.finish("C10", tier, seed, "model_checking", cov, ASSUME, t0, mism)


def replay(path, seed, t0):
    """Re-execute the logged calls of a replay file against the current tree and validate the fresh events."""
    trace = os.path.join(vf.WORK, "C10_rerun.ndjson")
    vf.run_harness(["record", "c10rerun", trace, 0, "--pool", path])
    results, mism, n = validate(trace, "C10_revalidate")
    new, hit = vf.split_known("C10", mism)
    vf.log("re-executed %d logged calls: %d rejected (%d not listed as known findings)" % (n, len(mism), len(new)))
    for m in new[:10]:
        vf.log("  mismatch:", json.dumps(m)[:700])
    if new:
        vf.log("VIOLATION property=C10 replay=%s" % path)
        raise SystemExit(1)
    raise SystemExit(0)

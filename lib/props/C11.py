import vf

RULE = ("Gen_Segments (abstract Relation + the implementation-shaped decision tree Decide; TLC checks TreeRefines: the tree computes the relation, both argument orders; hook H5 reports the branch the code took; agreement with the model's branch and the set of branches taken are recorded in the evidence as advisory coverage - they are not part of the verdict, because a rewrite that keeps every result may take other branches): one TLC state per ordered pair of segments of the 4x4 lattice (zero-length ones included, 65 536 pairs) "
        "with the exact relation: none / collinear with the shared sub-segment / single point (proper with the exact rational "
        "crossing, or improper = the endpoint involved); RelLaws (independence of operand order and direction) checked on every "
        "state. Replay in three operand orders / directions, under exact maps (offset 1e8, 2^+-k, D4, shears): class equal, "
        "improper point bit-identical to the endpoint, collinear overlap equal up to direction, proper point within 4 ulp and "
        "inside both bounding boxes, agreement with Line::intersects. Gen_Kernel adds the perturbed-degenerate family "
        "(classification decided by ulp-level offsets). distinct_nontrivial = pairs that share a point + perturbed cases.")
ASSUME = ["proper crossings: tolerance 4 ulp of the largest coordinate magnitude", "nearly parallel segments are represented by the ulp-perturbed collinear family"]


# every return site of line_intersection (hook H5 labels = branches of Gen_Segments!Decide): coverage reported in the evidence
BRANCHES = ["env_disjoint", "q_one_side", "p_one_side", "proper", "ep_shared_pstart", "ep_shared_pend", "ep_qstart", "ep_qend", "ep_pstart",
            "ep_pend"] + ["col%d" % i for i in range(1, 11)]


def check(tier, seed, t0):
    st = 4 if tier == "quick" else 1
    runs = [dict(name="lattice", module="Gen_Segments", constants=dict(K=3, Stride=st, Offset=seed % st), invariants=["RelLaws", "TreeRefines"]),
            dict(name="perturbed", module="Gen_Kernel", constants=dict(K=4, PB=1, PC=2, Stride=st + 1, Offset=seed % (st + 1)), invariants=["Identity"])]
    vf.simple_check("C11", tier, seed, t0, runs, RULE, ASSUME,
                    nontrivial=lambda c: (c["op"] == "kernel" and c["mid"]) or (c["op"] == "segseg" and c["rel"]["kind"] != "none"),
                    advisory_counters=["branch_" + b for b in BRANCHES] + ["decision_tree_agrees"],
                    require_counters=["segseg_collinear", "segseg_point_proper", "segseg_point_improper", "segseg_none"])


def replay(path, seed, t0):
    vf.replay_file("C11", path, seed, t0)

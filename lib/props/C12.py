"""C12: closest_point / interior_point (Gen_Closest.tla, Trace_Interior.tla, Gen_Poly.tla)."""
import json, os, re, subprocess
import vf

RULE = ("closest_point: TLC (Gen_Closest) enumerates geometry x query point and decides the required answer exactly: "
        "Intersection(p) iff Pos(g,p) is not exterior; else the squared distance (rational) and the SET of points of g at that "
        "distance (rationals; several when p is equidistant from several parts); Indeterminate admissible only if every part of g "
        "has zero length, required if g is empty. Sources: a 77-entry catalogue on 0..8 of all 10 types (frames, holes touching "
        "the shell / each other, C/L/U/comb/spiral shapes, slivers of doubled area 1, nested and touching multipolygons, mixed and "
        "nested collections, empty and zero-length geometries) x all 121 lattice points of -1..9; every Line and Rect on (0..3)^2, "
        "every Triangle with area and every 3-vertex LineString on (0..2)^2; every simple lattice polygon with 0-2 holes of Gen_Poly "
        "(read back by TLC) alone, pairwise as MultiPolygon and inside flat / nested collections with a curve and points; the square "
        "0..6 with every triangular hole touching the shell in one point; each x the lattice points of a window one unit larger "
        "(strided by tier and seed). ClosestLaws (admissible points are exactly at the minimal distance, no vertex is nearer) is an "
        "invariant. Replay: concrete impl, Geometry enum, every representation variant, two exact similarity maps per case; the "
        "variant of Closest must match; |dist(p,q)^2 - d2| <= 1e-9 max(1,d2) and q within 1e-9 of an admissible point (scaled "
        "under maps). interior_point: the same geometries (plus flat triangles) are executed through the concrete impl, the enum "
        "and every variant; each distinct answer becomes an event (geometry and point times 2^11 as integers, exactness flag) "
        "judged by TLC (Trace_Interior, stateless, parallel): None iff empty; never exterior; strictly interior (Pos = I) for every "
        "valid Polygon/MultiPolygon, Rect/Triangle with area, points, curves with a non-endpoint vertex, collections whose "
        "top-dimensional members are such; a panic is rejected on valid input. Points not on the 2^-11 lattice are judged via their "
        "rounded image only when it is >= sqrt(2) lattice units from every segment, else counted undecided (never rejected). "
        "distinct_nontrivial = distinct closest cases with the query point outside g + distinct interior events with a point returned.")
ASSUME = ["integer lattice: catalogue 0..8, enumerated families 0..2 / 0..3 / 0..4; general slopes",
          "closest_point under exact maps: similarity maps of gj::exact_maps() except tr_1e8 (spacing of doubles at 1e8 exceeds the tolerance)",
          "degenerate input only as far as the property names it (empty, zero length): flat Triangles are excluded from closest_point "
          "(Triangle::intersects(Point) is not meaningful on collinear corners) and collections with a zero-length *member* are not enumerated",
          "interior_point: 'strictly inside' is demanded where the documented choice can reach the interior; for two-vertex curves "
          "(Line, 2-point LineString) geo documents an endpoint and only 'intersects' is demanded",
          "collection members are pairwise disjoint where strictness is demanded (Pos of a collection is then well defined)",
          "representation variants (gj::G::variants) denote the same point set by construction; their answers are judged against the base geometry"]

Q = 2048
SMALL = '{"cat","line","tri","rect","ls3"}'
POOLED = '{"pool","mpool","gcpool","touch"}'


def _poly_runs(tier):
    if tier == "quick":
        return [dict(name="g3v5", constants=dict(K=3, MaxV=5, WithHoles=True, HoleMinA2=0, BigN="{}")),
                dict(name="g4v4big", constants=dict(K=4, MaxV=4, WithHoles=True, HoleMinA2=20, BigN="{}"))]
    return [dict(name="g3v5", constants=dict(K=3, MaxV=5, WithHoles=True, HoleMinA2=0, BigN="{}")),
            dict(name="g4v4", constants=dict(K=4, MaxV=4, WithHoles=True, HoleMinA2=0, BigN="{}"))]


def _pool(tier, runs):
    """Polygons of Gen_Poly (ext, holes) -> pool file read back by Gen_Closest."""
    pool = os.path.join(vf.WORK, "C12_pool.ndjson")
    n = 0
    with open(pool + ".unsorted", "w") as o:
        for r in _poly_runs(tier):
            res = vf.run_tlc("C12_poly_" + r["name"], "Gen_Poly", dict(constants=r["constants"], invariants=["ShellOK"]), timeout=3000)
            vf.tlc_ok_or_die(res)
            cases = os.path.join(res["wd"], "cases.ndjson")
            k = vf.extract_tagged(res["out"], "CASE", cases)
            os.remove(res["out"])
            with open(cases) as f:
                for line in f:
                    c = json.loads(line)
                    o.write(json.dumps({"ext": c["ext"], "holes": c["holes"]}) + "\n")
            os.remove(cases)
            res["cases"] = k
            n += k
            runs.append(res)
    if n == 0:
        raise vf.ToolError("Gen_Poly produced no polygons")
    _sort(pool + ".unsorted", pool)       # TLC prints in worker order: fix the order so that pool indices are reproducible
    return pool, n


def _sort(src, dst):
    r = subprocess.run(["sort", "-o", dst, src], env=dict(os.environ, LC_ALL="C"))
    if r.returncode != 0:
        raise vf.ToolError("sort failed on " + src)
    os.remove(src)


def _generate(name, mode, fams, stride, mstride, seed, pool, runs):
    consts = dict(Mode=mode, Fams=fams, Stride=stride, Offset=seed % max(stride, 1), MStride=mstride)
    res = vf.run_tlc(name, "Gen_Closest", dict(constants=consts, invariants=["ClosestLaws"]), timeout=3000,
                     env_extra={"POOL": pool} if pool else None)
    vf.tlc_ok_or_die(res)
    cases = os.path.join(res["wd"], "cases.ndjson")
    n = vf.extract_tagged(res["out"], "CASE", cases + ".unsorted")
    os.remove(res["out"])
    if n == 0:
        raise vf.ToolError("TLC run %s produced no cases (vacuous)" % name)
    _sort(cases + ".unsorted", cases)     # case numbers select the exact maps: make them reproducible
    res["cases"] = n
    res["cases_path"] = cases
    runs.append(res)
    return cases, n


class Acc:
    def __init__(self):
        self.mism, self.passc, self.failc, self.extra, self.samples = [], {}, {}, {}, []
        self.nontriv = set()
        self.verdicts = {}
        self.undecided = 0
        self.events = 0


def _execute(tag, cases, seed, acc, runs):
    """Replay closest cases (judged by the harness against TLC's values) and execute interior cases
    (events judged by TLC against Trace_Interior)."""
    outp = os.path.join(vf.WORK, "C12_%s_results.ndjson" % tag)
    hw = vf.run_harness(["replay", cases, outp, "--seed", seed, "--props", "C12"])
    mm, summ, events = vf.read_results(outp)
    os.remove(outp)
    acc.mism += mm
    vf.merge_counts(acc.passc, summ["pass"]); vf.merge_counts(acc.failc, summ["fail"]); vf.merge_counts(acc.extra, summ["extra"])
    acc.samples += summ["samples"][:1]
    if any(k.startswith("unknown_op_") for k in summ["extra"]):
        raise vf.ToolError("harness does not know the C12 ops: %s" % summ["extra"])
    with open(cases) as f:
        for line in f:
            if '"op":"closest"' in line and '"hit":false' in line and '"empty":false' in line:
                acc.nontriv.add(hash(line))
    events = [e for e in events if e.get("kind") == "ip"]
    if not events:
        return
    # judged in chunks: one TLC run deserialises its whole trace in every worker, which does not scale to the 5 * 10^5 events
    # of the thorough tier (first thorough run after the representation variants were added: 47 min, then a JSON error)
    seen = {}
    CH = 40000
    for ci in range(0, len(events), CH):
        trace = os.path.join(vf.WORK, "C12_%s_trace_%d.ndjson" % (tag, ci // CH))
        with open(trace, "w") as o:
            for e in events[ci:ci + CH]:
                o.write(json.dumps({k: e[k] for k in ("g", "res", "r", "exact", "valid")}) + "\n")
        res = vf.run_tlc("C12_%s_judge_%d" % (tag, ci // CH), "Trace_Interior", dict(invariants=["VerdictType"]), timeout=3000,
                         env_extra={"TRACE": trace})
        vf.tlc_ok_or_die(res)
        with open(res["out"], errors="replace") as f:
            for line in f:
                m = re.match(r'<<"V", (\d+), "(\w+)", "(\w+)">>', line)
                if m:
                    seen[ci + int(m.group(1))] = (m.group(2), m.group(3))
        os.remove(res["out"])
        os.remove(trace)
        res["cases"] = len(events[ci:ci + CH])
        res["harness_wall_s"] = round(hw, 1) if ci == 0 else 0
        runs.append(res)
    if len(seen) != len(events):
        raise vf.ToolError("Trace_Interior judged %d of %d events" % (len(seen), len(events)))
    for i, e in enumerate(events, 1):
        verdict, need = seen[i]
        acc.events += 1
        acc.verdicts[verdict + "/" + need] = acc.verdicts.get(verdict + "/" + need, 0) + 1
        calls = e.get("calls", 1)
        kind = "interior_point_" + {"I": "strictly_inside", "notE": "intersects", "empty": "none_iff_empty"}[need]
        if verdict.startswith("bad"):
            acc.failc[kind] = acc.failc.get(kind, 0) + calls
            if len(acc.mism) < 2000:
                acc.mism.append({"kind": "mismatch", "prop": "C12", "sub": "interior_point", "case": e["case"],
                                 "detail": {"what": "interior_point via " + e["via"], "verdict": verdict, "required": need,
                                            "got": e.get("pt", e.get("msg", e["res"])), "got_times_2048_rounded": e["r"],
                                            "exactly_on_2048_lattice": e["exact"]}})
        elif verdict == "undecided":
            acc.undecided += calls
        else:
            acc.passc[kind] = acc.passc.get(kind, 0) + calls
            if e["res"] == "some":
                acc.nontriv.add(hash(json.dumps(e["g"], sort_keys=True) + str(e["r"])))
            if len(acc.samples) < 4 and i % 997 == 3:
                acc.samples.append({"g": e["case"]["g"], "interior_point": e.get("pt"), "verdict": verdict, "required": need})


def _finish(tier, seed, t0, acc, runs, npool):
    strict_ok = acc.passc.get("interior_point_strictly_inside", 0)
    if acc.events and acc.undecided * 50 > sum(acc.passc.values()) + acc.undecided:
        raise vf.ToolError("too many undecided interior_point events: %d" % acc.undecided)
    cov = {"states": sum(r["distinct"] for r in runs), "transitions": sum(r["generated"] for r in runs),
           "traces_validated_against_impl": sum(r.get("cases", 0) for r in runs if r["module"] != "Gen_Poly"),
           "samples": acc.samples[:4], "evaluations": sum(acc.passc.values()) + sum(acc.failc.values()),
           "distinct_nontrivial": len(acc.nontriv), "rule": RULE,
           "checks_passed_by_kind": acc.passc, "checks_failed_by_kind": acc.failc, "harness_counters": acc.extra,
           "interior_event_verdicts": acc.verdicts, "interior_calls_undecided": acc.undecided,
           "interior_calls_strictly_inside": strict_ok, "pool_polygons": npool, "tlc_runs": vf.tlc_summary(runs)}
    vf.finish("C12", tier, seed, "model_checking", cov, ASSUME, t0, acc.mism)


def check(tier, seed, t0):
    runs, acc = [], Acc()
    quick = tier == "quick"
    pool, npool = _pool(tier, runs)
    # closest_point
    cases, _ = _generate("C12_closest_small", "closest", SMALL, 1, 1, seed, None, runs)
    _execute("closest_small", cases, seed, acc, runs)
    os.remove(cases)
    cases, _ = _generate("C12_closest_pool", "closest", POOLED, 24 if quick else 2, 8 if quick else 2, seed, pool, runs)
    _execute("closest_pool", cases, seed, acc, runs)
    os.remove(cases)
    # interior_point
    cases, _ = _generate("C12_interior", "interior", SMALL[:-1] + "," + POOLED[1:], 1, 4 if quick else 1, seed, pool, runs)
    _execute("interior", cases, seed, acc, runs)
    os.remove(cases)
    if acc.extra.get("closest_cases", 0) == 0 or acc.extra.get("interior_events", 0) == 0:
        raise vf.ToolError("vacuous run: %s" % acc.extra)
    _finish(tier, seed, t0, acc, runs, npool)


def replay(path, seed, t0):
    """Re-run the cases of a replay file (closest cases are re-judged by the harness against the recorded
    TLC values, interior cases are re-executed and re-judged by TLC)."""
    cases = os.path.join(vf.WORK, "replay_cases_C12.ndjson")
    n = 0
    seen = set()
    with open(path) as f, open(cases, "w") as o:
        for line in f:
            m = json.loads(line)
            c = json.dumps(m.get("case", m), sort_keys=True)
            if c not in seen:
                seen.add(c)
                o.write(c + "\n")
                n += 1
    runs, acc = [], Acc()
    _execute("replay", cases, seed, acc, runs)
    new, hit = vf.split_known("C12", acc.mism)
    vf.log("replayed %d cases: %d mismatching checks (%d not listed as known findings)" % (n, len(acc.mism), len(new)))
    for m in new[:10]:
        vf.log("  mismatch:", json.dumps(m)[:700])
    if new:
        vf.log("VIOLATION property=C12 replay=%s" % path)
        raise SystemExit(1)
    raise SystemExit(0)

import vf
from props import poly_common

RULE = ("Gen_Affine: the AffineTransform builder as a state machine over integer matrices (translations, integer scalings, quarter "
        "turns, 45-degree skews about 3 origins, composition with 3 fixed matrices); every transition of the reachable graph to "
        "depth 2 (quick) / 3 (thorough) is one implementation test: matrix after the call, the elementary constructor, "
        "compose = 'then', apply on probe points = sequential application, compose_many, inverse (None iff det = 0, else the exact "
        "rational inverse, m o m^-1 = id), i64 compose / unimodular inverse, AffineOps on a polygon, and the pure / in-place / "
        "around-point / around-centre / around-centroid trait forms; AlgebraLaws checked by TLC on every state. Commutation "
        "clause: Gen_Relate pairs (relate, intersects, contains under exact maps), Gen_Poly (area x |det|, winding), Gen_Distance "
        "(distance x similarity factor). distinct_nontrivial = transitions that change the matrix + mapped cases.")
ASSUME = ["rotations are quarter turns and skews 45 degrees so that the exact matrix is integral; tolerance 1e-12 for the trigonometric entries",
          "AffineTransform<i64>::inverse is only demanded for unimodular matrices (other inverses are not representable in i64)"]


def check(tier, seed, t0):
    q = tier == "quick"
    runs = [dict(name="builder", module="Gen_Affine", constants=dict(MaxAbs=40, Depth=2 if q else 3), invariants=["AlgebraLaws"], constraints=["Bounded"]),
            dict(name="relate_maps", module="Gen_Relate", constants=dict(N=2, Profile="base", Stride=80 if q else 10, Offset=seed % (80 if q else 10), Emit="both"),
                 invariants=["OracleSane"], timeout=3000),
            dict(name="distance_maps", module="Gen_Distance", constants=dict(Stride=3 if q else 1, Offset=seed % (3 if q else 1)), invariants=["DistLaws"])]
    runs += poly_common.poly_runs(tier)[:1]
    vf.simple_check("C13", tier, seed, t0, runs, RULE, ASSUME,
                    nontrivial=lambda c: c["op"] != "affine_step" or c["pre"] != c["post"])


def replay(path, seed, t0):
    vf.replay_file("C13", path, seed, t0)

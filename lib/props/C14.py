import vf
from props import poly_common

RULE = ("Gen_Valid (octilinear witness lattice): (rings) every closed octilinear walk with <= 5 edges on the 3x3 grid - simple rings "
        "and bow-ties, spikes, self-touching and flat rings - with the verdict 'simple closed curve of non-zero area'; (holes) a "
        "square and an octagonal shell with one or two holes drawn from all simple triangles (thorough: also quadrilaterals) of "
        "the 4x4 grid - inside, outside, crossing, sharing an edge, touching at a point, nested - with per-defect ring sets; "
        "(multi) every ordered pair of simple rings as a MultiPolygon (overlapping, edge-sharing, point-touching, disjoint). "
        "Gen_Poly adds every general-slope lattice polygon (valid by construction). Replay: is_valid, validation_errors non-empty "
        "iff invalid, every reported error names rings / members that really have that defect, Geometry enum and MultiPolygon-of-"
        "one forms, non-finite coordinates injected into valid polygons. distinct_nontrivial = invalid cases + valid ones with holes.")
ASSUME = ["consecutive repeated vertices are not generated (their validity is not fixed by the property)",
          "interior connectedness is not demanded (the property does not list it and geo does not check it)"]


def check(tier, seed, t0):
    q = tier == "quick"
    runs = [dict(name="rings", module="Gen_Valid", constants=dict(N=2, Mode="rings", MaxE=5 if q else 6, Stride=1, Offset=0, HoleE=3)),
            dict(name="holes", module="Gen_Valid", constants=dict(N=3, Mode="holes", MaxE=0, Stride=2 if q else 1, Offset=seed % 2 if q else 0, HoleE=3 if q else 4), timeout=3000),
            dict(name="multi", module="Gen_Valid", constants=dict(N=2, Mode="multi", MaxE=0, Stride=1, Offset=0, HoleE=4)),
            # long rings (28 - 530 coordinates): combs (simple / one tooth touching the far side) and figure-eights through a shared vertex
            dict(name="bigrings", module="Gen_Valid", constants=dict(N=2, Mode="bigrings", MaxE=0, Stride=1, Offset=0, HoleE=3), invariants=["BigRingsAsBuilt"], workers=4)]
    runs += poly_common.poly_runs(tier)[:1]
    vf.simple_check("C14", tier, seed, t0, runs, RULE, ASSUME,
                    nontrivial=lambda c: (c["op"] == "valid" and (not c["valid"] or len(c["g"].get("holes", [])) > 0 or c["g"]["t"] == "MultiPolygon"))
                                         or (c["op"] == "poly" and len(c["holes"]) > 0))


def replay(path, seed, t0):
    vf.replay_file("C14", path, seed, t0)

import vf

RULE = ("Gen_LineMeasure: one TLC state per line string over the 5x5 lattice whose segments have integer length (axis-parallel, "
        "3-4-5; zero-length segments and repeated vertices included), <= MaxN vertices; PointAt (arc-length parametrisation, exact "
        "rationals) gives the expected point for 9 ratios from -1/2 to 3/2 in from-start and from-end form; WalkOK checks on every "
        "state that the distance_remaining walk of the implementation-shaped model computes PointAt and that from-end is the "
        "mirror image. Replay: ratio and distance forms from start and end on LineString and Line, the deprecated "
        "line_interpolate_point, length, line_locate_point round trip on simple lines, densify (8 bounds from 1/4 to 100) on "
        "Line / LineString / Polygon / Rect / Triangle held to: original vertices in order, no segment longer than max, total "
        "length unchanged (hence inserted points on the original segments), at least sum ceil(len/max) pieces. Tolerance 1e-12 L. "
        "General slopes (Mode = general: every lattice vertex sequence, irrational segment lengths): ratios / distances at or beyond "
        "the ends (1, 1+eps, 1.5, 2, 1e300, +inf; 0, -0.5, -1e300, -inf) must give exactly the end vertices in all forms incl. the "
        "legacy trait; for r = k/8 the from-start / from-end(1-r) / distance / legacy forms must agree to 1e-9 and line_locate_point "
        "maps the point back to r on simple open lines; densify postconditions with 5 bounds.")
ASSUME = ["exact arc-length positions are only given where segment lengths are integers; on general slopes the specification gives the clamped ends and the laws between forms", "ratios are multiples of 1/8 or 1/3; bounds from 1/4 to 100"]


def check(tier, seed, t0):
    if tier == "quick":
        runs = [dict(name="n4", module="Gen_LineMeasure", constants=dict(K=4, MaxN=4, Stride=3, Offset=seed % 3, Mode="integer", BigN="{130, 257}"), invariants=["WalkOK"]),
                dict(name="g4", module="Gen_LineMeasure", constants=dict(K=3, MaxN=4, Stride=4, Offset=seed % 4, Mode="general", BigN="{67, 129, 200, 1030}"), invariants=["WalkOK"])]
    else:
        runs = [dict(name="n5", module="Gen_LineMeasure", constants=dict(K=4, MaxN=5, Stride=1, Offset=0, Mode="integer", BigN="{130, 257}"), invariants=["WalkOK"], timeout=3000),
                dict(name="g5", module="Gen_LineMeasure", constants=dict(K=3, MaxN=5, Stride=4, Offset=seed % 4, Mode="general", BigN="{67, 129, 200, 1030, 4100}"), invariants=["WalkOK"], timeout=3000)]
    vf.simple_check("C15", tier, seed, t0, runs, RULE, ASSUME, nontrivial=lambda c: (c.get("len", 1) > 0 and len(c["cs"]) >= 3))


def replay(path, seed, t0):
    vf.replay_file("C15", path, seed, t0)

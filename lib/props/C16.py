"""C16: Haversine, Geodesic and Rhumb measures are mutually consistent (Sphere.tla, Gen_Sphere.tla, Trace_Sphere.tla)."""
import json, os, re, collections
import vf

RULE = ("(A) Gen_Sphere: a step machine over Sphere.tla (integer quarter degrees; longitude wrap to [-180,180) with the two "
        "spellings of the antimeridian, bearing normalisation to [0,360), latitude reflection + longitude turn + heading reversal "
        "over a pole; rhumb parallels at lat 0 / +-60 where an arc s carries the longitude by s / 2 s, rhumb meridians up to a "
        "pole) enumerates every axis journey (family x start on the grid x heading x number of grid steps, up to two full turns); "
        "JourneyLaws holds the machine to the closed form and to the model-level round trip / quarter-point / shortest-arc laws on "
        "every state.  Each state is one case with the exact arrival point, bearing +-360/+-720 equivalents, the negative arc along "
        "the opposite bearing, shortest arc, bearing(a,b) / bearing(b,a) where unique and the points at ratios 1/4, 2/4, 3/4.  Replay "
        "into Haversine, HaversineMeasure::new(3389500), Rhumb, Geodesic and GeodesicMeasure::new(3396200, 0.00589) (equator "
        "journeys <= 170 deg with arc unit pi a / 180; meridian journeys < 180 deg relationally: bearing, round trip, "
        "d(a,via)+d(via,b) = d(a,b), symmetry) and the legacy haversine_* / geodesic_* / rhumb_* traits: destination, "
        "distance both ways and to itself, bearing both ways (value and 0 <= bearing < 360), round trip "
        "destination(a, bearing(a,b), distance(a,b)), point_at_ratio_between at 0, 1/4, 1/2, 3/4, 1, points_along_line, Length of "
        "[a,b], [a,mid,b], [a,b,a].  Longitudes must be one of the admissible spellings in [-180,180] (not merely equal modulo 360); "
        "tolerances 1e-9 deg on coordinates and bearings, 1e-6 m + 1e-12 relative on distances; at an arrival exactly on a pole only "
        "the latitude to 1e-4 deg, for exactly antipodal ends the distance only to 100 m (both excluded by the property, kept as "
        "sanity bounds).  (B) Trace_Sphere: seeded random probes (classes generic, antimeridian, high_latitude 80..89, coincident "
        "1e-6..1e-3 deg, antipodal, identical, polar, near_parallel, same_latitude; ratios k/16; line strings of 2-5 vertices; the "
        "five spaces) are executed by the harness, which logs only geo's own outputs quantised to two-limb integers (um, "
        "nanodegrees); TLC judges every event independently with limb arithmetic: no panic / NaN, d >= 0, d(a,a) = 0, "
        "0 <= bearing < 360, dest and mid valid lon/lat, |d_ab - d_ba| <= 1 um + 1e-12 d (Rhumb 100 um), closure <= 1 mm, "
        "|16 d_am - r16 d_ab| <= 16 mm (i.e. 1 mm on d_am), |d_am + d_mb - d_ab| <= 1 mm, |Length - sum of segments| <= (segments + 1) um.  "
        "distinct_nontrivial = journeys of positive arc + trace events inside the domain of the guarded laws.")
ASSUME = [
    "part A covers only journeys whose exact result is a whole number of quarter degrees (equator, meridians, rhumb parallels at 0 / +-60 deg, rhumb meridians); "
    "numeric accuracy of geo against geodetic ground truth away from these axes is NOT covered",
    "part B relates geo's own outputs to each other; it cannot see an error that is common to distance, bearing and destination",
    "round trip / ratio / additivity in part B are demanded only away from poles and antipodes, decided by the spec from the inputs: "
    "|lat| <= 89 deg for both points and not (|lat_a + lat_b| <= 1 deg and |lon_a - lon_b| >= 179 deg)",
    "Rhumb symmetry / round trip / ratio in part B are demanded for random pairs only when lat_a = lat_b or |dlon| <= 1000 |dlat| "
    "(nearly east-west loxodromes lose all digits in dphi/dpsi: reported defect, probed by three pinned events that are judged without this exemption)",
    "journeys never start at a pole; the longitude returned at a pole is not compared (Rhumb returns NaN there: outside the property)",
    "rhumb meridian journeys stop at the pole (the code only reflects the latitude beyond it; the property does not say what should happen)",
    "negative distances are taken to mean the same arc along the opposite bearing",
    "f64 only; custom sphere radius 3389500 m, custom ellipsoid a = 3396200 m, f = 0.00589",
]

TIERS = {"quick": dict(G=15, GL=15, NMax=48, events=100000),
         "thorough": dict(G=5, GL=15, NMax=144, events=500000)}


CHUNK = 50000      # events per TLC run: the deserialised trace is one TLC value, and TLC slows down sharply beyond ~100k events


def judge_chunk(name, trace_path, offset, timeout):
    res = vf.run_tlc(name, "Trace_Sphere", dict(spec="TraceSpec", invariants=["ok"]), workers=12, xmx="8g", timeout=timeout,
                     env_extra={"TRACE": trace_path}, extra_args=["-continue"])
    expected = ("Error: Invariant ok is violated.", "Error: The behavior up to this point is:")
    other = [e for e in res["errors"] if e not in expected]
    if other or res["distinct"] is None:
        vf.log(os.popen("grep -v '^<<' %s | tail -30" % res["out"]).read())
        raise vf.ToolError("trace validation run %s failed: %s" % (name, other[:3]))
    rejected, domain, seen = {}, collections.Counter(), set()
    with open(res["out"], errors="replace") as f:
        for line in f:
            if line.startswith('<<"TRACE-REJECTED"'):
                m = re.match(r'<<"TRACE-REJECTED", (\d+), (".*")>>', line.strip())
                rejected[offset + int(m.group(1))] = json.loads(json.loads(m.group(2)))
            elif line.startswith('<<"DOMAIN"'):
                m = re.match(r'<<"DOMAIN", (\d+), "(\w+)", (TRUE|FALSE), (TRUE|FALSE)>>', line.strip())
                if int(m.group(1)) not in seen:          # TLC prints again when it reconstructs an error trace
                    seen.add(int(m.group(1)))
                    domain[(m.group(2), "in_domain" if m.group(3) == "TRUE" else ("rhumb_exempt" if m.group(4) == "TRUE" else "outside"))] += 1
    os.remove(res["out"])
    return res, rejected, domain


def judge_trace(name, trace_path, timeout=1500):
    """Stateless parallel validation of a recorded trace by Trace_Sphere, CHUNK events per TLC run.
    Returns (aggregated tlc result, {1-based event index: verdict}, domain counts, number of events)."""
    agg = {"name": name, "module": "Trace_Sphere", "generated": 0, "distinct": 0, "depth": 2, "wall_s": 0.0, "runs": 0}
    rejected, domain = {}, collections.Counter()
    total = 0
    with open(trace_path) as f:
        lines = f.readlines()
    for k in range(0, len(lines), CHUNK):
        part = "%s.part%d" % (trace_path, k // CHUNK)
        with open(part, "w") as o:
            o.writelines(lines[k:k + CHUNK])
        res, rj, dm = judge_chunk("%s_%d" % (name, k // CHUNK), part, k, timeout)
        os.remove(part)
        n = len(lines[k:k + CHUNK])
        if res["distinct"] != 2 * n:
            raise vf.ToolError("Trace_Sphere judged %s states for %d events" % (res["distinct"], n))
        total += n
        agg["generated"] += res["generated"]; agg["distinct"] += res["distinct"]; agg["wall_s"] = round(agg["wall_s"] + res["wall_s"], 1)
        agg["runs"] += 1
        rejected.update(rj)
        domain.update(dm)
    return agg, rejected, domain, total


def trace_mismatches(trace_path, rejected, seed):
    out = []
    if not rejected:
        return out
    with open(trace_path) as f:
        for i, line in enumerate(f, 1):
            if i in rejected:
                e = json.loads(line)
                v = rejected[i]
                sub = "trace_rhumb_near_parallel" if e.get("cls") == "pinned_near_parallel" else "trace_" + v["laws"][0]
                out.append({"kind": "mismatch", "prop": "C16", "sub": sub, "case": e,
                            "detail": {"what": "recorded event violates Trace_Sphere laws " + ", ".join(v["laws"]), "laws": v["laws"],
                                       "spec_flags": v["flags"], "space": e.get("space"), "event_index": i, "trace_seed": seed}})
    return out


def check(tier, seed, t0):
    p = TIERS[tier]
    # ---- (A) axis journeys: TLC enumerates, harness replays
    resA, ncases, mism, summ = vf.gen_and_replay("C16_axis", "Gen_Sphere", dict(G=p["G"], GL=p["GL"], NMax=p["NMax"]), ["C16"], seed,
                                                 invariants=["JourneyLaws", "Emit"])
    extra = summ["extra"]
    zero_arc = 0
    with open(resA["cases_path"]) as f:
        for line in f:
            if '"n":0,' in line:
                zero_arc += 1
    os.remove(resA["cases_path"])
    passc, failc = dict(summ["pass"]), dict(summ["fail"])
    margins = {}
    for k, v in extra.items():
        if k.startswith("maxppm_of_tol_"):
            sub = k[len("maxppm_of_tol_"):]
            margins[sub] = v / 1e6                      # worst observed error as a fraction of the tolerance
    counters = {k: v for k, v in extra.items() if not k.startswith("max")}
    worst = sorted(((v, k) for k, v in margins.items()), reverse=True)[:10]
    # ---- (B) recorded probes judged by TLC
    trace = os.path.join(vf.WORK, "C16_trace.ndjson")
    vf.run_harness(["record", "c16", trace, p["events"], "--seed", seed])
    resB, rejected, domain, judged = judge_trace("C16_trace", trace)
    if judged != p["events"]:
        raise vf.ToolError("Trace_Sphere judged %d of %d events" % (judged, p["events"]))
    kinds, classes = collections.Counter(), collections.Counter()
    samples = list(summ["samples"][:2])
    with open(trace) as f:
        for i, line in enumerate(f):
            e = json.loads(line)
            kinds[e["kind"]] += 1
            classes[e["cls"]] += 1
            if i in (10, 11):
                samples.append(e)
    in_dom = sum(v for (s, d), v in domain.items() if d == "in_domain")
    for s in ("hav", "havR", "geod", "geodC", "rhumb"):
        if domain[(s, "in_domain")] < p["events"] // 20:
            raise vf.ToolError("recorded trace is vacuous for %s: %s" % (s, dict(domain)))
    tm = trace_mismatches(trace, rejected, seed)
    mism = tm + mism          # the few trace rejections first: the replay file keeps the first 200 records
    passc["trace_events"] = p["events"] - len(rejected)
    if rejected:
        failc["trace_events"] = len(rejected)
    cov = {"states": resA["distinct"] + resB["distinct"], "transitions": resA["generated"] + resB["generated"],
           "traces_validated_against_impl": ncases + p["events"], "samples": samples[:4],
           "evaluations": sum(passc.values()) + sum(failc.values()), "distinct_nontrivial": (ncases - zero_arc) + in_dom, "rule": RULE,
           "checks_passed_by_kind": passc, "checks_failed_by_kind": failc, "harness_counters": counters,
           "worst_error_as_fraction_of_tolerance": {k: round(v, 6) for v, k in worst},
           "recorded_event_kinds": dict(kinds), "recorded_event_classes": dict(classes),
           "trace_domain": {"%s/%s" % k: v for k, v in sorted(domain.items())},
           "tlc_runs": vf.tlc_summary([resA, resB])}
    vf.log("C16 part A: %d journeys (%d states), %d checks passed, %d failed; part B: %d events, %d rejected, %d in the guarded domain"
           % (ncases, resA["distinct"], sum(summ["pass"].values()), sum(summ["fail"].values()), p["events"], len(rejected), in_dom))
    vf.finish("C16", tier, seed, "other", cov, ASSUME, t0, mism)


def replay(path, seed, t0):
    """Replay file = mismatch records of either part: journeys are replayed, probes re-executed and judged again by TLC."""
    cases = os.path.join(vf.WORK, "replay_cases_C16.ndjson")
    n = 0
    with open(path) as f, open(cases, "w") as o:
        for line in f:
            m = json.loads(line)
            o.write(json.dumps(m.get("case", m)) + "\n")
            n += 1
    outp = os.path.join(vf.WORK, "replay_results_C16.ndjson")
    vf.run_harness(["replay", cases, outp, "--seed", seed, "--props", "C16"])
    mism, summary, events = vf.read_results(outp)
    if events:
        trace = os.path.join(vf.WORK, "replay_trace_C16.ndjson")
        with open(trace, "w") as o:
            for e in events:
                o.write(json.dumps(e) + "\n")
        _, rejected, _, _ = judge_trace("C16_replay_trace", trace)
        mism += trace_mismatches(trace, rejected, seed)
    new, hit = vf.split_known("C16", mism)
    vf.log("replayed %d cases: %d mismatching checks (%d not listed as known findings)" % (n, len(mism), len(new)))
    for m in new[:10]:
        vf.log("  mismatch:", json.dumps(m)[:700])
    if new:
        vf.log("VIOLATION property=C16 replay=%s" % path)
        raise SystemExit(1)
    raise SystemExit(0)

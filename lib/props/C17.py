"""C17: PreparedGeometry answers like the plain geometry (Trace_Prepared.tla + Gen_Relate pairs)."""
import json, os
import vf
from props import relate_common

RULE = ("(1) TLC-enumerated ordered pairs of the Gen_Relate catalogue with the true matrix are replayed through 7 prepared "
        "forms each (both prepared, either prepared, concrete-typed prepared operand, reuse after use in the other position); "
        "(2) seeded random histories of prepare / relate calls over a working set of catalogue geometries (up to 5 live "
        "prepared handles, prepared operand first / second / both, plain partners) are recorded from the real API with the "
        "cache fingerprint (hook H4) after every call and validated as one chain against Trace_Prepared: every matrix must "
        "equal the DE-9IM of the plain operands and every fingerprint must equal the one taken at Prepare. "
        "distinct_nontrivial = distinct interacting pairs replayed + relate events whose operands intersect.")


def check(tier, seed, t0):
    runs, mism, passc, failc, samples = [], [], {}, {}, []
    stride = 60 if tier == "quick" else 6
    consts = dict(N=2, Profile="base", Stride=stride, Offset=seed % stride, Emit="relatepool")
    res = vf.run_tlc("C17_pairs", "Gen_Relate", dict(constants=consts, invariants=["OracleSane"]), timeout=3000)
    vf.tlc_ok_or_die(res)
    cases = os.path.join(res["wd"], "cases.ndjson")
    pool = os.path.join(res["wd"], "pool.ndjson")
    n = vf.extract_tagged(res["out"], "CASE", cases)
    npool = vf.extract_tagged(res["out"], "POOL", pool)
    os.remove(res["out"])
    if n == 0 or npool == 0:
        raise vf.ToolError("no cases / pool from TLC")
    outp = os.path.join(res["wd"], "results.ndjson")
    vf.run_harness(["replay", cases, outp, "--seed", seed, "--props", "C17"])
    mm, summ, _ = vf.read_results(outp)
    mism += mm
    vf.merge_counts(passc, summ["pass"]); vf.merge_counts(failc, summ["fail"]); samples += summ["samples"][:2]
    nontriv = relate_common.nontrivial_relate(cases)
    os.remove(cases)
    res["cases"] = n
    runs.append(res)
    # operands with 10 - 50 segments (the prepared geometry's segment R-tree has several levels): every ordered pair, 7 prepared forms
    bres, bn, bmm, bsumm = vf.gen_and_replay("C17_big", "Gen_Relate", dict(N=10, Profile="big", Stride=2 if tier == "quick" else 1,
                                                                           Offset=seed % 2 if tier == "quick" else 0, Emit="relate"),
                                             ["C17"], seed, invariants=["OracleSane", "UniverseOK"], timeout=1500)
    mism += bmm
    vf.merge_counts(passc, bsumm["pass"]); vf.merge_counts(failc, bsumm["fail"])
    nontriv += relate_common.nontrivial_relate(bres["cases_path"])
    os.remove(bres["cases_path"])
    n += bn
    runs.append(bres)
    # long operands (staircase lines / polygons of 4 - 4200 segments) in positions whose matrix follows from the construction
    # (Gen_RelBig; lemma SmallAgrees: for n = 4 the construction equals the point-set DE-9IM)
    lres, ln_, lmm, lsumm = vf.gen_and_replay("C17_long", "Gen_RelBig", dict(Sizes="{4, 66, 130, 1030, 2100, 4200}"), ["C17"], seed,
                                              invariants=["SmallAgrees"], workers=6, timeout=1500)
    mism += lmm
    vf.merge_counts(passc, lsumm["pass"]); vf.merge_counts(failc, lsumm["fail"])
    os.remove(lres["cases_path"])
    n += ln_
    runs.append(lres)
    # recorded histories
    nev = 3000 if tier == "quick" else 30000
    trace = os.path.join(vf.WORK, "C17_trace.ndjson")
    vf.run_harness(["record", "c17", trace, nev, "--seed", seed, "--pool", pool])
    tconsts = dict(N=2, CacheInVerdict=False)
    tres, rejected = vf.validate_trace("C17_trace", "Trace_Prepared", tconsts, trace, timeout=3000)
    runs.append(tres)
    kinds = {}
    inter = 0
    with open(trace) as f:
        for i, line in enumerate(f):
            e = json.loads(line)
            kinds[e["name"]] = kinds.get(e["name"], 0) + 1
            if e["name"] == "relate" and not (e["im"][0] == "F" and e["im"][1] == "F" and e["im"][3] == "F" and e["im"][4] == "F"):
                inter += 1
            if i in (5, 6):
                samples.append(e)
    if kinds.get("relate", 0) < nev // 2 or kinds.get("prepare", 0) < 10:
        raise vf.ToolError("recorded trace is vacuous: %s" % kinds)
    if rejected:
        mism.append({"kind": "mismatch", "prop": "C17", "sub": "trace_rejected", "case": rejected["event"],
                     "detail": {"what": "recorded history is not a behaviour of Trace_Prepared (matrix differs from the plain "
                                        "operands' DE-9IM, or the cached graph changed)", "event_index": rejected["index"], "trace_seed": seed}})
        failc["trace_events"] = 1
    else:
        passc["trace_events"] = nev
    cov = {"states": sum(r["distinct"] for r in runs), "transitions": sum(r["generated"] for r in runs),
           "traces_validated_against_impl": n + 1, "samples": samples[:4],
           "evaluations": sum(passc.values()) + sum(failc.values()), "distinct_nontrivial": nontriv + inter, "rule": RULE,
           "checks_passed_by_kind": passc, "checks_failed_by_kind": failc, "recorded_event_kinds": kinds,
           "tlc_runs": vf.tlc_summary(runs)}
    vf.finish("C17", tier, seed, "model_checking", cov, relate_common.ASSUME + ["hook H4 fingerprint = Debug rendering of all nodes and edges (labels, edge intersections) of the cached graph"], t0, mism)


def replay(path, seed, t0):
    """Replay cases are re-executed; a rejected recorded history cannot be replayed event by event (the objects live in the
    harness process), so the recording with the same seed is repeated and validated again (quick tier)."""
    recs = [json.loads(l) for l in open(path) if l.strip()]
    tr = [r for r in recs if r.get("sub") == "trace_rejected"]
    if tr:
        return check("quick", int(tr[0].get("detail", {}).get("trace_seed", seed)), t0)
    vf.replay_file("C17", path, seed, t0)

"""C18: structural invariants of geo-types under every API history (PolySession.tla)."""
import json, os
import vf

RULE = ("(1) TLC model-checks RingsClosed / RectOrdered over all histories of PolySession within the constants; "
        "(2) every transition (state, action, state') of the per-component state graphs is emitted by TLC and replayed into "
        "the real Polygon / LineString / Rect (pre-state built through the public API, post-state compared field by field); "
        "(3) TLC-simulated behaviours of 20 calls are replayed from Init step by step; (4) seeded random histories driven "
        "from Rust (closures of up to 4 edits, Ok/Err exits, caught panics) are validated as one chain against "
        "Trace_PolySession; (5) conversion cases; (6) Apalache discharges RingsClosed /\\ RectOrdered as an inductive invariant of "
        "PolyInd.tla (closures abstracted to 'any resulting ring + Ok/Err', unbounded integers, any history length) and refutes the "
        "early-return-on-Err variant. distinct_nontrivial = distinct transitions whose action changes the state "
        "or exits with Err/panic.")
ASSUME = ["closures are sequences of push/pop/clear/set/insert edits followed by Ok or Err; closures that panic are not modelled",
          "ring coordinates are abstract identifiers (k -> (k, k*k)); coordinate values do not influence closing",
          "Rect::set_min/set_max: the required behaviour on invalid bounds is 'panic and leave the Rect unchanged'"]


def base_consts(tier):
    if tier == "quick":
        return dict(NC=2, MaxLen=3, MaxHoles=1, MaxEdits=1, RC=1, CloseOnErr=True)
    return dict(NC=2, MaxLen=3, MaxHoles=1, MaxEdits=2, RC=1, CloseOnErr=True)


def nontrivial_steps(path):
    n = 0
    with open(path) as f:
        for line in f:
            c = json.loads(line)
            if c.get("op") == "c18_step" and (c["pre"] != c["post"] or c["ret"] in ("Err", "panic")):
                n += 1
    return n


def check(tier, seed, t0):
    runs, mism, passc, failc, extra, samples = [], [], {}, {}, {}, []
    nontriv = 0
    # (1) design-level model checking of the invariants
    mc = vf.run_tlc("C18_mc", "PolySession",
                    dict(constants=dict(base_consts(tier), EmitCases=False, Focus="all", ChainLen=0),
                         invariants=["RingsClosed", "RectOrdered", "TypeOK"], constraints=["Bounded"], view="View"),
                    workers=12, timeout=1800)
    vf.tlc_ok_or_die(mc)
    runs.append(mc)
    # (2) one implementation test per transition
    ncases = 0
    for focus in ("poly", "ls", "rect"):
        c = dict(base_consts(tier), EmitCases=True, Focus=focus, ChainLen=0)
        if focus != "poly":
            c["MaxEdits"] = 2
            c["NC"] = 3 if focus == "ls" else 2
            c["RC"] = 2
        res, n, mm, summ = vf.gen_and_replay("C18_gen_" + focus, "PolySession", c, ["C18"], seed,
                                             invariants=["RingsClosed", "RectOrdered"], constraints=["Bounded"], view="View")
        runs.append(res); ncases += n; mism += mm
        nontriv += nontrivial_steps(res["cases_path"])
        os.remove(res["cases_path"])
        vf.merge_counts(passc, summ["pass"]); vf.merge_counts(failc, summ["fail"]); samples += summ["samples"][:1]
    # (3) simulated behaviours from Init
    nsim = 30 if tier == "quick" else 400
    c = dict(NC=3, MaxLen=6, MaxHoles=2, MaxEdits=2, RC=2, CloseOnErr=True, EmitCases=False, Focus="all", ChainLen=20)
    res, n, mm, summ = vf.gen_and_replay("C18_chains", "PolySession", c, ["C18"], seed, invariants=["RingsClosed", "RectOrdered", "ChainOut"],
                                         simulate="num=%d" % nsim, workers=1, depth=21)
    runs.append(res); ncases += n; mism += mm
    os.remove(res["cases_path"])
    vf.merge_counts(passc, summ["pass"]); vf.merge_counts(failc, summ["fail"]); vf.merge_counts(extra, summ["extra"]); samples += summ["samples"][:1]
    # (4) recorded random histories validated against the trace specification
    nev = 4000 if tier == "quick" else 40000
    trace = os.path.join(vf.WORK, "C18_trace.ndjson")
    vf.run_harness(["record", "c18", trace, nev, "--seed", seed])
    tc = dict(NC=4, MaxLen=99, MaxHoles=3, MaxEdits=0, RC=3, CloseOnErr=True, EmitCases=False, Focus="all", ChainLen=0)
    tres, rejected = vf.validate_trace("C18_trace", "Trace_PolySession", tc, trace, invariants=["RingsClosed", "RectOrdered"])
    runs.append(tres)
    if rejected:
        mism.append({"kind": "mismatch", "prop": "C18", "sub": "trace_rejected", "case": rejected["event"],
                     "detail": {"what": "recorded history is not a behaviour of PolySession", "event_index": rejected["index"],
                                "trace_seed": seed}})
        failc["trace_events"] = 1
    else:
        passc["trace_events"] = nev
    with open(trace) as f:
        samples.append(json.loads(f.readline()))
    # (5) conversions
    res, n, mm, summ = vf.gen_and_replay("C18_conv", "Gen_Conv", dict(K=2), ["C18"], seed)
    runs.append(res); ncases += n; mism += mm
    os.remove(res["cases_path"])
    vf.merge_counts(passc, summ["pass"]); vf.merge_counts(failc, summ["fail"])
    # (6) unbounded: RingsClosed /\ RectOrdered is an inductive invariant of the typed restatement PolyInd.tla (Apalache):
    # base case, inductive step, and the negative control (early return on Err = the defect repaired by FX-06) must be refuted
    apa = [vf.run_apalache("C18_apa_base", "PolyInd", "Init", "IndInv", 0, "CInitT"),
           vf.run_apalache("C18_apa_step", "PolyInd", "IndInit", "IndInv", 1, "CInitT"),
           vf.run_apalache("C18_apa_control", "PolyInd", "IndInit", "IndInv", 1, "CInitF")]
    if [a["outcome"] for a in apa] != ["NoError", "NoError", "Error"]:
        raise vf.ToolError("Apalache inductive check of PolyInd gave %s (expected NoError, NoError, Error)" % [a["outcome"] for a in apa])
    cov = {"states": sum(r["distinct"] for r in runs), "transitions": sum(r["generated"] for r in runs),
           "traces_validated_against_impl": ncases + 1, "samples": samples[:5],
           "evaluations": sum(passc.values()) + sum(failc.values()), "distinct_nontrivial": nontriv, "rule": RULE,
           "checks_passed_by_kind": passc, "checks_failed_by_kind": failc, "harness_counters": extra,
           "recorded_trace_events": nev, "tlc_runs": vf.tlc_summary(runs),
           "model_constants": base_consts(tier), "apalache_inductive": apa}
    vf.finish("C18", tier, seed, "model_checking", cov, ASSUME, t0, mism)


def replay(path, seed, t0):
    """Replay cases are re-executed; a rejected recorded history cannot be replayed event by event (the objects live in the
    harness process), so the recording with the same seed is repeated and validated again (quick tier)."""
    recs = [json.loads(l) for l in open(path) if l.strip()]
    tr = [r for r in recs if r.get("sub") == "trace_rejected"]
    if tr:
        return check("quick", int(tr[0].get("detail", {}).get("trace_seed", seed)), t0)
    vf.replay_file("C18", path, seed, t0)

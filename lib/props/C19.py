import vf

RULE = ("Gen_Traversal: TLC enumerates geometry trees (a bare member or a collection of 1-3 members from a 20-entry pool of all 10 "
        "types incl. empty members, a polygon with three holes, nested collections) x 4 coordinate functions, with the traversal, "
        "exterior traversal, line pairs, mapped geometry and bounding box defined by structural recursion; TravLaws (map commutes "
        "with traversal, exterior is a sub-sequence, collections concatenate, bounding box of a monotone image) checked on every "
        "state. Replay through the Geometry enum and the concrete types: coords_iter, coords_count, exterior_coords_iter, "
        "lines_iter, map_coords, map_coords_in_place, try_map_coords(_in_place) with an infallible function and with a function "
        "failing at EVERY call position, visiting order, bounding_rect (None iff no coordinates), extremes (bounds + named indices).")
ASSUME = ["Rect is compared after re-normalisation (the property excepts it)",
          "Geometry / GeometryCollection::try_map_coords_in_place cannot be instantiated (the impl recurses through &func at compile time) and is therefore replayed on the nine other concrete types only"]


def check(tier, seed, t0):
    st = 1
    runs = [dict(name="trees", module="Gen_Traversal", constants=dict(Stride=st, Offset=seed % st), invariants=["TravLaws"])]
    vf.simple_check("C19", tier, seed, t0, runs, RULE, ASSUME, nontrivial=lambda c: c["count"] >= 2)


def replay(path, seed, t0):
    vf.replay_file("C19", path, seed, t0)

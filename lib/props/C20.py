"""C20: results are a function of the inputs alone (memo machine Trace_Memo.tla, determinism runs)."""
import json, os, subprocess
import vf

RULE = ("The same seeded workload is executed in fresh processes with RAYON_NUM_THREADS in {1,2,3,8,16} (quick: {1,2,16}), twice "
        "inside every process: the four Boolean operations, unary_union and clip on pairs from the TLC-generated pool (Gen_BoolOps), "
        "constrained / unconstrained / ear-cut triangulations, monotone subdivision, stitch_triangulation (pool polygons, k x k separate "
        "squares, a shell with k holes), convex / concave / k-nearest concave hulls, outlier detection on random point sets, rayon "
        "par_iter / into_par_iter collect over MultiPolygon / MultiLineString / MultiPoint with 1600 members, and the parametric families "
        "of Families.tla (grids of up to 110 x 110 squares and combs of up to 4400 teeth against their translate: 2*10^4 .. 10^5 segments, "
        "beyond the overlay engine's 8 000-segment parallel split and 32 768-item parallel sort thresholds). Every call logs its key and "
        "a digest of every output coordinate bit in member / ring / vertex order; the concatenated trace must be a behaviour of the memo "
        "machine Trace_Memo.tla (a key never maps to two digests) and the family results must have the closed-form area that TLC "
        "verified against unit-cell counting. distinct_nontrivial = distinct keys observed at least 2 x processes x 2 times.")
ASSUME = ["a 64-bit FNV-1a digest over the output's f64 bit patterns, lengths and nesting stands for the output",
          "the thread count of a process is fixed by RAYON_NUM_THREADS at start; schedules inside a run are whatever the OS produces (sampled, not enumerated)",
          "hash seeds differ between processes and between HashMap instances (std RandomState), which is what exposes iteration-order dependence"]


def check(tier, seed, t0):
    threads = [1, 2, 16] if tier == "quick" else [1, 2, 3, 8, 16]
    scale = 2 if tier == "quick" else 6
    res = vf.run_tlc("C20_pool", "Gen_BoolOps", dict(constants=dict(Stride=40, Offset=seed % 40), invariants=["PoolSane"]), timeout=2400)
    vf.tlc_ok_or_die(res)
    pool = os.path.join(res["wd"], "pool.ndjson")
    if vf.extract_tagged(res["out"], "POOL", pool) == 0:
        raise vf.ToolError("empty pool")
    os.remove(res["out"])
    trace = os.path.join(vf.WORK, "C20_trace.ndjson")
    nproc = 0
    with open(trace, "w") as out:
        for rnd in range(2 if tier == "quick" else 3):
            for t in threads:
                part = os.path.join(vf.WORK, "C20_part.ndjson")
                vf.run_harness(["record", "c20", part, scale, "--seed", seed, "--pool", pool],
                               env_extra={"RAYON_NUM_THREADS": str(t), "VERIF_PROC": "%d.%d" % (rnd, t)})
                with open(part) as f:
                    out.write(f.read())
                os.remove(part)
                nproc += 1
    keys, per_key, fam_events, samples = {}, {}, 0, []
    with open(trace) as f:
        for i, line in enumerate(f):
            e = json.loads(line)
            per_key[e["key"]] = per_key.get(e["key"], 0) + 1
            kind = e["key"].split("#")[0]
            keys[kind] = keys.get(kind, 0) + 1
            fam_events += 1 if e["fam"] else 0
            if i in (0, 5):
                samples.append(e)
    nev = sum(per_key.values())
    if fam_events < 10 * nproc or len(per_key) < 100 or any(v % (2 * nproc) != 0 for v in per_key.values()):
        raise vf.ToolError("determinism workload is vacuous or unbalanced: %d keys, %d family events" % (len(per_key), fam_events))
    tres, rejected = vf.validate_trace("C20_trace", "Trace_Memo", {}, trace, timeout=1800)
    mism = []
    if rejected:
        mism.append({"kind": "mismatch", "prop": "C20", "sub": "trace_rejected:" + rejected["event"].get("key", "?").split("#")[0],
                     "case": rejected["event"],
                     "detail": {"what": "the recorded trace is not a behaviour of the memo machine: this call returned a different result "
                                        "than an earlier identical call (other process / pool size / repetition), or a family result has "
                                        "the wrong area", "event_index": rejected["index"], "seed": seed}})
    runs = [res, tres]
    # design level: the worker-pool / map-iteration model; only index-ordered merge + sorted iteration satisfies the property
    design = {}
    for m, i, expect_ok in (("index", "sorted", True), ("completion", "sorted", False), ("index", "hash", False)):
        d = vf.run_tlc("C20_design_%s_%s" % (m, i), "Determinism",
                       dict(constants=dict(W=3, C=4 if tier == "quick" else 5, Merge=m, Iter=i),
                            invariants=["ResultIsFunctionOfInput", "EveryChunkOnce"]), workers=4, timeout=900)
        violated = any("ResultIsFunctionOfInput" in e for e in d["errors"])
        if d["distinct"] is None or violated == expect_ok:
            raise vf.ToolError("design model Determinism(%s,%s): expected %s" % (m, i, "no violation" if expect_ok else "a violation"))
        design["%s/%s" % (m, i)] = {"states": d["distinct"], "ResultIsFunctionOfInput": "holds" if not violated else "violated (as expected)"}
        if expect_ok:
            runs.append(d)
    cov = {"states": sum(r["distinct"] for r in runs), "transitions": sum(r["generated"] for r in runs),
           "traces_validated_against_impl": 1, "samples": samples, "evaluations": nev, "distinct_nontrivial": len(per_key),
           "rule": RULE, "processes": nproc, "thread_counts": threads, "events_by_operation": keys, "family_events": fam_events, "design_model": design,
           "checks_passed_by_kind": {"events_accepted": (rejected["index"] - 1) if rejected else nev},
           "checks_failed_by_kind": {"trace_rejected": 1} if rejected else {}, "tlc_runs": vf.tlc_summary(runs)}
    vf.finish("C20", tier, seed, "model_checking", cov, ASSUME, t0, mism)


def replay(path, seed, t0):
    """A replay file names the rejected call; the whole determinism workload is re-run (quick tier) for that seed."""
    with open(path) as f:
        m = json.loads(f.readline())
    check("quick", int(m.get("detail", {}).get("seed", seed)), t0)

"""X01 (extension, not a listed property; not in MANIFEST.json): the Bentley-Ottmann sweep reports exactly the intersecting pairs."""
import vf

RULE = ("Gen_Sweep: one TLC state per set of 2..NSeg distinct segments of the (K+1)x(K+1) lattice (general slopes, shared end points, "
        "T-junctions, collinear overlaps, concurrent segments, vertical segments); the exact set of intersecting pairs and the kind of "
        "each (point / overlap) comes from Lattice!SegSegMeet. Replay into geo::sweep::Intersections in three input orders / "
        "directions: the reported pairs must be exactly that set, each once, with the right kind; a panic is a mismatch.")
ASSUME = ["segments are distinct and non-degenerate; coordinates 0..K"]


def check(tier, seed, t0):
    if tier == "quick":
        runs = [dict(name="k2n3", module="Gen_Sweep", constants=dict(K=2, NSeg=3, Stride=1, Offset=0), invariants=["KindSym"]),
                dict(name="k3n3", module="Gen_Sweep", constants=dict(K=3, NSeg=3, Stride=12, Offset=seed % 12), invariants=["KindSym"])]
    else:
        runs = [dict(name="k2n4", module="Gen_Sweep", constants=dict(K=2, NSeg=4, Stride=1, Offset=0), invariants=["KindSym"], timeout=3000),
                dict(name="k3n4", module="Gen_Sweep", constants=dict(K=3, NSeg=4, Stride=40, Offset=seed % 40), invariants=["KindSym"], timeout=3000)]
    vf.simple_check("X01", tier, seed, t0, runs, RULE, ASSUME, nontrivial=lambda c: len(c["pairs"]) > 0)


def replay(path, seed, t0):
    vf.replay_file("X01", path, seed, t0)

"""X02 (extension, not a listed property; not in MANIFEST.json): HasDimensions agrees with the point-set dimension."""
import vf

RULE = ("Gen_Traversal trees (all 10 types, empty members, degenerate Rect / Line, nested collections, a MultiLineString whose open "
        "members close a loop) carry Dim (PointSet.tla), the OGC boundary dimension BDim (mod-2 rule for multi-curves) and emptiness; "
        "replay into dimensions / boundary_dimensions / is_empty through the concrete types and the Geometry enum.")
ASSUME = ["valid or documented-degenerate geometries only (a polygon whose ring is collinear is not in the pool: geo classifies it by its number of distinct coordinates)"]


def check(tier, seed, t0):
    runs = [dict(name="trees", module="Gen_Traversal", constants=dict(Stride=1, Offset=0), invariants=["TravLaws"])]
    vf.simple_check("X02", tier, seed, t0, runs, RULE, ASSUME, nontrivial=lambda c: c["f"] == "affine")


def replay(path, seed, t0):
    vf.replay_file("X02", path, seed, t0)

"""X06 (extension, not a listed property; not in MANIFEST.json): see spec/Gen_Extra.tla."""
import vf

RULE = ("Gen_Extra.tla: every vertex sequence (repeats, back-tracking, closed) up to MaxN vertices on the (K+1)x(K+1) lattice, or pairs "
        "of such sequences; exact expectations for hausdorff_distance / frechet_distance (X03), chaikin_smoothing (X04), "
        "is_convex / is_strictly_convex / is_collinear against the declarative definition (X05), remove_repeated_points (X06).")
ASSUME = ["coordinates 0..K, sequences of <= MaxN vertices"]


def check(tier, seed, t0):
    big = tier == "thorough"
    if "X06" == "X03":
        runs = [dict(name="pair", module="Gen_Extra", constants=dict(K=2, MaxN=4 if big else 3, Mode="pair", Stride=1 if big else 3, Offset=seed % 3), invariants=["ExtraLaws"], timeout=3000)]
    else:
        runs = [dict(name="seq", module="Gen_Extra", constants=dict(K=2, MaxN=5 if big else 4, Mode="seq", Stride=1, Offset=0), timeout=3000),
                dict(name="seq3", module="Gen_Extra", constants=dict(K=3, MaxN=5 if big else 4, Mode="seq", Stride=4, Offset=seed % 4), timeout=3000)]
    vf.simple_check("X06", tier, seed, t0, runs, RULE, ASSUME)


def replay(path, seed, t0):
    vf.replay_file("X06", path, seed, t0)

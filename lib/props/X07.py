"""X07 (extension, not a listed property; not in MANIFEST.json): see spec/Gen_Extra2.tla."""
import json, os, sys
import vf

RULE = ("Gen_Extra2.tla, Mode = segmentize: every vertex sequence (empty, single vertex, repeats, back-tracking) of <= MaxN vertices on the "
        "(K+1)x(K+1) lattice, cut by line_segmentize(n) / line_segmentize_haversine(n) for n = 0 .. 4 (6). TLC supplies the exact squared edge "
        "lengths, whether the curve has length at all, and - when every edge has an integer length (axis-parallel and 3-4-5 edges) - the "
        "exact rational joints at distance k L / n along the path (SegLaws: joints advance, lie on their edge, the cut into 2n refines the "
        "cut into n). Judged: None exactly for n = 0; a curve without length gives None or n pieces at its point; otherwise exactly n pieces, "
        "each starting where the previous ends (1e-12), from the first to the last input vertex, the input vertices kept in order, every "
        "piece vertex on the original path in path order (1e-9), every piece total/n long and the sum the total (1e-9 relative), joints equal "
        "to the exact ones (1e-12). Inputs with a vertex repeated in place are counted under *_repeated_vertex. Haversine variant (vertices read as lon/lat degrees): count, chaining, equal Haversine lengths (1e-6 "
        "relative). distinct_nontrivial = inputs with length and at least three vertices.")
ASSUME = ["coordinates 0..K, sequences of <= MaxN vertices, 0 <= n <= NMax", "usize::MAX pieces (documented None) is not replayed"]
SUBS = ["none_for_zero_pieces", "zero_length_input", "hav_none_for_zero_pieces", "hav_zero_length_input"] + \
       [s + r for r in ("", "_repeated_vertex")
        for s in ("piece_count", "pieces_chain_from_first_to_last_vertex", "input_vertices_kept_in_order", "pieces_lie_on_the_path", "equal_piece_lengths",
                  "total_length_kept", "exact_joints", "hav_piece_count", "hav_pieces_chain", "hav_equal_piece_lengths")]
COUNTERS = ["segmentize_exact_joints_compared", "segmentize_cut_calls", "segmentize_irrational_length_inputs", "segmentize_integer_length_inputs",
            "segmentize_zero_length_inputs", "segmentize_inputs_with_345_edges"]


def runs_for(tier, seed):
    big = tier == "thorough"
    c = lambda **kw: dict(dict(Mode="segmentize", Offset=0, Stride=1, NMax=6 if big else 4, Degs="{90}", PDegs="{90}"), **kw)
    return [dict(name="k2", module="Gen_Extra2", constants=c(K=2, MaxN=5 if big else 4), invariants=["Laws"], workers=4, timeout=3000),
            dict(name="k3", module="Gen_Extra2", constants=c(K=3, MaxN=4, Stride=1 if big else 4, Offset=seed % 4), invariants=["Laws"], workers=4, timeout=3000),
            dict(name="k4", module="Gen_Extra2", constants=c(K=4, MaxN=3), invariants=["Laws"], workers=4, timeout=3000)] + \
           ([dict(name="k3n5", module="Gen_Extra2", constants=c(K=3, MaxN=5, Stride=8, Offset=seed % 8), invariants=["Laws"], workers=4, timeout=3000),
             dict(name="k4n4", module="Gen_Extra2", constants=c(K=4, MaxN=4, Stride=5, Offset=seed % 5), invariants=["Laws"], workers=4, timeout=3000)] if big else [])


def NONTRIVIAL(c):
    return not c["zero"] and len(c["cs"]) >= 3


def check(tier, seed, t0):
    try:
        vf.simple_check("X07", tier, seed, t0, runs_for(tier, seed), RULE, ASSUME, nontrivial=NONTRIVIAL, require_counters=COUNTERS)
    except SystemExit:
        # vacuity: every sub-assertion must have been evaluated at least once (passed or failed)
        cov = json.load(open(os.path.join(vf.EVIDENCE_DIR, "X07.json")))["coverage"]
        idle = [s for s in SUBS if cov["checks_passed_by_kind"].get(s, 0) + cov["checks_failed_by_kind"].get(s, 0) == 0]
        if idle:
            vf.tool_error("vacuous run: sub-assertions never evaluated: %s" % idle)
        raise


def replay(path, seed, t0):
    vf.replay_file("X07", path, seed, t0)

"""X08 (extension, not a listed property; not in MANIFEST.json): see spec/Gen_Extra2.tla."""
import json, os, sys
import vf

RULE = ("Gen_Extra2.tla, Mode = chull: every subset of <= MaxN points of the (K+1)x(K+1) lattice (also none, one, two, all collinear); TLC "
        "supplies the convex hull ring and the extreme points (Hull.tla, HullLaws on every state), the points strictly inside the hull and the "
        "non-extreme points on its boundary. ConcaveHull::concave_hull(0.5, 1, 2, 4) of MultiPoint / LineString and "
        "KNearestConcaveHull::k_nearest_concave_hull(1, 3, 4, 5, 7, 13) of Vec<Coord> / MultiPoint / [Point] / [Coord], each set in 4 orders "
        "(sorted, reversed, shuffled, every point twice): no panic, vertices are input points, no holes, every extreme point is a vertex, closed; "
        "for sets that are not collinear additionally: the exterior (consecutive repeats dropped) is a simple ring (exact integer segment "
        "tests), every input point is inside or on it (documented: 'a polygon which covers a geometry'), and for k >= number of input points "
        "the ring is the convex hull (documented), up to start and direction. The order with every point twice is counted under *_duplicated_points. distinct_nontrivial = sets with a point strictly inside the hull.")
ASSUME = ["coordinates 0..K, <= MaxN distinct points", "collinear sets: only no panic / vertices are input points / extremes kept / closed"]
SUBS = [p + "_" + s for p in ("concave", "knearest", "concave_duplicated_points", "knearest_duplicated_points") for s in ("no_panic", "vertices_are_input_points", "keeps_convex_hull_vertices", "empty_for_empty",
                                                              "closed", "simple_ring", "covers_every_input_point")] + ["knearest_convex_hull_when_k_ge_n", "knearest_duplicated_points_convex_hull_when_k_ge_n"]
SUBS = [s for s in SUBS if not s.endswith("duplicated_points_empty_for_empty")]        # the empty input has no order with duplicates
COUNTERS = ["chull_degenerate_sets", "chull_sets_with_inner_points", "chull_sets_without_inner_points", "concave_results_with_non_extreme_vertices",
            "knearest_results_with_non_extreme_vertices"]


def runs_for(tier, seed):
    big = tier == "thorough"
    c = lambda **kw: dict(dict(Mode="chull", Offset=0, Stride=1, NMax=4, Degs="{90}", PDegs="{90}"), **kw)
    return [dict(name="k2", module="Gen_Extra2", constants=c(K=2, MaxN=6), invariants=["Laws"], workers=4, timeout=3000),
            dict(name="k3", module="Gen_Extra2", constants=c(K=3, MaxN=6 if big else 5), invariants=["Laws"], workers=4, timeout=3000),
            dict(name="k4", module="Gen_Extra2", constants=c(K=4, MaxN=5 if big else 4, Stride=1 if big else 2, Offset=seed % 2), invariants=["Laws"], workers=4, timeout=3000)]


def NONTRIVIAL(c):
    return not c["collinear"] and len(c["inner"]) >= 1


def check(tier, seed, t0):
    try:
        vf.simple_check("X08", tier, seed, t0, runs_for(tier, seed), RULE, ASSUME, nontrivial=NONTRIVIAL, require_counters=COUNTERS)
    except SystemExit:
        # vacuity: every sub-assertion must have been evaluated at least once (passed or failed)
        cov = json.load(open(os.path.join(vf.EVIDENCE_DIR, "X08.json")))["coverage"]
        idle = [s for s in SUBS if cov["checks_passed_by_kind"].get(s, 0) + cov["checks_failed_by_kind"].get(s, 0) == 0]
        if idle:
            vf.tool_error("vacuous run: sub-assertions never evaluated: %s" % idle)
        raise


def replay(path, seed, t0):
    vf.replay_file("X08", path, seed, t0)

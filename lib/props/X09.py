"""X09 (extension, not a listed property; not in MANIFEST.json): see spec/Gen_Extra2.tla."""
import json, os, sys
import vf

RULE = ("Gen_Extra2.tla, Mode = xtrack: great circles whose relation to a point is exactly known (the equator; the meridian circles of "
        "longitudes that are multiples of 45 (30, 45) degrees), arcs of them from every such parameter forward by 0 .. 135 (150) degrees "
        "(also over a pole), and every point P with lon / lat multiples of 30 or 45 (15) degrees whose cross-track distance is exact: any P "
        "against the equator (|lat|), P on the equator against a meridian circle (longitude difference folded to [0, 90]), P a quarter turn in "
        "longitude away (90 - |lat|), P on the circle (0). TLC computes the foot parameter, whether it lies on the arc, else the nearer end "
        "(both on a tie), 'every point equally far' when P is a pole of the circle, and the distance where exact; XtLaws on every state "
        "(a point of the circle is its own foot, antipode and reversed circle give the same distance). Judged with 1e-6 m + 1e-9 relative: "
        "cross_track_distance(A, B) and (B, A); haversine_closest_point of Line(A, B), LineString(A, B), LineString(A, M, B): the returned point "
        "(compared on the sphere, any spelling), Closest::Intersection exactly when P lies on the arc, Haversine.distance(P, closest) = exact "
        "distance = cross_track_distance when the foot is inside. Arcs that end at a pole (to_pole) or along which the longitude jumps (over_pole), feet that coincide with an end of the arc, and intersections recognisable only up to the spelling "
        "of the point (lon +-180, longitude at a pole) are counted under their own names. distinct_nontrivial = arcs with length, P off the "
        "circle and not its pole.")
ASSUME = ["angles are multiples of 15 / 30 / 45 degrees; mean earth radius 6371008.8 m", "great circles: equator and meridian circles only"]
SUBS = ["cross_track_distance", "cross_track_distance_swapped", "cross_track_distance_on_the_circle", "cross_track_distance_swapped_on_the_circle"] + \
       [g + a + "_" + s for g in ("line", "linestring") for a in ("", "_to_pole", "_over_pole")
        for s in ("closest_is_a_point", "closest_equidistant", "closest_foot_inside", "closest_foot_at_start", "closest_foot_at_end", "closest_end",
                  "intersection_when_on_arc", "intersection_when_on_arc_other_spelling", "single_point_when_off_arc", "closest_distance",
                  "distance_is_cross_track")] + \
       [g + a + "_closest_end_tie" for g in ("line", "linestring") for a in ("", "_over_pole")]
COUNTERS = ["xtrack_cases"]


def runs_for(tier, seed):
    big = tier == "thorough"
    c = dict(Mode="xtrack", K=1, MaxN=1, Offset=0, Stride=1, NMax=1, Degs="{30, 45}" if big else "{45}", PDegs="{15}" if big else "{30, 45}")
    return [dict(name="xt", module="Gen_Extra2", constants=c, invariants=["Laws"], workers=4, timeout=3000)]


def NONTRIVIAL(c):
    return c["s"] > 0 and not c["any"] and c["xtd"] > 0


def check(tier, seed, t0):
    try:
        vf.simple_check("X09", tier, seed, t0, runs_for(tier, seed), RULE, ASSUME, nontrivial=NONTRIVIAL, require_counters=COUNTERS)
    except SystemExit:
        # vacuity: every sub-assertion must have been evaluated at least once (passed or failed)
        cov = json.load(open(os.path.join(vf.EVIDENCE_DIR, "X09.json")))["coverage"]
        idle = [s for s in SUBS if cov["checks_passed_by_kind"].get(s, 0) + cov["checks_failed_by_kind"].get(s, 0) == 0]
        if idle:
            vf.tool_error("vacuous run: sub-assertions never evaluated: %s" % idle)
        raise


def replay(path, seed, t0):
    vf.replay_file("X09", path, seed, t0)

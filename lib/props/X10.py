"""X10 (extension, not a listed property; not in MANIFEST.json): the simplification algorithms as state machines.
spec/SimplifySM.tla (actions), spec/MC_SimplifySM.tla (model-checked: every run on all small inputs), spec/Trace_SimplifySteps.tla
(recorded step traces of the real code, hooks H2/H3, validated against the same actions)."""
import json
import os
import vf

RULE = ("SimplifySM.tla: Visvalingam-Whyatt and Douglas-Peucker as state machines, one action per implementation step (VwRemove / VwStop; "
        "RdpTrivial / RdpSplit / RdpCull / RdpKeep over a stack of index intervals with the global simplified_len guard). "
        "MC_SimplifySM: TLC explores EVERY run (all tie-breaks, both branches at dmax = eps) on every vertex sequence of <= MaxN lattice "
        "vertices x 6 tolerances x {2, 4} minimum sizes, checking Shape, DonePost (terminal states satisfy C09's postconditions and are "
        "admissible outputs of Gen_Simplify's functional models - the machine refines the model) and Termination under fairness. "
        "Trace_SimplifySteps: the steps the real code reports through hooks H2/H3 (emit_step) on seeded random lattice walks of 0 - 40 "
        "vertices are replayed through the enabling conditions of the same actions; the returned result must be the terminal state.")
ASSUME = ["coordinates 0..20 (recorded) / 0..2 (model-checked); eps exact rationals", "step-level conformance is stricter than C09: "
          "it is an extension and is not part of the C09 verdict (a property-preserving reimplementation would not follow these steps)"]


def check(tier, seed, t0):
    big = tier == "thorough"
    mc = vf.run_tlc("X10_mc", "MC_SimplifySM", dict(spec="Spec", constants=dict(K=2, MaxN=5 if big else 4, Stride=9 if big else 3, Offset=seed % 3),
                                                     invariants=["Shape", "DonePost"], properties=["Termination"]), workers=8, timeout=3000)
    if mc["rc"] != 0:
        vio = [{"kind": "mismatch", "prop": "X10", "sub": "model", "case": {}, "detail": {"what": "TLC reports an error in MC_SimplifySM", "errors": mc["errors"][:5]}}]
    else:
        vio = []
    trace = os.path.join(vf.WORK, "X10_trace.ndjson")
    vf.build_harness()
    nev = 3000 if not big else 30000
    vf.run_harness(["record", "c09steps", trace, nev, "--seed", seed])
    results, rejects, n = vf.validate_events("X10_validate", "Trace_SimplifySteps", trace)
    kinds = {}
    with open(trace) as f:
        for line in f:
            e = json.loads(line)
            for s in e["rdp_steps"] + e["vw_steps"]:
                kinds[s[0]] = kinds.get(s[0], 0) + 1
    os.remove(trace)
    need = ["vw_remove", "vw_stop", "rdp_split", "rdp_cull", "rdp_keep"]
    if n < nev or any(kinds.get(k, 0) < 10 for k in need):
        raise vf.ToolError("recorded step trace is vacuous (hooks H2/H3 missing?): %s" % kinds)
    vio += [{"kind": "mismatch", "prop": "X10", "sub": "trace:" + why, "case": ev, "detail": {"what": "recorded run is not a behaviour of SimplifySM: " + why}}
            for ev, why in rejects]
    vf.finish("X10", tier, seed, "model_checking",
              {"rule": RULE, "states": (mc.get("distinct") or 0) + sum(r["distinct"] for r in results), "model_states": mc.get("distinct"), "model_depth": mc.get("depth"), "recorded_runs_validated": n, "recorded_runs_rejected": len(rejects),
               "steps_by_kind": kinds, "trace_validation_states": sum(r["distinct"] for r in results)}, ASSUME, t0, vio)


def replay(path, seed, t0):
    vf.replay_file("X10", path, seed, t0)

"""X11 (extension, not a listed property; not in MANIFEST.json): see spec/Gen_Types.tla."""
import json, os, sys
import vf

RULE = ("Gen_Types.tla: the value algebra of the geo-types primitives, as promised by their doc comments. TLC enumerates small integer inputs and "
        "computes every expected value exactly (integers, rationals num/den, the quotient rounded towards zero for the integer scalars, brackets "
        "from 3.14159 < pi < 3.14160 for degrees / radians); the harness runs the real constructors, accessors, operators, iterators and conversions "
        "for f64, f32, i64 and i32 and compares with ==. Mode pair (all pairs of coordinates on -2..3 squared, every scalar of -2..3): Coord / Point "
        "Add Sub Neg Mul Div (+ assign forms), zero, equality, x_y, dot, to_degrees / to_radians, conversions Coord <-> Point <-> tuple <-> array; "
        "geo::Vector2DOps of Coord (float scalars): wedge_product (both orders), dot_product, magnitude_squared, left / right as documented, "
        "is_finite, magnitude (exact for perfect squares, else strictly inside the integer bracket of the root), try_normalize (None exactly for the "
        "zero vector, the signed unit axis vector for axis-parallel input, else a unit vector parallel to a with its signs); "
        "geo::Convert / TryConvert: Line / LineString i32 -> i64, i32 -> f64, f32 -> f64 keep every value, i64 -> i32 is Ok for small values and, after "
        "scaling by 1 400 000 000, Ok exactly when TLC says every coordinate fits i32, else Err; "
        "Line new (argument order, three argument types), From<[(T,T);2]>, dx dy delta slope determinant start_point end_point points; Rect::new / "
        "try_new with the corners in any order = min / max, width, height, center, to_polygon and to_lines in the documented corner sequence, "
        "split_x / split_y halves with the documented corner placement (integer scalars of odd extent: the cut is one of the two neighbouring "
        "integers). Mode tri (all triples): cross_prod; Triangle::new is counter-clockwise whatever the input order (a clockwise input reversed, as "
        "in the to_polygon example), to_array, to_lines, to_polygon; Triangle::from([_; 3]) against the same promise; Rect set_min / set_max (value, "
        "or the documented panic). Mode seq (every vertex sequence of <= 4 (5) vertices): LineString is_closed, close (appends only when first != "
        "last, idempotent, empty stays empty), lines, rev_lines, triangles, points, coords, the three IntoIterator impls (+ len, rev), into_points, "
        "into_inner, Index, FromIterator, From<Vec<tuple / array / Point>>, From<Line>. Mode rings (every list of <= 3 sequences of <= 3 vertices): "
        "Polygon::new / interiors_push close every ring, exterior, interiors, into_inner, num_rings, num_interior_rings; MultiPoint / "
        "MultiLineString / MultiPolygon / GeometryCollection new, len, is_empty, iter, iter_mut, IntoIterator, FromIterator, From<Vec>, From<single>, "
        "Index; MultiLineString::is_closed (all members closed; empty: closed); Geometry: From<T> gives the variant, TryFrom<Geometry> for each of "
        "the nine concrete types from each of the ten variants is Ok(value) exactly for the matching variant, else MismatchedGeometry naming both "
        "types; the Option accessors. Laws (PairLaws, TriLaws, SeqLaws, RingsLaws) are checked by TLC on every state. distinct_nontrivial = pairs "
        "that are neither equal nor axis-parallel, non-collinear triples, sequences of >= 3 vertices, lists of >= 2 members.")
ASSUME = ["coordinates and scalars are small integers (-2..3, thorough -4..5): every f32 / f64 operation is exact or a correctly rounded quotient",
          "division of a Coord / Point by the scalar 0 is not replayed (nothing is documented)",
          "to_degrees / to_radians are judged against the bracket 3.14159 < pi < 3.14160 (exact only at 0)"]

ALL4 = """collection_default collection_eq collection_from_iter collection_from_iter_of_members collection_from_single collection_from_vec
collection_index collection_into_iter collection_is_empty collection_iter collection_iter_mut collection_len collection_new collection_new_from
collection_ref_into_iter coord_add coord_add_zero coord_div coord_eq coord_eq_zero coord_from_array coord_from_point coord_from_tuple
coord_into_array coord_into_tuple coord_mul coord_ne coord_neg coord_sub coord_x_y coord_zero geometry_from_line geometry_from_linestring
geometry_from_multilinestring geometry_from_multipoint geometry_from_multipolygon geometry_from_point geometry_from_polygon geometry_from_rect
geometry_from_triangle geometry_into_line geometry_into_line_string geometry_into_multi_line_string geometry_into_multi_point
geometry_into_multi_polygon geometry_into_point geometry_into_polygon geometry_try_from_matching geometry_try_from_mismatch line_delta
line_determinant line_dx line_dy line_end_point line_eq line_from_array line_new line_new_from_points line_new_from_tuples line_points line_slope
line_slope_reversal line_slope_vertical line_start_point linestring_close_appends linestring_close_idempotent linestring_close_keeps
linestring_closed_after_close linestring_coords linestring_coords_mut linestring_coords_rev linestring_eq linestring_from_iter
linestring_from_iter_of_tuples linestring_from_line linestring_from_line_ref linestring_from_vec_of_arrays linestring_from_vec_of_points
linestring_from_vec_of_tuples linestring_index linestring_index_mut linestring_into_inner linestring_into_iter linestring_into_points
linestring_is_closed linestring_lines linestring_lines_len linestring_mut_into_iter linestring_new linestring_num_coords linestring_points
linestring_points_iter linestring_points_len linestring_points_rev linestring_ref_into_iter linestring_ref_into_iter_len
linestring_ref_into_iter_rev linestring_rev_lines linestring_rev_lines_len linestring_triangles linestring_triangles_len
multilinestring_from_iter multilinestring_from_iter_of_vecs multilinestring_from_single multilinestring_into_iter multilinestring_is_closed
multilinestring_is_closed_empty multilinestring_iter multilinestring_iter_mut multilinestring_new multilinestring_ref_into_iter
multipoint_from_iter multipoint_from_iter_of_tuples multipoint_from_single multipoint_from_vec multipoint_from_vec_of_points multipoint_into_iter
multipoint_is_empty multipoint_iter multipoint_iter_mut multipoint_len multipoint_new multipoint_ref_into_iter multipolygon_from_iter
multipolygon_from_single multipolygon_from_vec multipolygon_into_iter multipolygon_iter multipolygon_iter_mut multipolygon_new
multipolygon_ref_into_iter point_add point_add_assign point_cross_prod point_div point_div_assign point_dot point_eq point_from_array
point_from_coord point_from_tuple point_into_array point_into_tuple point_mul point_mul_assign point_neg point_new point_set_x point_set_y
point_sub point_sub_assign point_x point_x_mut point_x_y point_y point_y_mut polygon_eq polygon_from_rect polygon_from_triangle
polygon_interiors_push polygon_interiors_push_exterior_kept polygon_interiors_push_tuples polygon_into_inner polygon_new_closes_exterior
polygon_new_exterior polygon_new_interiors polygon_num_interior_rings polygon_num_rings polygon_rings_are_closed rect_eq rect_height
rect_new_from_tuples rect_new_max rect_new_min rect_set_max rect_set_max_panics rect_set_min rect_set_min_panics rect_split_x rect_split_y
rect_to_lines rect_to_polygon rect_try_new rect_width triangle_from_array_is_ccw triangle_from_array_is_ccw_cw_input
triangle_from_array_keeps_vertices triangle_from_array_of_tuples triangle_new_collinear_keeps_vertices triangle_new_is_ccw triangle_new_order
triangle_to_array triangle_to_lines triangle_to_polygon""".split()
FLOAT_ONLY = ["line_slope_reversal_degenerate", "line_slope_reversal_vertical", "point_to_degrees", "point_to_radians", "rect_center",
              "coord_vec_wedge", "coord_vec_wedge_swapped", "coord_vec_dot", "coord_vec_magnitude_squared", "coord_vec_left", "coord_vec_right",
              "coord_vec_is_finite", "coord_vec_magnitude", "coord_vec_try_normalize_zero", "coord_vec_try_normalize_axis", "coord_vec_try_normalize"]
INT_ONLY = ["rect_split_x_odd_extent", "rect_split_y_odd_extent"]
ONCE = ["line_convert_i32_to_i64", "line_convert_i32_to_f64", "line_convert_f32_to_f64", "linestring_convert_i32_to_f64", "line_try_convert_small",
        "linestring_try_convert_fits", "linestring_try_convert_overflow"]
SUBS = ONCE + [s + x for s in ALL4 for x in ("", "_f32", "_i64", "_i32")] + [s + x for s in FLOAT_ONLY for x in ("", "_f32")] + \
       [s + x for s in INT_ONLY for x in ("_i64", "_i32")]
# one counter per group of sub-assertions (prefix of the sub-name), and one per input class that a group must have met
COUNTERS = ["types_%s_checks" % g for g in ("coord", "point", "line", "rect", "triangle", "linestring", "polygon", "multipoint", "multilinestring",
                                             "multipolygon", "collection", "geometry")] + \
           ["types_pair_cases", "types_tri_cases", "types_seq_cases", "types_rings_cases", "types_vertical_lines", "types_rect_odd_integer_splits",
            "types_triangle_ccw_inputs", "types_triangle_cw_inputs", "types_triangle_collinear_inputs", "types_close_appended",
            "types_close_already_closed", "types_close_empty", "types_rings_empty_lists", "types_rings_nonempty_lists"]


def runs_for(tier, seed):
    big = tier == "thorough"
    c = lambda **kw: dict(dict(NegLo=2, Hi=3, SNegLo=1, SHi=1, MaxN=4, RingK=2, RingN=3, MaxR=3, Stride=1, Offset=0), **kw)
    r = lambda name, **kw: dict(name=name, module="Gen_Types", constants=c(**kw), invariants=["Laws"], workers=4, timeout=3000)
    if not big:
        return [r("pair", Mode="pair"), r("tri", Mode="tri"), r("seq", Mode="seq"), r("seq3", Mode="seq", SNegLo=2, SHi=3, MaxN=3),
                r("rings", Mode="rings")]
    return [r("pair", Mode="pair", NegLo=4, Hi=5), r("tri", Mode="tri", NegLo=3, Hi=4),
            r("seq", Mode="seq", SNegLo=1, SHi=2, MaxN=4), r("seq5", Mode="seq", MaxN=5),
            r("rings", Mode="rings", RingK=3), r("rings4", Mode="rings", RingN=4)]


def NONTRIVIAL(c):
    op = c["op"]
    if op == "types_pair":
        return c["dx"] != 0 and c["dy"] != 0
    if op == "types_tri":
        return c["orient"] != 0
    if op == "types_seq":
        return c["n"] >= 3
    return c["n"] >= 2


def check(tier, seed, t0):
    try:
        vf.simple_check("X11", tier, seed, t0, runs_for(tier, seed), RULE, ASSUME, nontrivial=NONTRIVIAL, require_counters=COUNTERS)
    except SystemExit:
        # vacuity: every sub-assertion must have been evaluated at least once (passed or failed), and no unlisted one may appear
        cov = json.load(open(os.path.join(vf.EVIDENCE_DIR, "X11.json")))["coverage"]
        seen = set(cov["checks_passed_by_kind"]) | set(cov["checks_failed_by_kind"])
        idle = [s for s in SUBS if s not in seen]
        if idle:
            vf.tool_error("vacuous run: sub-assertions never evaluated: %s" % idle)
        extra = sorted(seen - set(SUBS) - {"panic_outside_guard"})
        if extra:
            vf.tool_error("sub-assertions not listed in lib/props/X11.py: %s" % extra)
        raise


def replay(path, seed, t0):
    vf.replay_file("X11", path, seed, t0)

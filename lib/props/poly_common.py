"""Gen_Poly runs shared by C05 / C06 / C14 / C10 / C12."""


BIG = dict(name="big", module="Gen_Poly", constants=dict(K=1, MaxV=3, WithHoles=False, HoleMinA2=0, BigN="{8, 65, 130}"), invariants=["ShellOK"])


def poly_runs(tier):
    return _runs(tier) + [BIG]


def _runs(tier):
    if tier == "quick":
        return [dict(name="g3v5", module="Gen_Poly", constants=dict(K=3, MaxV=5, WithHoles=True, HoleMinA2=0, BigN="{}"), invariants=["ShellOK"]),
                dict(name="g4v4big", module="Gen_Poly", constants=dict(K=4, MaxV=4, WithHoles=True, HoleMinA2=20, BigN="{}"), invariants=["ShellOK"])]
    return [dict(name="g3v6", module="Gen_Poly", constants=dict(K=3, MaxV=6, WithHoles=True, HoleMinA2=0, BigN="{}"), invariants=["ShellOK"], timeout=3000),
            dict(name="g4v4", module="Gen_Poly", constants=dict(K=4, MaxV=4, WithHoles=True, HoleMinA2=0, BigN="{}"), invariants=["ShellOK"], timeout=3000)]

"""Gen_Poly runs shared by C05 / C06 / C14 / C10 / C12."""


BIG = dict(name="big", module="Gen_Poly", constants=dict(K=1, MaxV=3, WithHoles=False, HoleMinA2=0, BigN="{8, 65, 130}"), invariants=["ShellOK"])


# long rectangles W x 5 with a vertex at every integer x of the top side (W + 4 coordinates, small coordinates): sizes around the
# powers of two (up to 9005 coordinates) at which implementations like to switch strategy, with every remainder modulo 4 (BigN entry = 100000 + W)
HUGE = dict(name="huge", module="Gen_Poly", constants=dict(K=1, MaxV=3, WithHoles=False, HoleMinA2=0, BigN="{100066, 101027, 101500, 104500, 109001}"),
            invariants=["ShellOK"], workers=4)


def poly_runs(tier, huge=False):
    return _runs(tier) + [BIG] + ([HUGE] if huge else [])


def _runs(tier):
    if tier == "quick":
        return [dict(name="g3v5", module="Gen_Poly", constants=dict(K=3, MaxV=5, WithHoles=True, HoleMinA2=0, BigN="{}"), invariants=["ShellOK"]),
                dict(name="g4v4big", module="Gen_Poly", constants=dict(K=4, MaxV=4, WithHoles=True, HoleMinA2=20, BigN="{}"), invariants=["ShellOK"])]
    return [dict(name="g3v6", module="Gen_Poly", constants=dict(K=3, MaxV=6, WithHoles=True, HoleMinA2=0, BigN="{}"), invariants=["ShellOK"], timeout=3000),
            dict(name="g4v4", module="Gen_Poly", constants=dict(K=4, MaxV=4, WithHoles=True, HoleMinA2=0, BigN="{}"), invariants=["ShellOK"], timeout=3000)]

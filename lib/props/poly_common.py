"""Gen_Poly runs shared by C05 / C06 / C14 / C10 / C12."""


def poly_runs(tier):
    if tier == "quick":
        return [dict(name="g3v5", module="Gen_Poly", constants=dict(K=3, MaxV=5, WithHoles=True, HoleMinA2=0), invariants=["ShellOK"]),
                dict(name="g4v4big", module="Gen_Poly", constants=dict(K=4, MaxV=4, WithHoles=True, HoleMinA2=20), invariants=["ShellOK"])]
    return [dict(name="g3v6", module="Gen_Poly", constants=dict(K=3, MaxV=6, WithHoles=True, HoleMinA2=0), invariants=["ShellOK"], timeout=3000),
            dict(name="g4v4", module="Gen_Poly", constants=dict(K=4, MaxV=4, WithHoles=True, HoleMinA2=0), invariants=["ShellOK"], timeout=3000)]

"""C01 / C02 / C17(pairs) share the Gen_Relate case generator."""
import json, os
import vf

ASSUME = [
    "witness-lattice theorem (DESIGN.md 3.2): on octilinear operands the DE-9IM cell dimension is the maximum Kind over fine-lattice witnesses",
    "exact maps (D4, integer shears/translations, power-of-two scalings) are computed without rounding in f64 and preserve DE-9IM",
    "catalogue shapes have <= 6 vertices per ring on the 3x3 / 4x4 vertex grid; larger inputs only through exact affine images",
]


def runs_for(tier, seed, emit):
    """(name, constants) per TLC run."""
    if tier == "quick":
        base_stride, holes_stride = 40, 12
    else:
        base_stride, holes_stride = 3, 2
    runs = [("base", dict(N=2, Profile="base", Stride=base_stride, Offset=seed % base_stride, Emit=emit)),
            ("holes", dict(N=3, Profile="holes", Stride=holes_stride, Offset=seed % holes_stride, Emit=emit)),
            # operands with 10 - 50 segments (multi-level segment R-trees); 22 x 22 pairs
            ("big", dict(N=10, Profile="big", Stride=2 if tier == "quick" else 1, Offset=seed % 2 if tier == "quick" else 0, Emit=emit))]
    return runs


def nontrivial_relate(cases_path):
    """distinct ordered pairs whose operands really interact (true matrix says they intersect)"""
    seen = set()
    n = 0
    with open(cases_path) as f:
        for line in f:
            c = json.loads(line)
            if c.get("op") == "relate" and c["pred"]["i"]:
                k = json.dumps([c["a"], c["b"]], sort_keys=True)
                if k not in seen:
                    seen.add(k)
                    n += 1
    return n


def run(pid, tier, seed, t0, emits, level_rule):
    runs, mism_all, passc, failc, extra, samples = [], [], {}, {}, {}, []
    ncases = nontriv = 0
    for emit in emits:
        for name, consts in runs_for(tier, seed, emit):
            res, n, mism, summ = vf.gen_and_replay("%s_%s_%s" % (pid, name, emit), "Gen_Relate", consts, [pid], seed,
                                                   invariants=["OracleSane", "ShortcutRefines", "UniverseOK"], timeout=3000 if tier == "thorough" else 900)
            runs.append(res)
            ncases += n
            mism_all += mism
            vf.merge_counts(passc, summ["pass"])
            vf.merge_counts(failc, summ["fail"])
            vf.merge_counts(extra, summ["extra"])
            samples += summ["samples"][:2]
            nontriv += nontrivial_relate(res["cases_path"]) + summ["extra"].get("coordpos_cases", 0)
            os.remove(res["cases_path"])
    # further families with exact expectations that do not come from the catalogue
    more = [("relpert", "Gen_RelPert", dict(SeedLo=1 + 300 * (seed % 7), SeedHi=(150 if tier == "quick" else 1500) + 300 * (seed % 7)), ["SignsStructural"])]
    more.append(("relbig", "Gen_RelBig", dict(Sizes="{4, 66, 130, 1030, 2100, 4200}"), ["SmallAgrees"]))
    if pid == "C02":
        st = 8 if tier == "quick" else 1
        more.append(("segments", "Gen_Segments", dict(K=3, Stride=st, Offset=seed % st), ["RelLaws"]))
    for name, module, consts, invs in more:
        res, n, mism, summ = vf.gen_and_replay("%s_%s" % (pid, name), module, consts, [pid], seed, invariants=invs, timeout=3000 if tier == "thorough" else 900)
        runs.append(res)
        ncases += n
        nontriv += n
        mism_all += mism
        vf.merge_counts(passc, summ["pass"]); vf.merge_counts(failc, summ["fail"]); vf.merge_counts(extra, summ["extra"])
        os.remove(res["cases_path"])
    # pinned cases of known findings (exact inputs; see findings/known_findings.jsonl)
    pinned = os.path.join(vf.VERIF, "findings", "pinned_cases.ndjson")
    if pid == "C01" and os.path.exists(pinned):
        outp = os.path.join(vf.WORK, "C01_pinned_results.ndjson")
        vf.run_harness(["replay", pinned, outp, "--seed", seed, "--props", pid])
        mm, summ, _ = vf.read_results(outp)
        mism_all += mm
        vf.merge_counts(passc, summ["pass"]); vf.merge_counts(failc, summ["fail"])
    cov = {
        "states": sum(r["distinct"] for r in runs),
        "transitions": sum(r["generated"] for r in runs),
        "traces_validated_against_impl": ncases,
        "samples": samples[:4],
        "evaluations": sum(passc.values()) + sum(failc.values()),
        "distinct_nontrivial": nontriv,
        "rule": level_rule,
        "checks_passed_by_kind": passc,
        "checks_failed_by_kind": failc,
        "harness_counters": extra,
        "tlc_runs": vf.tlc_summary(runs),
        "exhaustive": tier == "thorough" and False,
    }
    vf.finish(pid, tier, seed, "model_checking", cov, ASSUME, t0, mism_all)

"""What MANIFEST.json claims.  One entry per property with a working check."""
HOOK_COMMITS = ["4df701df", "5e06587e", "df12885e"]
NOTES = ("All checks: bin/check <id> --tier quick|thorough; exit 0 held / 1 VIOLATION / 2 tool error. Expected values are "
         "always computed by TLC from the TLA+ specification in /verif/spec; the Rust harness only executes and compares. "
         "Known findings: /verif/findings/known_findings.jsonl.")
NOT_APPLICABLE = {}
_TB = ("Trusted: TLC, the witness-lattice theorem of DESIGN.md 3.2 (finite evaluation = real-plane DE-9IM on octilinear input), "
       "exactness of the affine maps used as variants, serde_json, and the 200-line dispatch of the harness. Scope: exhaustive over "
       "rings with <= 6 vertices on 3x3 / 4x4 vertex grids and <= 3 members per collection; beyond that parametric families with "
       "closed-form expectations (operands of 10 - 50 segments), exact affine images for magnitude, and the perturbed-degenerate "
       "family Gen_RelPert (one-ulp offsets, 53-bit mantissas); every case in many spellings (DESIGN.md 0.4).")
CHECKS = {
 "C01": dict(
    text=("TLC enumerates ordered pairs of valid geometries of all 10 types (one state per pair) and computes the true DE-9IM "
          "matrix from the point-set definition (PointSet.tla); every pair is replayed into relate() (concrete, Geometry enum, "
          "transposed, representation variants, exact affine images) and must match exactly. Exhaustive over the catalogue in "
          "the thorough tier, strided sample (seeded) in the quick tier. The accessors of the returned matrix (get, matches, is_*) are "
          "compared with their OGC definitions evaluated by TLC; Gen_RelPert adds lines leaving a triangle vertex one ulp off an edge."),
    note=_TB, technique="TLA+ point-set DE-9IM oracle enumerated by TLC; spec->impl replay", design_ref="DESIGN.md 5 C01, 3.2"),
 "C02": dict(
    text=("Masks of the TLC-computed true matrix decide intersects/contains/within for every implemented type pair (concrete, "
          "Geometry, Coord operands, swapped, variants, exact maps); Pos(g,p) for every fine-lattice point decides "
          "coordinate_position / intersects(coord) / contains(coord). Also: every pair of lattice segments of Gen_Segments (zero-length "
          "ones included) through intersects in 15 spellings, the named predicates of the returned IntersectionMatrix, Gen_RelPert."),
    note=_TB, technique="TLA+ Pos / DE-9IM masks enumerated by TLC; spec->impl replay", design_ref="DESIGN.md 5 C02"),
 "C04": dict(
    text=("Generate -> execute -> validate. Gen_BoolOps.tla: TLC enumerates candidate operands on the octilinear witness lattice and keeps "
          "the valid ones (simple rings, shells with 1-2 holes incl. point contacts, two-member multipolygons, simple line strings). The "
          "harness only forms pairs / collections, applies representation variants and exact maps, calls intersection / union / "
          "difference / xor / boolean_op, unary_union and clip, and logs operands and results. Trace_BoolOps.tla judges every recorded "
          "call from the point-set definition (one TLC state per event): membership of every face witness of the arrangement equals the "
          "Boolean combination, result members do not overlap, exteriors ccw / holes cw, rings closed, exact area (the area identities), "
          "unary_union = union of members = fold of pairwise unions, clip keeps exactly the inside (inverted: outside) edge witnesses, "
          "boundary runs in exactly one of the two, lengths add up."),
    note=("Trusted: TLC, the witness-lattice theorem (DESIGN.md 3.2), exactness of the maps, the harness's variant builders and the lattice "
          "projection of results (integers up to 1e-6, else 1/16 grid with membership-only judgement). Scope: rings <= 6 edges on the "
          "3x3 grid, shells on the 4x4 grid with <= 2 holes, <= 4 members for unary_union; the overlay engine itself is a black box."),
    technique="TLA+ point-set region semantics; TLC-generated operand pool; recorded calls validated by TLC (trace validation)", design_ref="DESIGN.md 5 C04"),
 "C10": dict(
    text=("Generate -> execute -> validate. Polygons from two TLC-generated pools (Gen_BoolOps: valid octilinear polygons / multipolygons "
          "with holes incl. point contacts; Gen_Poly: all simple general-slope lattice polygons with <= 5 vertices, 0-2 holes) are "
          "triangulated (ear-cut, constrained / unconstrained / outer Delaunay in both trait generations), stitched back and subdivided "
          "into monotone pieces by geo under exact maps; Trace_Tiling.tla judges every recorded call with exact integer predicates: "
          "corners are polygon vertices, open triangles pairwise disjoint (separating edge), each inside the polygon (centroid + no "
          "boundary edge meets the open triangle), areas add up exactly; unconstrained triangles tile the hull; monotone pieces: "
          "vertices only, x-monotone chains, exact area, witness membership, and intersects(coordinate) for all 225 fine-lattice "
          "points equals Pos(P,c) # E; stitched multipolygon covers the same witnesses with the same exact area."),
    note=("Trusted: TLC, the separating-axis criterion for convex sets in the plane, exactness of the maps. Monotone pieces are judged by "
          "necessary conditions (area + witnesses), not by an exact tiling criterion. Scope: <= 14 vertices per polygon, coordinates 0..12."),
    technique="TLA+ exact tiling predicates; TLC-generated polygon pools; recorded calls validated by TLC (trace validation)", design_ref="DESIGN.md 5 C10"),
 "C20": dict(
    text=("Trace_Memo.tla is the memo machine (a call key never maps to two result digests); the same seeded workload - Boolean "
          "operations, unary_union, clip, triangulations, monotone subdivision, stitching, convex / concave / k-nearest hulls, outlier "
          "scores and ensembles, rayon iterators over the Multi* types, and the parametric families of Families.tla with 2*10^4..10^5 "
          "segments (beyond the overlay engine's parallel thresholds) - is recorded in fresh processes under RAYON_NUM_THREADS = 1, 2, "
          "3, 8, 16, twice per process, and the concatenated trace is validated as one chain; family results must also have the "
          "closed-form area that TLC proved against unit-cell counting. Determinism.tla model-checks the design alternatives "
          "(index- vs completion-ordered merge of W workers, sorted vs hash iteration) over all interleavings: only index/sorted "
          "satisfies ResultIsFunctionOfInput; the traces decide which variant the code is."),
    note=("Trusted: TLC; a 64-bit digest stands for the output bits. Schedules inside a run are sampled by the OS, not enumerated: the "
          "exhaustive part is the design model (3 workers, 4-5 chunks), the binding is the multi-process trace. The overlay engine's "
          "internals are not modelled."),
    technique="TLA+ memo machine: chained trace validation of multi-process determinism runs + TLC model of merge / iteration order", design_ref="DESIGN.md 5 C20"),
 "C16": dict(
    category="other",
    text=("(A) Gen_Sphere.tla: a step machine in integer quarter degrees (longitude wrap with both antimeridian spellings, bearing "
          "normalisation, reflection over a pole, rhumb parallels at 0 / +-60 deg, rhumb meridians) whose every reachable state - "
          "40 600 axis journeys on the 15 deg grid, 371 680 on the 5 deg grid - is one replay case with exact integer expectations for "
          "destination, distance, bearing, round trip, ratio points, points_along_line and Length in Haversine (default and custom "
          "radius), Rhumb, Geodesic (equator exactly, meridians relationally) and the legacy traits; TLC holds the machine to its "
          "closed form on every state. (B) Trace_Sphere.tla judges 10^5 (5*10^5) recorded probes of random point pairs / line strings "
          "per run, each event independently in two-limb integer arithmetic over geo's own quantised outputs: non-negativity, "
          "d(a,a) = 0, symmetry, bearing range, round-trip closure <= 1 mm, ratio division and additivity <= 1 mm, Length = sum."),
    note=("Level 'other': TLA+ has no trigonometry, so away from the exact axis journeys the specification only relates geo's outputs to "
          "each other; an error common to distance, bearing and destination is invisible to (B), and numeric accuracy against geodetic "
          "ground truth is not covered. Laws are demanded away from poles / antipodes as the property says; nearly east-west rhumb "
          "courses are exempted for random pairs and probed by three pinned events (known findings KF-04..06). Trusted: TLC, the "
          "pi R / 180 unit conversion and f64 quantisation in the harness."),
    technique="TLA+ axis-journey step machine enumerated by TLC (spec->impl replay) + relational laws as a TLC trace validator (impl->spec)", design_ref="DESIGN.md 5 C16"),
 "C12": dict(
    text=("closest_point: Gen_Closest.tla enumerates geometry x lattice query point (77-entry catalogue of all 10 types incl. holes "
          "touching the shell, C/L/U/comb shapes, slivers, nested collections, empty and zero-length input; every Line / Rect / "
          "Triangle / 3-vertex LineString on small lattices; every simple lattice polygon of Gen_Poly alone, pairwise and in mixed "
          "collections) and decides the required answer exactly: Intersection iff Pos(g,p) # E, else the rational squared distance "
          "and the SET of admissible nearest points; Indeterminate only for empty / zero-length input; ClosestLaws is an invariant. "
          "Replay through concrete impls, the Geometry enum, representation variants and exact similarity maps. interior_point: the "
          "same geometries are executed and every distinct answer is an event (geometry and point x 2^11 as integers) judged by "
          "Trace_Interior.tla: None iff empty, never exterior, strictly interior where the geometry has interior of its own "
          "dimension; a panic on valid input is rejected."),
    note=("Trusted: TLC, PointSet!Pos / Segs, Lattice rationals, exactness of f64 x 2^11. Returned points off the 2^-11 lattice are judged "
          "through their rounded image only when it is >= sqrt 2 lattice units from every segment, else counted undecided (never "
          "rejected; > 2% undecided is a tool error). Flat Triangles and collections with a zero-length member are outside the "
          "enumerated domain (geo's own validation rejects them); for two-vertex curves only 'intersects' is demanded, as geo documents "
          "an endpoint there."),
    technique="TLA+ exact nearest-point set enumerated by TLC (spec->impl replay) + interior points judged by a TLC trace validator", design_ref="DESIGN.md 5 C12"),
 "C18": dict(
    text=("PolySession.tla is the state machine of Polygon / LineString / Rect under the public constructor and mutator calls "
          "(closures = edit sequences + Ok/Err exit). TLC model-checks RingsClosed and RectOrdered over all histories within the "
          "constants; every transition of the state graph becomes one implementation test (pre-state built through the API, action "
          "executed, post-state compared); simulated 20-call behaviours are replayed from Init; seeded random histories recorded "
          "from the real API are validated as a chain against Trace_PolySession (diameter post-condition, invariants in every state). "
          "Apalache additionally discharges RingsClosed /\\ RectOrdered as an inductive invariant of the typed restatement PolyInd.tla "
          "(closures abstracted to any resulting ring + Ok/Err; unbounded coordinates and history length) and refutes the "
          "early-return-on-Err variant."),
    note=("Trusted: TLC; the edit language (push/pop/clear/set/insert + exit) as a stand-in for arbitrary closures; closures that "
          "panic are not modelled. The invariant is inductive in the model; bounds NC<=4 coordinates, rings <= 4(+1), <= 3 holes."),
    technique="TLA+ state machine: TLC invariants + per-transition replay + chained trace validation", design_ref="DESIGN.md 5 C18"),
 "C17": dict(
    text=("Trace_Prepared.tla: session of prepared handles (geometry + cache fingerprint taken at Prepare); Relate(a,b) must return "
          "the DE-9IM of the plain operands (computed by TLC from the point-set definition) and leave every cache fingerprint "
          "unchanged. Seeded random histories recorded from the real API (hook H4) are validated as one chain; in addition the "
          "TLC-enumerated pairs of C01 are replayed through 7 prepared forms each."),
    note=_TB + " Hook H4 exposes the cached graph (nodes, edges, labels, edge intersections) as a fingerprint.",
    technique="TLA+ session machine; chained trace validation of recorded histories + spec->impl replay", design_ref="DESIGN.md 5 C17"),
 "C05": dict(
    text=("TLC enumerates all simple lattice polygons (state space = simple paths closed in canonical form, 0-2 holes) with exact "
          "integer shoelace areas; replay demands exact equality for signed/unsigned area in every winding combination, Rect / "
          "Triangle / MultiPolygon / nested GeometryCollection sums, winding_order (also with repeated vertices, rotated start), "
          "orient in both directions, and rounding-level agreement under exact affine maps (offset 1e8, 2^k)."),
    note="Trusted: TLC integer arithmetic; areas are integers/2 below 2^53 so f64 equality is exact. Small scope: <= 6 vertices on 4x4, <= 4 on 5x5 lattice.",
    technique="TLA+ exact shoelace over TLC-enumerated polygons; spec->impl replay", design_ref="DESIGN.md 5 C05"),
 "C06": dict(
    text=("Gen_Centroid.tla defines the centroid as an exact rational by dimension dominance (WC/Merge - also the accumulator state "
          "machine of CentroidOperation) over TLC-enumerated geometry trees of all 10 types incl. empty / degenerate members; TLC "
          "checks fold-order and nesting independence on every state; each tree and every lattice polygon (Gen_Poly) is replayed "
          "(Geometry enum, concrete impls, exact similarity maps)."),
    note="Trusted: TLC; 1-D members restricted to integer-length segments; tolerance 8e-9 on a 4-unit extent.",
    technique="TLA+ exact rational centroid (dimension-dominance accumulator) enumerated by TLC; spec->impl replay", design_ref="DESIGN.md 5 C06"),
 "C07": dict(
    text=("Gen_Distance.tla defines Dist2 as an exact rational (0 iff the operands share a point by exact predicates, else the "
          "minimum over segment pairs) and TLC enumerates ~6 500 operand pairs over all 10 types at 20 relative offsets "
          "(inside a hole, nested, touching, crossing, vertex/edge/parallel approach), checking symmetry and zero-iff-shared on "
          "every state; replay through every concrete pair, swapped, Geometry enum, representation variants, similarity maps."),
    note="Trusted: TLC rational arithmetic (cross-multiplied comparison, products < 2^31). Tolerance 1e-9 relative on d^2; exact zero demanded.",
    technique="TLA+ exact rational minimum distance enumerated by TLC; spec->impl replay", design_ref="DESIGN.md 5 C07"),
 "C03": dict(
    text=("Gen_Kernel.tla: orientation of ulp-perturbed exactly-collinear triples decided as the sign of a perturbation polynomial "
          "(exact integer coefficients, identity checked by TLC); derived exact answers for point-on-segment, point-in-ring / "
          "polygon / triangle, segment intersects and winding order; replayed in one binade and with coordinates of mixed "
          "magnitude (differences not representable), at scales 2^30 / 2^-40; lattice triples at 2^52 / 2^-500 and through the "
          "i64 / i32 kernels."),
    note=("'All finite f64' cannot be enumerated: exactness is decided on lattice*2^k and the perturbed-degenerate family (where naive "
          "arithmetic is known to flip). Trusted: TLC; u is one ulp of the chosen binade; harness constructs base + k*u exactly."),
    technique="TLA+ symbolic-infinitesimal orientation (polynomial sign) enumerated by TLC; spec->impl replay", design_ref="DESIGN.md 5 C03, 3.3"),
 "C11": dict(
    text=("Gen_Segments.tla: exact relation of every ordered pair of lattice segments (none / collinear sub-segment / point with exact "
          "rational, proper flag), order- and direction-independence checked by TLC on every state; replay in 3 operand orders under "
          "exact maps: class, bit-identical improper endpoint, overlap up to direction, proper point within 4 ulp and inside both "
          "boxes, agreement with intersects; plus ulp-perturbed classification from Gen_Kernel."),
    note="Trusted: TLC; rational crossing evaluated in f64 by the harness (one division). 4x4 lattice exhaustively, larger magnitudes via exact maps.",
    technique="TLA+ exact segment relation enumerated by TLC; spec->impl replay", design_ref="DESIGN.md 5 C11"),
 "C08": dict(
    text=("Gen_Hull.tla defines the hull declaratively (extreme points by Caratheodory walked ccw); TLC checks on every subset of the "
          "lattice that the ring is strictly convex, made of input points and contains them all, and computes the exact minimum "
          "rotated-rectangle area; each subset is replayed in 5 orders (incl. duplicates) into quick_hull / graham_hull / convex_hull "
          "for f64 (exact maps) and i64, and into minimum_rotated_rect."),
    note="Trusted: TLC. All subsets of <= 5 (7 thorough) points of the 4x4 lattice and <= 4 (5) of the 5x5 lattice; larger magnitudes via exact maps.",
    technique="TLA+ declarative hull + exact min-rectangle enumerated by TLC; spec->impl replay", design_ref="DESIGN.md 5 C08"),
 "C09": dict(
    text=("Gen_Simplify.tla: nondeterministic exact models of compute_rdp (with the global simplified_len guard) and of the "
          "Visvalingam-Whyatt loop; TLC computes the set of admissible outputs for every vertex sequence of the 3x3 lattice x 6 "
          "tolerances and proves on every state that each admissible output satisfies the stated postconditions (model => "
          "property); the implementation's index and coordinate variants must be members of the set, agree with each other, be "
          "the identity for eps <= 0, and keep rings closed / >= 4 coordinates. Inputs far longer than the enumerated ones "
          "(random lattice walks of 0 - 80 vertices, open and closed) are recorded from the real API and Trace_Simplify.tla "
          "evaluates the property's postconditions exactly on every recorded call (one TLC state per call)."),
    note="Trusted: TLC rational arithmetic. Ties (equal distances / areas, dmax = eps) are modelled as nondeterminism, so float rounding at ties cannot raise an alarm.",
    technique="TLA+ nondeterministic algorithm models (admissible-output sets) checked against postconditions by TLC; spec->impl replay + recorded calls validated by TLC", design_ref="DESIGN.md 5 C09"),
 "C14": dict(
    text=("Gen_Valid.tla states OGC validity as exact predicates on the witness lattice and enumerates valid and invalid shapes: all "
          "closed octilinear walks as rings (bow-tie, spike, flat, self-touching), shells with one or two candidate holes in every "
          "relative position, all pairs of simple rings as MultiPolygons, plus every general-slope lattice polygon from Gen_Poly. "
          "Replay demands is_valid = verdict, validation_errors non-empty iff invalid, every reported error to name rings / members "
          "that really have that defect, and NonFiniteCoord for injected NaN / infinities."),
    note=_TB + " Repeated consecutive vertices and interior connectedness are outside what the property fixes and are not generated / demanded.",
    technique="TLA+ validity predicates (witness lattice) enumerated by TLC over valid and invalid shapes; spec->impl replay", design_ref="DESIGN.md 5 C14"),
 "C15": dict(
    text=("Gen_LineMeasure.tla: exact arc-length parametrisation (PointAt) over integer-length-segment line strings incl. repeated "
          "vertices; the implementation-shaped distance_remaining walk is checked against it by TLC on every state; replay of "
          "ratio/distance x from-start/from-end forms on LineString and Line, line_locate_point round trip, length, and densify "
          "postconditions (vertices kept in order, max segment length, total length, minimal piece count) on all densifiable types."),
    note="Trusted: TLC. Segment lengths are integers by construction; tolerance 1e-12 x length. Densify outputs are held to the four stated postconditions, not to a particular subdivision.",
    technique="TLA+ exact arc-length parametrisation + walk model checked by TLC; spec->impl replay", design_ref="DESIGN.md 5 C15"),
 "C19": dict(
    text=("Gen_Traversal.tla defines traversal, exterior traversal, line pairs, mapping and bounding box by structural recursion over "
          "geometry trees; TLC checks their mutual laws on every tree and emits expected values; replay through the Geometry enum "
          "and every concrete type incl. fallible mapping functions failing at every call position, bounding_rect and extremes."),
    note="Trusted: TLC. Trees of <= 3 members (nesting depth <= 3) over a 20-entry pool; 4 coordinate functions. Exact equality (integer coordinates).",
    technique="TLA+ structural recursion over geometry trees enumerated by TLC; spec->impl replay", design_ref="DESIGN.md 5 C19"),
 "C13": dict(
    text=("Gen_Affine.tla: the AffineTransform builder as a TLA+ state machine over integer matrices; TLC checks the algebraic laws "
          "(compose = then, inverse undoes, origins are fixed points) on every reachable state and every transition becomes an "
          "implementation test (matrix, constructors, apply, compose_many, inverse / None iff singular, i64, trait forms pure / "
          "in-place / around point, centre, centroid). Commutation clause: the implementation's own relate / intersects / contains / "
          "coordinate_position answers, areas and distances must be unchanged / scaled exactly under exact maps."),
    note="Trusted: TLC. Integer matrices only (quarter turns, 45-degree skews); general float matrices are reached only through these exact ones. Tolerance 1e-12 on trigonometric entries.",
    technique="TLA+ builder state machine, laws checked by TLC, per-transition replay; commutation by exact maps", design_ref="DESIGN.md 5 C13"),
}

"""Shared machinery for /verif/bin/check: TLC runs, case extraction, harness runs, known
findings, evidence.  Exit codes: 0 held, 1 violation (with VIOLATION line), 2 tool error."""
import json, os, re, subprocess, sys, time, hashlib, shutil

VERIF = os.path.dirname(os.path.dirname(os.path.abspath(__file__)))
SPEC = os.path.join(VERIF, "spec")
# The three overrides below exist only for mutation testing in a scratch copy (bin/seedbg): the
# registered checks never set them and always build against /repo and write /verif/evidence.
WORK = os.environ.get("VERIF_WORK_DIR") or os.path.join(VERIF, "work")
HARNESS = os.environ.get("VERIF_HARNESS_DIR") or os.path.join(VERIF, "harness")
EVIDENCE_DIR = os.environ.get("VERIF_EVIDENCE_DIR") or os.path.join(VERIF, "evidence")
HBIN = os.path.join(HARNESS, "target", "release", "geoharness")
KF_FILE = os.path.join(VERIF, "findings", "known_findings.jsonl")
JAVA_CP = "/opt/veriftools/tla/tla2tools.jar:/opt/veriftools/tla/CommunityModules-deps.jar"


class ToolError(Exception):
    pass


class HarnessHang(Exception):
    """a call into geo did not return within the watchdog limit: data (a violation), not a tool error"""
    def __init__(self, info):
        Exception.__init__(self, ("panic: %s" % info["panic"]) if "panic" in info else "no return within %ss" % info.get("limit_s"))
        self.info = info


def log(*a):
    print(*a, flush=True)


def tool_error(msg):
    log("TOOL-ERROR:", msg)
    sys.exit(2)


def build_harness():
    """Rebuild the harness against /repo's current working tree with the hook cfg on."""
    t0 = time.time()
    env = dict(os.environ, CARGO_NET_OFFLINE="true")
    r = subprocess.run(["cargo", "build", "--release", "--offline"], cwd=HARNESS, env=env,
                       stdout=subprocess.PIPE, stderr=subprocess.STDOUT, text=True)
    if r.returncode != 0:
        log(r.stdout[-4000:])
        tool_error("harness build failed (does /repo still compile?)")
    return time.time() - t0


def write_cfg(path, spec="Spec", constants=None, invariants=(), properties=(), constraints=(),
              postcondition=None, view=None, deadlock=False, init=None, next_=None, extra=""):
    lines = []
    if init:
        lines += ["INIT " + init, "NEXT " + next_]
    else:
        lines.append("SPECIFICATION " + spec)
    if constants:
        lines.append("CONSTANTS")
        for k, v in constants.items():
            if isinstance(v, bool):
                v = "TRUE" if v else "FALSE"
            elif isinstance(v, str) and not v.startswith(("{", "<<", "[")) and not re.fullmatch(r"-?\d+|TRUE|FALSE", v):
                v = '"%s"' % v
            lines.append("  %s = %s" % (k, v))
    for i in invariants:
        lines.append("INVARIANT " + i)
    for p in properties:
        lines.append("PROPERTY " + p)
    for c in constraints:
        lines.append("CONSTRAINT " + c)
    if postcondition:
        lines.append("POSTCONDITION " + postcondition)
    if view:
        lines.append("VIEW " + view)
    lines.append("CHECK_DEADLOCK " + ("TRUE" if deadlock else "FALSE"))
    if extra:
        lines.append(extra)
    with open(path, "w") as f:
        f.write("\n".join(lines) + "\n")


def run_tlc(name, module, cfg_kwargs, workers=12, xmx="8g", timeout=1500, env_extra=None,
            simulate=None, seed=None, depth_first=False, extra_args=(), depth=None):
    """Run TLC on spec/<module>.tla in a fresh work dir. Returns dict with stdout path, counts."""
    wd = os.path.join(WORK, name)
    shutil.rmtree(wd, ignore_errors=True)
    os.makedirs(wd)
    for f in os.listdir(SPEC):
        if f.endswith(".tla"):
            shutil.copy(os.path.join(SPEC, f), wd)
    cfg = os.path.join(wd, module + ".cfg")
    write_cfg(cfg, **cfg_kwargs)
    out = os.path.join(wd, "tlc.out")
    jopts = ["-XX:+UseSerialGC", "-Xss512m", "-Xmx" + xmx]
    if depth_first:
        jopts.append("-Dtlc2.tool.queue.IStateQueue=StateDeque")
    cmd = ["timeout", str(timeout), "java"] + jopts + ["-cp", JAVA_CP, "tlc2.TLC", "-workers", str(workers),
           "-metadir", os.path.join(wd, "md"), "-cleanup", "-noGenerateSpecTE",
           "-config", cfg]
    if simulate:
        cmd += ["-simulate", simulate] + (["-depth", str(depth)] if depth else [])
    if seed is not None:
        cmd += ["-seed", str(seed)]
    cmd += list(extra_args) + [os.path.join(wd, module + ".tla")]
    env = dict(os.environ)
    if env_extra:
        env.update(env_extra)
    t0 = time.time()
    with open(out, "w") as fo:
        r = subprocess.run(cmd, cwd=wd, stdout=fo, stderr=subprocess.STDOUT, env=env)
    wall = time.time() - t0
    res = {"name": name, "module": module, "out": out, "wd": wd, "rc": r.returncode, "wall_s": round(wall, 1),
           "cmd": " ".join(cmd[2:])}
    generated = distinct = None
    errors = []
    with open(out, errors="replace") as f:
        for line in f:
            if line.startswith("<<"):
                continue
            m = re.match(r"(\d+) states generated, (\d+) distinct states found", line)
            if m:
                generated, distinct = int(m.group(1)), int(m.group(2))
            if line.startswith("Error:") or "Invariant" in line and "violated" in line:
                errors.append(line.strip())
            m = re.match(r"The number of states generated: (\d+)", line)
            if m:          # simulation mode
                generated = distinct = int(m.group(1))
            m = re.match(r"The depth of the complete state graph search is (\d+)", line)
            if m:
                res["depth"] = int(m.group(1))
    res.update(generated=generated, distinct=distinct, errors=errors)
    if r.returncode == 124:
        raise ToolError("TLC timed out after %ss on %s" % (timeout, name))
    return res


def tlc_ok_or_die(res):
    """A generator / validator run must finish without TLC errors (else it is a tool error)."""
    if res["errors"] or res["distinct"] is None:
        tail = subprocess.run(["grep", "-v", "^<<", res["out"]], stdout=subprocess.PIPE, text=True).stdout[-3000:]
        log(tail)
        tool_error("TLC run %s failed: %s" % (res["name"], res["errors"][:3]))


def extract_tagged(out_path, tag, dest):
    """Lines of the form <<"TAG", "<json string>">> printed by PrintT -> ndjson file. Returns count."""
    prefix = '<<"%s", ' % tag
    n = 0
    with open(out_path, errors="replace") as f, open(dest, "w") as o:
        for line in f:
            if line.startswith(prefix):
                s = line.rstrip("\n")[len(prefix):-2]
                o.write(json.loads(s) + "\n")
                n += 1
    return n


def run_harness(args, timeout=3000, env_extra=None):
    env = dict(os.environ)
    if env_extra:
        env.update(env_extra)
    t0 = time.time()
    r = subprocess.run(["timeout", str(timeout), HBIN] + [str(a) for a in args], stdout=subprocess.PIPE,
                       stderr=subprocess.STDOUT, text=True, env=env)
    hang = str(args[2]) + ".hang" if len(args) > 2 else None       # replay <cases> <out> / record <kind> <out>
    if r.returncode == 3 and hang and os.path.exists(hang):
        with open(hang) as f:
            info = json.load(f)
        info["harness_args"] = [str(a) for a in args]
        raise HarnessHang(info)
    if r.returncode != 0:
        log(r.stdout[-3000:])
        raise ToolError("harness exited %d on %s" % (r.returncode, args[:2]))
    return time.time() - t0


def read_results(path):
    mism, summary, events = [], None, []
    with open(path) as f:
        for line in f:
            r = json.loads(line)
            k = r.get("kind")
            if k == "mismatch":
                mism.append(r)
            elif k == "summary":
                summary = r
            else:
                events.append(r)
    if summary is None:
        raise ToolError("no summary line in " + path)
    return mism, summary, events


# ------------------------------------------------------------------ known findings
def load_known():
    out = []
    if os.path.exists(KF_FILE):
        for line in open(KF_FILE):
            line = line.strip()
            if line and not line.startswith("#"):
                out.append(json.loads(line))
    return out


def dig(rec, path):
    cur = rec
    for p in path.split("."):
        if isinstance(cur, dict) and p in cur:
            cur = cur[p]
        else:
            return None
    return cur


def kf_matches(entry, mismatch):
    """An entry lists exact conditions on the mismatch record (dotted paths).  Every condition
    must hold; values are compared as canonical JSON.  Conditions name the failing call and the
    specific input (or narrowest input class) - never just the property."""
    if entry.get("fixed"):
        return False            # a fixed entry suppresses nothing
    if entry.get("property") != mismatch.get("prop"):
        return False
    if "pred" in entry:
        import kf_preds
        if not kf_preds.PREDS[entry["pred"]](mismatch):
            return False
    for path, want in entry.get("match", {}).items():
        got = dig(mismatch, path)
        if isinstance(want, dict) and "in" in want:
            if got not in want["in"]:
                return False
        elif isinstance(want, dict) and "prefix" in want:
            if not (isinstance(got, str) and got.startswith(want["prefix"])):
                return False
        elif json.dumps(got, sort_keys=True) != json.dumps(want, sort_keys=True):
            return False
    return True


def split_known(pid, mismatches):
    known = load_known()
    new, hit = [], {}
    for m in mismatches:
        if m.get("prop") != pid:
            continue
        e = next((e for e in known if kf_matches(e, m)), None)
        if e is None:
            new.append(m)
        else:
            hit.setdefault(e["id"], [e, 0])[1] += 1
    return new, hit


# ------------------------------------------------------------------ evidence / verdict
def finish(pid, tier, seed, level, coverage, assumptions, t0, mismatches, replay_name=None):
    """Print KNOWN-FINDING / VIOLATION lines, write evidence, exit."""
    new, hit = split_known(pid, mismatches)
    for kid, (e, n) in sorted(hit.items()):
        log("KNOWN-FINDING: property=%s %s [%s, %d mismatching checks in this run]" % (pid, e["what"], kid, n))
    coverage = dict(coverage)
    coverage["known_finding_hits"] = {k: v[1] for k, v in hit.items()}
    ev = {"property_id": pid, "tier": tier, "seed": seed, "level": level, "coverage": coverage,
          "assumptions": assumptions, "wall_s": round(time.time() - t0, 1), "violations": len(new)}
    os.makedirs(EVIDENCE_DIR, exist_ok=True)
    with open(os.path.join(EVIDENCE_DIR, pid + ".json"), "w") as f:
        json.dump(ev, f, indent=1, sort_keys=True)
        f.write("\n")
    if new:
        rdir = os.path.join(WORK, "replay")
        os.makedirs(rdir, exist_ok=True)
        rp = os.path.join(rdir, "%s-%s-%d.ndjson" % (pid, tier, seed))
        with open(rp, "w") as f:
            for m in new[:200]:
                f.write(json.dumps(m) + "\n")
        for m in new[:5]:
            log("  mismatch:", json.dumps(m)[:700])
        log("VIOLATION property=%s replay=%s" % (pid, rp))
        sys.exit(1)
    log("OK property=%s tier=%s wall=%.0fs" % (pid, tier, time.time() - t0))
    sys.exit(0)


def merge_counts(dst, src):
    for k, v in src.items():
        dst[k] = dst.get(k, 0) + v
    return dst


# ------------------------------------------------------------------ generate -> replay pipeline
def gen_and_replay(name, module, constants, props, seed, invariants=(), workers=12, timeout=1500,
                   tag="CASE", xmx="8g", harness_args=(), constraints=(), simulate=None, view=None, depth=None, env_extra=None):
    """TLC enumerates cases with expected values (one PrintT line each); the harness replays them
    into geo.  Returns (tlc result dict, number of cases, mismatches, harness summary)."""
    res = run_tlc(name, module, dict(constants=constants, invariants=invariants, constraints=constraints, view=view),
                  workers=workers, timeout=timeout, xmx=xmx, simulate=simulate, seed=seed if simulate else None, depth=depth, env_extra=env_extra)
    tlc_ok_or_die(res)
    cases = os.path.join(res["wd"], "cases.ndjson")
    n = extract_tagged(res["out"], tag, cases)
    os.remove(res["out"])          # can be large; the cases file has everything
    if n == 0:
        raise ToolError("TLC run %s produced no cases (vacuous)" % name)
    outp = os.path.join(res["wd"], "results.ndjson")
    hw = run_harness(["replay", cases, outp, "--seed", seed, "--props", ",".join(props)] + list(harness_args))
    mism, summary, _ = read_results(outp)
    res["harness_wall_s"] = round(hw, 1)
    res["cases"] = n
    res["cases_path"] = cases
    return res, n, mism, summary


def replay_file(pid, path, seed, t0, props=None):
    """Re-run the cases of a replay file (mismatch records) against the current tree."""
    cases = os.path.join(WORK, "replay_cases_%s.ndjson" % pid)
    n = 0
    with open(path) as f, open(cases, "w") as o:
        for line in f:
            m = json.loads(line)
            c = m.get("case", m)
            o.write(json.dumps(c) + "\n")
            n += 1
    outp = os.path.join(WORK, "replay_results_%s.ndjson" % pid)
    run_harness(["replay", cases, outp, "--seed", seed, "--props", ",".join(props or [pid])])
    mism, summary, _ = read_results(outp)
    new, hit = split_known(pid, mism)
    log("replayed %d cases: %d mismatching checks (%d not listed as known findings)" % (n, len(mism), len(new)))
    for m in new[:10]:
        log("  mismatch:", json.dumps(m)[:700])
    if new:
        log("VIOLATION property=%s replay=%s" % (pid, path))
        sys.exit(1)
    sys.exit(0)


def tlc_summary(runs):
    return [{k: r.get(k) for k in ("name", "module", "generated", "distinct", "depth", "wall_s", "cases", "harness_wall_s")}
            for r in runs]


def validate_trace(name, module, constants, trace_path, invariants=(), timeout=900, spec="TraceSpec",
                   postcondition="TraceAccepted"):
    """Chained trace validation: the recorded history must be a behaviour of the trace spec.
    Returns (tlc result, rejected_event or None)."""
    res = run_tlc(name, module, dict(spec=spec, constants=constants, invariants=invariants, postcondition=postcondition),
                  workers=1, xmx="4g", timeout=timeout, env_extra={"TRACE": trace_path}, depth_first=True)
    rejected = None
    inv_violated = [e for e in res["errors"] if "Invariant" in e]
    with open(res["out"], errors="replace") as f:
        for line in f:
            if line.startswith('<<"TRACE-REJECTED"'):
                m = re.match(r'<<"TRACE-REJECTED", (\d+), (".*")>>', line.strip())
                rejected = {"index": int(m.group(1)), "event": json.loads(json.loads(m.group(2)))}
    other = [e for e in res["errors"] if "Postcondition" not in e and "Invariant" not in e]
    if other or res["distinct"] is None:
        tail = subprocess.run(["grep", "-v", "^<<", res["out"]], stdout=subprocess.PIPE, text=True).stdout[-3000:]
        log(tail)
        raise ToolError("trace validation run %s failed: %s" % (name, other[:3]))
    if inv_violated and rejected is None:
        rejected = {"index": res.get("depth"), "event": {"invariant": inv_violated}}
    return res, rejected


def validate_events(name, module, trace_path, constants=None, chunk=20000, workers=12, timeout=1500, xmx="8g"):
    """Stateless parallel trace validation: the trace spec has one initial state per recorded event and one
    Check step that judges it from the TLA+ definitions, printing <<"REJECT", index, "reason">> for every event
    the specification does not allow.  Returns (list of TLC results, list of (event, reason), number of events)."""
    with open(trace_path) as f:
        lines = [l for l in f if l.strip()]
    results, rejects = [], []
    for ci in range(0, len(lines), chunk):
        part = lines[ci:ci + chunk]
        pth = "%s.part%d" % (trace_path, ci // chunk)
        with open(pth, "w") as f:
            f.writelines(part)
        res = run_tlc("%s_%d" % (name, ci // chunk), module, dict(constants=constants or {}), workers=workers, timeout=timeout,
                      xmx=xmx, env_extra={"TRACE": pth})
        tlc_ok_or_die(res)
        if res["distinct"] != 2 * len(part):
            raise ToolError("trace validation %s judged %s states for %d events" % (name, res["distinct"], len(part)))
        with open(res["out"], errors="replace") as f:
            for line in f:
                m = re.match(r'<<"REJECT", (\d+), "(.*)">>', line)
                if m:
                    rejects.append((json.loads(part[int(m.group(1)) - 1]), m.group(2)))
                elif line.startswith('<<"SKIP"'):
                    res["skipped"] = res.get("skipped", 0) + 1        # events outside the specification's domain
        os.remove(res["out"])
        os.remove(pth)
        results.append(res)
    return results, rejects, len(lines)


def run_apalache(name, module, init, inv, length, cinit, timeout=600):
    """apalache-mc check on spec/<module>.tla; returns 'NoError' | 'Error' (invariant violated); anything else is a tool error."""
    wd = os.path.join(WORK, name)
    shutil.rmtree(wd, ignore_errors=True)
    os.makedirs(wd)
    shutil.copy(os.path.join(SPEC, module + ".tla"), wd)
    cmd = ["timeout", str(timeout), "apalache-mc", "check", "--init=" + init, "--inv=" + inv, "--length=%d" % length,
           "--cinit=" + cinit, "--out-dir=" + os.path.join(wd, "out"), module + ".tla"]
    t0 = time.time()
    r = subprocess.run(cmd, cwd=wd, stdout=subprocess.PIPE, stderr=subprocess.STDOUT, text=True)
    m = re.search(r"The outcome is: (\w+)", r.stdout)
    if r.returncode == 124 or not m or m.group(1) not in ("NoError", "Error"):
        log(r.stdout[-2000:])
        raise ToolError("apalache run %s did not finish (%s)" % (name, r.returncode))
    shutil.rmtree(os.path.join(wd, "out"), ignore_errors=True)
    return {"name": name, "outcome": m.group(1), "wall_s": round(time.time() - t0, 1), "cmd": " ".join(cmd[2:])}


def simple_check(pid, tier, seed, t0, runs, rule, assume, level="model_checking", nontrivial=None, extra_cov=None,
                 extra_mismatches=(), require_counters=(), advisory_counters=()):
    """Generic pipeline: each run = dict(name, module, constants, invariants, constraints, simulate, depth, workers).
    nontrivial(case_dict) -> bool decides which generated cases count as non-trivial (distinct by content)."""
    results, mism, passc, failc, extra, samples = [], list(extra_mismatches), {}, {}, {}, []
    ncases = nontriv = 0
    seen = set()
    for r in runs:
        res, n, mm, summ = gen_and_replay("%s_%s" % (pid, r["name"]), r["module"], r["constants"], [pid], seed,
                                          invariants=r.get("invariants", ()), constraints=r.get("constraints", ()),
                                          simulate=r.get("simulate"), depth=r.get("depth"), workers=r.get("workers", 12),
                                          timeout=r.get("timeout", 1500), view=r.get("view"), env_extra=r.get("env"))
        results.append(res)
        ncases += n
        mism += mm
        merge_counts(passc, summ["pass"]); merge_counts(failc, summ["fail"]); merge_counts(extra, summ["extra"])
        samples += summ["samples"][:2]
        with open(res["cases_path"]) as f:
            for line in f:
                if nontrivial is None:
                    h = hash(line)
                    if h not in seen:
                        seen.add(h); nontriv += 1
                else:
                    c = json.loads(line)
                    if nontrivial(c):
                        h = hash(line)
                        if h not in seen:
                            seen.add(h); nontriv += 1
        os.remove(res["cases_path"])
    cov = {"states": sum(r["distinct"] for r in results), "transitions": sum(r["generated"] for r in results),
           "traces_validated_against_impl": ncases, "samples": samples[:4],
           "evaluations": sum(passc.values()) + sum(failc.values()), "distinct_nontrivial": nontriv, "rule": rule,
           "checks_passed_by_kind": passc, "checks_failed_by_kind": failc, "harness_counters": extra,
           "tlc_runs": tlc_summary(results)}
    if extra_cov:
        cov.update(extra_cov)
    if advisory_counters:
        # hook-level coverage that a property-preserving rewrite of the code may legitimately change: reported, never fatal
        cov["advisory_counters_never_incremented"] = [k for k in advisory_counters if extra.get(k, 0) == 0]
    if require_counters:
        missing = [k for k in require_counters if extra.get(k, 0) == 0]
        if missing:
            raise ToolError("vacuous run: harness counters never incremented: %s" % missing)
    finish(pid, tier, seed, level, cov, assume, t0, mism)

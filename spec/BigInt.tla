------------------------------- MODULE BigInt -------------------------------
(***************************************************************************)
(* Exact integer arithmetic beyond TLC's 32-bit integers: magnitudes are   *)
(* little-endian sequences of limbs in base 2^13 (every partial product is *)
(* below 2^26 and a column of up to 16 of them plus carries stays below    *)
(* 2^31), signed numbers are records [s |-> -1 / 0 / 1, m |-> magnitude].  *)
(* Used by Gen_Orient to decide the orientation of point triples with full *)
(* 53-bit mantissas and coordinates of different magnitude (C03).          *)
(***************************************************************************)
EXTENDS Integers, Sequences

Base == 8192
Limb(m, i) == IF i <= Len(m) THEN m[i] ELSE 0
MaxI(a, b) == IF a >= b THEN a ELSE b

\* strip leading (most significant) zero limbs
RECURSIVE Trim(_)
Trim(m) == IF Len(m) > 0 /\ m[Len(m)] = 0 THEN Trim(SubSeq(m, 1, Len(m) - 1)) ELSE m

\* magnitude of a small non-negative integer
RECURSIVE OfNat(_)
OfNat(n) == IF n = 0 THEN <<>> ELSE <<n % Base>> \o OfNat(n \div Base)

\* comparison of magnitudes: -1, 0, 1
RECURSIVE CmpFrom(_, _, _)
CmpFrom(a, b, i) == IF i = 0 THEN 0
                    ELSE IF Limb(a, i) < Limb(b, i) THEN -1
                    ELSE IF Limb(a, i) > Limb(b, i) THEN 1
                    ELSE CmpFrom(a, b, i - 1)
CmpN(a, b) == CmpFrom(a, b, MaxI(Len(a), Len(b)))

RECURSIVE AddFrom(_, _, _, _, _)
AddFrom(a, b, i, n, carry) ==
    IF i > n THEN (IF carry = 0 THEN <<>> ELSE <<carry>>)
    ELSE LET t == Limb(a, i) + Limb(b, i) + carry IN <<t % Base>> \o AddFrom(a, b, i + 1, n, t \div Base)
AddN(a, b) == Trim(AddFrom(a, b, 1, MaxI(Len(a), Len(b)), 0))

\* a - b for a >= b
RECURSIVE SubFrom(_, _, _, _, _)
SubFrom(a, b, i, n, borrow) ==
    IF i > n THEN <<>>
    ELSE LET t == Limb(a, i) - Limb(b, i) - borrow IN
         IF t < 0 THEN <<t + Base>> \o SubFrom(a, b, i + 1, n, 1) ELSE <<t>> \o SubFrom(a, b, i + 1, n, 0)
SubN(a, b) == Trim(SubFrom(a, b, 1, Len(a), 0))

\* column k (1-based) of the schoolbook product: sum of a[i] * b[k + 1 - i]
RECURSIVE Column(_, _, _, _)
Column(a, b, k, i) == IF i > k \/ i > Len(a) THEN 0 ELSE Limb(a, i) * Limb(b, k + 1 - i) + Column(a, b, k, i + 1)
RECURSIVE MulFrom(_, _, _, _, _)
MulFrom(a, b, k, n, carry) ==
    IF k > n THEN (IF carry = 0 THEN <<>> ELSE <<carry % Base>> \o MulFrom(a, b, k, n, carry \div Base))
    ELSE LET t == Column(a, b, k, 1) + carry IN <<t % Base>> \o MulFrom(a, b, k + 1, n, t \div Base)
MulN(a, b) == IF Len(a) = 0 \/ Len(b) = 0 THEN <<>> ELSE Trim(MulFrom(a, b, 1, Len(a) + Len(b) - 1, 0))

\* shift left by whole limbs
ShiftLimbs(m, k) == IF Len(m) = 0 THEN m ELSE [i \in 1 .. k |-> 0] \o m

\* ---- signed numbers
Z(s, m) == LET t == Trim(m) IN [s |-> IF Len(t) = 0 THEN 0 ELSE s, m |-> t]
ZNat(n) == Z(1, OfNat(n))
ZNeg(x) == [s |-> 0 - x.s, m |-> x.m]
ZAdd(x, y) ==
    IF x.s = 0 THEN y ELSE IF y.s = 0 THEN x
    ELSE IF x.s = y.s THEN Z(x.s, AddN(x.m, y.m))
    ELSE LET c == CmpN(x.m, y.m) IN
         IF c = 0 THEN Z(0, <<>>) ELSE IF c > 0 THEN Z(x.s, SubN(x.m, y.m)) ELSE Z(y.s, SubN(y.m, x.m))
ZSub(x, y) == ZAdd(x, ZNeg(y))
ZMul(x, y) == Z(x.s * y.s, MulN(x.m, y.m))
ZSign(x) == x.s

\* self-test on values that fit in 32 bits: the limb arithmetic agrees with TLC's own integers
Val(m) == LET RECURSIVE V(_) V(i) == IF i > Len(m) THEN 0 ELSE m[i] + Base * V(i + 1) IN V(1)
ZVal(x) == x.s * Val(x.m)
BigIntSelfTest ==
    \A a \in {0, 1, 7, 8191, 8192, 8193, 40000, 46340}, b \in {0, 1, 5, 8191, 8192, 12345, 46340} :
        /\ Val(OfNat(a)) = a
        /\ ZVal(ZMul(ZNat(a), ZNat(b))) = a * b
        /\ ZVal(ZAdd(ZNat(a), ZNat(b))) = a + b
        /\ ZVal(ZSub(ZNat(a), ZNat(b))) = a - b
        /\ ZVal(ZMul(ZSub(ZNat(a), ZNat(b)), ZSub(ZNat(b), ZNat(a)))) = (a - b) * (b - a)
=============================================================================

---------------------------- MODULE Determinism ----------------------------
(***************************************************************************)
(* C20, design level: where can a result depend on something other than    *)
(* the input?  Two mechanisms exist in geo and its overlay engine:          *)
(*  (1) a pool of W workers takes chunks of the input in any order, runs    *)
(*      them concurrently and the partial results are merged - either in    *)
(*      chunk-index order or in completion order;                           *)
(*  (2) a map from ring index to children is iterated to emit polygons -    *)
(*      either in key order (BTreeMap) or in an arbitrary, per-instance     *)
(*      order (HashMap with a random seed).                                 *)
(* TLC explores every interleaving of Take / Finish for W workers and C     *)
(* chunks, and every iteration order; ResultIsFunctionOfInput holds exactly *)
(* for Merge = "index" and Iter = "sorted".  Which variant the CODE         *)
(* implements is decided by the recorded traces (Trace_Memo.tla): a         *)
(* completion-ordered merge or a hash-ordered emission makes some key map   *)
(* to two digests.                                                          *)
(***************************************************************************)
EXTENDS Integers, Sequences, FiniteSets, TLC

CONSTANTS W, C, Merge, Iter

Workers == 1 .. W
Chunks == 1 .. C
VARIABLES todo, running, done, out
vars == <<todo, running, done, out>>

Init == todo = Chunks /\ running = [w \in Workers |-> 0] /\ done = <<>> /\ out = <<>>

\* a free worker steals any chunk that is left
Take(w) == /\ running[w] = 0 /\ todo # {}
           /\ \E c \in todo : running' = [running EXCEPT ![w] = c] /\ todo' = todo \ {c}
           /\ UNCHANGED <<done, out>>
\* a worker finishes: its partial result is appended in completion order
Finish(w) == /\ running[w] # 0
             /\ done' = Append(done, running[w]) /\ running' = [running EXCEPT ![w] = 0]
             /\ UNCHANGED <<todo, out>>
Sorted(s) == [i \in 1 .. Len(s) |-> i]      \* the chunks are 1..C: index order
IsPerm(s) == Len(s) = C /\ {s[i] : i \in 1 .. C} = Chunks
\* merge of the partial results, then emission of the members through the ring map
MergeStep == /\ todo = {} /\ \A w \in Workers : running[w] = 0 /\ out = <<>> /\ Len(done) = C
             /\ LET merged == IF Merge = "index" THEN Sorted(done) ELSE done IN
                IF Iter = "sorted" THEN out' = merged
                ELSE \E p \in [1 .. C -> Chunks] : IsPerm(p) /\ out' = [i \in 1 .. C |-> merged[p[i]]]
             /\ UNCHANGED <<todo, running, done>>
Next == (\E w \in Workers : Take(w) \/ Finish(w)) \/ MergeStep
Spec == Init /\ [][Next]_vars

ResultIsFunctionOfInput == out # <<>> => out = [i \in 1 .. C |-> i]
EveryChunkOnce == Len(done) + Cardinality(todo) + Cardinality({w \in Workers : running[w] # 0}) = C
=============================================================================

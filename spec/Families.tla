------------------------------ MODULE Families ------------------------------
(***************************************************************************)
(* Parametric lattice families used to drive the overlay engine into its   *)
(* parallel code paths (C20) with inputs whose exact result area is known  *)
(* in closed form.                                                         *)
(*   Grid(n):  n x n squares of side 2, lower-left corners at (4i, 4j)     *)
(*   Comb(N):  a bar [0,4N] x [0,2] carrying N teeth [4i,4i+2] x [2,8]     *)
(* The second operand is the first one translated by (1, 1).  All          *)
(* coordinates are integers, so every region is a union of unit cells and  *)
(* its area is a cell count; ClosedFormsOK checks the closed forms against *)
(* that count for small n (TLC), the harness uses them for n up to 4400.   *)
(***************************************************************************)
EXTENDS Integers, FiniteSets

InGrid(n, dx, dy, cx, cy) == \E i \in 0 .. n - 1, j \in 0 .. n - 1 :
    /\ 4 * i + dx <= cx /\ cx < 4 * i + dx + 2 /\ 4 * j + dy <= cy /\ cy < 4 * j + dy + 2
InComb(N, dx, dy, cx, cy) ==
    \/ dx <= cx /\ cx < 4 * N + dx /\ dy <= cy /\ cy < dy + 2
    \/ \E i \in 0 .. N - 1 : 4 * i + dx <= cx /\ cx < 4 * i + dx + 2 /\ dy + 2 <= cy /\ cy < dy + 8

InFam(fam, n, dx, dy, cx, cy) == IF fam = "grid" THEN InGrid(n, dx, dy, cx, cy) ELSE InComb(n, dx, dy, cx, cy)
Comb2(op, x, y) == CASE op = "intersection" -> x /\ y [] op = "union" -> x \/ y [] op = "difference" -> x /\ ~y [] op = "xor" -> x # y
\* area by counting unit cells in a window that contains both operands
CellArea(fam, n, op) ==
    Cardinality({c \in (0 .. 4 * n + 2) \X (0 .. 4 * n + 10) :
        Comb2(op, InFam(fam, n, 0, 0, c[1], c[2]), InFam(fam, n, 1, 1, c[1], c[2]))})

\* closed forms (area of  A op B,  B = A + (1,1))
ExpectArea(fam, n, op) ==
    IF fam = "grid" THEN
        CASE op = "intersection" -> n * n
          [] op = "union"        -> 7 * n * n
          [] op = "difference"   -> 3 * n * n
          [] op = "xor"          -> 6 * n * n
    ELSE
        CASE op = "intersection" -> 11 * n - 2
          [] op = "union"        -> 29 * n + 2
          [] op = "difference"   -> 9 * n + 2
          [] op = "xor"          -> 18 * n + 4
ClosedFormsOK(maxn) == \A fam \in {"grid", "comb"}, n \in 1 .. maxn, op \in {"intersection", "union", "difference", "xor"} :
    CellArea(fam, n, op) = ExpectArea(fam, n, op)
=============================================================================

----------------------------- MODULE Gen_Affine -----------------------------
(***************************************************************************)
(* C13 - affine transforms obey matrix algebra.                            *)
(* State machine of the AffineTransform builder: the state is the matrix   *)
(*      m = <<a, b, xoff, d, e, yoff>>   (x' = a x + b y + xoff, ...)      *)
(* and every builder call composes one more elementary transform AFTER the *)
(* current one ("other o self").  Integer matrices: quarter-turn rotations *)
(* (cos, sin in {0, 1, -1}), skews by 45 degrees (tan = 1, 0 or -1),       *)
(* integer scale factors and offsets about integer origins.                *)
(* Every transition of the reachable graph becomes one implementation test *)
(* (pre-matrix, call, post-matrix, images of probe points, determinant and *)
(* exact rational inverse).  AlgebraLaws is checked by TLC on every state. *)
(***************************************************************************)
EXTENDS Integers, Sequences, TLC, Json

CONSTANTS MaxAbs,     \* state constraint: entries bounded in absolute value
          Depth       \* builder chains of at most this many calls
Id == <<1, 0, 0, 0, 1, 0>>
Apply(m, p) == <<m[1] * p[1] + m[2] * p[2] + m[3], m[4] * p[1] + m[5] * p[2] + m[6]>>
\* Compose(a, b): first a, then b
Compose(a, b) == <<b[1] * a[1] + b[2] * a[4], b[1] * a[2] + b[2] * a[5], b[1] * a[3] + b[2] * a[6] + b[3],
                   b[4] * a[1] + b[5] * a[4], b[4] * a[2] + b[5] * a[5], b[4] * a[3] + b[5] * a[6] + b[6]>>
Det(m) == m[1] * m[5] - m[2] * m[4]
\* inverse as <<numerators (6), denominator>>
InverseN(m) == << <<m[5], -m[2], m[2] * m[6] - m[5] * m[3], -m[4], m[1], m[4] * m[3] - m[1] * m[6]>>, Det(m)>>

Translate(dx, dy) == <<1, 0, dx, 0, 1, dy>>
Scale(fx, fy, o) == <<fx, 0, o[1] - o[1] * fx, 0, fy, o[2] - o[2] * fy>>
\* counter-clockwise rotation by q quarter turns about o
Cos(q) == CASE q % 4 = 0 -> 1 [] q % 4 = 1 -> 0 [] q % 4 = 2 -> -1 [] q % 4 = 3 -> 0
Sin(q) == CASE q % 4 = 0 -> 0 [] q % 4 = 1 -> 1 [] q % 4 = 2 -> 0 [] q % 4 = 3 -> -1
Rotate(q, o) == <<Cos(q), -Sin(q), o[1] - o[1] * Cos(q) + o[2] * Sin(q),
                  Sin(q), Cos(q), o[2] - o[1] * Sin(q) - o[2] * Cos(q)>>
\* skew with tan(xs) = tx, tan(ys) = ty (each -1, 0 or 1) about o
Skew(tx, ty, o) == <<1, tx, -o[2] * tx, ty, 1, -o[1] * ty>>

Origins == {<<0, 0>>, <<1, 2>>, <<-2, 1>>}
Calls == [name : {"translated"}, dx : {-3, 2}, dy : {0, 1}]
         \cup [name : {"scaled"}, fx : {2, -1}, fy : {1, 3}, o : Origins]
         \cup [name : {"rotated"}, q : {1, 2, 3, -1, 5}, o : Origins]
         \cup [name : {"skewed"}, tx : {0, 1, -1}, ty : {0, 1}, o : Origins]
         \cup [name : {"compose"}, other : {<<0, 1, 0, 1, 0, 0>>, <<2, 1, -1, 1, 1, 3>>, <<1, 2, 0, 2, 4, 1>>,
                                            \* singular without rotation or shear part (one axis collapsed), and the zero matrix
                                            <<1, 0, 0, 0, 0, 2>>, <<0, 0, 1, 0, 3, 2>>, <<0, 0, 5, 0, 0, 7>>}]
         \cup [name : {"scaled"}, fx : {0}, fy : {2}, o : {<<1, 2>>}] \cup [name : {"scaled"}, fx : {1}, fy : {0}, o : {<<0, 0>>}]
Elem(c) == CASE c.name = "translated" -> Translate(c.dx, c.dy)
             [] c.name = "scaled" -> Scale(c.fx, c.fy, c.o)
             [] c.name = "rotated" -> Rotate(c.q, c.o)
             [] c.name = "skewed" -> Skew(c.tx, c.ty, c.o)
             [] c.name = "compose" -> c.other

VARIABLES m, depth
vars == <<m, depth>>
Init == m = Id /\ depth = 0
Probes == << <<1, 0>>, <<0, 1>>, <<2, -3>> >>
Case(pre, c, post) ==
    [op |-> "affine_step", pre |-> pre, call |-> c, post |-> post,
     images |-> [i \in DOMAIN Probes |-> <<Probes[i], Apply(post, Probes[i])>>],
     det |-> Det(post), inverse |-> InverseN(post), elem |-> Elem(c),
     \* compose_many(self, [e, e]) = self then e then e
     twice |-> Compose(Compose(pre, Elem(c)), Elem(c)),
     \* compose_many(self, [e, K]) with a fixed K that does not commute with most e
     then_k |-> Compose(Compose(pre, Elem(c)), <<0, -1, 2, 1, 0, -1>>)]
Next == /\ depth < Depth /\ depth' = depth + 1
        /\ \E c \in Calls : /\ m' = Compose(m, Elem(c))
                            /\ PrintT(<<"CASE", ToJson(Case(m, c, m'))>>)
Spec == Init /\ [][Next]_vars
Bounded == \A i \in 1 .. 6 : m[i] <= MaxAbs /\ -m[i] <= MaxAbs

AlgebraLaws ==
    LET inv == InverseN(m) IN
    /\ \A i \in DOMAIN Probes : \A c \in Calls :
          Apply(Compose(m, Elem(c)), Probes[i]) = Apply(Elem(c), Apply(m, Probes[i]))
    /\ Det(m) # 0 => \A i \in DOMAIN Probes :
          LET q == Apply(m, Probes[i])                     \* inverse undoes the transform (scaled by det)
              r == Apply(inv[1], q) IN
          r = <<Probes[i][1] * inv[2], Probes[i][2] * inv[2]>>
    /\ \A o \in Origins : \A q \in {1, 2, 3} : Apply(Rotate(q, o), o) = o     \* the origin is a fixed point
    /\ \A o \in Origins : Apply(Scale(2, 3, o), o) = o /\ Apply(Skew(1, 1, o), o) = o
=============================================================================

---------------------------- MODULE Gen_BoolOps ----------------------------
(***************************************************************************)
(* Operand pool for C04 / C10: valid octilinear polygons, polygons with    *)
(* one or two holes (holes touching the shell or each other in one point   *)
(* included), valid two-member multipolygons and simple line strings.      *)
(* One state per CANDIDATE; validity (Shapes.tla, witness lattice) is      *)
(* evaluated in Next - i.e. in parallel - and only valid candidates are    *)
(* printed as POOL lines.  The pool is the domain ("valid polygons /       *)
(* multipolygons", "simple line strings") of the Boolean-operation and     *)
(* triangulation properties; the operations themselves are executed by    *)
(* the implementation and judged by Trace_BoolOps / Trace_Tiling.          *)
(***************************************************************************)
EXTENDS Shapes, TLC, Json

CONSTANTS Stride, Offset     \* hole / multipolygon candidates are sampled: every Stride-th, from Offset

F == FineOf(3)
Sample(S, k, o) == LET q == SetToSeq(S) IN {q[i] : i \in {j \in 1 .. Len(q) : j % k = o % k}}

\* Ring enumeration: a canonical ring starts at its lexicographically least vertex, so only paths
\* whose later vertices are all lexicographically above the first one are ever extended.
ExtendRingPaths(n, P) ==
    UNION { {Append(q, c) : c \in {c \in VPts(n) : Octi(q[Len(q)], c) /\ (c = q[1] \/ LexLess(q[1], c))
                                      /\ Cross(q[Len(q) - 1], q[Len(q)], c) # 0
                                      /\ SimplePath(Append(q, c))}}
            : q \in {q \in P : q[1] # q[Len(q)]} }
RingStart(n) == {s \in Paths1(n) : LexLess(s[1], s[2])}
\* rings on the 3x3 vertex grid (coordinates 0..8), up to 6 edges
A1 == Paths1(2)
A2 == ExtendPaths(2, A1)
A3 == ExtendPaths(2, A2)
Q1 == RingStart(2)
Q2 == ExtendRingPaths(2, Q1)
Q3 == ExtendRingPaths(2, Q2)
Q4 == ExtendRingPaths(2, Q3)
Q5 == ExtendRingPaths(2, Q4)
Q6 == ExtendRingPaths(2, Q5)
SmallRings == RingsOf(Q3) \cup RingsOf(Q4) \cup RingsOf(Q5) \cup RingsOf(Q6)
\* rings on the 4x4 vertex grid (coordinates 0..12), up to 4 edges: holes and multipolygon members
B1 == RingStart(3)
B2 == ExtendRingPaths(3, B1)
B3 == ExtendRingPaths(3, B2)
B4 == ExtendRingPaths(3, B3)
HoleRings == RingsOf(B3) \cup RingsOf(B4)
Shells == { <<<<0,0>>, <<12,0>>, <<12,12>>, <<0,12>>, <<0,0>>>>,
            <<<<0,4>>, <<4,0>>, <<8,0>>, <<12,4>>, <<12,8>>, <<8,12>>, <<4,12>>, <<0,8>>, <<0,4>>>>,
            <<<<0,0>>, <<12,0>>, <<0,12>>, <<0,0>>>>,
            <<<<0,0>>, <<12,0>>, <<12,8>>, <<8,12>>, <<0,12>>, <<0,0>>>>,
            <<<<0,0>>, <<12,0>>, <<12,12>>, <<8,12>>, <<8,4>>, <<4,4>>, <<4,12>>, <<0,12>>, <<0,0>>>> }   \* U shape
Lines2 == {q \in CanonOpen(A2) \cup CanonOpen(A3) : TRUE} \cup {Rev(q) : q \in Sample(CanonOpen(A2), 5, 1)}
          \cup RingsOf(Q3) \cup Sample(RingsOf(Q4), 2, 0)

None == <<>>
H2Stride == IF Stride >= 8 THEN Stride \div 8 ELSE 1
Job(k, a, b, c) == [k |-> k, a |-> a, b |-> b, c |-> c]
HR == SetToSeq(HoleRings)
NHR == Len(HR)
SH == SetToSeq(Shells)

VARIABLES job, out
vars == <<job, out>>

\* candidate spaces (cheap to enumerate; validity is decided in Next)
JobsSimple == {Job("simple", r, None, None) : r \in SmallRings}
JobsLine   == {Job("line", q, None, None) : q \in Lines2}
JobsHole1  == {Job("hole1", SH[e], HR[h], None) : e \in DOMAIN SH, h \in 1 .. NHR}
JobsHole2  == {Job("hole2", SH[e], HR[p[1]], HR[p[2]]) : e \in DOMAIN SH,
                 p \in {p \in (1 .. NHR) \X (1 .. NHR) : p[1] < p[2] /\ (p[1] * 31 + p[2]) % H2Stride = Offset % H2Stride}}
JobsMP     == {Job("mp", HR[p[1]], HR[p[2]], None) :
                 p \in {p \in (1 .. NHR) \X (1 .. NHR) : p[1] < p[2] /\ (p[1] * 17 + p[2]) % Stride = (Offset + 1) % Stride}}

Init == /\ job \in JobsSimple \cup JobsLine \cup JobsHole1 \cup JobsHole2 \cup JobsMP
        /\ out = "todo"

ValidHole(e, h) == LET pe == RingMap(e, F)  ph == RingMap(h, F) IN HoleInShell(ph, pe, F) /\ TouchCount(ph, pe, F) <= 1
Geom(j) ==
    CASE j.k = "simple" -> Poly(j.a, <<>>)
      [] j.k = "line"   -> LS(j.a)
      [] j.k = "hole1"  -> Poly(j.a, <<Rev(j.b)>>)
      [] j.k = "hole2"  -> Poly(j.a, <<Rev(j.b), Rev(j.c)>>)
      [] j.k = "mp"     -> MPoly(<<[ext |-> j.a, holes |-> <<>>], [ext |-> j.b, holes |-> <<>>]>>)
IsValid(j) ==
    CASE j.k = "simple" -> TRUE                      \* simple ccw ring by construction
      [] j.k = "line"   -> TRUE                      \* simple path by construction
      [] j.k = "hole1"  -> ValidHole(j.a, j.b)
      [] j.k = "hole2"  -> ValidPolygon(j.a, <<j.b, j.c>>, F)
      [] j.k = "mp"     -> TouchOnlyAtPoints(RingMap(j.a, F), RingMap(j.b, F), F)

\* number of points in which rings of the polygon touch one another (ear-cut is only claimed for 0)
Touches(j) ==
    CASE j.k = "hole1" -> TouchCount(RingMap(j.b, F), RingMap(j.a, F), F)
      [] j.k = "hole2" -> TouchCount(RingMap(j.b, F), RingMap(j.a, F), F) + TouchCount(RingMap(j.c, F), RingMap(j.a, F), F)
                          + TouchCount(RingMap(j.b, F), RingMap(j.c, F), F)
      [] j.k = "mp"    -> TouchCount(RingMap(j.a, F), RingMap(j.b, F), F)
      [] OTHER -> 0

Next == /\ out = "todo"
        /\ job' = job
        /\ IF IsValid(job)
           THEN /\ out' = "valid" /\ PrintT(<<"POOL", ToJson([k |-> job.k, g |-> Geom(job), touch |-> Touches(job)])>>)
           ELSE out' = "invalid"
Spec == Init /\ [][Next]_vars

\* lemmas about the pool, checked on every emitted member: shells are ccw, holes cw, area positive
PoolSane == out = "valid" =>
    CASE job.k \in {"hole1", "hole2"} -> Area2(job.a) > 0 /\ Area2(Rev(job.b)) < 0 /\ Area2(job.a) > Area2(job.b)
      [] job.k = "mp" -> Area2(job.a) > 0 /\ Area2(job.b) > 0
      [] OTHER -> TRUE
=============================================================================

---------------------------- MODULE Gen_Cassini ----------------------------
(***************************************************************************)
(* C03 - nearly collinear triples with MANY significant bits whose exact    *)
(* orientation is known without big-number arithmetic.                      *)
(* Cassini's identity: F(n+1) F(n-1) - F(n)^2 = (-1)^n for the Fibonacci    *)
(* numbers.  Hence for a = (0,0), b = (F(n+1), F(n)), c = (F(n), F(n-1))    *)
(*     Cross(a, b, c) = (-1)^n :                                            *)
(* c lies at distance ~ 1/|b| from the line a b - about one part in 10^9 of *)
(* the coordinate magnitude for n ~ 44, far below what a double-precision   *)
(* evaluation of the determinant resolves (the two products are ~2^60, each *)
(* rounded to a multiple of 2^7, their difference is 1), yet with a value   *)
(* of order 1, far ABOVE any absolute noise threshold.  Generalised:         *)
(* b = (F(n+1), F(n)), c = (F(m+1), F(m)) gives Cross = (-1)^(m+1) F(n-m)   *)
(* (d'Ocagne).  TLC computes the Fibonacci numbers (< 2^31 up to n = 45),   *)
(* checks both identities wherever the products fit in 32 bits, and emits   *)
(* the cases with their exact sign; the harness replays them at several     *)
(* exact scalings and D4 images into orient2d, the point-in-ring / polygon  *)
(* / triangle tests, winding_order and segment intersection.                *)
(***************************************************************************)
EXTENDS Integers, Sequences, TLC, Json

CONSTANTS NLo, NHi       \* range of n

RECURSIVE FTab(_, _, _)
FTab(n, a, b) == IF n = 0 THEN <<a>> ELSE <<a>> \o FTab(n - 1, b, a + b)
Tab == FTab(45, 0, 1)                                       \* Tab[k + 1] = F(k), k = 0 .. 45 (F(46) is the last value below 2^31)
F(k) == Tab[k + 1]
Sgn(k) == IF k % 2 = 0 THEN 1 ELSE -1

\* the identities, checked where 32-bit products suffice
IdentitiesOK ==
    /\ \A n \in 1 .. 22 : F(n + 1) * F(n - 1) - F(n) * F(n) = Sgn(n)
    /\ \A n \in 2 .. 22 : \A m \in 1 .. n - 1 : F(n + 1) * F(m) - F(n) * F(m + 1) = Sgn(m + 1) * F(n - m)

VARIABLES n, m
vars == <<n, m>>
Init == n \in NLo .. NHi /\ m = 0
Case(nn, mm) ==
    [op |-> "kernel_fib", n |-> nn, m |-> mm, b |-> <<F(nn + 1), F(nn)>>, c |-> <<F(mm + 1), F(mm)>>,
     \* exact sign of Cross((0,0), b, c) and its exact absolute value (a small Fibonacci number)
     orient |-> Sgn(mm + 1), absdet |-> F(nn - mm)]
\* c = the (m+1, m) pair for m = n - 1 (Cassini: |det| = 1) down to n - 6 (|det| = 8)
Next == /\ m = 0 /\ n' = n /\ m' \in (n - 6) .. (n - 1)
        /\ PrintT(<<"CASE", ToJson(Case(n, m'))>>)
Spec == Init /\ [][Next]_vars
ASSUME IdentitiesOK
=============================================================================

---------------------------- MODULE Gen_Centroid ----------------------------
(***************************************************************************)
(* C06 - centroid = centre of mass of the highest-dimensional part.        *)
(*                                                                         *)
(* Abstract side: every geometry has a weighted centroid                   *)
(*      WC(g) = <<dim, Nx, Ny, D>>   (centroid = (Nx / D, Ny / D))         *)
(* with exact integers: dim 0: D = number of points, N = coordinate sums;  *)
(* dim 1: D = 2 * total length, N = sum len * (x1 + x2) (segments have     *)
(* integer length here: axis-parallel or 3-4-5); dim 2: D = 3 * (twice the *)
(* area), N = first moments.  Merge is dimension dominance: the higher     *)
(* dimension wins, equal dimensions add.  This is also the accumulator     *)
(* state machine of geo's CentroidOperation (add_assign), so the fold over *)
(* a collection in member order is the implementation-shaped model, and    *)
(* MergeLaws checks that the order cannot matter.                          *)
(* Geometry trees: up to 3 members drawn from a pool, nested one level.    *)
(***************************************************************************)
EXTENDS PointSet, TLC, Json

CONSTANTS Stride, Offset        \* quick tier: every Stride-th first member

Empty4 == <<-1, 0, 0, 0>>
Merge(a, b) == IF a[1] > b[1] THEN a ELSE IF a[1] < b[1] THEN b
               ELSE IF a[1] = -1 THEN Empty4 ELSE <<a[1], a[2] + b[2], a[3] + b[3], a[4] + b[4]>>
RECURSIVE FoldMerge(_, _, _)
FoldMerge(W(_), s, i) == IF i > Len(s) THEN Empty4 ELSE Merge(W(s[i]), FoldMerge(W, s, i + 1))

SegLen(a, b) == ISqrt(D2(a, b))
IntLen(a, b) == IsSquare(D2(a, b))
WPoint(c) == <<0, c[1], c[2], 1>>
WSeg(a, b) == IF a = b THEN WPoint(a)
              ELSE <<1, SegLen(a, b) * (a[1] + b[1]), SegLen(a, b) * (a[2] + b[2]), 2 * SegLen(a, b)>>
RECURSIVE WPath(_, _)
WPath(cs, i) == IF i >= Len(cs) THEN Empty4 ELSE Merge(WSeg(cs[i], cs[i+1]), WPath(cs, i + 1))
WLine(cs) == IF Len(cs) = 0 THEN Empty4 ELSE IF Len(cs) = 1 THEN WPoint(cs[1]) ELSE WPath(cs, 1)

RECURSIVE MomX(_, _), MomY(_, _)
MomX(r, i) == IF i >= Len(r) THEN 0
              ELSE (r[i][1] + r[i+1][1]) * (r[i][1] * r[i+1][2] - r[i+1][1] * r[i][2]) + MomX(r, i + 1)
MomY(r, i) == IF i >= Len(r) THEN 0
              ELSE (r[i][2] + r[i+1][2]) * (r[i][1] * r[i+1][2] - r[i+1][1] * r[i][2]) + MomY(r, i + 1)
\* a closed ring: areal if it has area, else its outline (flat ring), else a point, else nothing
WRing(r) == LET a == Area2(r) IN
            IF a # 0 THEN <<2, Sign(a) * MomX(r, 1), Sign(a) * MomY(r, 1), 3 * Abs(a)>>
            ELSE IF Len(r) = 0 THEN Empty4
            ELSE IF \A i \in DOMAIN r : r[i] = r[1] THEN WPoint(r[1])
            ELSE WLine(r)
RECURSIVE HoleSum(_, _)
HoleSum(hs, i) == IF i > Len(hs) THEN <<2, 0, 0, 0>>
                  ELSE LET w == WRing(hs[i]) r == HoleSum(hs, i + 1) IN
                       IF w[1] = 2 THEN <<2, w[2] + r[2], w[3] + r[3], w[4] + r[4]>> ELSE r
WPoly(ext, holes) == LET e == WRing(ext) IN
                     IF e[1] # 2 THEN e
                     ELSE LET h == HoleSum(holes, 1) IN
                          \* holes that eat the whole shell leave no area: the polygon falls back to the outline of its shell
                          IF e[4] - h[4] = 0 THEN WLine(ext) ELSE <<2, e[2] - h[2], e[3] - h[3], e[4] - h[4]>>

RECURSIVE WC(_)
WPolyRec(p) == WPoly(p.ext, p.holes)
WC(g) ==
    CASE g.t = "Point" -> WPoint(g.c)
      [] g.t = "MultiPoint" -> FoldMerge(WPoint, g.cs, 1)
      [] g.t = "Line" -> WSeg(g.a, g.b)
      [] g.t = "LineString" -> WLine(g.cs)
      [] g.t = "MultiLineString" -> FoldMerge(WLine, g.ls, 1)
      [] g.t = "Polygon" -> WPoly(g.ext, g.holes)
      [] g.t = "MultiPolygon" -> FoldMerge(WPolyRec, g.ps, 1)
      \* a degenerate Rect / Triangle is treated like a flat polygon: its outline (there and back)
      [] g.t = "Rect" -> WRing(RectRing(g.a, g.b))
      [] g.t = "Triangle" -> WRing(TriRing(g.a, g.b, g.c))
      [] g.t = "GeometryCollection" -> FoldMerge(WC, g.gs, 1)

-----------------------------------------------------------------------------
\* the pool (a sequence: members are records of different shapes)
Sq(x, y, s) == << <<x, y>>, <<x + s, y>>, <<x + s, y + s>>, <<x, y + s>>, <<x, y>> >>
Pool == <<
    Pt(<<0, 0>>), Pt(<<4, 2>>), Pt(<<1, 3>>),
    MPt(<< <<0, 0>>, <<2, 0>>, <<2, 4>> >>), MPt(<<>>), MPt(<< <<3, 3>>, <<3, 3>> >>),
    Ln(<<0, 0>>, <<4, 0>>), Ln(<<0, 0>>, <<3, 4>>), Ln(<<2, 2>>, <<2, 2>>), Ln(<<4, 4>>, <<0, 1>>),
    LS(<< <<0, 0>>, <<4, 0>>, <<4, 3>> >>), LS(<< <<0, 0>>, <<3, 4>>, <<3, 0>>, <<0, 0>> >>), LS(<<>>), LS(<< <<1, 1>> >>),
    LS(<< <<0, 4>>, <<0, 4>>, <<4, 4>>, <<4, 1>> >>),
    MLS(<< << <<0, 0>>, <<0, 2>> >>, << <<1, 0>>, <<4, 4>> >> >>), MLS(<<>>), MLS(<< <<>>, << <<2, 2>>, <<2, 4>> >> >>),
    Poly(Sq(0, 0, 4), <<>>), Poly(Sq(0, 0, 4), << Rev(Sq(1, 1, 1)) >>), Poly(Sq(0, 0, 4), << Sq(1, 1, 2) >>),
    Poly(Sq(0, 0, 4), << Rev(Sq(1, 1, 1)), Sq(2, 2, 1) >>),
    Poly(Rev(<< <<0, 0>>, <<4, 0>>, <<4, 4>>, <<2, 1>>, <<0, 4>>, <<0, 0>> >>), <<>>),
    Poly(<< <<0, 0>>, <<4, 0>>, <<0, 3>>, <<0, 0>> >>, << Rev(<< <<0, 0>>, <<4, 0>>, <<0, 3>>, <<0, 0>> >>) >>),   \* the hole is the whole shell (3-4-5 triangle): outline
    Poly(<< <<0, 0>>, <<4, 0>>, <<0, 3>>, <<0, 0>> >>, << << <<0, 0>>, <<4, 0>>, <<0, 3>>, <<0, 0>> >> >>),
    Poly(<< <<0, 0>>, <<2, 0>>, <<4, 0>>, <<0, 0>> >>, <<>>),          \* flat: falls back to its outline
    Poly(<< <<0, 0>>, <<3, 4>>, <<0, 0>> >>, <<>>),                    \* flat, two distinct points
    Poly(<< <<2, 3>>, <<2, 3>>, <<2, 3>>, <<2, 3>> >>, <<>>),          \* a single point
    Poly(<<>>, <<>>),
    MPoly(<< [ext |-> Sq(0, 0, 1), holes |-> <<>>], [ext |-> Rev(Sq(2, 2, 2)), holes |-> <<>>] >>), MPoly(<<>>),
    MPoly(<< [ext |-> <<>>, holes |-> <<>>], [ext |-> << <<0, 0>>, <<4, 0>>, <<0, 3>>, <<0, 0>> >>, holes |-> <<>>] >>),
    Rc(<<0, 0>>, <<4, 2>>), Rc(<<1, 1>>, <<1, 4>>), Rc(<<3, 3>>, <<3, 3>>), Rc(<<4, 4>>, <<2, 1>>),
    Tri(<<0, 0>>, <<4, 0>>, <<0, 3>>), Tri(<<0, 0>>, <<0, 3>>, <<4, 0>>), Tri(<<0, 0>>, <<2, 0>>, <<4, 0>>), Tri(<<1, 2>>, <<1, 2>>, <<1, 2>>),
    GC(<<>>)
>>
NP == Len(Pool)

VARIABLES m1, m2, m3, nest, done
vars == <<m1, m2, m3, nest, done>>

\* 0 = no member
Init == /\ m1 \in {i \in 1 .. NP : i % Stride = Offset % Stride}
        /\ m2 = 0 /\ m3 = 0 /\ nest = 0 /\ done = FALSE

Members(a, b, c) == (IF a = 0 THEN <<>> ELSE <<Pool[a]>>) \o (IF b = 0 THEN <<>> ELSE <<Pool[b]>>)
                    \o (IF c = 0 THEN <<>> ELSE <<Pool[c]>>)
\* nest = 0: flat collection [m1, m2, m3]; 1: [m1, GC[m2, m3]]; 2: [GC[m1, m2], m3]; 3: [GC[GC[m1], m2], m3]
Tree(a, b, c, k) ==
    IF k = 0 THEN GC(Members(a, b, c))
    ELSE IF k = 1 THEN GC(<<Pool[a], GC(Members(b, c, 0))>>)
    ELSE IF k = 2 THEN GC(Members(0, 0, c) \o <<GC(Members(a, b, 0))>>)
    ELSE GC(<<GC(<<GC(<<Pool[a]>>)>> \o Members(b, 0, 0))>> \o Members(c, 0, 0))

Case(g) == LET w == WC(g) IN
           [op |-> "centroid", g |-> g, dim |-> w[1],
            c |-> IF w[1] = -1 THEN <<>> ELSE << <<w[2], w[4]>>, <<w[3], w[4]>> >>]

Next == /\ ~done /\ done' = TRUE /\ m1' = m1
        /\ m2' \in 0 .. NP /\ m3' \in 0 .. NP /\ nest' \in 0 .. 3
        /\ (m2' = 0 => m3' = 0 /\ nest' = 0)
        /\ PrintT(<<"CASE", ToJson(Case(Tree(m1, m2', m3', nest')))>>)
        \* the bare member too (concrete type), once per m1
        /\ (m2' = 0 => PrintT(<<"CASE", ToJson(Case(Pool[m1]))>>))
Spec == Init /\ [][Next]_vars

\* the fold order over a collection cannot matter: Merge is commutative and associative
MergeLaws == done =>
    LET a == WC(Pool[m1])
        b == IF m2 = 0 THEN Empty4 ELSE WC(Pool[m2])
        c == IF m3 = 0 THEN Empty4 ELSE WC(Pool[m3])
    IN /\ Merge(a, b) = Merge(b, a)
       /\ Merge(Merge(a, b), c) = Merge(a, Merge(b, c))
       /\ WC(Tree(m1, m2, m3, nest)) = Merge(a, Merge(b, c))      \* nesting is irrelevant
       /\ WC(Tree(m1, m2, m3, nest))[4] >= 0
=============================================================================

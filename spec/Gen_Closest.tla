---------------------------- MODULE Gen_Closest ----------------------------
(***************************************************************************)
(* C12 - closest_point / interior_point.                                   *)
(*                                                                         *)
(* closest_point(g, p), the required answer, decided exactly:              *)
(*   hit   = Pos(g, p) # "E"        p intersects g: Intersection(p)        *)
(*   else  d2   = min over the segments of g (a point is a degenerate      *)
(*                segment) of the squared distance, a rational <<n, d>>    *)
(*         near = the SET of points of g at that distance (one per         *)
(*                attaining segment, rationals <<xn, yn, den>>; several    *)
(*                when p is equidistant from several parts): the answer    *)
(*                must be SinglePoint(q) with q one of them                *)
(*   ind   = ZeroLen(g)             g is empty or has zero length:         *)
(*                Indeterminate is admissible (required when g is empty,   *)
(*                because then no point of g exists)                       *)
(* For a point in a hole of a polygon Pos = "E" and the hole ring is among *)
(* the segments, so the nearest point lies on the hole.                    *)
(*                                                                         *)
(* interior_point(g): the generator only supplies geometries with the      *)
(* flag valid; the answer of the implementation is judged afterwards by    *)
(* Trace_Interior (round trip), nothing is predicted here.                 *)
(*                                                                         *)
(* Sources (Init picks a source, Next fans out over the rest):             *)
(*   cat   hand-written catalogue on 0..8 (all 10 types: frames, holes     *)
(*         touching the shell / each other, C / L / U shapes whose         *)
(*         centroid is outside, comb, slivers of doubled area 1,           *)
(*         multi-part, nested, mixed-dimension collections, empty and      *)
(*         degenerate members)  x  every lattice point of -1..9            *)
(*   line  every Line on (0..3)^2 (zero-length ones too)                   *)
(*   tri   every Triangle on (0..2)^2 (all vertex orders; flat ones only    *)
(*         for interior_point; "tridegen" probes closest_point on them)    *)
(*   rect  every Rect on (0..3)^2 (flat ones too)                          *)
(*   ls3   every three-vertex LineString on (0..2)^2                       *)
(*   pool  polygons enumerated by Gen_Poly (all simple lattice polygons    *)
(*         with 0-2 holes), read back from the file IOEnv.POOL             *)
(*   mpool MultiPolygons of two pool polygons side by side                 *)
(*   gcpool collections of a pool polygon, a curve and points (mixed       *)
(*         dimension, flat or nested)                                      *)
(*   touch the square 0..6 with every triangular hole that touches the     *)
(*         shell in one point (on an edge or at a corner)                  *)
(* each with every lattice query point of a window one unit larger.        *)
(***************************************************************************)
EXTENDS Shapes, TLC, Json, IOUtils

CONSTANTS Mode,          \* "closest": cases with query points; "interior": one case per geometry
          Fams,          \* set of source family names to enumerate
          Stride, Offset,\* pool / mpool / gcpool / touch: every Stride-th (geometry, query point) combination
          MStride        \* mpool / gcpool: built on every MStride-th pool polygon

-----------------------------------------------------------------------------
\* the point of the closed segment [a, b] nearest to p, <<xn, yn, den>> in lowest terms
NormPt(q) == LET g == Gcd(Gcd(Abs(q[1]), Abs(q[2])), q[3]) IN <<q[1] \div g, q[2] \div g, q[3] \div g>>
NearOnSeg(p, a, b) ==
    IF a = b THEN <<a[1], a[2], 1>>
    ELSE LET l2 == D2(a, b)
             t  == Dot(a, b, p)
         IN IF t <= 0 THEN <<a[1], a[2], 1>>
            ELSE IF t >= l2 THEN <<b[1], b[2], 1>>
            ELSE NormPt(<<a[1] * l2 + t * (b[1] - a[1]), a[2] * l2 + t * (b[2] - a[2]), l2>>)

Dist2To(g, p) == RatNorm(SetRatMin({PtSegD2(p, s[1], s[2]) : s \in Segs(g)}))
NearSet(g, p) == LET m == Dist2To(g, p) IN
                 {NearOnSeg(p, s[1], s[2]) : s \in {s \in Segs(g) : RatEq(PtSegD2(p, s[1], s[2]), m)}}

\* empty, or every part is a single location (zero length)
ZeroLen(g) == \A s \in Segs(g) : s[1] = s[2]
ClosestCase(e, p) ==
    LET g == e.g
        empty == Segs(g) = {}
        hit == Pos(g, p) # "E"
    IN [op |-> "closest", g |-> g, p |-> p, valid |-> e.valid,
        empty |-> empty, ind |-> ZeroLen(g), hit |-> hit, pos |-> Pos(g, p),
        d2 |-> IF empty \/ hit THEN <<0, 1>> ELSE Dist2To(g, p),
        near |-> IF empty \/ hit THEN <<>> ELSE SetToSeq(NearSet(g, p))]
InteriorCase(e) == [op |-> "interior", g |-> e.g, valid |-> e.valid]

-----------------------------------------------------------------------------
Sq(x, y, s) == << <<x, y>>, <<x + s, y>>, <<x + s, y + s>>, <<x, y + s>>, <<x, y>> >>
PR(ext, holes) == [ext |-> ext, holes |-> holes]
V(g) == [g |-> g, valid |-> TRUE]
\* degenerate or doubtful input: only "intersects" / "no wrong answer" is demanded, a panic is not a violation
D(g) == [g |-> g, valid |-> FALSE]

CShape == << <<0, 0>>, <<8, 0>>, <<8, 2>>, <<2, 2>>, <<2, 6>>, <<8, 6>>, <<8, 8>>, <<0, 8>>, <<0, 0>> >>
LShape == << <<0, 0>>, <<8, 0>>, <<8, 2>>, <<2, 2>>, <<2, 8>>, <<0, 8>>, <<0, 0>> >>
UShape == << <<0, 0>>, <<8, 0>>, <<8, 8>>, <<6, 8>>, <<6, 2>>, <<2, 2>>, <<2, 8>>, <<0, 8>>, <<0, 0>> >>
Comb   == << <<0, 0>>, <<8, 0>>, <<8, 8>>, <<6, 8>>, <<6, 2>>, <<5, 2>>, <<5, 8>>, <<3, 8>>, <<3, 2>>, <<2, 2>>, <<2, 8>>, <<0, 8>>, <<0, 0>> >>
Arrow  == << <<0, 0>>, <<8, 0>>, <<8, 8>>, <<4, 3>>, <<0, 8>>, <<0, 0>> >>
Zig    == << <<0, 0>>, <<8, 1>>, <<3, 3>>, <<7, 8>>, <<2, 5>>, <<0, 7>>, <<1, 3>>, <<0, 0>> >>
Diamond == << <<0, 4>>, <<4, 0>>, <<8, 4>>, <<4, 8>>, <<0, 4>> >>
Sliver3 == << <<0, 0>>, <<8, 7>>, <<7, 6>>, <<0, 0>> >>                \* doubled area 1
Sliver4 == << <<0, 0>>, <<7, 6>>, <<8, 7>>, <<1, 1>>, <<0, 0>> >>      \* doubled area 2
SliverH == << <<0, 0>>, <<8, 0>>, <<8, 1>>, <<0, 0>> >>
Spiral == << <<0, 0>>, <<8, 0>>, <<8, 8>>, <<0, 8>>, <<0, 2>>, <<6, 2>>, <<6, 6>>, <<2, 6>>, <<2, 5>>, <<5, 5>>, <<5, 3>>, <<1, 3>>,
             <<1, 7>>, <<7, 7>>, <<7, 1>>, <<0, 1>>, <<0, 0>> >>                \* corridor of width 1 winding inwards

Cat == <<
    \* ---- polygons
    V(Poly(Sq(0, 0, 8), << Rev(Sq(2, 2, 4)) >>)),                                   \* frame: centroid in the hole
    V(Poly(Sq(0, 0, 8), << Sq(1, 1, 6) >>)),                                        \* thin frame, hole wound ccw
    V(Poly(Rev(Sq(0, 0, 8)), << Sq(1, 3, 2), Rev(Sq(5, 3, 2)) >>)),                 \* shell cw, two holes on the median
    V(Poly(Sq(0, 0, 8), << << <<0, 4>>, <<3, 2>>, <<3, 6>>, <<0, 4>> >> >>)),       \* hole touches a shell edge
    V(Poly(Sq(0, 0, 8), << << <<0, 0>>, <<4, 2>>, <<2, 4>>, <<0, 0>> >> >>)),       \* hole touches a shell vertex
    V(Poly(Sq(0, 0, 8), << Sq(2, 2, 2), Sq(4, 4, 2) >>)),                           \* two holes touching each other
    V(Poly(Sq(0, 0, 8), << << <<1, 1>>, <<6, 1>>, <<1, 6>>, <<1, 1>> >>, Sq(4, 4, 3) >>)), \* a triangular hole listed first whose bounding box covers the square hole
    V(Poly(Sq(0, 0, 8), << Sq(4, 4, 3), << <<1, 1>>, <<6, 1>>, <<1, 6>>, <<1, 1>> >> >>)), \* the same, holes in the other order
    D(Poly(Sq(0, 0, 8), << << <<4, 0>>, <<6, 4>>, <<4, 8>>, <<2, 4>>, <<4, 0>> >> >>)), \* hole touches the shell twice (interior disconnected: not valid)
    V(Poly(CShape, <<>>)), V(Poly(LShape, <<>>)), V(Poly(UShape, <<>>)), V(Poly(Rev(UShape), <<>>)),
    V(Poly(Comb, <<>>)), V(Poly(Arrow, <<>>)), V(Poly(Zig, <<>>)), V(Poly(Diamond, <<>>)), V(Poly(Spiral, <<>>)),
    V(Poly(Sliver3, <<>>)), V(Poly(Sliver4, <<>>)), V(Poly(SliverH, <<>>)),
    V(Poly(Diamond, << Sq(3, 3, 2) >>)),
    V(Poly(CShape, << << <<1, 3>>, <<2, 4>>, <<1, 5>>, <<1, 3>> >> >>)),            \* hole in the spine of the C touching the notch edge
    \* ---- multipolygons
    V(MPoly(<< PR(Sq(0, 0, 2), <<>>), PR(Sq(5, 5, 3), << Rev(Sq(6, 6, 1)) >>) >>)),
    V(MPoly(<< PR(Sq(0, 0, 4), <<>>), PR(Sq(4, 4, 4), <<>>) >>)),                   \* touching at a vertex
    V(MPoly(<< PR(Sq(0, 0, 8), << Sq(2, 2, 4) >>), PR(Sq(3, 3, 2), <<>>) >>)),      \* island in the hole
    V(MPoly(<< PR(Sliver3, <<>>), PR(Sq(6, 0, 2), <<>>) >>)),
    V(MPoly(<< PR(CShape, <<>>), PR(Sq(4, 3, 2), <<>>) >>)),                        \* square in the notch of the C
    D(MPoly(<< PR(<<>>, <<>>), PR(Sq(1, 1, 3), <<>>) >>)),                          \* an empty member
    \* ---- rect / triangle
    V(Rc(<<1, 1>>, <<7, 6>>)), V(Rc(<<8, 8>>, <<0, 3>>)), D(Rc(<<1, 2>>, <<7, 2>>)), D(Rc(<<3, 3>>, <<3, 3>>)),
    V(Tri(<<0, 0>>, <<8, 0>>, <<0, 8>>)), V(Tri(<<0, 0>>, <<0, 8>>, <<8, 0>>)), V(Tri(<<0, 0>>, <<8, 7>>, <<7, 6>>)),
    V(Tri(<<1, 0>>, <<8, 3>>, <<2, 7>>)),
    D(Tri(<<0, 0>>, <<4, 0>>, <<8, 0>>)), D(Tri(<<0, 0>>, <<8, 8>>, <<2, 2>>)), D(Tri(<<2, 5>>, <<2, 5>>, <<2, 5>>)),
    \* ---- curves
    V(Ln(<<0, 7>>, <<7, 0>>)), V(Ln(<<0, 0>>, <<8, 3>>)), V(Ln(<<3, 1>>, <<3, 7>>)), D(Ln(<<1, 1>>, <<1, 1>>)),
    V(LS(<< <<0, 0>>, <<8, 0>>, <<8, 8>>, <<0, 8>> >>)), V(LS(<< <<0, 0>>, <<3, 4>>, <<3, 0>>, <<0, 0>> >>)),
    V(LS(<< <<1, 1>>, <<7, 5>> >>)), V(LS(<< <<0, 0>>, <<8, 8>>, <<8, 0>>, <<0, 8>> >>)),
    V(LS(<< <<0, 4>>, <<0, 4>>, <<4, 4>>, <<4, 1>> >>)), V(LS(<< <<0, 0>>, <<2, 5>>, <<4, 1>>, <<6, 6>>, <<8, 2>> >>)),
    V(LS(<<>>)), D(LS(<< <<1, 1>> >>)), D(LS(<< <<2, 6>>, <<2, 6>> >>)),
    V(MLS(<< << <<0, 0>>, <<8, 2>> >>, << <<0, 8>>, <<8, 6>> >> >>)),
    V(MLS(<< << <<0, 0>>, <<4, 0>>, <<4, 4>> >>, << <<4, 4>>, <<0, 4>>, <<0, 0>> >> >>)),   \* two members closing a loop
    V(MLS(<< << <<0, 0>>, <<2, 3>>, <<4, 0>> >>, << <<5, 5>>, <<8, 5>>, <<8, 8>>, <<5, 8>> >> >>)),
    V(MLS(<< <<>>, << <<2, 2>>, <<2, 4>>, <<6, 4>> >> >>)), V(MLS(<<>>)), V(MLS(<< <<>> >>)),
    \* ---- points
    V(Pt(<<3, 5>>)), V(MPt(<< <<0, 0>>, <<8, 8>>, <<3, 5>> >>)), V(MPt(<< <<3, 3>>, <<3, 3>>, <<5, 1>> >>)), V(MPt(<<>>)),
    \* ---- collections
    V(GC(<< Poly(Sq(0, 0, 2), <<>>), LS(<< <<4, 0>>, <<8, 4>> >>), Pt(<<0, 8>>) >>)),
    V(GC(<< Pt(<<0, 0>>), Ln(<<1, 1>>, <<2, 1>>) >>)),
    V(GC(<< Pt(<<7, 7>>), GC(<< LS(<< <<0, 0>>, <<4, 0>>, <<4, 3>> >>), GC(<< Rc(<<5, 0>>, <<8, 2>>) >>) >>) >>)),
    V(GC(<< Poly(CShape, <<>>), Tri(<<4, 3>>, <<6, 3>>, <<4, 5>>), MPt(<< <<3, 4>>, <<7, 4>> >>) >>)),
    V(GC(<< MPt(<< <<0, 0>>, <<8, 0>> >>), LS(<< <<0, 4>>, <<4, 8>>, <<8, 4>> >>) >>)),
    V(GC(<< Poly(Sliver3, <<>>), Rc(<<0, 5>>, <<2, 8>>), Ln(<<5, 0>>, <<8, 2>>) >>)),
    V(GC(<<>>)), V(GC(<< GC(<<>>) >>)), V(GC(<< LS(<<>>), Poly(<<>>, <<>>), MPt(<<>>) >>)),
    V(GC(<< LS(<<>>), Pt(<<4, 4>>) >>)),
    \* ---- empty / degenerate polygons
    V(Poly(<<>>, <<>>)), V(MPoly(<<>>)), V(MPoly(<< PR(<<>>, <<>>) >>)),
    D(Poly(<< <<0, 0>>, <<4, 0>>, <<8, 0>>, <<0, 0>> >>, <<>>)), D(Poly(<< <<0, 0>>, <<3, 4>>, <<0, 0>> >>, <<>>)),
    D(Poly(<< <<2, 3>>, <<2, 3>>, <<2, 3>>, <<2, 3>> >>, <<>>))
>>

\* sanity of the catalogue: every ring of an entry flagged valid is a simple ring with area, holes inside the shell
RingsOfGeom(g) ==
    CASE g.t = "Polygon" -> IF Len(g.ext) = 0 THEN {} ELSE {g.ext} \cup {g.holes[i] : i \in DOMAIN g.holes}
      [] g.t = "MultiPolygon" -> UNION {IF Len(g.ps[i].ext) = 0 THEN {} ELSE {g.ps[i].ext} \cup {g.ps[i].holes[j] : j \in DOMAIN g.ps[i].holes} : i \in DOMAIN g.ps}
      [] OTHER -> {}
HolesInside(ext, holes) == \A i \in DOMAIN holes : \A k \in DOMAIN holes[i] : RingPos(holes[i][k], ext) # "E"
ASSUME CatSane == \A i \in DOMAIN Cat : Cat[i].valid =>
              /\ \A r \in RingsOfGeom(Cat[i].g) : SimplePath(r) /\ IsClosedSeq(r) /\ Area2(r) # 0
              /\ Cat[i].g.t = "Polygon" /\ Len(Cat[i].g.ext) > 0 => HolesInside(Cat[i].g.ext, Cat[i].g.holes)

-----------------------------------------------------------------------------
Grid(k) == (0 .. k) \X (0 .. k)
Win(lo, hi) == (lo .. hi) \X (lo .. hi)
OnlyPool(S) == IF Fams \cap {"pool", "mpool", "gcpool"} # {} THEN S ELSE <<>>
ShiftSeq(cs, d) == [i \in DOMAIN cs |-> <<cs[i][1] + d[1], cs[i][2] + d[2]>>]
\* polygons written by Gen_Poly (op = "poly": ext, holes; valid by construction)
Pool == OnlyPool(ndJsonDeserialize(IOEnv.POOL))
NPool == Len(Pool)

\* "touch": the square 0..6 with a triangular hole that has one corner ON the shell (an edge or a corner of it) and
\* two corners strictly inside - valid, and the hole touches the shell in exactly that point (the shell is convex)
Bd6 == {p \in Grid(6) : p[1] \in {0, 6} \/ p[2] \in {0, 6}}
In6 == (1 .. 5) \X (1 .. 5)
\* "gcpool": a pool polygon with a curve and a point set to the right of it (x >= 5), flat or nested
CurveCat == << LS(<< <<5, 0>>, <<6, 2>>, <<5, 4>> >>), LS(<< <<5, 0>>, <<5, 4>> >>), Ln(<<5, 1>>, <<7, 4>>),
               MLS(<< << <<5, 0>>, <<7, 0>> >>, << <<6, 2>>, <<6, 4>>, <<7, 3>> >> >>) >>
PtCat == << Pt(<<8, 1>>), MPt(<< <<8, 0>>, <<8, 4>> >>) >>
GcOf(i) == LET poly == Poly(Pool[i].ext, Pool[i].holes)
               cur == CurveCat[(i % 4) + 1]
               pts == PtCat[(i % 2) + 1]
           IN IF i % 3 = 0 THEN GC(<< pts, GC(<< cur, GC(<< poly >>) >>) >>)
              ELSE IF i % 3 = 1 THEN GC(<< poly, cur, pts >>) ELSE GC(<< cur, pts, poly >>)

\* a source is <<family, i, j>>; the geometries it stands for and the query window
\* (kept per family: TLC enumerates a big union of sets very slowly)
Src(f) ==
    CASE f = "cat"  -> {<<"cat", i, 0>> : i \in DOMAIN Cat}
      [] f = "line" -> {<<"line", a[1], a[2]>> : a \in Grid(3)}
      [] f = "tri"  -> {<<"tri", a[1] * 3 + a[2], b[1] * 3 + b[2]>> : a \in Grid(2), b \in Grid(2)}
      [] f = "tridegen" -> {<<"tridegen", a[1] * 3 + a[2], b[1] * 3 + b[2]>> : a \in Grid(2), b \in Grid(2)}
      [] f = "rect" -> {<<"rect", a[1], a[2]>> : a \in Grid(3)}
      [] f = "ls3"  -> {<<"ls3", a[1] * 3 + a[2], b[1] * 3 + b[2]>> : a \in Grid(2), b \in Grid(2)}
      [] f = "pool" -> {<<"pool", i, 0>> : i \in 1 .. NPool}
      [] f = "mpool" -> {<<"mpool", i, ((7 * i + 3) % NPool) + 1>> : i \in {i \in 1 .. NPool : i % MStride = Offset % MStride}}
      [] f = "gcpool" -> {<<"gcpool", i, 0>> : i \in {i \in 1 .. NPool : i % MStride = Offset % MStride}}
      [] f = "touch" -> {<<"touch", a[1], a[2]>> : a \in Bd6}
P3(k) == <<k \div 3, k % 3>>
FlatTri(g) == g.t = "Triangle" /\ Cross(g.a, g.b, g.c) = 0
Geoms(s) ==
    CASE s[1] = "cat"  -> {x \in {Cat[s[2]]} : Mode = "interior" \/ ~FlatTri(x.g)}
      [] s[1] = "line" -> {[g |-> Ln(<<s[2], s[3]>>, b), valid |-> b # <<s[2], s[3]>>] : b \in Grid(3)}
      \* closest: triangles with area only (geo's Triangle::intersects(Point) is not meaningful on collinear corners,
      \* and the property covers degenerate input only as "empty or zero length"); "tridegen" is the probe for the rest
      [] s[1] = "tri"  -> {[g |-> Tri(P3(s[2]), P3(s[3]), c), valid |-> Cross(P3(s[2]), P3(s[3]), c) # 0]
                              : c \in {c \in Grid(2) : Mode = "interior" \/ Cross(P3(s[2]), P3(s[3]), c) # 0}}
      [] s[1] = "tridegen" -> {[g |-> Tri(P3(s[2]), P3(s[3]), c), valid |-> FALSE] : c \in {c \in Grid(2) : Cross(P3(s[2]), P3(s[3]), c) = 0}}
      [] s[1] = "rect" -> {[g |-> Rc(<<s[2], s[3]>>, b), valid |-> b[1] > s[2] /\ b[2] > s[3]] : b \in {b \in Grid(3) : b[1] >= s[2] /\ b[2] >= s[3]}}
      [] s[1] = "ls3"  -> {[g |-> LS(<<P3(s[2]), P3(s[3]), c>>), valid |-> P3(s[2]) # P3(s[3]) \/ P3(s[3]) # c] : c \in Grid(2)}
      [] s[1] = "pool" -> {[g |-> Poly(Pool[s[2]].ext, Pool[s[2]].holes), valid |-> TRUE]}
      \* two pool polygons side by side (the second moved 5 to the right: pool coordinates are 0..4, so they are disjoint)
      [] s[1] = "mpool" -> {[g |-> MPoly(<< PR(Pool[s[2]].ext, Pool[s[2]].holes),
                                            PR(ShiftSeq(Pool[s[3]].ext, <<5, 0>>),
                                               [h \in DOMAIN Pool[s[3]].holes |-> ShiftSeq(Pool[s[3]].holes[h], <<5, 0>>)]) >>),
                             valid |-> TRUE]}
      [] s[1] = "gcpool" -> {[g |-> GcOf(s[2]), valid |-> TRUE]}
      [] s[1] = "touch" -> LET a == <<s[2], s[3]>> IN
                           {[g |-> Poly(Sq(0, 0, 6), << <<a, x[1], x[2], a>> >>), valid |-> TRUE]
                               : x \in {x \in In6 \X In6 : Cross(a, x[1], x[2]) > 0}}
\* strided families keep every Stride-th (geometry, query point) combination
StrideKey(s, x) == IF s[1] = "touch" THEN LET h == x.g.holes[1] IN s[2] + s[3] + h[2][1] + 3 * h[2][2] + 5 * h[3][1] + 7 * h[3][2]
                   ELSE s[2]
Strided(s) == s[1] \in {"pool", "mpool", "gcpool", "touch"}
Keep(s, x, p) == ~Strided(s) \/ (StrideKey(s, x) + 7 * (p[1] + 1) + (p[2] + 1)) % Stride = Offset % Stride
Window(s) ==
    CASE s[1] = "cat"  -> Win(-1, 9)
      [] s[1] = "line" -> Win(-1, 4)
      [] s[1] = "tri"  -> Win(-1, 3)
      [] s[1] = "tridegen" -> Win(-1, 3)
      [] s[1] = "rect" -> Win(-1, 4)
      [] s[1] = "ls3"  -> Win(-1, 3)
      [] s[1] = "pool" -> Win(-1, 5)
      [] s[1] = "mpool" -> (-1 .. 10) \X (-1 .. 5)
      [] s[1] = "gcpool" -> (-1 .. 9) \X (-1 .. 5)
      [] s[1] = "touch" -> Win(-1, 7)

VARIABLES src, e, q, done
vars == <<src, e, q, done>>
NoGeom == [g |-> Pt(<<0, 0>>), valid |-> FALSE]
Init == (\E f \in Fams : src \in Src(f)) /\ e = NoGeom /\ q = <<0, 0>> /\ done = FALSE
Next == /\ ~done /\ done' = TRUE /\ src' = src
        /\ e' \in Geoms(src)
        /\ IF Mode = "closest"
           THEN q' \in {p \in Window(src) : Keep(src, e', p)} /\ PrintT(<<"CASE", ToJson(ClosestCase(e', q'))>>)
           ELSE q' = q /\ PrintT(<<"CASE", ToJson(InteriorCase(e'))>>)
Spec == Init /\ [][Next]_vars

\* lemmas of the definition itself
ClosestLaws == (done /\ Mode = "closest" /\ Segs(e.g) # {} /\ Pos(e.g, q) = "E") =>
    LET m == Dist2To(e.g, q)  N == NearSet(e.g, q) IN
    /\ m[1] > 0 /\ m[2] > 0 /\ N # {}
    \* every admissible point is at exactly the minimal distance from the query point
    /\ \A n \in N : ((n[1] - q[1] * n[3]) * (n[1] - q[1] * n[3]) + (n[2] - q[2] * n[3]) * (n[2] - q[2] * n[3])) * m[2]
                      = m[1] * n[3] * n[3]
    \* and no vertex of g is nearer
    /\ \A s \in Segs(e.g) : RatLeq(m, <<D2(q, s[1]), 1>>)
=============================================================================

------------------------------- MODULE Gen_Conv -------------------------------
(***************************************************************************)
(* C18, conversions: Rect / Triangle / Line into Polygon / LineString and  *)
(* into the Geometry enum and back preserve the coordinates and their      *)
(* (documented) order.  One case per choice of corners.                    *)
(***************************************************************************)
EXTENDS Integers, Sequences, TLC, Json
CONSTANT K
P == (0 .. K) \X (0 .. K)
Min2(a, b) == IF a <= b THEN a ELSE b
Max2(a, b) == IF a >= b THEN a ELSE b
RectToPolygon(a, b)   == << <<b[1], a[2]>>, <<b[1], b[2]>>, <<a[1], b[2]>>, <<a[1], a[2]>>, <<b[1], a[2]>> >>
RectIntoPolygon(a, b) == << <<a[1], a[2]>>, <<b[1], a[2]>>, <<b[1], b[2]>>, <<a[1], b[2]>>, <<a[1], a[2]>> >>
Cross(o, a, b) == (a[1] - o[1]) * (b[2] - o[2]) - (a[2] - o[2]) * (b[1] - o[1])
\* Triangle::new documents that it stores the vertices in counter-clockwise order: a clockwise
\* triple is stored reversed; conversions then keep the stored order
TriStored(a, b, c) == IF Cross(a, b, c) < 0 THEN <<c, b, a>> ELSE <<a, b, c>>
VARIABLES p, q, r, done
Init == p \in P /\ q \in P /\ r = <<0, 0>> /\ done = FALSE
Next == /\ ~done /\ done' = TRUE /\ p' = p /\ q' = q /\ r' \in P
        /\ LET lo == <<Min2(p[1], q[1]), Min2(p[2], q[2])>>
               hi == <<Max2(p[1], q[1]), Max2(p[2], q[2])>>
           IN PrintT(<<"CASE", ToJson([op |-> "c18_conv", p |-> p, q |-> q, r |-> r',
                  rect_min |-> lo, rect_max |-> hi,
                  rect_to_polygon |-> RectToPolygon(lo, hi), rect_into_polygon |-> RectIntoPolygon(lo, hi),
                  tri_to_polygon |-> LET t == TriStored(p, q, r') IN <<t[1], t[2], t[3], t[1]>>, line_to_linestring |-> <<p, q>>,
                  \* the tuple constructor and From<[_; 3]> store the vertices as given (clockwise too); conversions keep that order
                  tri_raw |-> <<p, q, r', p>>, tri_raw_flipped |-> <<p, r', q, p>>])>>)
Spec == Init /\ [][Next]_<<p, q, r, done>>
=============================================================================

---------------------------- MODULE Gen_Distance ----------------------------
(***************************************************************************)
(* C07 - Euclidean distance is the true minimum distance.                  *)
(*   Dist2(a, b) = 0                      if a and b share a point         *)
(*               = min over pairs of segments (a point is a degenerate     *)
(*                 segment) of the exact squared segment distance          *)
(* as a rational <<num, den>> over the general lattice (any slopes).       *)
(* "Share a point" is decided exactly: two segments meet, or a vertex of   *)
(* one operand is not in the exterior of the other (covers containment;    *)
(* a geometry lying in a hole of a polygon shares nothing with it and is   *)
(* measured to the hole ring).                                             *)
(* Operands: base shapes of all 10 types placed at every offset of a small *)
(* set, so that every relative position occurs (inside a hole, nested,     *)
(* touching, crossing, vertex-vertex, vertex-edge, parallel edges).        *)
(***************************************************************************)
EXTENDS PointSet, TLC, Json

CONSTANTS Stride, Offset

Verts(g) == {s[1] : s \in Segs(g)} \cup {s[2] : s \in Segs(g)}

\* members of the pool do not overlap themselves, so Pos of a collection is well defined
Share(a, b) ==
    \/ \E s \in Segs(a), t \in Segs(b) : SegSegMeet(s[1], s[2], t[1], t[2])
    \/ \E v \in Verts(b) : Pos(a, v) # "E"
    \/ \E v \in Verts(a) : Pos(b, v) # "E"
Dist2(a, b) ==
    IF Share(a, b) THEN <<0, 1>>
    ELSE RatNorm(SetRatMin({SegSegD2(s[1], s[2], t[1], t[2]) : s \in Segs(a), t \in Segs(b)}))

\* ---- pool: base shapes (near the origin) x offsets
Sq(x, y, s) == << <<x, y>>, <<x + s, y>>, <<x + s, y + s>>, <<x, y + s>>, <<x, y>> >>
Shift(c, d) == <<c[1] + d[1], c[2] + d[2]>>
ShiftSeq(cs, d) == [i \in DOMAIN cs |-> Shift(cs[i], d)]
ShiftPoly(p, d) == [ext |-> ShiftSeq(p.ext, d), holes |-> [i \in DOMAIN p.holes |-> ShiftSeq(p.holes[i], d)]]
RECURSIVE Move(_, _)
Move(g, d) ==
    CASE g.t = "Point" -> Pt(Shift(g.c, d))
      [] g.t = "MultiPoint" -> MPt(ShiftSeq(g.cs, d))
      [] g.t = "Line" -> Ln(Shift(g.a, d), Shift(g.b, d))
      [] g.t = "LineString" -> LS(ShiftSeq(g.cs, d))
      [] g.t = "MultiLineString" -> MLS([i \in DOMAIN g.ls |-> ShiftSeq(g.ls[i], d)])
      [] g.t = "Polygon" -> Poly(ShiftSeq(g.ext, d), [i \in DOMAIN g.holes |-> ShiftSeq(g.holes[i], d)])
      [] g.t = "MultiPolygon" -> MPoly([i \in DOMAIN g.ps |-> ShiftPoly(g.ps[i], d)])
      [] g.t = "Rect" -> Rc(Shift(g.a, d), Shift(g.b, d))
      [] g.t = "Triangle" -> Tri(Shift(g.a, d), Shift(g.b, d), Shift(g.c, d))
      [] g.t = "GeometryCollection" -> GC([i \in DOMAIN g.gs |-> Move(g.gs[i], d)])

\* long operands (size-gated code paths): a staircase line of n unit steps and the staircase polygon under it
StairLine(n) == [i \in 1 .. n + 1 |-> <<i \div 2, (i - 1) \div 2>>]
RECURSIVE StairSteps(_, _)
StairSteps(n, k) == IF k > n THEN <<>> ELSE << <<n - k + 1, k>>, <<n - k, k>> >> \o StairSteps(n, k + 1)
Snake(w, h) == [k \in 1 .. (w + 1) * (h + 1) |-> LET r == (k - 1) \div (w + 1)  c == (k - 1) % (w + 1) IN <<IF r % 2 = 0 THEN c ELSE w - c, r>>]
StairRing(n) == << <<0, 0>>, <<n, 0>> >> \o StairSteps(n, 1) \o << <<0, 0>> >>
\* big operands (fixed), 8 x 8 frame
Big == <<
    Poly(Sq(0, 0, 8), << Rev(Sq(2, 2, 4)) >>),                               \* frame with a 4 x 4 hole
    Poly(Sq(0, 0, 8), << Sq(1, 1, 6) >>),                                    \* thin frame, hole wound ccw
    Poly(Sq(0, 0, 9), << Rev(Sq(2, 2, 5)) >>),                               \* 5 x 5 hole: a holed 3 x 3 polygon fits strictly inside
    MPoly(<< [ext |-> Sq(0, 0, 9), holes |-> << Rev(Sq(1, 1, 7)) >>], [ext |-> Sq(3, 3, 1), holes |-> <<>>] >>),   \* island in the hole of a thin frame
    Poly(Sq(0, 0, 8), <<>>),
    Poly(<< <<0, 0>>, <<8, 0>>, <<8, 8>>, <<4, 3>>, <<0, 8>>, <<0, 0>> >>, <<>>),      \* concave
    MPoly(<< [ext |-> Sq(0, 0, 2), holes |-> <<>>], [ext |-> Sq(5, 5, 3), holes |-> << Rev(Sq(6, 6, 1)) >>] >>),
    LS(<< <<0, 0>>, <<8, 0>>, <<8, 8>>, <<0, 8>> >>),
    MLS(<< << <<0, 0>>, <<8, 2>> >>, << <<0, 8>>, <<8, 6>> >> >>),
    Rc(<<1, 1>>, <<7, 6>>),
    Tri(<<0, 0>>, <<8, 0>>, <<0, 8>>),
    GC(<< Poly(Sq(0, 0, 2), <<>>), LS(<< <<4, 0>>, <<8, 4>> >>), Pt(<<0, 8>>) >>),
    MPt(<< <<0, 0>>, <<8, 8>>, <<3, 5>> >>),
    Ln(<<0, 7>>, <<7, 0>>),
    LS(StairLine(140)), Poly(StairRing(70), << Rev(Sq(1, 1, 1)) >>),
    \* two holes: an L-shaped one listed first whose bounding box covers the square hole in which the small operands land
    Poly(Sq(0, 0, 12), << Rev(<< <<1, 1>>, <<10, 1>>, <<10, 2>>, <<2, 2>>, <<2, 10>>, <<1, 10>>, <<1, 1>> >>), Rev(Sq(4, 4, 5)) >>),
    \* a snake through every lattice point of 0..40 x 0..25 (1066 vertices with small coordinates: the exact rationals stay in 32 bits)
    LS(Snake(40, 25)),
    \* holed shells that do not fill their bounding box: an operand in the empty corner is outside the polygon, not in a hole
    Poly(<< <<0, 0>>, <<9, 0>>, <<0, 9>>, <<0, 0>> >>, << Rev(Sq(1, 1, 2)) >>),                                            \* triangle
    Poly(<< <<0, 0>>, <<9, 0>>, <<9, 3>>, <<3, 3>>, <<3, 9>>, <<0, 9>>, <<0, 0>> >>, << Rev(Sq(1, 1, 1)) >>),              \* L
    Poly(<< <<0, 0>>, <<9, 0>>, <<9, 9>>, <<5, 2>>, <<0, 9>>, <<0, 0>> >>, << Rev(Sq(1, 1, 1)) >>),                        \* V
    MPoly(<< [ext |-> << <<9, 9>>, <<0, 9>>, <<9, 0>>, <<9, 9>> >>, holes |-> << Rev(Sq(6, 6, 2)) >>], [ext |-> Sq(0, 0, 1), holes |-> <<>>] >>),
    MPt([i \in 1 .. 300 |-> <<(i * 7) % 13, (i * 11) % 17>>])
>>
\* small operands (moved around)
Small == <<
    Pt(<<0, 0>>),
    MPt(<< <<0, 0>>, <<1, 1>> >>),
    Ln(<<0, 0>>, <<1, 0>>), Ln(<<0, 0>>, <<1, 2>>),
    LS(<< <<0, 0>>, <<1, 0>>, <<1, 1>> >>),
    MLS(<< << <<0, 0>>, <<0, 1>> >>, << <<1, 0>>, <<1, 1>> >> >>),
    Poly(Sq(0, 0, 1), <<>>), Poly(<< <<0, 0>>, <<2, 0>>, <<1, 1>>, <<0, 0>> >>, <<>>),
    Poly(Sq(0, 0, 3), << Rev(Sq(1, 1, 1)) >>),
    MPoly(<< [ext |-> Sq(0, 0, 1), holes |-> <<>>], [ext |-> Sq(2, 0, 1), holes |-> <<>>] >>),
    Rc(<<0, 0>>, <<2, 1>>),
    Tri(<<0, 0>>, <<1, 0>>, <<0, 1>>),
    GC(<< Pt(<<0, 0>>), Ln(<<1, 1>>, <<2, 1>>) >>)
>>
OffSeq == << <<-3, -2>>, <<-3, 0>>, <<-3, 3>>, <<0, -2>>, <<0, 0>>, <<0, 2>>, <<0, 6>>, <<2, 2>>, <<2, 3>>, <<3, 3>>, <<3, 6>>,
             <<5, 0>>, <<5, 2>>, <<5, 6>>, <<9, -2>>, <<9, 3>>, <<9, 6>>, <<3, 0>>, <<2, 6>>, <<5, 3>> >>

VARIABLES ib, is, io, done
vars == <<ib, is, io, done>>
\* the first operand is a big or a small shape (index > Len(Big) means small), the second a moved small one
NA == Len(Big) + Len(Small)
First(i) == IF i <= Len(Big) THEN Big[i] ELSE Move(Small[i - Len(Big)], <<3, 3>>)
Init == /\ ib \in {i \in 1 .. NA : i % Stride = Offset % Stride} /\ is = 0 /\ io = 0 /\ done = FALSE
Case(a, b) == [op |-> "distance", a |-> a, b |-> b, d2 |-> Dist2(a, b)]
Next == /\ ~done /\ done' = TRUE /\ ib' = ib
        /\ is' \in 1 .. Len(Small) /\ io' \in 1 .. Len(OffSeq)
        /\ PrintT(<<"CASE", ToJson(Case(First(ib), Move(Small[is'], OffSeq[io'])))>>)
Spec == Init /\ [][Next]_vars

\* lemmas of the definition itself: symmetry, and zero exactly when a point is shared
DistLaws == done =>
    LET a == First(ib)  b == Move(Small[is], OffSeq[io]) IN
    /\ Dist2(a, b) = Dist2(b, a)
    /\ (Dist2(a, b)[1] = 0) = Share(a, b)
    /\ Dist2(a, b)[1] >= 0 /\ Dist2(a, b)[2] > 0
=============================================================================

------------------------------ MODULE Gen_Extra ------------------------------
(***************************************************************************)
(* Extensions beyond the listed properties (X03 - X06): vertex-sequence    *)
(* algorithms with an exact meaning on the lattice.                        *)
(*   Mode = "pair": two vertex sequences A, B                              *)
(*     X03  hausdorff_distance  = max over the vertices of either of the   *)
(*          distance to the nearest vertex of the other (squared, exact)   *)
(*          frechet_distance    = discrete Frechet distance: the coupling  *)
(*          recurrence c(i,j) = max(d(i,j), min(c(i-1,j), c(i,j-1),        *)
(*          c(i-1,j-1))) on squared distances (max / min commute with the  *)
(*          square root)                                                   *)
(*   Mode = "seq": one vertex sequence                                     *)
(*     X04  chaikin_smoothing: corner cutting at 1/4 and 3/4 of every      *)
(*          segment, end points of an open line kept, a closed one closed  *)
(*          again; n iterations = n-fold application (coordinates x 4^n    *)
(*          are integers)                                                  *)
(*     X05  convexity of a closed sequence, declaratively: the ring bounds *)
(*          a convex set iff every vertex lies on the same closed side of  *)
(*          the line of every edge; strict: no three consecutive vertices  *)
(*          collinear; collinear: all vertices on one line                 *)
(*     X06  remove_repeated_points: consecutive duplicates removed (line   *)
(*          strings, rings), every later duplicate removed (multi points)  *)
(***************************************************************************)
EXTENDS Lattice, TLC, Json, SequencesExt

CONSTANTS K, MaxN, Mode, Stride, Offset

NG == (K + 1) * (K + 1)
GridSeq == [i \in 1 .. NG |-> <<(i - 1) \div (K + 1), (i - 1) % (K + 1)>>]
Pts(s) == [i \in DOMAIN s |-> GridSeq[s[i]]]

\* ---- X03
NearestD2(p, B) == SetMin({D2(p, B[j]) : j \in DOMAIN B})
Directed(A, B) == SetMax({NearestD2(A[i], B) : i \in DOMAIN A})
Hausdorff2(A, B) == Max2(Directed(A, B), Directed(B, A))
RECURSIVE Coupling(_, _, _, _)
Coupling(A, B, i, j) ==
    LET d == D2(A[i], B[j]) IN
    IF i = 1 /\ j = 1 THEN d
    ELSE IF i = 1 THEN Max2(d, Coupling(A, B, 1, j - 1))
    ELSE IF j = 1 THEN Max2(d, Coupling(A, B, i - 1, 1))
    ELSE Max2(d, Min2(Coupling(A, B, i - 1, j), Min2(Coupling(A, B, i, j - 1), Coupling(A, B, i - 1, j - 1))))
Frechet2(A, B) == Coupling(A, B, Len(A), Len(B))

\* ---- X04 (coordinates scaled by 4 per iteration)
Times(cs, k) == [i \in DOMAIN cs |-> <<k * cs[i][1], k * cs[i][2]>>]
RECURSIVE Cuts(_, _)
Cuts(cs, i) == IF i >= Len(cs) THEN <<>>
               ELSE << <<3 * cs[i][1] + cs[i + 1][1], 3 * cs[i][2] + cs[i + 1][2]>>,
                       <<cs[i][1] + 3 * cs[i + 1][1], cs[i][2] + 3 * cs[i + 1][2]>> >> \o Cuts(cs, i + 1)
\* one iteration: input at scale s, output at scale 4 s
Chaikin4(cs) ==
    IF Len(cs) = 0 THEN <<>>
    ELSE LET c == Cuts(cs, 1)  open == cs[1] # cs[Len(cs)] IN
         IF open THEN <<Times(cs, 4)[1]>> \o c \o <<Times(cs, 4)[Len(cs)]>>
         ELSE IF Len(c) = 0 THEN <<>> ELSE c \o <<c[1]>>

\* ---- X05
SideAll(cs, s) == \A i \in 1 .. Len(cs) - 1 : \A j \in DOMAIN cs : Cross(cs[i], cs[i + 1], cs[j]) * s >= 0
AllCollinear(cs) == \A i, j, k \in DOMAIN cs : Cross(cs[i], cs[j], cs[k]) = 0
ConvexRing(cs) == cs[1] = cs[Len(cs)] /\ (SideAll(cs, 1) \/ SideAll(cs, -1))
\* cyclic triples of the ring (the closing coordinate counted once)
StrictRing(cs) == LET n == Len(cs) - 1 IN
    ConvexRing(cs) /\ \A i \in 1 .. n : Cross(cs[i], cs[(i % n) + 1], cs[((i + 1) % n) + 1]) # 0

\* ---- X06
RECURSIVE Dedup(_, _)
Dedup(cs, i) == IF i > Len(cs) THEN <<>>
                ELSE IF i > 1 /\ cs[i] = cs[i - 1] THEN Dedup(cs, i + 1) ELSE <<cs[i]>> \o Dedup(cs, i + 1)
RECURSIVE Uniq(_, _)
Uniq(cs, i) == IF i > Len(cs) THEN <<>>
               ELSE IF \E j \in 1 .. i - 1 : cs[j] = cs[i] THEN Uniq(cs, i + 1) ELSE <<cs[i]>> \o Uniq(cs, i + 1)

VARIABLES sa, sb, done
vars == <<sa, sb, done>>
Init == /\ sa \in {<<i>> : i \in {j \in 1 .. NG : j % Stride = Offset % Stride}} /\ sb = <<>> /\ done = FALSE

SeqCase(cs) ==
    LET closed == Len(cs) >= 4 /\ cs[1] = cs[Len(cs)]
        nodup == \A i \in 1 .. Len(cs) - 1 : cs[i] # cs[i + 1]
        \* no vertex at which the ring turns back onto the edge it came along (a zero-width spike encloses nothing of its own;
        \* whether such a ring "encloses a convex set" is a matter of taste, so it is not judged)
        n == Len(cs) - 1
        nospike == \A i \in 1 .. n : LET a == cs[i] b == cs[(i % n) + 1] c == cs[((i + 1) % n) + 1] IN
                       ~(Cross(a, b, c) = 0 /\ Dot(b, a, c) > 0)
    IN [op |-> "extra_seq", cs |-> cs, dedup |-> Dedup(cs, 1), uniq |-> Uniq(cs, 1),
        chaikin1 |-> Chaikin4(cs), chaikin2 |-> Chaikin4(Chaikin4(cs)),
        closed |-> closed, judged_convexity |-> closed /\ nodup /\ nospike,
        convex |-> closed /\ ConvexRing(cs), strict |-> closed /\ nodup /\ StrictRing(cs), collinear |-> AllCollinear(cs)]
PairCase(A, B) == [op |-> "extra_pair", a |-> A, b |-> B, hd2 |-> Hausdorff2(A, B), fr2 |-> Frechet2(A, B)]

\* grow A (any vertex, repeats allowed); in pair mode then choose B of 1..2 vertices in one step
Grow == /\ ~done /\ Len(sa) < MaxN /\ sb = <<>>
        /\ \E j \in 1 .. NG : sa' = Append(sa, j)
        /\ UNCHANGED <<sb, done>>
        /\ Mode = "seq" => PrintT(<<"CASE", ToJson(SeqCase(Pts(sa')))>>)
\* in seq mode also close the sequence into a ring
CloseIt == /\ Mode = "seq" /\ ~done /\ Len(sa) >= 3 /\ Len(sa) <= MaxN
           /\ done' = TRUE /\ sa' = Append(sa, sa[1]) /\ UNCHANGED sb
           /\ PrintT(<<"CASE", ToJson(SeqCase(Pts(sa')))>>)
Pair == /\ Mode = "pair" /\ ~done /\ Len(sa) >= 1
        /\ done' = TRUE /\ UNCHANGED sa
        /\ \E j \in 1 .. NG, k \in 0 .. NG : sb' = IF k = 0 THEN <<j>> ELSE <<j, k>>
        /\ PrintT(<<"CASE", ToJson(PairCase(Pts(sa), Pts(sb')))>>)
Next == Grow \/ CloseIt \/ Pair
Spec == Init /\ [][Next]_vars

\* lemmas: the Hausdorff distance is symmetric and never exceeds the Frechet distance; both vanish on identical sequences
ExtraLaws == (Mode = "pair" /\ done) =>
    LET A == Pts(sa)  B == Pts(sb) IN
    /\ Hausdorff2(A, B) = Hausdorff2(B, A) /\ Frechet2(A, B) = Frechet2(B, A)
    /\ Hausdorff2(A, B) <= Frechet2(A, B)
    /\ Frechet2(A, A) = 0
=============================================================================

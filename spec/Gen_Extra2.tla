------------------------------ MODULE Gen_Extra2 ------------------------------
(***************************************************************************)
(* Extensions beyond the listed properties (X07 - X09), second batch.      *)
(*                                                                         *)
(*   Mode = "segmentize" (X07): one vertex sequence (repeats, back-        *)
(*     tracking, empty, a single vertex) of <= MaxN vertices on the        *)
(*     (K+1)x(K+1) lattice, to be cut into n = 0 .. NMax pieces of equal   *)
(*     length by line_segmentize(n).  What is exact on the lattice:        *)
(*       d2       squared length of every edge                             *)
(*       zero     the curve has no length (no, one or only equal vertices) *)
(*       intlen   every edge has an integer length (axis-parallel edges,   *)
(*                3-4-5 edges): the total length L is an integer and the   *)
(*                k-th joint of the cut into n pieces is the point at      *)
(*                distance k L / n along the path - a rational point       *)
(*                <<X, Y, D>> = (X / D, Y / D) on the edge that contains   *)
(*                that distance                                            *)
(*       collinear, backtrack, repeats   classification only               *)
(*                                                                         *)
(*   Mode = "chull" (X08): one subset of <= MaxN lattice points; the       *)
(*     convex hull (Hull.tla: extreme points by Caratheodory, walked       *)
(*     counter-clockwise) bounds every concave hull from outside, and its  *)
(*     vertices must be vertices of every polygon with input vertices      *)
(*     that covers the input.  Emitted: ring, extreme, the points strictly *)
(*     inside the hull (only there can a concave hull differ), the non-    *)
(*     extreme points on the hull boundary.                                *)
(*                                                                         *)
(*   Mode = "xtrack" (X09): a great circle C (the equator, or the meridian *)
(*     circle through longitudes l0 and l0 + 180), an arc of it from the   *)
(*     parameter ta forward by s < 180 degrees, and a point P whose        *)
(*     relation to C is exactly known (Rel): the cross-track distance xtd  *)
(*     and the parameter of the nearer foot of the perpendicular (or "all  *)
(*     points are equally far" when P is a pole of C).  From these:        *)
(*     the closest point of the arc = the foot if it lies on the arc, else *)
(*     the end nearer to the foot along C (spherical Pythagoras: cos d =   *)
(*     cos xtd cos arc, monotone in arc), both on a tie.  All angles in    *)
(*     quarter degrees (Sphere.tla).  `arc` names the arcs along which the *)
(*     longitude is not constant / continuous (over a pole).               *)
(***************************************************************************)
EXTENDS Hull, TLC, Json, SequencesExt

CONSTANTS K, MaxN, Mode, Stride, Offset,
          NMax,     \* X07: piece counts 0 .. NMax
          Degs,     \* X09: circle longitudes, arc starts and arc lengths are multiples of some d in Degs (degrees)
          PDegs     \* X09: longitude and latitude of P are multiples of some d in PDegs (degrees)

Sph == INSTANCE Sphere

NG == (K + 1) * (K + 1)
GridSeq == [i \in 1 .. NG |-> <<(i - 1) \div (K + 1), (i - 1) % (K + 1)>>]
Pts(s) == [i \in DOMAIN s |-> GridSeq[s[i]]]

\* ------------------------------------------------------------------ X07
EdgeD2(cs) == [i \in 1 .. Len(cs) - 1 |-> D2(cs[i], cs[i + 1])]
ZeroLength(cs) == \A i, j \in DOMAIN cs : cs[i] = cs[j]
IntLen(cs) == \A i \in 1 .. Len(cs) - 1 : IsSquare(D2(cs[i], cs[i + 1]))
ELen(cs, i) == ISqrt(D2(cs[i], cs[i + 1]))
\* length of the path up to its i-th vertex
RECURSIVE Cum(_, _)
Cum(cs, i) == IF i <= 1 THEN 0 ELSE Cum(cs, i - 1) + ELen(cs, i - 1)
Total(cs) == Cum(cs, Len(cs))
\* the first edge on which the distance k L / n is reached (0 < k < n): it has positive length
EdgeOf(cs, n, k) == CHOOSE i \in 1 .. Len(cs) - 1 :
    /\ n * Cum(cs, i + 1) >= k * Total(cs)
    /\ \A j \in 1 .. i - 1 : n * Cum(cs, j + 1) < k * Total(cs)
Joint(cs, n, k) ==
    LET i == EdgeOf(cs, n, k)  a == cs[i]  b == cs[i + 1]  l == ELen(cs, i)
        r == k * Total(cs) - n * Cum(cs, i)           \* n times the distance left to go on edge i
    IN <<n * l * a[1] + (b[1] - a[1]) * r, n * l * a[2] + (b[2] - a[2]) * r, n * l>>
Joints(cs, n) == [k \in 1 .. n - 1 |-> Joint(cs, n, k)]
Backtrack(cs) == \E i \in 1 .. Len(cs) - 2 : Cross(cs[i], cs[i + 1], cs[i + 2]) = 0 /\ Dot(cs[i + 1], cs[i], cs[i + 2]) > 0
Repeats(cs) == \E i \in 1 .. Len(cs) - 1 : cs[i] = cs[i + 1]

SegCase(cs) ==
    LET zero == ZeroLength(cs)
        il == ~zero /\ IntLen(cs)
    IN [op |-> "segmentize", cs |-> cs, nmax |-> NMax, d2 |-> EdgeD2(cs), zero |-> zero, intlen |-> il,
        total |-> IF il THEN Total(cs) ELSE 0,
        joints |-> IF il THEN [n \in 1 .. NMax |-> Joints(cs, n)] ELSE <<>>,
        collinear |-> AllCollinear(Range(cs)), backtrack |-> Backtrack(cs), repeats |-> Repeats(cs)]

\* model-level laws of the exact joints: they advance along the path, lie on their edge, and cutting into 2 n pieces
\* refines the cut into n pieces
SegLaws(cs) == (~ZeroLength(cs) /\ IntLen(cs)) =>
    \A n \in 1 .. NMax : \A k \in 1 .. n - 1 :
        LET i == EdgeOf(cs, n, k)  j == Joint(cs, n, k)  a == cs[i]  b == cs[i + 1] IN
        /\ ELen(cs, i) > 0
        /\ (k + 1 < n => i <= EdgeOf(cs, n, k + 1))
        /\ (b[1] - a[1]) * (j[2] - j[3] * a[2]) = (b[2] - a[2]) * (j[1] - j[3] * a[1])                  \* on the line of the edge
        /\ Min2(a[1], b[1]) * j[3] <= j[1] /\ j[1] <= Max2(a[1], b[1]) * j[3]                               \* within its box
        /\ Min2(a[2], b[2]) * j[3] <= j[2] /\ j[2] <= Max2(a[2], b[2]) * j[3]
        /\ (2 * n <= NMax => LET h == Joint(cs, 2 * n, 2 * k) IN h[1] * j[3] = j[1] * h[3] /\ h[2] * j[3] = j[2] * h[3])

\* ------------------------------------------------------------------ X08
HullCase(s) ==
    LET S == Range(Pts(s))
        col == AllCollinear(S)
        E == Extreme(S)
        ring == IF col THEN <<>> ELSE HullRing(S)
    IN [op |-> "chull", pts |-> Pts(s), collinear |-> col, ring |-> ring, extreme |-> SetToSeq(E),
        inner |-> IF col THEN <<>> ELSE SetToSeq({p \in S : RingPos(p, ring) = "I"}),
        onedge |-> IF col THEN <<>> ELSE SetToSeq({p \in S \ E : RingPos(p, ring) = "B"})]
\* the three conditions that determine the hull, and: the extreme points are exactly the ring's vertices
HullLaws(s) ==
    LET S == Range(Pts(s)) IN
    (Len(s) >= 3 /\ ~AllCollinear(S)) =>
        LET h == HullRing(S)  n == Len(h) - 1 IN
        /\ n >= 3 /\ h[1] = h[n + 1] /\ {h[i] : i \in 1 .. n} = Extreme(S)
        /\ \A i \in 1 .. n : Orient(h[i], h[i + 1], h[(i % n) + 2]) > 0
        /\ \A p \in S : \A i \in 1 .. n : Orient(h[i], h[i + 1], p) >= 0

\* ------------------------------------------------------------------ X09
QD == Sph!QD
HT == Sph!H          \* half turn
FT == Sph!F          \* full turn
RT == Sph!R          \* right angle
MulOf(D, lo, hi) == {a * QD : a \in {x \in lo .. hi : \E d \in D : x % d = 0}}
ArcStarts == MulOf(Degs, 0, 359)
ArcLens == MulOf(Degs, 0, 179)
CircleLons == MulOf(Degs, -180, 179)
PLons == MulOf(PDegs, -180, 180)              \* both spellings of the antimeridian
PLats == MulOf(PDegs, -90, 90)
FoldArc(x) == LET m == Sph!Mod(x, FT) IN IF m <= HT THEN m ELSE FT - m      \* length of the shorter arc
\* the point of circle c at parameter t.  Equator: t = longitude.  Meridian circle of l0: t = latitude on the half l0,
\* continued over the north pole onto the half l0 + 180; the poles are spelled with longitude l0.
CirclePoint(ck, l0, t) ==
    LET u == Sph!WrapLon(t) IN
    IF ck = "eq" THEN <<u, 0>>
    ELSE IF -RT <= u /\ u <= RT THEN <<Sph!WrapLon(l0), u>>
    ELSE <<Sph!WrapLon(l0 + HT), IF u > 0 THEN HT - u ELSE (-HT) - u>>
\* exact relation of P = <<lon, lat>> to the circle: foot = parameter of the nearer foot, -1: every point of the circle
\* is a quarter turn away from P
Rel(ck, l0, P) ==
    LET lat == P[2]
        dl == Sph!WrapLon(P[1] - l0)
    IN IF ck = "eq"
       THEN [exact |-> TRUE, xtd |-> Abs(lat), foot |-> IF Abs(lat) = RT THEN -1 ELSE Sph!Mod(P[1], FT)]
       ELSE IF Abs(lat) = RT THEN [exact |-> TRUE, xtd |-> 0, foot |-> Sph!Mod(lat, FT)]
       ELSE IF dl = 0 THEN [exact |-> TRUE, xtd |-> 0, foot |-> Sph!Mod(lat, FT)]
       ELSE IF dl = -HT THEN [exact |-> TRUE, xtd |-> 0, foot |-> Sph!Mod(HT - lat, FT)]
       ELSE IF Abs(dl) = RT THEN [exact |-> TRUE, xtd |-> RT - Abs(lat),
                                  foot |-> IF lat = 0 THEN -1 ELSE IF lat > 0 THEN RT ELSE FT - RT]
       ELSE IF lat = 0 THEN [exact |-> TRUE, xtd |-> Min2(Abs(dl), HT - Abs(dl)), foot |-> IF Abs(dl) < RT THEN 0 ELSE HT]
       ELSE [exact |-> FALSE, xtd |-> 0, foot |-> 0]
\* two spellings of the same point of the sphere
SamePoint(p, q) == p[2] = q[2] /\ (Abs(p[2]) = RT \/ Sph!WrapLon(p[1]) = Sph!WrapLon(q[1]))
Antipode(P) == <<Sph!WrapLon(P[1] + HT), -P[2]>>

XtCase(ck, l0, ta, s, P) ==
    LET r == Rel(ck, l0, P)
        A == CirclePoint(ck, l0, ta)
        B == CirclePoint(ck, l0, ta + s)
        M == CirclePoint(ck, l0, ta + (s \div 2))
        any == r.foot = -1
        u == Sph!Mod(r.foot - ta, FT)                  \* how far ahead of A the foot is
        inside == ~any /\ u <= s
        da == FoldArc(u)
        db == FoldArc(u - s)
        feet == IF any THEN <<>>
                ELSE IF inside THEN <<CirclePoint(ck, l0, r.foot)>>
                ELSE IF da < db \/ s = 0 THEN <<A>> ELSE IF db < da THEN <<B>> ELSE <<A, B>>
        alongA == IF any THEN 0 ELSE IF inside THEN u ELSE IF da <= db THEN 0 ELSE s     \* arc from A to the closest point
        \* "to_pole": the arc ends at a pole and stays on one meridian; "over_pole": it passes over a pole, or ends at a pole that is
        \* spelled with the longitude of the opposite meridian (the longitude jumps by a half turn along the arc); else "plain"
        Poles == {RT, FT - RT, FT + RT}
        within == \E t \in Poles : ta < t /\ t < ta + s
        atend == \E t \in Poles : t = ta \/ t = ta + s
        arc == IF ck = "eq" \/ (~within /\ ~atend) THEN "plain" ELSE IF ~within /\ A[1] = B[1] THEN "to_pole" ELSE "over_pole"
    IN [op |-> "xtrack", ck |-> ck, l0 |-> l0, ta |-> ta, s |-> s, a |-> A, b |-> B, m |-> M, p |-> P, arc |-> arc,
        xtd |-> r.xtd, any |-> any, inside |-> inside, feet |-> feet, along |-> alongA,
        kind |-> IF inside /\ r.xtd = 0 THEN "intersection" ELSE "single",
        \* the intersection is recognisable from the coordinates alone (P is spelled like the point of the arc)
        spelled |-> inside /\ r.xtd = 0 /\ feet[1] = P,
        \* distance from P to the closest point where exactly known, else -1
        dist |-> IF any THEN RT ELSE IF inside THEN r.xtd ELSE IF r.xtd = 0 THEN Min2(da, db) ELSE -1]

\* model-level laws: a point on the circle is its own foot; the antipode and the reversed circle give the same distance;
\* the foot on the circle is a quarter turn from the circle's poles (P moved onto the foot has distance 0)
XtLaws(ck, l0, ta, s, P) ==
    LET r == Rel(ck, l0, P) IN
    /\ r.exact /\ 0 <= r.xtd /\ r.xtd <= RT /\ (r.foot = -1) = (r.xtd = RT)
    /\ (r.xtd = 0) => SamePoint(CirclePoint(ck, l0, r.foot), P)
    /\ Rel(ck, l0, Antipode(P)).exact /\ Rel(ck, l0, Antipode(P)).xtd = r.xtd
    /\ Rel(ck, l0 + HT, P).exact /\ Rel(ck, l0 + HT, P).xtd = r.xtd
    /\ r.foot # -1 => LET f == CirclePoint(ck, l0, r.foot) IN Rel(ck, l0, f).xtd = 0 /\ Rel(ck, l0, f).foot = r.foot
    /\ SamePoint(CirclePoint(ck, l0, ta + FT), CirclePoint(ck, l0, ta))

\* ------------------------------------------------------------------ the generator
VARIABLES sa, done
vars == <<sa, done>>
Starts == {<<i>> : i \in {j \in 1 .. NG : j % Stride = Offset % Stride}}
Init == /\ done = FALSE
        /\ IF Mode = "xtrack"
           THEN sa \in ({<<"eq", 0, t>> : t \in ArcStarts} \cup {<<"mer", l, t>> : l \in CircleLons, t \in ArcStarts})
           ELSE sa \in (Starts \cup {<<>>})
Emit(c) == PrintT(<<"CASE", ToJson(c)>>)

\* the empty input and the single vertices
Short == /\ Mode \in {"segmentize", "chull"} /\ ~done /\ Len(sa) <= 1
         /\ done' = TRUE /\ UNCHANGED sa
         /\ Emit(IF Mode = "segmentize" THEN SegCase(Pts(sa)) ELSE HullCase(sa))
\* X07: any next vertex (repeats allowed)
GrowSeq == /\ Mode = "segmentize" /\ ~done /\ Len(sa) >= 1 /\ Len(sa) < MaxN
           /\ \E j \in 1 .. NG : sa' = Append(sa, j)
           /\ UNCHANGED done
           /\ Emit(SegCase(Pts(sa')))
\* X08: subsets as increasing index sequences
GrowSet == /\ Mode = "chull" /\ ~done /\ Len(sa) >= 1 /\ Len(sa) < MaxN
           /\ \E j \in sa[Len(sa)] + 1 .. NG : sa' = Append(sa, j)
           /\ UNCHANGED done
           /\ Emit(HullCase(sa'))
\* X09: choose the arc length and P (only points whose relation to the circle is exactly known)
Arc == /\ Mode = "xtrack" /\ ~done
       /\ done' = TRUE
       /\ \E s \in ArcLens, lon \in PLons, lat \in PLats :
            /\ Rel(sa[1], sa[2], <<lon, lat>>).exact
            /\ sa' = sa \o <<s, lon, lat>>
            /\ Emit(XtCase(sa[1], sa[2], sa[3], s, <<lon, lat>>))
Next == Short \/ GrowSeq \/ GrowSet \/ Arc
Spec == Init /\ [][Next]_vars

Laws == CASE Mode = "segmentize" -> SegLaws(Pts(sa))
          [] Mode = "chull" -> HullLaws(sa)
          [] Mode = "xtrack" -> (done => XtLaws(sa[1], sa[2], sa[3], sa[4], <<sa[5], sa[6]>>))
=============================================================================

------------------------------- MODULE Gen_Hull -------------------------------
(***************************************************************************)
(* C08 - the convex hull is the smallest convex polygon containing the     *)
(* input.  For a finite set S of lattice points:                           *)
(*   Extreme(S) = points of S not in the closed triangle (or segment) of   *)
(*                three other points of S  (Caratheodory)                  *)
(*   HullRing(S) = Extreme(S) in counter-clockwise order from the          *)
(*                lexicographically least point, closed                    *)
(* HullOK checks the characterisation on every state: the ring is strictly *)
(* convex, its vertices are input points and every input point is inside   *)
(* or on it - these three conditions determine the ring uniquely.          *)
(* minimum_rotated_rect: exact minimum over hull edges of the area of the  *)
(* bounding rectangle aligned with that edge (a rational).                 *)
(* One TLC state per subset of the K x K lattice with 1..MaxN points; the   *)
(* harness replays each set in several orders and with duplicates.         *)
(***************************************************************************)
EXTENDS Hull, TLC, Json

CONSTANTS K, MaxN, Stride, Offset
NG == (K + 1) * (K + 1)
GridSeq == [i \in 1 .. NG |-> <<(i - 1) \div (K + 1), (i - 1) % (K + 1)>>]

\* bounding rectangle aligned with direction d: area = wd * wn / |d|^2
RectAreaAlong(S, a, b) ==
    LET d == <<b[1] - a[1], b[2] - a[2]>>
        dots == {p[1] * d[1] + p[2] * d[2] : p \in S}
        crs  == {d[1] * p[2] - d[2] * p[1] : p \in S}
    IN <<(SetMax(dots) - SetMin(dots)) * (SetMax(crs) - SetMin(crs)), d[1] * d[1] + d[2] * d[2]>>
MinRectArea(S) == LET h == HullRing(S) IN
    RatNorm(SetRatMin({RectAreaAlong(S, h[i], h[i+1]) : i \in 1 .. Len(h) - 1}))

VARIABLES sel      \* increasing sequence of grid indices = the chosen subset
vars == <<sel>>
Pts(s) == {GridSeq[s[i]] : i \in DOMAIN s}
Init == sel \in {<<i>> : i \in {j \in 1 .. NG : j % Stride = Offset % Stride}}
Case(s) ==
    LET S == Pts(s) IN
    IF AllCollinear(S)
    THEN [op |-> "hull", pts |-> [i \in DOMAIN s |-> GridSeq[s[i]]], degenerate |-> TRUE]
    ELSE [op |-> "hull", pts |-> [i \in DOMAIN s |-> GridSeq[s[i]]], degenerate |-> FALSE,
          ring |-> HullRing(S), mrr |-> MinRectArea(S),
          bbox2 |-> (SetMax({p[1] : p \in S}) - SetMin({p[1] : p \in S})) * (SetMax({p[2] : p \in S}) - SetMin({p[2] : p \in S}))]
Next == /\ Len(sel) < MaxN
        /\ \E j \in sel[Len(sel)] + 1 .. NG : sel' = Append(sel, j)
        /\ Len(sel') >= 2 => PrintT(<<"CASE", ToJson(Case(sel'))>>)
Spec == Init /\ [][Next]_vars

HullOK == (Len(sel) >= 3 /\ ~AllCollinear(Pts(sel))) =>
    LET S == Pts(sel) h == HullRing(S) n == Len(h) - 1 IN
    /\ n >= 3 /\ h[1] = h[n + 1]
    /\ \A i \in 1 .. n : h[i] \in S
    /\ \A i \in 1 .. n : Orient(h[i], h[i + 1], h[(i % n) + 2]) > 0        \* strictly convex, ccw
    /\ \A p \in S : \A i \in 1 .. n : Orient(h[i], h[i + 1], p) >= 0       \* contains every input point
    /\ RatLeq(MinRectArea(S), <<(SetMax({p[1] : p \in S}) - SetMin({p[1] : p \in S})) * (SetMax({p[2] : p \in S}) - SetMin({p[2] : p \in S})), 1>>)
=============================================================================

------------------------------- MODULE Gen_Hull -------------------------------
(***************************************************************************)
(* C08 - the convex hull is the smallest convex polygon containing the     *)
(* input.  For a finite set S of lattice points:                           *)
(*   Extreme(S) = points of S not in the closed triangle (or segment) of   *)
(*                three other points of S  (Caratheodory)                  *)
(*   HullRing(S) = Extreme(S) in counter-clockwise order from the          *)
(*                lexicographically least point, closed                    *)
(* HullOK checks the characterisation on every state: the ring is strictly *)
(* convex, its vertices are input points and every input point is inside   *)
(* or on it - these three conditions determine the ring uniquely.          *)
(* minimum_rotated_rect: exact minimum over hull edges of the area of the  *)
(* bounding rectangle aligned with that edge (a rational).                 *)
(* One TLC state per subset of the K x K lattice with 1..MaxN points; the   *)
(* harness replays each set in several orders and with duplicates.         *)
(***************************************************************************)
EXTENDS Hull, TLC, Json, SequencesExt

CONSTANTS K, MaxN, Stride, Offset,
          BigK      \* sizes of the parametric families (full k x k lattice square, lattice triangle x + y <= k), may be {}
NG == (K + 1) * (K + 1)
GridSeq == [i \in 1 .. NG |-> <<(i - 1) \div (K + 1), (i - 1) % (K + 1)>>]

\* bounding rectangle aligned with direction d: area = wd * wn / |d|^2
RectAreaAlong(S, a, b) ==
    LET d == <<b[1] - a[1], b[2] - a[2]>>
        dots == {p[1] * d[1] + p[2] * d[2] : p \in S}
        crs  == {d[1] * p[2] - d[2] * p[1] : p \in S}
    IN <<(SetMax(dots) - SetMin(dots)) * (SetMax(crs) - SetMin(crs)), d[1] * d[1] + d[2] * d[2]>>
MinRectArea(S) == LET h == HullRing(S) IN
    RatNorm(SetRatMin({RectAreaAlong(S, h[i], h[i+1]) : i \in 1 .. Len(h) - 1}))

VARIABLES sel      \* increasing sequence of grid indices = the chosen subset
vars == <<sel>>
Pts(s) == {GridSeq[s[i]] : i \in DOMAIN s}
\* Parametric families far beyond the enumerated sizes (size-gated code paths; long collinear runs on every hull edge):
\* all points of the k x k lattice square, and of the lattice triangle x + y <= k.  The hull is given in closed form and
\* BigOK checks the three conditions that determine a hull uniquely (strictly convex ring of input points containing all).
SquarePts(k) == (0 .. k) \X (0 .. k)
TrianglePts(k) == {p \in (0 .. k) \X (0 .. k) : p[1] + p[2] <= k}
SquareRing(k) == << <<0, 0>>, <<k, 0>>, <<k, k>>, <<0, k>>, <<0, 0>> >>
TriangleRing(k) == << <<0, 0>>, <<k, 0>>, <<0, k>>, <<0, 0>> >>
RingRect(S, h) == RatNorm(SetRatMin({RectAreaAlong(S, h[i], h[i+1]) : i \in 1 .. Len(h) - 1}))
BigCase(S, h, k) == [op |-> "hull", pts |-> SetToSeq(S), degenerate |-> FALSE, ring |-> h, mrr |-> RingRect(S, h), bbox2 |-> k * k]
IsHullOf(S, h) == LET n == Len(h) - 1 IN
    /\ \A i \in 1 .. n : h[i] \in S
    /\ \A i \in 1 .. n : Orient(h[i], h[i + 1], h[(i % n) + 2]) > 0
    /\ \A p \in S : \A i \in 1 .. n : Orient(h[i], h[i + 1], p) >= 0

Init == \/ sel \in {<<i>> : i \in {j \in 1 .. NG : j % Stride = Offset % Stride}}
        \/ sel \in {<<0 - k>> : k \in BigK}
Case(s) ==
    LET S == Pts(s) IN
    IF AllCollinear(S)
    THEN [op |-> "hull", pts |-> [i \in DOMAIN s |-> GridSeq[s[i]]], degenerate |-> TRUE]
    ELSE [op |-> "hull", pts |-> [i \in DOMAIN s |-> GridSeq[s[i]]], degenerate |-> FALSE,
          ring |-> HullRing(S), mrr |-> MinRectArea(S),
          bbox2 |-> (SetMax({p[1] : p \in S}) - SetMin({p[1] : p \in S})) * (SetMax({p[2] : p \in S}) - SetMin({p[2] : p \in S}))]
BigEmit == /\ Len(sel) = 1 /\ sel[1] < 0
           /\ sel' = <<sel[1], 0>>
           /\ LET k == 0 - sel[1] IN
              /\ PrintT(<<"CASE", ToJson(BigCase(SquarePts(k), SquareRing(k), k))>>)
              /\ PrintT(<<"CASE", ToJson(BigCase(TrianglePts(k), TriangleRing(k), k))>>)
BigOK == (sel[1] < 0) => LET k == 0 - sel[1] IN IsHullOf(SquarePts(k), SquareRing(k)) /\ IsHullOf(TrianglePts(k), TriangleRing(k))
NextSmall ==
        /\ sel[1] > 0 /\ Len(sel) < MaxN
        /\ \E j \in sel[Len(sel)] + 1 .. NG : sel' = Append(sel, j)
        /\ Len(sel') >= 2 => PrintT(<<"CASE", ToJson(Case(sel'))>>)
Next == BigEmit \/ NextSmall
Spec == Init /\ [][Next]_vars

HullOK == (sel[1] > 0 /\ Len(sel) >= 3 /\ ~AllCollinear(Pts(sel))) =>
    LET S == Pts(sel) h == HullRing(S) n == Len(h) - 1 IN
    /\ n >= 3 /\ h[1] = h[n + 1]
    /\ \A i \in 1 .. n : h[i] \in S
    /\ \A i \in 1 .. n : Orient(h[i], h[i + 1], h[(i % n) + 2]) > 0        \* strictly convex, ccw
    /\ \A p \in S : \A i \in 1 .. n : Orient(h[i], h[i + 1], p) >= 0       \* contains every input point
    /\ RatLeq(MinRectArea(S), <<(SetMax({p[1] : p \in S}) - SetMin({p[1] : p \in S})) * (SetMax({p[2] : p \in S}) - SetMin({p[2] : p \in S})), 1>>)
=============================================================================

----------------------------- MODULE Gen_Kernel -----------------------------
(***************************************************************************)
(* C03 - orientation and point-location predicates are exact.              *)
(* Perturbed-degenerate universe (DESIGN.md 3.3): a coordinate is          *)
(*        <<base, k>>  =  base + k * u                                     *)
(* with u one unit in the last place of the binade the harness places the  *)
(* lattice in, so u is a formal infinitesimal here.  Cross(a, b, c) is a   *)
(* polynomial c0 + c1 u + c2 u^2 with small integer coefficients and its   *)
(* real sign is the sign of the first non-zero coefficient.  Base triples  *)
(* are exactly collinear (c0 = 0), so the answer is decided by ulp-level   *)
(* perturbations - the regime where a naive cross product flips signs.     *)
(***************************************************************************)
EXTENDS Integers, Sequences, FiniteSets, TLC, Json

CONSTANTS K,         \* base lattice 0..K
          PB,        \* b is perturbed by -PB..PB in each coordinate
          PC,        \* c is perturbed by -PC..PC in each coordinate
          Stride, Offset
Sign(x) == IF x > 0 THEN 1 ELSE IF x < 0 THEN -1 ELSE 0
Grid == (0 .. K) \X (0 .. K)
GridSeq == [i \in 1 .. (K + 1) * (K + 1) |-> <<(i - 1) \div (K + 1), (i - 1) % (K + 1)>>]
NG == (K + 1) * (K + 1)

\* perturbed point: << <<x0, i>>, <<y0, j>> >>
PX(p) == p[1]  PY(p) == p[2]
P(x0, i, y0, j) == << <<x0, i>>, <<y0, j>> >>
\* (p - q) as a pair of linear forms <<d0, d1>>
DX(p, q) == <<p[1][1] - q[1][1], p[1][2] - q[1][2]>>
DY(p, q) == <<p[2][1] - q[2][1], p[2][2] - q[2][2]>>
\* product of linear forms -> <<e0, e1, e2>>
Mul(f, g) == <<f[1] * g[1], f[1] * g[2] + f[2] * g[1], f[2] * g[2]>>
Sub3(f, g) == <<f[1] - g[1], f[2] - g[2], f[3] - g[3]>>
CrossPoly(a, b, c) == Sub3(Mul(DX(b, a), DY(c, a)), Mul(DY(b, a), DX(c, a)))
SignPoly(f) == IF f[1] # 0 THEN Sign(f[1]) ELSE IF f[2] # 0 THEN Sign(f[2]) ELSE Sign(f[3])
OrientP(a, b, c) == SignPoly(CrossPoly(a, b, c))
\* order of perturbed scalars
Leq(s, t) == s[1] < t[1] \/ (s[1] = t[1] /\ s[2] <= t[2])
Between(s, lo, hi) == (Leq(lo, s) /\ Leq(s, hi)) \/ (Leq(hi, s) /\ Leq(s, lo))
InBoxP(p, a, b) == Between(p[1], a[1], b[1]) /\ Between(p[2], a[2], b[2])
OnSegP(p, a, b) == OrientP(a, b, p) = 0 /\ InBoxP(p, a, b)

Cross0(a, b, c) == (b[1] - a[1]) * (c[2] - a[2]) - (b[2] - a[2]) * (c[1] - a[1])
StrictlyBetween0(c, a, b) == Cross0(a, b, c) = 0 /\ c # a /\ c # b
                             /\ (c[1] - a[1]) * (c[1] - b[1]) <= 0 /\ (c[2] - a[2]) * (c[2] - b[2]) <= 0

VARIABLES ia, ib, ic, pb, pc
vars == <<ia, ib, ic, pb, pc>>
Init == /\ ia \in {i \in 1 .. NG : i % Stride = Offset % Stride}
        /\ ib \in {i \in 1 .. NG : i # ia} /\ ic = 0 /\ pb = <<0, 0>> /\ pc = <<0, 0>>

Case(a0, b0, c0, qb, qc) ==
    LET a == P(a0[1], 0, a0[2], 0)
        b == P(b0[1], qb[1], b0[2], qb[2])
        c == P(c0[1], qc[1], c0[2], qc[2])
        s == OrientP(a, b, c)
        mid == StrictlyBetween0(c0, a0, b0)
        \* apex on the left of a -> b, d on the right of it, both unperturbed lattice points
        apex == <<a0[1] - (b0[2] - a0[2]), a0[2] + (b0[1] - a0[1])>>
        dd   == <<c0[1] + (b0[2] - a0[2]), c0[2] - (b0[1] - a0[1])>>
    IN [op |-> "kernel", a |-> a, b |-> b, c |-> c, orient |-> s, on_seg |-> OnSegP(c, a, b),
        mid |-> mid, apex |-> apex, d |-> dd,
        \* meaningful when mid: c0 strictly inside the open base segment
        tri_pos |-> IF OnSegP(c, a, b) THEN "B" ELSE IF s > 0 THEN "I" ELSE "E",
        seg_meets |-> s >= 0, seg_proper |-> s > 0]

Next == /\ ic = 0 /\ ia' = ia /\ ib' = ib
        /\ ic' \in {i \in 1 .. NG : Cross0(GridSeq[ia], GridSeq[ib], GridSeq[i]) = 0}
        /\ pb' \in (-PB .. PB) \X (-PB .. PB) /\ pc' \in (-PC .. PC) \X (-PC .. PC)
        /\ PrintT(<<"CASE", ToJson(Case(GridSeq[ia], GridSeq[ib], GridSeq[ic'], pb', pc'))>>)
Spec == Init /\ [][Next]_vars

\* The perturbation identity behind the universe, checked with u = 1 (then the polynomial can be
\* evaluated): the integer cross product of the perturbed points equals c0 + c1 + c2.
Identity == ic > 0 =>
    LET a0 == GridSeq[ia] b0 == GridSeq[ib] c0 == GridSeq[ic]
        f == CrossPoly(P(a0[1], 0, a0[2], 0), P(b0[1], pb[1], b0[2], pb[2]), P(c0[1], pc[1], c0[2], pc[2]))
    IN f[1] + f[2] + f[3] = Cross0(a0, <<b0[1] + pb[1], b0[2] + pb[2]>>, <<c0[1] + pc[1], c0[2] + pc[2]>>)
       /\ f[1] = 0
=============================================================================

--------------------------- MODULE Gen_LineMeasure ---------------------------
(***************************************************************************)
(* C15 - interpolation, location and densification agree along a line.     *)
(* Line strings over the lattice whose segments have INTEGER length (axis- *)
(* parallel or 3-4-5; zero-length segments and repeated vertices allowed), *)
(* so that arc length is exact.  PointAt is the arc-length parametrisation *)
(* (a function of the distance, clamped to the ends) as exact rationals;   *)
(* ratio / distance, from-start / from-end forms are all defined through   *)
(* it.  The walk of point_at_distance_from_start (skip a segment while its *)
(* length is smaller than the remaining distance) is the implementation-   *)
(* shaped model WalkAt, and WalkOK checks on every state that it computes  *)
(* PointAt.  Densify: the total length, the bound, the minimal number of   *)
(* points (sum of ceil(len / max)) are given for the harness to hold the   *)
(* output to the four stated postconditions.                               *)
(***************************************************************************)
EXTENDS Shapes, TLC, Json

CONSTANTS K, MaxN, Stride, Offset,
          BigN,     \* sizes of the parametric long path (n unit steps right / up alternately; n + 1 vertices), may be {}
          Mode      \* "integer": segments of integer length, exact arc length; "general": any lattice segments (irrational lengths)
NG == (K + 1) * (K + 1)
GridSeq == [i \in 1 .. NG |-> <<(i - 1) \div (K + 1), (i - 1) % (K + 1)>>]
SegLen(a, b) == ISqrt(D2(a, b))
IntLen(a, b) == IsSquare(D2(a, b))

RECURSIVE TotalLen(_, _)
TotalLen(cs, i) == IF i >= Len(cs) THEN 0 ELSE SegLen(cs[i], cs[i + 1]) + TotalLen(cs, i + 1)
Cum(cs, i) == TotalLen(SubSeq(cs, 1, i), 1)          \* arc length at vertex i

\* ratios and distances as rationals <<num, den>>, den > 0
Ratios == << <<-1, 2>>, <<0, 1>>, <<1, 8>>, <<1, 4>>, <<1, 3>>, <<1, 2>>, <<3, 4>>, <<1, 1>>, <<3, 2>> >>
Clamp01(r) == IF r[1] < 0 THEN <<0, 1>> ELSE IF r[1] > r[2] THEN <<1, 1>> ELSE r

\* the point at arc length d = <<dn, dd>> (0 <= d <= L) as << <<xn, xd>>, <<yn, yd>> >>
PointAt(cs, d) ==
    LET L == TotalLen(cs, 1) IN
    IF Len(cs) = 1 \/ d[1] <= 0 THEN << <<cs[1][1], 1>>, <<cs[1][2], 1>> >>
    ELSE IF d[1] >= L * d[2] THEN << <<cs[Len(cs)][1], 1>>, <<cs[Len(cs)][2], 1>> >>
    ELSE \* the segment i with Cum(i) < d <= Cum(i+1) (positive length)
         LET i == CHOOSE i \in 1 .. Len(cs) - 1 : Cum(cs, i) * d[2] < d[1] /\ d[1] <= Cum(cs, i + 1) * d[2]
             a == cs[i]  b == cs[i + 1]  len == SegLen(a, b)
             t == d[1] - Cum(cs, i) * d[2]                     \* (d - cum) * dd
         IN << <<a[1] * len * d[2] + t * (b[1] - a[1]), len * d[2]>>,
               <<a[2] * len * d[2] + t * (b[2] - a[2]), len * d[2]>> >>

\* implementation-shaped: walk the segments with distance_remaining (interpolate_line.rs)
RECURSIVE WalkAt(_, _, _)
WalkAt(cs, i, rem) ==       \* rem = <<num, den>> remaining distance, > 0
    IF i >= Len(cs) THEN << <<cs[Len(cs)][1], 1>>, <<cs[Len(cs)][2], 1>> >>
    ELSE LET a == cs[i] b == cs[i + 1] len == SegLen(a, b) IN
         IF len * rem[2] < rem[1] THEN WalkAt(cs, i + 1, <<rem[1] - len * rem[2], rem[2]>>)
         ELSE IF len = 0 THEN << <<a[1], 1>>, <<a[2], 1>> >>
         ELSE << <<a[1] * len * rem[2] + rem[1] * (b[1] - a[1]), len * rem[2]>>,
                 <<a[2] * len * rem[2] + rem[1] * (b[2] - a[2]), len * rem[2]>> >>
SamePt(p, q) == RatEq(p[1], q[1]) /\ RatEq(p[2], q[2])

VARIABLES sel
vars == <<sel>>
Pts(s) == [i \in DOMAIN s |-> GridSeq[s[i]]]
\* a long path of n unit segments (size-gated code paths): right, up, right, up, ...
StairLine(n) == [i \in 1 .. n + 1 |-> <<i \div 2, (i - 1) \div 2>>]
Init == \/ sel \in {<<i>> : i \in {j \in 1 .. NG : j % Stride = Offset % Stride}}
        \/ sel \in {<<0 - n>> : n \in BigN}

CeilDiv(a, b) == (a + b - 1) \div b
MaxList == << <<1, 4>>, <<1, 2>>, <<1, 1>>, <<3, 2>>, <<2, 1>>, <<5, 2>>, <<4, 1>>, <<100, 1>> >>
\* minimal number of pieces for a segment of integer length len and bound m = <<mn, md>>
Pieces(len, m) == IF len = 0 THEN 1 ELSE CeilDiv(len * m[2], m[1])
RECURSIVE MinPts(_, _, _)
MinPts(cs, i, m) == IF i >= Len(cs) THEN 1 ELSE Pieces(SegLen(cs[i], cs[i + 1]), m) + MinPts(cs, i + 1, m)

Case(cs) ==
    LET L == TotalLen(cs, 1) IN
    [op |-> "linemeasure", cs |-> cs, len |-> L,
     simple |-> (Len(cs) >= 2 /\ SimplePath(cs)),
     at |-> [k \in DOMAIN Ratios |->
               LET r == Ratios[k] c == Clamp01(r) IN
               [r |-> r,
                from_start |-> PointAt(cs, <<c[1] * L, c[2]>>),
                from_end   |-> PointAt(cs, <<(c[2] - c[1]) * L, c[2]>>)]],
     densify |-> [k \in DOMAIN MaxList |-> [max |-> MaxList[k], minpts |-> MinPts(cs, 1, MaxList[k])]]]

\* General slopes: arc length is a sum of square roots, which the specification does not evaluate.  What IS exact there:
\* a ratio / distance at or before the start gives the first vertex, at or beyond the end the last vertex; the squared segment
\* lengths (so that the harness can form distances); and the laws relating the forms to each other (checked on geo's own output).
GeneralCase(cs) ==
    [op |-> "linemeasure_general", cs |-> cs, simple |-> (Len(cs) >= 2 /\ SimplePath(cs)),
     first |-> cs[1], last |-> cs[Len(cs)],
     seg2 |-> [i \in 1 .. Len(cs) - 1 |-> D2(cs[i], cs[i + 1])],
     irrational |-> \E i \in 1 .. Len(cs) - 1 : ~IsSquare(D2(cs[i], cs[i + 1]))]
\* a long path with IRRATIONAL segment lengths (sqrt 2, sqrt 5, sqrt 10, sqrt 13 in turn) for the general mode: how a long
\* sum of inexact lengths is accumulated (order, pairwise, chunks) must not disturb the ends
WaveStep(i) == CASE i % 4 = 0 -> <<1, 1>> [] i % 4 = 1 -> <<2, -1>> [] i % 4 = 2 -> <<1, 3>> [] OTHER -> <<3, -2>>
RECURSIVE WaveFrom(_, _, _)
WaveFrom(p, i, n) == IF i > n THEN << p >> ELSE << p >> \o WaveFrom(<<p[1] + WaveStep(i)[1], p[2] + WaveStep(i)[2]>>, i + 1, n)
WaveLine(n) == WaveFrom(<<0, 0>>, 1, n)
BigEmit == /\ Len(sel) = 1 /\ sel[1] < 0 /\ sel' = <<sel[1], 0>>
           /\ PrintT(<<"CASE", ToJson(IF Mode = "general" THEN GeneralCase(WaveLine(0 - sel[1])) ELSE Case(StairLine(0 - sel[1])))>>)
NextSmall ==
        /\ sel[1] > 0 /\ Len(sel) < MaxN
        /\ \E j \in 1 .. NG : (Mode = "general" \/ IntLen(GridSeq[sel[Len(sel)]], GridSeq[j])) /\ sel' = Append(sel, j)
        /\ PrintT(<<"CASE", ToJson(IF Mode = "general" THEN GeneralCase(Pts(sel')) ELSE Case(Pts(sel')))>>)
Next == BigEmit \/ NextSmall
Spec == Init /\ [][Next]_vars

\* the walk computes the arc-length parametrisation, from-end is the mirror image
WalkOK == (sel[1] > 0 /\ Len(sel) >= 2 /\ Mode = "integer") =>
    LET cs == Pts(sel) L == TotalLen(cs, 1) IN
    \A k \in DOMAIN Ratios :
      LET c == Clamp01(Ratios[k]) d == <<c[1] * L, c[2]>> IN
      /\ d[1] > 0 => SamePt(WalkAt(cs, 1, d), PointAt(cs, d))
      /\ SamePt(PointAt(Rev(cs), <<(c[2] - c[1]) * L, c[2]>>), PointAt(cs, d))
=============================================================================

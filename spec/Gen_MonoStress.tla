--------------------------- MODULE Gen_MonoStress ---------------------------
(***************************************************************************)
(* C10 - a parametric family aimed at the case analysis of the monotone    *)
(* sweep (monotone/builder.rs): a shell with a deep notch whose tip p is   *)
(* touched from the left by a hole (a sweep point with two incoming and    *)
(* two outgoing edges and interior below it), a vertex b of the bottom     *)
(* boundary before p (the helper of the region below), and a second hole   *)
(* whose leftmost vertex q is a split vertex after p in that region.  The  *)
(* positions of b, p, q and the shapes of the holes range over small sets; *)
(* variants without the contact, without the second hole and with the      *)
(* first hole detached are included.  Validity of every candidate is       *)
(* decided by ValidExact.tla (state = candidate, evaluated in Next); the   *)
(* harness additionally applies the symmetries of the square, so merges /  *)
(* splits occur in every direction.                                        *)
(***************************************************************************)
EXTENDS ValidExact, TLC, Json

Poly(ext, hs) == [t |-> "Polygon", ext |-> ext, holes |-> hs]
Shell(b, p) == << <<0, 0>>, b, <<40, 0>>, <<40, 22>>, <<20, 24>>, p, <<16, 38>>, <<40, 39>>, <<40, 40>>, <<0, 40>>, <<0, 0>> >>
Hole1(v, a, c) == << a, v, c, a >>                           \* rightmost vertex v
Hole2(q, w, hgt) == << q, <<q[1] + w, q[2] - hgt>>, <<q[1] + w, q[2] + hgt>>, q >>

Bs == { <<8, 5>>, <<8, 2>>, <<10, 4>>, <<6, 1>>, <<11, 3>> }
Ps == { <<12, 6>>, <<12, 8>>, <<14, 6>>, <<10, 5>>, <<13, 9>> }
Qs == { <<14, 9>>, <<16, 9>>, <<14, 7>>, <<18, 12>>, <<15, 8>>, <<17, 6>> }
H1 == { << <<4, 10>>, <<6, 16>> >>, << <<2, 6>>, <<5, 12>> >>, << <<6, 9>>, <<8, 14>> >> }

VARIABLES cand, out
vars == <<cand, out>>
\* contact: "tip" = hole 1 touches the notch tip, "near" = hole 1 one unit to the left (no contact), "none" = no hole 1
Init == /\ cand \in [b : Bs, p : Ps, q : Qs \cup {<<0, 0>>}, h : H1, contact : {"tip", "near", "none"}, w : {2, 4}, hgt : {1, 2}]
        /\ out = "todo"
Holes(c) ==
    LET v  == IF c.contact = "tip" THEN c.p ELSE <<c.p[1] - 1, c.p[2]>>
        h1 == IF c.contact = "none" THEN <<>> ELSE << Hole1(v, c.h[1], c.h[2]) >>
        h2 == IF c.q = <<0, 0>> THEN <<>> ELSE << Hole2(c.q, c.w, c.hgt) >>
    IN h1 \o h2
Next == /\ out = "todo" /\ cand' = cand
        /\ LET e == Shell(cand.b, cand.p)  hs == Holes(cand) IN
           IF ValidPolygonX(e, hs)
           THEN /\ out' = "valid"
                /\ PrintT(<<"POOL", ToJson([k |-> "monostress", g |-> Poly(e, hs), touch |-> TouchCountX(e, hs)])>>)
           ELSE out' = "invalid"
Spec == Init /\ [][Next]_vars
=============================================================================

----------------------------- MODULE Gen_Orient -----------------------------
(***************************************************************************)
(* C03 - orientation of nearly collinear triples with GENERIC 53-bit       *)
(* mantissas and coordinates of different magnitude, decided exactly with  *)
(* the limb arithmetic of BigInt.tla.                                      *)
(*   a = alpha 2^-26        (|a| < 64, bits down to 2^-26)                 *)
(*   b = B                  (integers of 30 bits)                          *)
(*   c = (floor((alpha + B 2^26) / 8) + k) 2^-24   per coordinate,         *)
(*       i.e. the midpoint of a b rounded to the precision of a double at  *)
(*       that magnitude, moved by k = -2..2 units in the last place.       *)
(* Every coordinate is exactly representable, but b - a and c - a are not  *)
(* (they need ~56 bits), so a plain double-precision determinant works     *)
(* with rounded differences and its result - of magnitude ~2^5, far above  *)
(* any absolute threshold - has an essentially random sign, while the true *)
(* sign is that of a 120-bit integer computed here.  The pseudo-random     *)
(* limbs come from a fixed arithmetic recipe in the seed, so the cases are *)
(* reproducible.                                                           *)
(***************************************************************************)
EXTENDS BigInt, TLC, Json

CONSTANTS SeedLo, SeedHi

Rnd(s, j) == (s * 7919 + j * 104729 + s * s * 31 + j * j * 977) % Base
\* alpha < 2^32: limbs of 13, 13, 6 bits;  B in [2^29, 2^30): limbs of 13, 13, 4 bits with the top bit set
Alpha(s, j) == <<Rnd(s, j), Rnd(s, j + 1), Rnd(s, j + 2) % 64>>
Big(s, j) == <<Rnd(s, j + 5), Rnd(s, j + 6), 8 + (Rnd(s, j + 7) % 8)>>

\* shifts by r < 13 bits
RECURSIVE Pow2(_)
Pow2(r) == IF r = 0 THEN 1 ELSE 2 * Pow2(r - 1)
RECURSIVE ShlFrom(_, _, _, _)
ShlFrom(m, r, i, carry) == IF i > Len(m) THEN (IF carry = 0 THEN <<>> ELSE <<carry>>)
                           ELSE LET t == m[i] * Pow2(r) + carry IN <<t % Base>> \o ShlFrom(m, r, i + 1, t \div Base)
ShlBits(m, r) == Trim(ShlFrom(m, r, 1, 0))
ShrBits(m, r) == Trim([i \in 1 .. Len(m) |-> (m[i] \div Pow2(r)) + (Limb(m, i + 1) % Pow2(r)) * Pow2(13 - r)])

\* one coordinate: the three numbers in units of 2^-27, and c's own integer in units of 2^-24
Coord1(al, bb, k) ==
    LET t  == AddN(al, ShiftLimbs(bb, 2))                    \* alpha + B 2^26   (a + b in units of 2^-26)
        cq == ZAdd(Z(1, ShrBits(t, 3)), IF k >= 0 THEN ZNat(k) ELSE ZNeg(ZNat(0 - k)))
    IN [a27 |-> Z(1, ShlBits(al, 1)), b27 |-> Z(1, ShlBits(ShiftLimbs(bb, 2), 1)), c27 |-> Z(cq.s, ShlBits(cq.m, 3)), cq |-> cq]

Case(s, kx, ky) ==
    LET X == Coord1(Alpha(s, 1), Big(s, 1), kx)
        Y == Coord1(Alpha(s, 11), Big(s, 11), ky)
        cross == ZSub(ZMul(ZSub(X.b27, X.a27), ZSub(Y.c27, Y.a27)), ZMul(ZSub(Y.b27, Y.a27), ZSub(X.c27, X.a27)))
    IN [op |-> "kernel_big", seed |-> s, k |-> <<kx, ky>>,
        \* limbs (base 2^13, least significant first) and the binary exponent of each coordinate
        ax |-> Alpha(s, 1), ay |-> Alpha(s, 11), aexp |-> -26,
        bx |-> Big(s, 1), by |-> Big(s, 11), bexp |-> 0,
        cx |-> X.cq.m, cy |-> Y.cq.m, cexp |-> -24,
        orient |-> ZSign(cross), detlimbs |-> Len(cross.m)]

VARIABLES seed, kk
vars == <<seed, kk>>
Init == seed \in SeedLo .. SeedHi /\ kk = <<9, 9>>
Next == /\ kk = <<9, 9>> /\ seed' = seed /\ kk' \in (-2 .. 2) \X (-2 .. 2)
        /\ PrintT(<<"CASE", ToJson(Case(seed, kk'[1], kk'[2]))>>)
Spec == Init /\ [][Next]_vars
ASSUME BigIntSelfTest
\* moving c by one unit along x / y changes the determinant by exactly -(by - ay) / +(bx - ax) in units of 2^-27 2^-24 ... : the
\* sign is antisymmetric under swapping b and c's roles; checked as a consistency law of the limb arithmetic on every state
OrientLaws == kk # <<9, 9>> =>
    LET X == Coord1(Alpha(seed, 1), Big(seed, 1), kk[1])  Y == Coord1(Alpha(seed, 11), Big(seed, 11), kk[2])
        c1 == ZSub(ZMul(ZSub(X.b27, X.a27), ZSub(Y.c27, Y.a27)), ZMul(ZSub(Y.b27, Y.a27), ZSub(X.c27, X.a27)))
        c2 == ZSub(ZMul(ZSub(X.c27, X.a27), ZSub(Y.b27, Y.a27)), ZMul(ZSub(Y.c27, Y.a27), ZSub(X.b27, X.a27)))
    IN ZSign(c1) = 0 - ZSign(c2) /\ CmpN(c1.m, c2.m) = 0
=============================================================================

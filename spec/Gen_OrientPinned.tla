------------------------- MODULE Gen_OrientPinned -------------------------
(***************************************************************************)
(* C03 - orientation of PINNED adversarial triples.  The triples in        *)
(* findings/pinned_orient.ndjson were found by an offline search           *)
(* (work/orient/search*.py, not part of any check) for inputs on which the *)
(* plain double-precision determinant is CONFIDENTLY wrong: its sign       *)
(* differs from the exact sign although its magnitude exceeds 1.3, 2.0 or  *)
(* 2.3 e-16 (|detleft| + |detright|) - between the rounding of the two     *)
(* products and Shewchuk's full first-stage bound 3.33e-16.  A "fast path" *)
(* in front of the adaptive predicate whose error bound forgets the        *)
(* rounding of the four coordinate differences answers exactly these       *)
(* inputs wrongly (about one random nearly-collinear triple in 10^8).      *)
(* The file only PROPOSES the inputs: the required answer is computed here *)
(* from the limbs with the exact arithmetic of BigInt.tla.                 *)
(* Record: each point = mantissa limbs (base 2^13, least significant       *)
(* first) of x and y and ONE binary exponent; all coordinates positive.    *)
(***************************************************************************)
EXTENDS BigInt, TLC, Json, IOUtils

Rec == ndJsonDeserialize(IOEnv.PINNED)

RECURSIVE Pow2(_)
Pow2(r) == IF r = 0 THEN 1 ELSE 2 * Pow2(r - 1)
RECURSIVE ShlFrom(_, _, _, _)
ShlFrom(m, r, i, carry) == IF i > Len(m) THEN (IF carry = 0 THEN <<>> ELSE <<carry>>)
                           ELSE LET t == m[i] * Pow2(r) + carry IN <<t % Base>> \o ShlFrom(m, r, i + 1, t \div Base)
\* shift left by any number of bits
Shl(m, r) == ShiftLimbs(Trim(ShlFrom(m, r % 13, 1, 0)), r \div 13)

MinE(e) == LET a == e.aexp  b == e.bexp  c == e.cexp IN IF a <= b /\ a <= c THEN a ELSE IF b <= c THEN b ELSE c
\* a coordinate as an exact integer in units of 2^MinE
U(e, limbs, ex) == Z(1, Shl(limbs, ex - MinE(e)))
Cross3(e) == LET ax == U(e, e.ax, e.aexp)  ay == U(e, e.ay, e.aexp)  bx == U(e, e.bx, e.bexp)  by == U(e, e.by, e.bexp)
                 cx == U(e, e.cx, e.cexp)  cy == U(e, e.cy, e.cexp)
             IN ZSub(ZMul(ZSub(bx, ax), ZSub(cy, ay)), ZMul(ZSub(by, ay), ZSub(cx, ax)))

VARIABLES l, done
vars == <<l, done>>
Init == l \in 1 .. Len(Rec) /\ done = FALSE
Next == /\ ~done /\ done' = TRUE /\ l' = l
        /\ LET e == Rec[l]  c == Cross3(e) IN
           PrintT(<<"CASE", ToJson([op |-> "kernel_pinned", id |-> l, ax |-> e.ax, ay |-> e.ay, aexp |-> e.aexp, bx |-> e.bx, by |-> e.by, bexp |-> e.bexp,
                                    cx |-> e.cx, cy |-> e.cy, cexp |-> e.cexp, orient |-> ZSign(c), detlimbs |-> Len(c.m), band |-> e.band])>>)
Spec == Init /\ [][Next]_vars
ASSUME BigIntSelfTest
\* the exact sign is antisymmetric under exchanging two points (a consistency law of the limb arithmetic, on every record)
Swap(e) == [e EXCEPT !.bx = e.cx, !.by = e.cy, !.bexp = e.cexp, !.cx = e.bx, !.cy = e.by, !.cexp = e.bexp]
PinnedLaws == LET e == Rec[l] IN ZSign(Cross3(e)) = 0 - ZSign(Cross3(Swap(e))) /\ ZSign(Cross3(e)) # 0
=============================================================================

------------------------------ MODULE Gen_Poly ------------------------------
(***************************************************************************)
(* Polygon generator over the general lattice G(K) = (0..K)^2, any slopes. *)
(* The enumeration IS the state space: a state is a partial simple path;   *)
(* TLC extends it vertex by vertex (in parallel), closes it into a simple  *)
(* ring in canonical form (start at the lexicographically least vertex,    *)
(* counter-clockwise) and optionally adds one hole strictly inside.  Each  *)
(* completed polygon is emitted once with its exact measures:              *)
(*   a2ext, a2hole   twice the (positive) ring areas            (C05)      *)
(*   cx, cy          centroid as exact rationals <<num, den>>   (C06)      *)
(*   valid           OGC validity (TRUE by construction here)   (C14)      *)
(* Collinear vertices are allowed (MaxFlat of them), repeated ones not.    *)
(***************************************************************************)
EXTENDS Lattice, TLC, Json, SequencesExt

CONSTANTS K,        \* coordinates 0..K
          MaxV,     \* maximum number of distinct ring vertices
          WithHoles,\* TRUE: also emit polygons with one or two holes from HoleCat strictly inside
          HoleMinA2,\* holes are only added to shells of at least this doubled area
          BigN      \* set of sizes n of the parametric "staircase" family (2n + 2 vertices; size-gated code paths), may be {}

Grid == (0 .. K) \X (0 .. K)

\* segment [a,b] against an earlier segment [c,d] of the same path that is not adjacent to it
Clear(a, b, c, d) == ~SegSegMeet(a, b, c, d)
\* appending c keeps the open path simple: new edge [last,c] meets no earlier edge except the
\* previous one at the shared vertex, and does not fold back onto it
CanAppend(p, c) ==
    LET n == Len(p) IN
    /\ \A i \in 1 .. n : p[i] # c
    /\ n >= 2 => ~(Cross(p[n-1], p[n], c) = 0 /\ Dot(p[n], p[n-1], c) > 0)
    /\ \A i \in 1 .. n - 2 : Clear(p[n], c, p[i], p[i+1])
\* the closing edge [last, first] keeps the ring simple
CanClose(p) ==
    LET n == Len(p) IN
    /\ n >= 3
    /\ ~(Cross(p[n-1], p[n], p[1]) = 0 /\ Dot(p[n], p[n-1], p[1]) > 0)
    /\ ~(Cross(p[n], p[1], p[2]) = 0 /\ Dot(p[1], p[n], p[2]) > 0)
    /\ \A i \in 2 .. n - 2 : Clear(p[n], p[1], p[i], p[i+1])
RingOf(p) == Append(p, p[1])
Canonical(p) == /\ \A i \in 2 .. Len(p) : LexLess(p[1], p[i])
                /\ Area2(RingOf(p)) > 0

\* small catalogue of hole shapes (ccw triangles and unit squares anywhere on the grid)
HoleCat == {<<a, b, c>> \in Grid \X Grid \X Grid :
               LexLess(a, b) /\ LexLess(a, c) /\ Cross(a, b, c) > 0 /\ D2(a, b) <= 2 /\ D2(a, c) <= 2}
           \cup {<<a, <<a[1] + 1, a[2]>>, <<a[1] + 1, a[2] + 1>>, <<a[1], a[2] + 1>>>> : a \in {g \in Grid : g[1] < K /\ g[2] < K}}
\* hole strictly inside the shell: vertices inside, no edge of the hole meets an edge of the shell
StrictlyInside(h, ring) ==
    /\ \A i \in 1 .. Len(h) : RingPos(h[i], ring) = "I"
    /\ \A i \in 1 .. Len(h) : \A j \in Edges(ring) :
          ~SegSegMeet(h[i], h[(i % Len(h)) + 1], ring[j], ring[j+1])

\* hole touching the shell in exactly one point: one hole vertex on the shell (a shell vertex or the interior of a shell
\* edge), the others strictly inside, and the hole's edges meet the shell nowhere else.  Such a polygon is still valid.
TouchesOnce(h, ring) ==
    LET n == Len(h)
        onb == {i \in 1 .. n : RingPos(h[i], ring) = "B"}
    IN /\ Cardinality(onb) = 1
       /\ \A i \in (1 .. n) \ onb : RingPos(h[i], ring) = "I"
       /\ LET t == CHOOSE i \in onb : TRUE  v == h[t] IN
          \A i \in 1 .. n : \A j \in Edges(ring) :
              LET a == h[i]  b == h[(i % n) + 1] IN
              SegSegMeet(a, b, ring[j], ring[j + 1]) =>
                  /\ (a = v \/ b = v) /\ OnSeg(v, ring[j], ring[j + 1])
                  /\ Cross(ring[j], ring[j + 1], IF a = v THEN b ELSE a) # 0

\* exact first moments of a closed ccw ring: Sx = sum (x_i + x_{i+1}) * cross_i, likewise Sy
RECURSIVE MomX(_, _), MomY(_, _)
MomX(r, i) == IF i >= Len(r) THEN 0
              ELSE (r[i][1] + r[i+1][1]) * (r[i][1] * r[i+1][2] - r[i+1][1] * r[i][2]) + MomX(r, i + 1)
MomY(r, i) == IF i >= Len(r) THEN 0
              ELSE (r[i][2] + r[i+1][2]) * (r[i][1] * r[i+1][2] - r[i+1][1] * r[i][2]) + MomY(r, i + 1)

VARIABLES path, phase, hole
vars == <<path, phase, hole>>
\* two holes that do not touch each other and are not nested
Apart(h1, h2) ==
    /\ \A i \in 1 .. Len(h1) : \A j \in 1 .. Len(h2) :
          ~SegSegMeet(h1[i], h1[(i % Len(h1)) + 1], h2[j], h2[(j % Len(h2)) + 1])
    /\ RingPos(h1[1], RingOf(h2)) = "E" /\ RingPos(h2[1], RingOf(h1)) = "E"

\* Staircase family: (0,0), (n,0), then n steps up and to the left, ending at (0,n): 2n + 2 vertices, area n(n+1)/2.
\* A simple ccw ring in canonical form for every n >= 1, far beyond the vertex counts the enumeration reaches.
RECURSIVE Steps(_, _)
Steps(n, k) == IF k > n THEN <<>> ELSE << <<n - k + 1, k>>, <<n - k, k>> >> \o Steps(n, k + 1)
StairPath(n) == << <<0, 0>>, <<n, 0>> >> \o Steps(n, 1)
\* a second parametric family with SMALL coordinates and many vertices (the staircase's moments overflow 32 bits beyond n = 300):
\* the rectangle W x 5 with a vertex at every integer x of its top side, W + 4 coordinates; in BigN as 100000 + W
RECURSIVE TopSide(_)
TopSide(x) == IF x < 0 THEN <<>> ELSE << <<x, 5>> >> \o TopSide(x - 1)
LongRectPath(w) == << <<0, 0>>, <<w, 0>> >> \o TopSide(w)
BigPath(n) == IF n >= 100000 THEN LongRectPath(n - 100000) ELSE StairPath(n)
UnitHole(x, y) == << <<x, y>>, <<x + 1, y>>, <<x + 1, y + 1>>, <<x, y + 1>> >>

Init == \/ /\ path \in {<<p>> : p \in Grid} /\ phase = "open" /\ hole = <<>>
        \/ /\ path \in {BigPath(n) : n \in BigN} /\ phase = "big" /\ hole = <<>>

RECURSIVE SumOver(_, _, _)
SumOver(Op(_), hs, i) == IF i > Len(hs) THEN 0 ELSE Op(RingOf(hs[i])) + SumOver(Op, hs, i + 1)
MX(r) == MomX(r, 1)
MY(r) == MomY(r, 1)
\* hs: sequence of hole paths (0, 1 or 2), all ccw here; the harness replays every winding
Case(p, hs) ==
    LET ring == RingOf(p)
        a2e  == Area2(ring)
        a2h  == SumOver(Area2, hs, 1)
        sx   == MomX(ring, 1) - SumOver(MX, hs, 1)
        sy   == MomY(ring, 1) - SumOver(MY, hs, 1)
    IN [op |-> "poly", ext |-> ring, holes |-> [i \in DOMAIN hs |-> RingOf(hs[i])],
        a2ext |-> a2e, a2hole |-> a2h,
        cx |-> <<sx, 3 * (a2e - a2h)>>, cy |-> <<sy, 3 * (a2e - a2h)>>, valid |-> TRUE,
        \* number of holes that touch the shell in a point (ear-cut is only claimed for 0)
        touch |-> Cardinality({i \in DOMAIN hs : \E k \in DOMAIN hs[i] : RingPos(hs[i][k], ring) = "B"}),
        \* Triangle on the first three shell vertices and bounding Rect of the shell (C05: Rect and
        \* Triangle areas equal those of their polygon form; collection areas are sums)
        tri2 |-> Abs(Cross(p[1], p[2], p[3])), tri_sign |-> Sign(Cross(p[1], p[2], p[3])),
        bbox |-> <<SetMin({p[i][1] : i \in DOMAIN p}), SetMin({p[i][2] : i \in DOMAIN p}),
                   SetMax({p[i][1] : i \in DOMAIN p}), SetMax({p[i][2] : i \in DOMAIN p})>>,
        rect2 |-> 2 * (SetMax({p[i][1] : i \in DOMAIN p}) - SetMin({p[i][1] : i \in DOMAIN p}))
                    * (SetMax({p[i][2] : i \in DOMAIN p}) - SetMin({p[i][2] : i \in DOMAIN p}))]

Extend == /\ phase = "open" /\ Len(path) < MaxV
          /\ \E c \in Grid : CanAppend(path, c) /\ path' = Append(path, c)
          /\ UNCHANGED <<phase, hole>>
Close  == /\ phase = "open" /\ CanClose(path) /\ Canonical(path)
          /\ phase' = "ring" /\ UNCHANGED <<path, hole>>
          /\ PrintT(<<"CASE", ToJson(Case(path, <<>>))>>)
AddHole == /\ phase = "ring" /\ WithHoles /\ Area2(RingOf(path)) >= HoleMinA2
           /\ \E h \in HoleCat : /\ StrictlyInside(h, RingOf(path))
                                 /\ hole' = h /\ phase' = "holed" /\ UNCHANGED path
                                 /\ PrintT(<<"CASE", ToJson(Case(path, <<h>>))>>)
AddTouchHole == /\ phase = "ring" /\ WithHoles /\ Area2(RingOf(path)) >= HoleMinA2
                /\ \E h \in HoleCat : /\ TouchesOnce(h, RingOf(path))
                                      /\ hole' = h /\ phase' = "touching" /\ UNCHANGED path
                                      /\ PrintT(<<"CASE", ToJson(Case(path, <<h>>))>>)
AddHole2 == /\ phase = "holed" /\ WithHoles
            /\ \E h \in HoleCat : /\ LexLess(hole[1], h[1]) /\ StrictlyInside(h, RingOf(path)) /\ Apart(hole, h)
                                  /\ phase' = "holed2" /\ UNCHANGED <<path, hole>>
                                  /\ PrintT(<<"CASE", ToJson(Case(path, <<hole, h>>))>>)
\* the big family: without holes, with one and with two unit holes (strictly inside for n >= 8)
EmitBig == /\ phase = "big" /\ phase' = "bigdone" /\ UNCHANGED <<path, hole>>
           /\ PrintT(<<"CASE", ToJson(Case(path, <<>>))>>)
           /\ PrintT(<<"CASE", ToJson(Case(path, <<UnitHole(1, 1)>>))>>)
           /\ PrintT(<<"CASE", ToJson(Case(path, <<UnitHole(1, 1), UnitHole(1, 3)>>))>>)
Next == Extend \/ Close \/ AddHole \/ AddTouchHole \/ AddHole2 \/ EmitBig
Spec == Init /\ [][Next]_vars

\* sanity of the generator itself: an emitted shell is a simple ring with positive area
ShellOK == /\ phase # "open" => Area2(RingOf(path)) > 0 /\ Len(path) >= 3
           \* closed forms of the two parametric families: staircase n (n + 1) / 2 ... , long rectangle 5 W
           /\ phase \in {"big", "bigdone"} => /\ IF path[3][2] = 5 /\ path[2][2] = 0 /\ Len(path) >= 6 /\ path[Len(path)] = <<0, 5>>
                                                 THEN Area2(RingOf(path)) = 10 * path[2][1]
                                                 ELSE 2 * Area2(RingOf(path)) = 2 * ((Len(path) - 2) \div 2) * (((Len(path) - 2) \div 2) + 1)
                                              /\ StrictlyInside(UnitHole(1, 1), RingOf(path)) /\ StrictlyInside(UnitHole(1, 3), RingOf(path))
=============================================================================

----------------------------- MODULE Gen_RelBig -----------------------------
(***************************************************************************)
(* C01 / C02 / C17 on LONG operands (size-gated code paths in relate: edge *)
(* set intersectors, indexes, chunked loops): a staircase line with n      *)
(* segments and the staircase polygon under it, n from 8 to 4200, against  *)
(* partners in positions where the DE-9IM matrix follows from the          *)
(* construction for EVERY n:                                               *)
(*   the same operand, its reverse spelling          equal                 *)
(*   a square strictly around it / far away          within / disjoint     *)
(*   one of its vertices / end points as a Point     interior / boundary   *)
(*   a short segment crossing one horizontal edge    one proper crossing   *)
(*   a unit square strictly inside the polygon       contains              *)
(* Coordinates are multiples of 4 (the octilinear witness lattice), so for *)
(* n = 4 the matrices are ALSO computed from the point-set definition      *)
(* (PointSet!DE9IM) and compared: the invariant SmallAgrees is the lemma   *)
(* that the construction is right; larger n only repeat the pattern.       *)
(***************************************************************************)
EXTENDS Shapes, TLC, Json

CONSTANTS Sizes         \* set of n (number of segments of the staircase line); 4 must be a member (lemma)

\* staircase from (8, 8): right 8, up 8, right 8, ...   (n segments, n + 1 vertices)
Stair(n) == [i \in 1 .. n + 1 |-> <<8 + 8 * (i \div 2), 8 + 8 * ((i - 1) \div 2)>>]
RevS(s) == [i \in 1 .. Len(s) |-> s[Len(s) + 1 - i]]
\* the polygon ABOVE the staircase (n even): along the staircase from (8, 8) to its end (W, H), back along the top to (8, H), down
W(n) == 8 + 8 * ((n + 1) \div 2)
H(n) == 8 + 8 * (n \div 2)
StairPoly(n) == Stair(n) \o << <<8, H(n)>>, <<8, 8>> >>
SqRing(x, y, s) == << <<x, y>>, <<x + s, y>>, <<x + s, y + s>>, <<x, y + s>>, <<x, y>> >>

\* pairs <<a, b, matrix>> for one n (n even, n >= 4)
Pairs(n) ==
    LET L == LS(Stair(n))  P == Poly(StairPoly(n), <<>>)
        big == Poly(SqRing(0, 0, W(n) + 8), <<>>)
        far == Poly(SqRing(0, 0, 4), <<>>)
        mid == Stair(n)[3]                                   \* (16, 16): a vertex in the interior of the line
        cut == Ln(<<12, 4>>, <<12, 12>>)                     \* crosses the first horizontal edge (8,8)-(16,8) at (12, 8)
    IN << <<L, L, "1FFF0FFF2">>, <<L, LS(RevS(Stair(n))), "1FFF0FFF2">>,
          <<L, big, "1FF0FF212">>, <<big, L, "102FF1FF2">>, <<L, far, "FF1FF0212">>,
          <<L, Pt(mid), "0F1FF0FF2">>, <<L, Pt(<<8, 8>>), "FF10F0FF2">>, <<Pt(mid), L, "0FFFFF102">>,
          <<L, cut, "0F1FF0102">>, <<cut, L, "0F1FF0102">>,
          <<P, P, "2FFF1FFF2">>, <<P, far, "FF2FF1212">>, <<P, big, "2FF1FF212">>, <<big, P, "212FF1FF2">>,
          \* a small square strictly inside the polygon, under its top-left corner (not on the witness lattice: outside the lemma)
          <<P, Poly(SqRing(9, H(n) - 3, 2), <<>>), "212FF1FF2">> >>

\* fixed pairs (emitted with size 4, so that the lemma covers them): shell 0..32, a triangular hole listed first whose bounding
\* box covers the square hole, and partners lying in the square hole
TwoHoles(first) == LET tri == << <<4, 4>>, <<4, 24>>, <<24, 4>>, <<4, 4>> >>  sq == << <<16, 16>>, <<16, 20>>, <<20, 20>>, <<20, 16>>, <<16, 16>> >> IN
                   Poly(SqRing(0, 0, 32), IF first = "tri" THEN <<tri, sq>> ELSE <<sq, tri>>)
Fixed == << <<TwoHoles("tri"), Pt(<<18, 18>>), "FF2FF10F2">>, <<Pt(<<18, 18>>), TwoHoles("tri"), "FF0FFF212">>,
            <<TwoHoles("sq"), Pt(<<18, 18>>), "FF2FF10F2">>,
            <<TwoHoles("tri"), Pt(<<16, 18>>), "FF20F1FF2">>,
            <<TwoHoles("tri"), Ln(<<16, 16>>, <<20, 20>>), "FF2F011F2">>,
            <<TwoHoles("tri"), Pt(<<8, 8>>), "FF2FF10F2">>, <<TwoHoles("tri"), Pt(<<12, 20>>), "0F2FF1FF2">> >>
Mask(im) == [i |-> ImIntersects(im), c |-> ImContains(im), w |-> ImWithin(im)]
Case(n, k) ==
    LET t == IF k > Len(Pairs(n)) THEN Fixed[k - Len(Pairs(n))] ELSE Pairs(n)[k] IN
    [op |-> "relate", id |-> <<n, k>>, a |-> t[1], b |-> t[2], im |-> t[3], noproper |-> FALSE, pred |-> Mask(t[3]), big |-> n]

VARIABLES size, k
vars == <<size, k>>
Init == size \in Sizes /\ k = 0
Next == /\ k = 0 /\ size' = size /\ k' \in 1 .. (Len(Pairs(size)) + (IF size = 4 THEN Len(Fixed) ELSE 0))
        /\ PrintT(<<"CASE", ToJson(Case(size, k'))>>)
Spec == Init /\ [][Next]_vars

\* the lemma: for n = 4 every constructed matrix is the point-set DE-9IM (lattice -1 .. 4 N + 1 with N = 8 covers 0 .. 32)
F4 == FineOf(8)
SmallAgrees == /\ (size = 4 /\ k > 0 /\ k < Len(Pairs(4))) => LET t == Pairs(4)[k] IN DE9IM(t[1], t[2], F4) = t[3]
               /\ (size = 4 /\ k > Len(Pairs(4))) => LET t == Fixed[k - Len(Pairs(4))] IN DE9IM(t[1], t[2], F4) = t[3]
=============================================================================

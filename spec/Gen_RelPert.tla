---------------------------- MODULE Gen_RelPert ----------------------------
(***************************************************************************)
(* C01 / C02 on the perturbed-degenerate universe (DESIGN.md 3.3): a line  *)
(* that leaves a vertex of a triangle in a direction which differs from    *)
(* the direction of the triangle's edge only in the LAST BIT of one        *)
(* coordinate.  All coordinates are doubles with generic 53-bit mantissas  *)
(* (given as base-2^13 limbs, least significant first, plus a binary       *)
(* exponent), yet the true DE-9IM matrix follows from the construction:    *)
(*                                                                         *)
(*   n  = (Mx, My) 2^-53          Mx, My in [2^52, 2^53): n in [1/2, 1)^2  *)
(*   p1 = 16 n, e = 4 n           exact (powers of two); e lies on n p1    *)
(*   q  = (e.x, e.y + k ulp)      = (4 Mx, 4 My + 4 k) 2^-53, k in -2..2   *)
(*   r  = (20, 1) or (1, 20)      far to the right / to the left of n p1   *)
(*                                                                         *)
(*   Cross(n, p1, q) = 15 n.x k ulp          sign = sign(k)      (n.x > 0) *)
(*   Cross(n, p1, r) = 15 (n.x r.y - n.y r.x) sign = -1 for (20, 1),       *)
(*                                                   +1 for (1, 20)        *)
(* (Side below; TLC checks the two inequalities that make the signs        *)
(* structural, on the leading limbs, for every generated case).  q is      *)
(* within one unit in the last place of the interior point e of the edge,  *)
(* so it is strictly inside the triangle iff it is on r's side:            *)
(*   k = 0          the line n q runs along the boundary      F1FF0F212    *)
(*   sign k = side  interior of the line inside the triangle  1FF00F212    *)
(*   otherwise      interior of the line outside              FF1F00212    *)
(* The implementation must return exactly this matrix (and its transpose   *)
(* with the operands swapped) for every spelling of the operands.          *)
(***************************************************************************)
EXTENDS Integers, Sequences, TLC, Json

CONSTANTS SeedLo, SeedHi

Base == 8192
Rnd(s, j) == (s * 7919 + j * 104729 + s * s * 31 + j * j * 977) % Base
\* a 53-bit mantissa: four random limbs (the lowest kept away from 0 and Base - 1 so that M + 4 k neither borrows nor carries
\* across the whole number) and the leading bit
Mant(s, j) == <<8 + (Rnd(s, j) % (Base - 16)), Rnd(s, j + 1), Rnd(s, j + 2), Rnd(s, j + 3), 1>>

\* 4 M + 4 k in limbs (k in -2..2): shift by two bits, then add 4 k to the lowest limb (no carry: 32 <= 4 l1 % Base ... is not
\* guaranteed, so carry / borrow are propagated)
RECURSIVE Shl2(_, _, _)
Shl2(m, i, carry) == IF i > Len(m) THEN (IF carry = 0 THEN <<>> ELSE <<carry>>)
                     ELSE LET t == m[i] * 4 + carry IN <<t % Base>> \o Shl2(m, i + 1, t \div Base)
RECURSIVE AddSmall(_, _, _)
AddSmall(m, i, d) == IF d = 0 \/ i > Len(m) THEN SubSeq(m, i, Len(m))
                     ELSE LET t == m[i] + d IN
                          IF t < 0 THEN <<t + Base>> \o AddSmall(m, i + 1, -1)
                          ELSE IF t >= Base THEN <<t - Base>> \o AddSmall(m, i + 1, 1)
                          ELSE <<t>> \o SubSeq(m, i + 1, Len(m))
Times4Plus(m, k) == AddSmall(Shl2(m, 1, 0), 1, 4 * k)

Matrix(k, side) == IF k = 0 THEN "F1FF0F212" ELSE IF (k > 0) = (side > 0) THEN "1FF00F212" ELSE "FF1F00212"
Transpose(s) == <<s[1], s[4], s[7], s[2], s[5], s[8], s[3], s[6], s[9]>>
Chars(str) == CASE str = "F1FF0F212" -> <<"F", "1", "F", "F", "0", "F", "2", "1", "2">>
                [] str = "1FF00F212" -> <<"1", "F", "F", "0", "0", "F", "2", "1", "2">>
                [] str = "FF1F00212" -> <<"F", "F", "1", "F", "0", "0", "2", "1", "2">>
RECURSIVE Join(_, _)
Join(cs, i) == IF i > Len(cs) THEN "" ELSE cs[i] \o Join(cs, i + 1)

Case(s, k, side) ==
    LET mx == Mant(s, 1)  my == Mant(s, 21)  im == Matrix(k, side) IN
    [op |-> "relpert", seed |-> s, k |-> k, side |-> side,
     nx |-> mx, ny |-> my, nexp |-> -53,
     qx |-> Times4Plus(mx, 0), qy |-> Times4Plus(my, k), qexp |-> -53,
     r |-> IF side < 0 THEN <<20, 1>> ELSE <<1, 20>>,
     im |-> im, imt |-> Join(Transpose(Chars(im)), 1),
     \* C02: the triangle contains the line iff the line's interior is inside; they always intersect (shared vertex n)
     contains |-> (k # 0 /\ (k > 0) = (side > 0)), intersects |-> TRUE]

VARIABLES seed, pick
vars == <<seed, pick>>
Init == seed \in SeedLo .. SeedHi /\ pick = <<9, 9>>
Next == /\ pick = <<9, 9>> /\ seed' = seed /\ pick' \in (-2 .. 2) \X {-1, 1}
        /\ PrintT(<<"CASE", ToJson(Case(seed, pick'[1], pick'[2]))>>)
Spec == Init /\ [][Next]_vars

\* the structural sign argument, checked on every generated case: n in [1/2, 1)^2 (leading limb 1 of 5), hence
\* n.x * 1 - n.y * 20 < 0 and n.x * 20 - n.y * 1 > 0; and 4 M + 4 k keeps 55 bits (no carry out of / borrow into the top)
SignsStructural ==
    LET mx == Mant(seed, 1)  my == Mant(seed, 21) IN
    /\ Len(mx) = 5 /\ mx[5] = 1 /\ Len(my) = 5 /\ my[5] = 1
    /\ \A k \in -2 .. 2 : LET t == Times4Plus(my, k) IN Len(t) = 5 /\ t[5] \in 4 .. 7 /\ \A i \in 1 .. 5 : t[i] \in 0 .. Base - 1
    /\ Times4Plus(mx, 0)[5] \in 4 .. 7
=============================================================================

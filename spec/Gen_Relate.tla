----------------------------- MODULE Gen_Relate -----------------------------
(***************************************************************************)
(* Case generator for C01 / C02 / C17 / C13(commutation): every ordered    *)
(* pair (a, b) of a catalogue of valid octilinear geometries with the true *)
(* DE-9IM matrix (witness-lattice oracle) and the predicate masks.  The    *)
(* state space TLC explores IS the case space: one state per pair.         *)
(***************************************************************************)
EXTENDS Shapes, TLC, Json

CONSTANTS N,          \* vertex grid {0,4,..,4N}^2
          Profile,    \* "base" | "holes"
          Stride,     \* the a-side takes every Stride-th catalogue entry ...
          Offset,     \* ... starting at 1 + Offset (seed-dependent); b ranges over all
          Emit        \* "relate" | "coordpos" | "both"

F == FineOf(N)

\* every k-th element of a set in TLC's normalised order
Sample(S, k, o) == LET q == SetToSeq(S) IN {q[i] : i \in {j \in 1 .. Len(q) : j % k = o % k}}

\* TLC evaluates every constant definition eagerly: families of the other profile are cut off
\* (operator arguments are evaluated lazily, so the guarded expression is never computed)
OnlyBase(S)  == IF Profile = "base"  THEN S ELSE {}
OnlyHoles(S) == IF Profile = "holes" THEN S ELSE {}

V == VPts(N)
NotBig(S) == IF Profile = "big" THEN {} ELSE S
P1 == NotBig(Paths1(N))
P2 == ExtendPaths(N, P1)
P3 == ExtendPaths(N, P2)
P4 == ExtendPaths(N, P3)
P5 == OnlyBase(ExtendPaths(N, P4))
P6 == ExtendPaths(N, P5)
R3 == RingsOf(P3)
R4 == RingsOf(P4)
R5 == RingsOf(P5)
R6 == RingsOf(P6)

Points == NotBig({Pt(c) : c \in EPts(N)})
Lines  == {Ln(s[1], s[2]) : s \in P1}
LineStrings ==
OnlyBase({LS(q) : q \in CanonOpen(P2)} \cup {LS(Rev(q)) : q \in Sample(CanonOpen(P2), 7, 3)}
    \cup {LS(q) : q \in Sample(CanonOpen(P3), 5, 1)}
    \cup {LS(q) : q \in R3 \cup Sample(R4, 2, 0)})
Polygons == OnlyBase({Poly(r, <<>>) : r \in R3 \cup R4 \cup R5 \cup R6})
RectsOK == NotBig({r \in {Rc(a, b) : a \in V, b \in V} : r.a[1] < r.b[1] /\ r.a[2] < r.b[2]})
Triangles == OnlyBase({Tri(r[1], r[2], r[3]) : r \in R3} \cup {Tri(r[1], r[3], r[2]) : r \in Sample(R3, 3, 1)})
EP == EPts(N)
MultiPoints ==
OnlyBase(Sample({m \in {MPt(<<a, b>>) : a \in EP, b \in EP} : LexLess(m.cs[1], m.cs[2])}, 11, 2)
    \cup {MPt(<<a, <<a[1] + 2, a[2]>>, <<a[1], a[2] + 2>> >>) : a \in {a \in EP : a[1] + 2 <= 4 * N /\ a[2] + 2 <= 4 * N /\ a[1] % 4 = 0}})
\* two simple curves may share only points that are boundary points of both (OGC simple MLS)
LSCompat(p, q) == \A x \in F : LET a == LinePos(x, p) IN a # "E" => LET b == LinePos(x, q) IN b = "E" \/ (a = "B" /\ b = "B")
MLBase == OnlyBase(Sample(CanonOpen(P1) \cup CanonOpen(P2), 4, 1))
MLPairs == OnlyBase({pq \in MLBase \X MLBase : LexLess(pq[1][1], pq[2][1]) /\ LSCompat(pq[1], pq[2])})
\* three segments sharing one endpoint (odd => boundary point), two sharing (even => interior)
StarArms(c) == {d \in V : Octi(c, d) /\ D2(c, d) <= 32}
StarSets == OnlyBase({q \in V \X V \X V \X V :
               /\ q[1] \in {<<4, 4>>, <<0, 4>>}
               /\ q[2] \in StarArms(q[1]) /\ q[3] \in StarArms(q[1]) /\ q[4] \in StarArms(q[1])
               /\ LexLess(q[2], q[3]) /\ LexLess(q[3], q[4])
               /\ LSCompat(<<q[1], q[2]>>, <<q[1], q[3]>>) /\ LSCompat(<<q[1], q[2]>>, <<q[1], q[4]>>)
               /\ LSCompat(<<q[1], q[3]>>, <<q[1], q[4]>>)})
MultiLineStrings ==
OnlyBase({MLS(<<pq[1], pq[2]>>) : pq \in Sample(MLPairs, 9, 4)}
    \cup {MLS(<<<<q[1], q[2]>>, <<q[3], q[1]>>, <<q[1], q[4]>>>>) : q \in StarSets}
    \* closed loops made of two open members: empty mod-2 boundary
    \cup {MLS(<<SubSeq(r, 1, 3), SubSeq(r, 3, Len(r))>>) : r \in Sample(R4 \cup R5, 5, 2)})
PolyBase == OnlyBase(R3 \cup Sample(R4, 2, 1))
PolyBasePos == OnlyBase(TLCEval([r \in PolyBase |-> TLCEval(RingMap(r, F))]))
MPPairs == OnlyBase({rs \in PolyBase \X PolyBase :
              LexLess(rs[1][1], rs[2][1]) /\ TouchOnlyAtPoints(PolyBasePos[rs[1]], PolyBasePos[rs[2]], F)})
MultiPolygons == OnlyBase({MPoly(<<[ext |-> rs[1], holes |-> <<>>], [ext |-> rs[2], holes |-> <<>>]>>) : rs \in Sample(MPPairs, 5, 0)})
\* collections: one dimension, pairwise disjoint members
GCs ==
OnlyBase({GC(<<Pt(a), Pt(<<a[1] + 4, a[2] + 2>>)>>) : a \in {a \in EP : a[1] + 4 <= 4 * N /\ a[2] + 2 <= 4 * N /\ a[2] % 4 = 0}}
    \cup {GC(<<LS(pq[1]), Ln(pq[2][1], pq[2][Len(pq[2])])>>) :
            pq \in Sample({pq \in MLBase \X CanonOpen(P1) : DisjointMaps(PosMap(LS(pq[1]), F), PosMap(LS(pq[2]), F), F)}, 23, 5)}
    \cup {GC(<<Poly(rs[1], <<>>), Tri(rs[2][1], rs[2][2], rs[2][3])>>) :
            rs \in Sample({rs \in PolyBase \X R3 : DisjointMaps(PolyBasePos[rs[1]], PolyBasePos[rs[2]], F)}, 13, 6)})
\* polygons with one or two holes (needs N >= 3); shells are large rings
Shells == { <<<<0,0>>, <<12,0>>, <<12,12>>, <<0,12>>, <<0,0>>>>,
            <<<<0,4>>, <<4,0>>, <<8,0>>, <<12,4>>, <<12,8>>, <<8,12>>, <<4,12>>, <<0,8>>, <<0,4>>>>,
            <<<<0,0>>, <<12,0>>, <<0,12>>, <<0,0>>>>,
            <<<<0,0>>, <<12,0>>, <<12,8>>, <<8,12>>, <<0,12>>, <<0,0>>>> }
\* position maps are computed once per ring (TLCEval forces the lazy function values)
HoleRings == OnlyHoles(R3 \cup Sample(R4, 3, 1))
HRPos == OnlyHoles(TLCEval([r \in HoleRings |-> TLCEval(RingMap(r, F))]))
ShPos == OnlyHoles(TLCEval([e \in Shells |-> TLCEval(RingMap(e, F))]))
ValidHole(e, h) == HoleInShell(HRPos[h], ShPos[e], F) /\ TouchCount(HRPos[h], ShPos[e], F) <= 1
HolesOf == OnlyHoles(TLCEval([e \in Shells |-> {h \in HoleRings : ValidHole(e, h)}]))
\* two holes: interiors disjoint, touching in at most one point, ring touch graph acyclic
ValidHolePair(e, h1, h2) ==
    /\ TouchOnlyAtPoints(HRPos[h1], HRPos[h2], F) /\ TouchCount(HRPos[h1], HRPos[h2], F) <= 1
    /\ TouchCount(HRPos[h1], ShPos[e], F) + TouchCount(HRPos[h2], ShPos[e], F) + TouchCount(HRPos[h1], HRPos[h2], F) <= 2
Holed1 == OnlyHoles(UNION {{Poly(e, <<Rev(h)>>) : h \in HolesOf[e]} : e \in Shells})
Holed2 == OnlyHoles(UNION {UNION {{Poly(e, <<Rev(h1), h2>>) :
                          h2 \in {h2 \in HolesOf[e] \cap R3 : LexLess(h1[1], h2[1]) /\ ValidHolePair(e, h1, h2)}}
                        : h1 \in Sample(HolesOf[e] \cap R3, 3, 0)} : e \in {e \in Shells : Len(e) # 4}})
\* Profile "big" (N = 10, coordinates 0..40): operands with 10 - 50 segments, so that the segment R-trees of relate have
\* several levels; all octilinear and valid, hence inside the witness-lattice theorem.
OnlyBig(S) == IF Profile = "big" THEN S ELSE <<>>
Sq4(x, y, s) == << <<x, y>>, <<x + s, y>>, <<x + s, y + s>>, <<x, y + s>>, <<x, y>> >>
RECURSIVE StairSteps4(_, _)
StairSteps4(n, k) == IF k > n THEN <<>> ELSE << <<4 * (n - k + 1), 4 * k>>, <<4 * (n - k), 4 * k>> >> \o StairSteps4(n, k + 1)
StairRing4(n) == << <<0, 0>>, <<4 * n, 0>> >> \o StairSteps4(n, 1) \o << <<0, 0>> >>
RECURSIVE CombTeeth(_, _)
CombTeeth(n, i) == IF i < 0 THEN <<>>
                   ELSE << <<8 * i + 4, 4>>, <<8 * i + 4, 36>>, <<8 * i, 36>>, <<8 * i, 4>> >> \o CombTeeth(n, i - 1)
CombRing(n) == << <<0, 0>>, <<8 * n - 4, 0>>, <<8 * n - 4, 4>> >> \o Tail(CombTeeth(n, n - 1)) \o << <<0, 0>> >>
ZigZag(n) == [i \in 1 .. n + 1 |-> <<4 * (i - 1), IF i % 2 = 1 THEN 16 ELSE 20>>]
Straight(n, y) == [i \in 1 .. n + 1 |-> <<4 * (i - 1), y>>]
BigCat == OnlyBig(<<
    Poly(StairRing4(10), <<>>), Poly(StairRing4(10), << Rev(Sq4(4, 4, 4)), Rev(Sq4(12, 4, 8)), Rev(Sq4(4, 12, 4)) >>),
    Poly(CombRing(5), <<>>), Poly(Sq4(0, 0, 40), << Rev(Sq4(4, 4, 8)), Rev(Sq4(20, 4, 12)), Rev(Sq4(4, 20, 12)), Rev(Sq4(24, 24, 8)) >>),
    LS(ZigZag(10)), LS(Straight(10, 20)), LS(Straight(10, 4)), LS(StairRing4(6)),
    MLS([i \in 1 .. 12 |-> << <<4 * ((i - 1) % 4) * 2, 8 * ((i - 1) \div 4) + 4>>, <<4 * ((i - 1) % 4) * 2 + 4, 8 * ((i - 1) \div 4) + 8>> >>]),
    MPoly([i \in 1 .. 9 |-> [ext |-> Sq4(12 * ((i - 1) % 3) + 2 * 2, 12 * ((i - 1) \div 3) + 4, 4), holes |-> <<>>]]),
    MPt([i \in 1 .. 30 |-> <<2 * ((i * 7) % 21), 2 * ((i * 11) % 19)>>]),
    GC(<< Poly(Sq4(0, 0, 8), <<>>), Poly(Sq4(12, 12, 12), << Rev(Sq4(16, 16, 4)) >>), Poly(Sq4(28, 0, 12), <<>>) >>),
    Pt(<<20, 20>>), Pt(<<4, 36>>), Pt(<<40, 0>>), Pt(<<6, 6>>), Ln(<<0, 40>>, <<40, 0>>), Ln(<<0, 20>>, <<40, 20>>),
    Rc(<<4, 4>>, <<36, 36>>), Rc(<<16, 0>>, <<24, 40>>), Tri(<<0, 0>>, <<40, 0>>, <<0, 40>>), Tri(<<40, 40>>, <<40, 0>>, <<0, 40>>),
    \* a rectangle and the lines that run along one of its sides and stick out at both ends, or at one end, or stop short
    Rc(<<8, 8>>, <<16, 24>>), Ln(<<8, 4>>, <<8, 28>>), Ln(<<4, 24>>, <<20, 24>>), Ln(<<16, 12>>, <<16, 32>>), Ln(<<12, 8>>, <<12, 4>>),
    LS(<< <<8, 28>>, <<8, 4>>, <<12, 4>> >>), Tri(<<8, 8>>, <<16, 8>>, <<8, 16>>)
>>)

\* TLC cannot order records of different shapes inside one set: go through sequences per type
Cat == TLCEval(
        IF Profile = "big" THEN BigCat ELSE
        IF Profile = "base"
        THEN SetToSeq(Points) \o SetToSeq(Lines) \o SetToSeq(LineStrings) \o SetToSeq(Polygons)
             \o SetToSeq(RectsOK) \o SetToSeq(Triangles) \o SetToSeq(MultiPoints)
             \o SetToSeq(MultiLineStrings) \o SetToSeq(MultiPolygons) \o SetToSeq(GCs)
        ELSE SetToSeq(Sample(Holed1, 3, 1)) \o SetToSeq(Sample(Holed2, 7, 2))
             \o SetToSeq(Sample(Points, 1, 0)) \o SetToSeq(Sample(Lines, 3, 0))
             \o SetToSeq(Sample({LS(q) : q \in CanonOpen(P2)}, 17, 0))
             \o SetToSeq(Sample({Poly(r, <<>>) : r \in R3 \cup R4}, 9, 0)) \o SetToSeq(Sample(RectsOK, 2, 0))
             \o SetToSeq(Sample({Tri(r[1], r[2], r[3]) : r \in R3}, 7, 0)))
NCat == Len(Cat)
CatPos == TLCEval([i \in 1 .. NCat |-> TLCEval(PosMap(Cat[i], F))])

VARIABLES ia, ib
vars == <<ia, ib>>

ASide == {i \in 1 .. NCat : i % Stride = Offset % Stride}

Init == /\ ia \in (IF Emit \in {"relate", "distance"} THEN ASide ELSE 1 .. NCat)
        /\ ib = 0

W == 4 * N + 3
RelateCase(i, j) ==
    LET im == IMofMaps(CatPos[i], CatPos[j], F) IN
    [op |-> "relate", id |-> <<i, j>>, a |-> Cat[i], b |-> Cat[j], im |-> im,
     pred |-> [i |-> ImIntersects(im), c |-> ImContains(im), w |-> ImWithin(im)],
     \* the other named predicates, by their OGC definitions with the true dimensions of the operands
     named |-> [disjoint |-> ~ImIntersects(im), covers |-> ImCovers(im), coveredby |-> ImCoveredBy(im), equals |-> ImEqualTopo(im),
                touches |-> ImTouches(im), crosses |-> ImCrosses(im, Dim(Cat[i]), Dim(Cat[j])),
                overlaps |-> ImOverlaps(im, Dim(Cat[i]), Dim(Cat[j]))],
     \* operands whose segments never cross properly: all arrangement nodes are input vertices, so the
     \* answer needs no computed intersection point and must survive even very ill-conditioned exact maps
     noproper |-> NoProperCrossing(Cat[i], Cat[j])]
CoordPosCase(i) ==
    [op |-> "coordpos", id |-> <<i>>, g |-> Cat[i], lo |-> -1, hi |-> 4 * N + 1,
     pos |-> [k \in 1 .. W * W |-> CatPos[i][<<((k - 1) \div W) - 1, ((k - 1) % W) - 1>>]]]

\* C07 on the same catalogue: exact squared Euclidean distance = 0 iff the operands intersect (by the matrix), else the minimum
\* over pairs of segments (points are degenerate segments); pairs with an empty operand are not emitted
DistanceCase(i, j) ==
    LET im == IMofMaps(CatPos[i], CatPos[j], F) IN
    [op |-> "distance", id |-> <<i, j>>, a |-> Cat[i], b |-> Cat[j],
     d2 |-> IF ImIntersects(im) THEN <<0, 1>>
            ELSE RatNorm(SetRatMin({SegSegD2(s[1], s[2], t[1], t[2]) : s \in Segs(Cat[i]), t \in Segs(Cat[j])}))]
EmitRelate == Emit \in {"relate", "both", "relatepool"}
EmitCoord  == Emit \in {"coordpos", "both"}
EmitPool   == Emit \in {"pool", "relatepool"}
\* ib > 0: pair (ia, ib) emitted; ib = -1: position map of Cat[ia] emitted; ib = -2: Cat[ia] listed
Next == /\ ib = 0
        /\ ia' = ia
        /\ \/ /\ EmitRelate /\ ia \in ASide
              /\ ib' \in 1 .. NCat
              /\ PrintT(<<"CASE", ToJson(RelateCase(ia, ib'))>>)
           \/ /\ Emit = "distance" /\ ia \in ASide
              /\ ib' \in {j \in 1 .. NCat : Segs(Cat[ia]) # {} /\ Segs(Cat[j]) # {}}
              /\ PrintT(<<"CASE", ToJson(DistanceCase(ia, ib'))>>)
           \/ /\ EmitCoord
              /\ ib' = -1
              /\ PrintT(<<"CASE", ToJson(CoordPosCase(ia))>>)
           \/ /\ EmitPool
              /\ ib' = -2
              /\ PrintT(<<"POOL", ToJson([i |-> ia, g |-> Cat[ia]])>>)

Spec == Init /\ [][Next]_vars

\* Implementation-shaped model of relate's fast path (relate_operation.rs / IntersectionMatrix::compute_disjoint): when the
\* bounding boxes of the operands do not meet, the matrix is filled from the dimensions alone - interior and boundary of
\* each operand against the exterior of the other.  ShortcutRefines: on every generated pair with disjoint boxes that matrix
\* IS the DE-9IM matrix (this is where BDim's mod-2 rule matters: defect FX-04 was found here).
BBoxOf(g) == LET VV == {s[1] : s \in Segs(g)} \cup {s[2] : s \in Segs(g)} IN
             <<SetMin({v[1] : v \in VV}), SetMin({v[2] : v \in VV}), SetMax({v[1] : v \in VV}), SetMax({v[2] : v \in VV})>>
BoxesDisjoint(a, b) == LET p == BBoxOf(a)  q == BBoxOf(b) IN p[3] < q[1] \/ q[3] < p[1] \/ p[4] < q[2] \/ q[4] < p[2]
ShortcutMatrix(a, b) == "FF" \o DimChar(Dim(a)) \o "FF" \o DimChar(BDim(a)) \o DimChar(Dim(b)) \o DimChar(BDim(b)) \o "2"
ShortcutRefines == (ib > 0 /\ BoxesDisjoint(Cat[ia], Cat[ib])) => ShortcutMatrix(Cat[ia], Cat[ib]) = IMofMaps(CatPos[ia], CatPos[ib], F)

\* The catalogue lives in the universe of the witness-lattice theorem: vertices of curves and areas on multiples of 4,
\* every segment horizontal, vertical or diagonal; points on the even lattice.
RECURSIVE InUniverse(_)
InUniverse(g) ==
    CASE g.t = "Point" -> g.c \in EPts(N)
      [] g.t = "MultiPoint" -> \A i \in DOMAIN g.cs : g.cs[i] \in EPts(N)
      [] g.t = "GeometryCollection" -> \A i \in DOMAIN g.gs : InUniverse(g.gs[i])
      [] OTHER -> \A sg \in Segs(g) : sg[1] \in VPts(N) /\ sg[2] \in VPts(N) /\ (sg[1] = sg[2] \/ Octi(sg[1], sg[2]))
UniverseOK == InUniverse(Cat[ia])

\* Lemmas of the oracle itself, checked on every generated state: EE is always 2, and the
\* matrix of (b, a) is the transpose of the matrix of (a, b).
OracleSane == ib > 0 =>
    LET im == IMofMaps(CatPos[ia], CatPos[ib], F) IN
    /\ Ch(im, 9) = "2"
    /\ ImTranspose(im) = IMofMaps(CatPos[ib], CatPos[ia], F)
    \* lemma behind IntersectionMatrix::is_crosses / is_overlaps, which read the operands' dimensions off the matrix: the
    \* largest entry of the interior row / column IS the dimension of the operand
    /\ ImRowDim(im) = Dim(Cat[ia]) /\ ImColDim(im) = Dim(Cat[ib])
    \* symmetric predicates are symmetric, covers / coveredby and contains / within are converses
    /\ LET imt == ImTranspose(im)  da == Dim(Cat[ia])  db == Dim(Cat[ib]) IN
         /\ ImTouches(im) = ImTouches(imt) /\ ImCrosses(im, da, db) = ImCrosses(imt, db, da) /\ ImOverlaps(im, da, db) = ImOverlaps(imt, db, da)
         /\ ImCovers(im) = ImCoveredBy(imt) /\ ImContains(im) = ImWithin(imt) /\ ImEqualTopo(im) = ImEqualTopo(imt)
=============================================================================

---------------------------- MODULE Gen_Segments ----------------------------
(***************************************************************************)
(* C11 - line_intersection classifies and locates segment crossings.       *)
(* Abstract relation of two closed segments [a,b], [c,d] on the lattice:   *)
(*   "none"       no common point                                          *)
(*   "collinear"  more than one common point; the common sub-segment <<lo, *)
(*                hi>> (its ends are input endpoints)                      *)
(*   "point"      exactly one common point: proper (interior to both) with *)
(*                the exact rational crossing, or improper = an endpoint   *)
(* One TLC state per ordered pair of segments of G(K) (zero-length ones    *)
(* included).                                                              *)
(***************************************************************************)
EXTENDS Lattice, TLC, Json

CONSTANTS K, Stride, Offset
Grid == (0 .. K) \X (0 .. K)
GridSeq == [i \in 1 .. (K + 1) * (K + 1) |-> <<(i - 1) \div (K + 1), (i - 1) % (K + 1)>>]

\* common points of collinear overlapping segments: order the four endpoints along the line
Along(a, b, p) == Dot(a, b, p)                 \* monotone parameter along a -> b (a # b)
Relation(a, b, c, d) ==
    IF ~SegSegMeet(a, b, c, d) THEN [kind |-> "none"]
    ELSE IF a = b THEN [kind |-> "point", proper |-> FALSE, at |-> a]
    ELSE IF c = d THEN [kind |-> "point", proper |-> FALSE, at |-> c]
    ELSE IF Cross(a, b, c) = 0 /\ Cross(a, b, d) = 0 THEN
         \* collinear and meeting: overlap = [max of the lower ends, min of the upper ends] along a -> b
         LET ends == {a, b, c, d}
             clo == IF Along(a, b, c) <= Along(a, b, d) THEN c ELSE d
             chi == IF Along(a, b, c) <= Along(a, b, d) THEN d ELSE c
             lo  == IF Along(a, b, clo) >= 0 THEN clo ELSE a
             hi  == IF Along(a, b, chi) <= Along(a, b, b) THEN chi ELSE b
         IN IF lo = hi THEN [kind |-> "point", proper |-> FALSE, at |-> lo]
            ELSE [kind |-> "collinear", lo |-> lo, hi |-> hi]
    ELSE IF SegSegProper(a, b, c, d) THEN
         \* a + t (b - a), t = Cross(c - a, d - c) / Cross(b - a, d - c)
         LET den == (b[1] - a[1]) * (d[2] - c[2]) - (b[2] - a[2]) * (d[1] - c[1])
             tn  == (c[1] - a[1]) * (d[2] - c[2]) - (c[2] - a[2]) * (d[1] - c[1])
             s   == Sign(den)
         IN [kind |-> "point", proper |-> TRUE,
             x |-> <<s * (a[1] * den + tn * (b[1] - a[1])), s * den>>,
             y |-> <<s * (a[2] * den + tn * (b[2] - a[2])), s * den>>]
    ELSE \* a single endpoint lies on the other segment
         [kind |-> "point", proper |-> FALSE,
          at |-> IF OnSeg(a, c, d) THEN a ELSE IF OnSeg(b, c, d) THEN b ELSE IF OnSeg(c, a, b) THEN c ELSE d]

-----------------------------------------------------------------------------
\* Implementation-shaped model: the decision tree of line_intersection (geo/src/algorithm/line_intersection.rs), one
\* named branch per return site.  p = [a,b], q = [c,d].  Hook H5 reports the branch the code took; TreeRefines (checked by
\* TLC on every state) says the tree computes the abstract Relation, so a case exercises the code's branch AND its result.
BoxesMeet(a, b, c, d) == /\ Max2(Min2(a[1], b[1]), Min2(c[1], d[1])) <= Min2(Max2(a[1], b[1]), Max2(c[1], d[1]))
                         /\ Max2(Min2(a[2], b[2]), Min2(c[2], d[2])) <= Min2(Max2(a[2], b[2]), Max2(c[2], d[2]))
Improper(x) == [kind |-> "point", proper |-> FALSE, at |-> x]
CollinearOf(x, y) == IF x = y THEN Improper(x) ELSE [kind |-> "collinear", lo |-> x, hi |-> y]
CollinearArms(a, b, c, d) ==
    LET qs == InBox(c, a, b)  qe == InBox(d, a, b)  ps == InBox(a, c, d)  pe == InBox(b, c, d) IN
    IF qs /\ qe THEN [branch |-> "col1", res |-> CollinearOf(c, d)]
    ELSE IF ps /\ pe THEN [branch |-> "col2", res |-> CollinearOf(a, b)]
    ELSE IF qs /\ ~qe /\ ps /\ ~pe /\ c = a THEN [branch |-> "col3", res |-> Improper(c)]
    ELSE IF qs /\ ps THEN [branch |-> "col4", res |-> CollinearOf(c, a)]
    ELSE IF qs /\ ~qe /\ ~ps /\ pe /\ c = b THEN [branch |-> "col5", res |-> Improper(c)]
    ELSE IF qs /\ pe THEN [branch |-> "col6", res |-> CollinearOf(c, b)]
    ELSE IF ~qs /\ qe /\ ps /\ ~pe /\ d = a THEN [branch |-> "col7", res |-> Improper(d)]
    ELSE IF qe /\ ps THEN [branch |-> "col8", res |-> CollinearOf(d, a)]
    ELSE IF ~qs /\ qe /\ ~ps /\ pe /\ d = b THEN [branch |-> "col9", res |-> Improper(d)]
    ELSE IF qe /\ pe THEN [branch |-> "col10", res |-> CollinearOf(d, b)]
    ELSE [branch |-> "col_none", res |-> [kind |-> "none"]]
Decide(a, b, c, d) ==
    LET o1 == Orient(a, b, c)  o2 == Orient(a, b, d)  o3 == Orient(c, d, a)  o4 == Orient(c, d, b) IN
    IF ~BoxesMeet(a, b, c, d) THEN [branch |-> "env_disjoint", res |-> [kind |-> "none"]]
    ELSE IF o1 = o2 /\ o1 # 0 THEN [branch |-> "q_one_side", res |-> [kind |-> "none"]]
    ELSE IF o3 = o4 /\ o3 # 0 THEN [branch |-> "p_one_side", res |-> [kind |-> "none"]]
    ELSE IF o1 = 0 /\ o2 = 0 /\ o3 = 0 /\ o4 = 0 THEN CollinearArms(a, b, c, d)
    ELSE IF o1 = 0 \/ o2 = 0 \/ o3 = 0 \/ o4 = 0 THEN
         IF a = c \/ a = d THEN [branch |-> "ep_shared_pstart", res |-> Improper(a)]
         ELSE IF b = c \/ b = d THEN [branch |-> "ep_shared_pend", res |-> Improper(b)]
         ELSE IF o1 = 0 THEN [branch |-> "ep_qstart", res |-> Improper(c)]
         ELSE IF o2 = 0 THEN [branch |-> "ep_qend", res |-> Improper(d)]
         ELSE IF o3 = 0 THEN [branch |-> "ep_pstart", res |-> Improper(a)]
         ELSE [branch |-> "ep_pend", res |-> Improper(b)]
    ELSE [branch |-> "proper", res |-> [kind |-> "point", proper |-> TRUE]]
SameResult(r, t) ==
    /\ r.kind = t.kind
    /\ r.kind = "collinear" => {r.lo, r.hi} = {t.lo, t.hi}
    /\ r.kind = "point" => (r.proper = t.proper /\ (~r.proper => r.at = t.at))

VARIABLES ia, ib, ic, id
vars == <<ia, ib, ic, id>>
NG == (K + 1) * (K + 1)
Init == /\ ia \in {i \in 1 .. NG : i % Stride = Offset % Stride} /\ ib \in 1 .. NG /\ ic = 0 /\ id = 0
Next == /\ ic = 0 /\ ia' = ia /\ ib' = ib /\ ic' \in 1 .. NG /\ id' \in 1 .. NG
        /\ PrintT(<<"CASE", ToJson([op |-> "segseg", a |-> GridSeq[ia], b |-> GridSeq[ib], c |-> GridSeq[ic'], d |-> GridSeq[id'],
                                   rel |-> Relation(GridSeq[ia], GridSeq[ib], GridSeq[ic'], GridSeq[id']),
                                   branch |-> Decide(GridSeq[ia], GridSeq[ib], GridSeq[ic'], GridSeq[id']).branch,
                                   o1 |-> Orient(GridSeq[ia], GridSeq[ib], GridSeq[ic']), o2 |-> Orient(GridSeq[ia], GridSeq[ib], GridSeq[id']),
                                   \* sign of the dot product (b - a) . (d - c) and the squared distance |a - c|^2 (kernel helpers)
                                   dots |-> Sign((GridSeq[ib][1] - GridSeq[ia][1]) * (GridSeq[id'][1] - GridSeq[ic'][1])
                                                 + (GridSeq[ib][2] - GridSeq[ia][2]) * (GridSeq[id'][2] - GridSeq[ic'][2])),
                                   d2ac |-> D2(GridSeq[ia], GridSeq[ic'])])>>)
Spec == Init /\ [][Next]_vars

\* lemmas: the classification does not depend on the order of the two segments or on their
\* direction; "none" exactly when they do not meet
RelLaws == ic > 0 =>
    LET a == GridSeq[ia] b == GridSeq[ib] c == GridSeq[ic] d == GridSeq[id]
        r == Relation(a, b, c, d) r2 == Relation(c, d, a, b) r3 == Relation(b, a, d, c) IN
    /\ r.kind = r2.kind /\ r.kind = r3.kind
    /\ r.kind = "collinear" => ({r.lo, r.hi} = {r2.lo, r2.hi} /\ {r.lo, r.hi} = {r3.lo, r3.hi})
    /\ (r.kind = "point" /\ ~r.proper) => (r.at = r2.at /\ r.at = r3.at)
    /\ (r.kind = "point" /\ r.proper) => (RatEq(r.x, r2.x) /\ RatEq(r.y, r2.y))
    /\ (r.kind = "none") = ~SegSegMeet(a, b, c, d)
\* the decision tree refines the abstract relation, in both argument orders
TreeRefines == ic > 0 =>
    LET a == GridSeq[ia] b == GridSeq[ib] c == GridSeq[ic] d == GridSeq[id] IN
    /\ SameResult(Relation(a, b, c, d), Decide(a, b, c, d).res)
    /\ SameResult(Relation(a, b, c, d), Decide(c, d, a, b).res)
=============================================================================

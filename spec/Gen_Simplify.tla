---------------------------- MODULE Gen_Simplify ----------------------------
(***************************************************************************)
(* C09 - simplification keeps a vertex subsequence within the tolerance.   *)
(* Implementation-shaped, NONDETERMINISTIC models of the two algorithms in *)
(* exact rational arithmetic; the set of their possible results is the set *)
(* of admissible outputs of the floating-point code:                       *)
(*  RDP   recursion of compute_rdp over an index interval with the global  *)
(*        simplified_len guard threaded through; nondeterministic where    *)
(*        floats cannot be trusted: which of several equally far vertices  *)
(*        is "the farthest", and split-or-cull when dmax = eps exactly.    *)
(*  VW    repeatedly remove ANY interior vertex whose current triangle is  *)
(*        minimal and of area <= eps (the heap with stale entries refines  *)
(*        this); terminal states = admissible outputs.                     *)
(* PostOK (checked by TLC on every state) proves model => property: every  *)
(* admissible result is a subsequence keeping both ends, every dropped     *)
(* vertex is within eps of the retained segment replacing it (RDP), every  *)
(* remaining interior vertex spans a triangle of area > eps (VW).          *)
(* One TLC state per vertex sequence over the (K+1)^2 lattice (repeats,    *)
(* collinear runs, back-tracking, closed rings all occur).                 *)
(***************************************************************************)
EXTENDS Lattice, TLC, Json

CONSTANTS K, MaxN, Stride, Offset
NG == (K + 1) * (K + 1)
GridSeq == [i \in 1 .. NG |-> <<(i - 1) \div (K + 1), (i - 1) % (K + 1)>>]

\* tolerances eps as rationals <<num, den>>
EpsList == << <<1, 4>>, <<1, 2>>, <<1, 1>>, <<3, 2>>, <<2, 1>>, <<100, 1>> >>
Sq(q) == <<q[1] * q[1], q[2] * q[2]>>

Iota(i, j) == [k \in 1 .. (j - i + 1) |-> i + k - 1]
\* ---- RDP over the index interval i..j; returns a set of <<kept indices, simplified_len>>
RECURSIVE Rdp(_, _, _, _, _, _)
Rdp(cs, i, j, len, e2, minPts) ==
    IF j = i + 1 THEN {<<<<i, j>>, len>>}
    ELSE
      LET D(k) == PtSegD2(cs[k], cs[i], cs[j])
          inner == (i + 1) .. (j - 1)
          dmax == SetRatMin({<<-D(k)[1], D(k)[2]>> : k \in inner})       \* max via negation
          dm   == <<-dmax[1], dmax[2]>>
          far  == {k \in inner : RatEq(D(k), dm)}
          culled == LET newlen == len - (j - i - 1) IN
                    IF newlen < minPts THEN {<<Iota(i, j), len>>} ELSE {<<<<i, j>>, newlen>>}
          split == UNION { UNION { { <<SubSeq(l[1], 1, Len(l[1]) - 1) \o r[1], r[2]>> : r \in Rdp(cs, k, j, l[2], e2, minPts) }
                                   : l \in Rdp(cs, i, k, len, e2, minPts) } : k \in far }
      IN (IF RatLeq(dm, e2) THEN culled ELSE {}) \cup (IF RatLeq(e2, dm) THEN split ELSE {})
AdmRdp(cs, eps, minPts) ==
    IF Len(cs) <= 1 THEN {Iota(1, Len(cs))}
    ELSE {r[1] : r \in Rdp(cs, 1, Len(cs), Len(cs), Sq(eps), minPts)}

\* ---- VW on the set of alive indices
Seq2(S) == LET n == Cardinality(S) IN CHOOSE f \in [1 .. n -> S] : \A a \in 1 .. n, b \in 1 .. n : a < b => f[a] < f[b]
A2(cs, S, v) == LET p == SetMax({u \in S : u < v})  q == SetMin({u \in S : u > v}) IN Abs(Cross(cs[p], cs[v], cs[q]))
RECURSIVE Vw(_, _, _)
Vw(cs, S, eps) ==
    LET inner == S \ {1, Len(cs)}
    IN IF inner = {} THEN {S}
       ELSE LET m == SetMin({A2(cs, S, v) : v \in inner}) IN
            IF m * eps[2] > 2 * eps[1] THEN {S}                       \* area = m / 2 > eps
            ELSE UNION {Vw(cs, S \ {v}, eps) : v \in {v \in inner : A2(cs, S, v) = m}}
AdmVw(cs, eps) == IF Len(cs) < 3 THEN {Iota(1, Len(cs))} ELSE {Seq2(S) : S \in Vw(cs, 1 .. Len(cs), eps)}

VARIABLES sel
vars == <<sel>>
Pts(s) == [i \in DOMAIN s |-> GridSeq[s[i]]]
Init == sel \in {<<i>> : i \in {j \in 1 .. NG : j % Stride = Offset % Stride}}
IsRing(cs) == Len(cs) >= 4 /\ cs[1] = cs[Len(cs)]
Case(cs, e) == [op |-> "simplify", cs |-> cs, eps |-> EpsList[e],
                rdp |-> AdmRdp(cs, EpsList[e], 2), vw |-> AdmVw(cs, EpsList[e]),
                ring |-> IsRing(cs), rdp_ring |-> IF IsRing(cs) THEN AdmRdp(cs, EpsList[e], 4) ELSE {}]
Next == /\ Len(sel) < MaxN
        /\ \E j \in 1 .. NG : sel' = Append(sel, j)
        /\ \A e \in DOMAIN EpsList : PrintT(<<"CASE", ToJson(Case(Pts(sel'), e))>>)
Spec == Init /\ [][Next]_vars

\* ---- model => property
Subseq(r, n) == /\ \A a \in 1 .. Len(r) - 1 : r[a] < r[a + 1]
                /\ (n >= 1 => (r[1] = 1 /\ r[Len(r)] = n))
PostOK ==
    LET cs == Pts(sel) n == Len(cs) IN
    \A e \in DOMAIN EpsList :
      /\ \A r \in AdmRdp(cs, EpsList[e], 2) :
            /\ Subseq(r, n)
            /\ \A a \in 1 .. Len(r) - 1 : \A k \in (r[a] + 1) .. (r[a + 1] - 1) :
                  RatLeq(PtSegD2(cs[k], cs[r[a]], cs[r[a + 1]]), Sq(EpsList[e]))
      /\ \A r \in AdmVw(cs, EpsList[e]) :
            /\ Subseq(r, n)
            /\ \A a \in 2 .. Len(r) - 1 : Abs(Cross(cs[r[a - 1]], cs[r[a]], cs[r[a + 1]])) * EpsList[e][2] > 2 * EpsList[e][1]
      /\ IsRing(cs) => \A r \in AdmRdp(cs, EpsList[e], 4) : Subseq(r, n) /\ Len(r) >= 4
=============================================================================

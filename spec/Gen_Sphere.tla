----------------------------- MODULE Gen_Sphere -----------------------------
(***************************************************************************)
(* C16, part A - axis journeys with exactly known results, replayed into   *)
(* Haversine / HaversineMeasure::new(radius) / Rhumb / Geodesic.           *)
(*                                                                         *)
(* The machine: pick a family, a start a on the grid and an axis heading;  *)
(* every step advances the position by one grid arc g (Sphere!GcStep /     *)
(* RhStep).  Every reachable state IS one journey "from a along brg for    *)
(* the arc n g" and is emitted as one case with                            *)
(*   dest      the arrival point (all admissible spellings of its          *)
(*             longitude; `free` at a pole),                               *)
(*   brgs      the same input bearing +-360, +-720; neg: the same journey  *)
(*             as a NEGATIVE arc along the opposite bearing,               *)
(*   dab       the shortest arc between a and dest (great circle: min(m,   *)
(*             360 - m); rhumb: the shorter way round the parallel),       *)
(*   bab, bba  bearing(a, dest), bearing(dest, a) where unique (not for    *)
(*             identical / antipodal ends, not from a pole),               *)
(*   quarters  the points at ratios 1/4, 2/4, 3/4 between a and dest,      *)
(*   geod_eq / geod_mer  whether the journey is also an exactly known      *)
(*             (equator, arc <= 170 deg) or a relational (meridian, arc    *)
(*             < 180 deg, with an intermediate point `via`) geodesic case, *)
(*   antipodal marks great-circle journeys ending at the antipode of a,    *)
(*   long_west marks westward rhumb journeys whose unwrapped longitude     *)
(*             falls below -540 degrees.                                   *)
(* Arcs are in quarter degrees; the harness multiplies by pi R / 720.      *)
(* JourneyLaws (invariant) holds the machine to the closed form and to the *)
(* model-level versions of the property: returning along the reversed      *)
(* heading arrives at a, the shortest arc is at most the arc travelled and *)
(* at most a half turn, bearings are canonical.                            *)
(***************************************************************************)
EXTENDS Sphere, TLC, Json

CONSTANTS G,        \* grid of latitudes, equator / parallel longitudes and step arc, in degrees
          GL,       \* grid of longitudes for the meridian families, in degrees
          NMax      \* longest journey, in steps

g == G * QD
Grid(lo, hi, d) == {(lo + (k * d)) * QD : k \in 0 .. ((hi - lo) \div d)}
LonsFine == Grid(-180, 180, G)            \* both spellings of the antimeridian are inputs
LonsCoarse == Grid(-180, 180, GL)
Lats == Grid(-90 + G, 90 - G, G)          \* journeys never START at a pole

Fams == {"gc_equator", "gc_meridian", "rh_parallel", "rh_meridian"}
Starts(f) ==
    CASE f = "gc_equator"  -> {<<x, 0>> : x \in LonsFine}
      [] f = "gc_meridian" -> {<<x, y>> : x \in LonsCoarse, y \in Lats}
      [] f = "rh_parallel" -> {<<x, y>> : x \in LonsFine, y \in {-60 * QD, 0, 60 * QD}}
      [] f = "rh_meridian" -> {<<x, y>> : x \in LonsCoarse, y \in Lats}
Headings(f) == IF f \in {"gc_equator", "rh_parallel"} THEN {90, 270} ELSE {0, 180}
IsGc(f) == f \in {"gc_equator", "gc_meridian"}

VARIABLES fam, a, brg, n, pos
vars == <<fam, a, brg, n, pos>>

Init == /\ fam \in Fams
        /\ a \in Starts(fam)
        /\ brg \in Headings(fam)
        /\ n = 0
        /\ pos = [lon |-> WrapLon(a[1]), lat |-> a[2], hdg |-> brg]
Next == /\ n < NMax
        /\ IF IsGc(fam) THEN pos' = GcStep(pos, g) ELSE (RhStepOK(pos, g) /\ pos' = RhStep(pos, g))
        /\ n' = n + 1
        /\ UNCHANGED <<fam, a, brg>>
Spec == Init /\ [][Next]_vars

\* ------------------------------------------------------------------ emission
PointOf(p) == [lat |-> p.lat, lons |-> LonReps(p.lon), free |-> (Abs(p.lat) = R)]
Travel(f, s0, b, s) == IF IsGc(f) THEN GcTravel(s0, b, s) ELSE RhTravel(s0, b, s)

Case ==
    LET s == n * g
        dab == IF IsGc(fam) THEN GcDist(s) ELSE RhDist(a, brg, s)
        bab == IF IsGc(fam) THEN GcBearingAB(brg, s) ELSE RhBearingAB(a, brg, s)
        bba == IF IsGc(fam) THEN GcBearingBA(pos, s)
               ELSE IF bab = <<>> \/ Abs(pos.lat) = R THEN <<>> ELSE <<Opp(bab[1])>>
        quarters == IF n = 0 THEN [k \in 1 .. 3 |-> PointOf(pos)]
                    ELSE IF bab = <<>> THEN <<>>
                    ELSE [k \in 1 .. 3 |-> PointOf(Travel(fam, a, bab[1], (k * dab) \div 4))]
        geodmer == fam = "gc_meridian" /\ 0 < s /\ s < H
    IN [op |-> "sphere", fam |-> fam, a |-> a, brg |-> brg, n |-> n, dist |-> s,
        start |-> PointOf([lon |-> WrapLon(a[1]), lat |-> a[2], hdg |-> brg]),
        antipodal |-> (IsGc(fam) /\ Mod(s, F) = H),
        brgs |-> <<brg - 720, brg - 360, brg + 360, brg + 720>>,
        neg |-> [brg |-> Opp(brg), dist |-> -s],
        dest |-> PointOf(pos), hdg |-> pos.hdg,
        dab |-> dab, bab |-> bab, bba |-> bba, quarters |-> quarters,
        geod_eq |-> (fam = "gc_equator" /\ s <= 170 * QD),
        geod_mer |-> geodmer,
        via |-> IF geodmer THEN PointOf(GcTravel(a, brg, (n \div 2) * g)) ELSE PointOf(pos),
        long_west |-> (fam = "rh_parallel" /\ brg = 270 /\ a[1] - (s * RhFactor(a[2])) < -540 * QD)]

Emit == PrintT(<<"CASE", ToJson(Case)>>)

\* ---------------------------------------------------------------------- laws
JourneyLaws ==
    LET s == n * g
        closed == Travel(fam, a, brg, s)
        dab == IF IsGc(fam) THEN GcDist(s) ELSE RhDist(a, brg, s)
    IN /\ pos = closed                                            \* step machine = closed form
       /\ -H <= pos.lon /\ pos.lon < H /\ Abs(pos.lat) <= R       \* a valid lon/lat point
       /\ pos.hdg \in {0, 90, 180, 270} /\ NormBearing(brg + 720) = brg /\ NormBearing(brg - 720) = brg
       /\ 0 <= dab /\ dab <= s /\ dab <= H                        \* shortest arc
       /\ (dab = 0) = (s = 0 \/ (IsGc(fam) /\ Mod(s, F) = 0) \/ (fam = "rh_parallel" /\ RhDLon(a, brg, s) = 0))
       \* going back along the reversed heading for the same arc arrives at a
       /\ Abs(pos.lat) < R =>
            LET back == Travel(fam, <<pos.lon, pos.lat>>, Opp(pos.hdg), s)
            IN back.lat = a[2] /\ back.lon = WrapLon(a[1])
       \* the quarter points divide the shortest arc: travelling on from the k-th by dab/4 gives the next
       /\ LET bab == IF IsGc(fam) THEN GcBearingAB(brg, s) ELSE RhBearingAB(a, brg, s) IN
          bab # <<>> =>
            LET q == [k \in 0 .. 4 |-> Travel(fam, a, bab[1], (k * dab) \div 4)] IN
            /\ q[4].lat = pos.lat /\ (Abs(pos.lat) < R => q[4].lon = pos.lon)
            /\ \A k \in 0 .. 3 : Abs(q[k].lat) < R =>
                 LET nx == Travel(fam, <<q[k].lon, q[k].lat>>, q[k].hdg, dab \div 4)
                 IN nx.lat = q[k + 1].lat /\ (Abs(nx.lat) < R => nx.lon = q[k + 1].lon)
=============================================================================

------------------------------ MODULE Gen_Sweep ------------------------------
(***************************************************************************)
(* X01 (extension, not one of the listed properties): the Bentley-Ottmann  *)
(* sweep geo::sweep::Intersections reports exactly the intersecting pairs  *)
(* of its input segments, each pair once, with the right kind of           *)
(* intersection.  It is the engine behind interior_point's scan line       *)
(* (C12) and the monotone subdivision (C10).                               *)
(* One TLC state per set of 2..NSeg distinct lattice segments (general     *)
(* slopes, shared end points, T-junctions, collinear overlaps, several     *)
(* segments through one point, vertical segments); the expected set of     *)
(* pairs comes from the exact predicate Lattice!SegSegMeet.                *)
(***************************************************************************)
EXTENDS Lattice, TLC, Json, SequencesExt

CONSTANTS K, NSeg, Stride, Offset

Grid == (0 .. K) \X (0 .. K)
AllSegs == {s \in Grid \X Grid : LexLess(s[1], s[2])}
SegSeq == SetToSeq(AllSegs)
NS == Cardinality(AllSegs)

\* more than one common point: collinear with overlapping extent
Overlap(s, t) == /\ Cross(s[1], s[2], t[1]) = 0 /\ Cross(s[1], s[2], t[2]) = 0
                 /\ LET lo == IF LexLess(s[1], t[1]) THEN t[1] ELSE s[1]
                        hi == IF LexLess(s[2], t[2]) THEN s[2] ELSE t[2]
                    IN LexLess(lo, hi)
Kind(s, t) == IF ~SegSegMeet(s[1], s[2], t[1], t[2]) THEN "none"
              ELSE IF Overlap(s, t) THEN "overlap" ELSE "point"

VARIABLES sel
vars == <<sel>>
Init == sel \in {<<i>> : i \in {j \in 1 .. NS : j % Stride = Offset % Stride}}
Case(s) == [op |-> "sweep", segs |-> [i \in DOMAIN s |-> SegSeq[s[i]]],
            pairs |-> {p \in {<<i, j, Kind(SegSeq[s[i]], SegSeq[s[j]])>> : i \in DOMAIN s, j \in DOMAIN s} : p[1] < p[2] /\ p[3] # "none"}]
Next == /\ Len(sel) < NSeg
        /\ \E j \in 1 .. NS : j \notin {sel[i] : i \in DOMAIN sel} /\ (Len(sel) = 1 \/ j > sel[Len(sel)])
                              /\ sel' = Append(sel, j)
        /\ PrintT(<<"CASE", ToJson(Case(sel'))>>)
Spec == Init /\ [][Next]_vars

\* lemma: the relation is symmetric
KindSym == \A i, j \in DOMAIN sel : Kind(SegSeq[sel[i]], SegSeq[sel[j]]) = Kind(SegSeq[sel[j]], SegSeq[sel[i]])
=============================================================================

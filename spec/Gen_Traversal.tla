---------------------------- MODULE Gen_Traversal ----------------------------
(***************************************************************************)
(* C19 - coordinate traversal, mapping and bounding boxes are consistent.  *)
(* Structural recursion over geometry trees:                               *)
(*   Coords(g)     the traversal order of coords_iter                      *)
(*   ExtCoords(g)  the sub-sequence belonging to exterior parts            *)
(*   Lines(g)      consecutive pairs of every linear component             *)
(*   Map(f, g)     same shape, f applied to every coordinate               *)
(*   BBox(g)       component-wise min / max of Coords(g), none if empty    *)
(* TravLaws (checked by TLC on every state): Coords(Map(f,g)) = f o Coords *)
(* (g), ExtCoords is a sub-sequence of Coords, BBox(Map(f,g)) for monotone *)
(* f is the image of BBox(g), collection = concatenation of members.       *)
(* Trees: 1-3 members from a pool of all 10 types with empty members,      *)
(* several holes and nested collections; coordinate functions from a small *)
(* family; fallible functions failing at the k-th visited coordinate.      *)
(***************************************************************************)
EXTENDS PointSet, TLC, Json

CONSTANTS Stride, Offset

RECURSIVE Flat(_, _)
Flat(ss, i) == IF i > Len(ss) THEN <<>> ELSE ss[i] \o Flat(ss, i + 1)
RECURSIVE MapSeq(_, _, _)
MapSeq(Op(_), s, i) == IF i > Len(s) THEN <<>> ELSE <<Op(s[i])>> \o MapSeq(Op, s, i + 1)

\* Rect: counter-clockwise from (max.x, min.y), as documented for coords_iter / to_lines
RectCoords(a, b) == LET r == RectRing(a, b) IN <<r[2], r[3], r[4], r[1]>>
PolyCoords(p) == p.ext \o Flat(p.holes, 1)
PairsOf(cs) == [i \in 1 .. (IF Len(cs) = 0 THEN 0 ELSE Len(cs) - 1) |-> <<cs[i], cs[i + 1]>>]
PolyLines(p) == PairsOf(p.ext) \o Flat([i \in DOMAIN p.holes |-> PairsOf(p.holes[i])], 1)

RECURSIVE Coords(_), ExtCoords(_)
Coords(g) ==
    CASE g.t = "Point" -> <<g.c>>
      [] g.t = "MultiPoint" -> g.cs
      [] g.t = "Line" -> <<g.a, g.b>>
      [] g.t = "LineString" -> g.cs
      [] g.t = "MultiLineString" -> Flat(g.ls, 1)
      [] g.t = "Polygon" -> PolyCoords(g)
      [] g.t = "MultiPolygon" -> Flat([i \in DOMAIN g.ps |-> PolyCoords(g.ps[i])], 1)
      [] g.t = "Rect" -> RectCoords(g.a, g.b)
      [] g.t = "Triangle" -> <<g.a, g.b, g.c>>
      [] g.t = "GeometryCollection" -> Flat([i \in DOMAIN g.gs |-> Coords(g.gs[i])], 1)
ExtCoords(g) ==
    CASE g.t = "Polygon" -> g.ext
      [] g.t = "MultiPolygon" -> Flat([i \in DOMAIN g.ps |-> g.ps[i].ext], 1)
      [] g.t = "GeometryCollection" -> Flat([i \in DOMAIN g.gs |-> ExtCoords(g.gs[i])], 1)
      [] OTHER -> Coords(g)
\* LinesIter is implemented for these types only
HasLines(g) == g.t \in {"Line", "LineString", "MultiLineString", "Polygon", "MultiPolygon", "Rect", "Triangle"}
Lines(g) ==
    CASE g.t = "Line" -> << <<g.a, g.b>> >>
      [] g.t = "LineString" -> PairsOf(g.cs)
      [] g.t = "MultiLineString" -> Flat([i \in DOMAIN g.ls |-> PairsOf(g.ls[i])], 1)
      [] g.t = "Polygon" -> PolyLines(g)
      [] g.t = "MultiPolygon" -> Flat([i \in DOMAIN g.ps |-> PolyLines(g.ps[i])], 1)
      [] g.t = "Rect" -> LET c == RectCoords(g.a, g.b) IN PairsOf(c \o <<c[1]>>)
      [] g.t = "Triangle" -> PairsOf(<<g.a, g.b, g.c, g.a>>)

\* coordinate functions
Fn == {"affine", "swap", "const", "negx"}
Apply(f, c) == CASE f = "affine" -> <<c[1] + 1, 2 * c[2]>>
                 [] f = "swap" -> <<c[2], c[1]>>
                 [] f = "const" -> <<7, 7>>
                 [] f = "negx" -> <<0 - c[1], c[2]>>
MapCs(f, cs) == [i \in DOMAIN cs |-> Apply(f, cs[i])]
MapPoly(f, p) == [ext |-> MapCs(f, p.ext), holes |-> [i \in DOMAIN p.holes |-> MapCs(f, p.holes[i])]]
RECURSIVE Map(_, _)
Map(f, g) ==
    CASE g.t = "Point" -> Pt(Apply(f, g.c))
      [] g.t = "MultiPoint" -> MPt(MapCs(f, g.cs))
      [] g.t = "Line" -> Ln(Apply(f, g.a), Apply(f, g.b))
      [] g.t = "LineString" -> LS(MapCs(f, g.cs))
      [] g.t = "MultiLineString" -> MLS([i \in DOMAIN g.ls |-> MapCs(f, g.ls[i])])
      [] g.t = "Polygon" -> Poly(MapCs(f, g.ext), [i \in DOMAIN g.holes |-> MapCs(f, g.holes[i])])
      [] g.t = "MultiPolygon" -> MPoly([i \in DOMAIN g.ps |-> MapPoly(f, g.ps[i])])
      \* Rect re-normalises its corners: the image of the two defining corners, re-sorted
      [] g.t = "Rect" -> LET r == RectRing(Apply(f, RectRing(g.a, g.b)[1]), Apply(f, RectRing(g.a, g.b)[3])) IN Rc(r[1], r[3])
      [] g.t = "Triangle" -> Tri(Apply(f, g.a), Apply(f, g.b), Apply(f, g.c))
      [] g.t = "GeometryCollection" -> GC([i \in DOMAIN g.gs |-> Map(f, g.gs[i])])

BBox(cs) == IF Len(cs) = 0 THEN <<>>
            ELSE << SetMin({cs[i][1] : i \in DOMAIN cs}), SetMin({cs[i][2] : i \in DOMAIN cs}),
                    SetMax({cs[i][1] : i \in DOMAIN cs}), SetMax({cs[i][2] : i \in DOMAIN cs}) >>

\* X02 (extension): HasDimensions.  Dim is PointSet!Dim; the boundary dimension follows OGC-SFA: points have no boundary,
\* an open curve has its two end points, a closed one none, multi-curves follow the mod-2 rule, areas have curves.
IsEmptyG(g) == Len(Coords(g)) = 0
Sq(x, y, s) == << <<x, y>>, <<x + s, y>>, <<x + s, y + s>>, <<x, y + s>>, <<x, y>> >>
ZigSpike(n) == [i \in 1 .. n |-> << IF i > n - 2 THEN 2 * (n - 2) - i ELSE i,
                                   IF i = n - 1 THEN 9 ELSE IF i = n - 2 THEN -4 ELSE i % 2 >>]
Pool == <<
    Pt(<<1, 2>>), MPt(<< <<0, 0>>, <<2, 1>>, <<0, 0>> >>), MPt(<<>>),
    Ln(<<0, 3>>, <<2, 1>>), LS(<< <<0, 0>>, <<3, 0>>, <<3, 2>> >>), LS(<<>>), LS(<< <<5, 5>> >>),
    MLS(<< << <<0, 0>>, <<1, 1>> >>, <<>>, << <<2, 2>>, <<3, 1>>, <<4, 4>> >> >>), MLS(<<>>),
    MLS(<< << <<0, 0>>, <<3, 0>>, <<3, 3>> >>, << <<3, 3>>, <<0, 3>>, <<0, 0>> >> >>),      \* two open members closing a loop
    Poly(Sq(0, 0, 6), <<>>), Poly(Sq(0, 0, 6), << Sq(1, 1, 1), Sq(3, 3, 2), Sq(1, 4, 1) >>), Poly(<<>>, <<>>),
    Poly(<<>>, << Sq(1, 1, 1) >>),                  \* no shell but a hole (constructible through Polygon::new): the hole is still traversed and mapped
    MPoly(<< [ext |-> Sq(0, 0, 2), holes |-> <<>>], [ext |-> <<>>, holes |-> <<>>],
             [ext |-> Sq(4, 4, 3), holes |-> << Sq(5, 5, 1) >>] >>), MPoly(<<>>),
    Rc(<<3, 1>>, <<0, 4>>), Rc(<<2, 2>>, <<2, 2>>),
    Tri(<<0, 0>>, <<4, 1>>, <<1, 3>>), Tri(<<2, 2>>, <<5, 2>>, <<2, 6>>),     \* stored order = ccw input order
    GC(<<>>), GC(<< Pt(<<9, 9>>), GC(<< LS(<< <<8, 0>>, <<8, 1>> >>), GC(<<>>) >>) >>),
    \* long members (size-gated code paths)
    LS([i \in 1 .. 300 |-> <<i \div 2, (i - 1) \div 2>>]),
    MPt([i \in 1 .. 300 |-> <<(i * 7) % 13, (i * 11) % 17>>]),
    MPoly([i \in 1 .. 150 |-> [ext |-> Sq(3 * i, i % 5, 2), holes |-> IF i % 3 = 0 THEN << Sq(3 * i + 1, (i % 5) + 1, 1) >> ELSE <<>>]]),
    \* zigzags whose extremes sit just BEFORE the end (x max and y min at the third-to-last, y max at the second-to-last vertex),
    \* lengths around powers of two with remainders 2 and 3 modulo 4 (unrolled scans, chunked folds)
    LS(ZigSpike(66)), LS(ZigSpike(71)), LS(ZigSpike(1027)), LS(ZigSpike(4102))
>>
NLong == 7
NP == Len(Pool)

VARIABLES m1, m2, m3, fn, done
vars == <<m1, m2, m3, fn, done>>
Init == /\ m1 \in {i \in 1 .. NP : i % Stride = Offset % Stride \/ i > NP - NLong} /\ m2 = 0 /\ m3 = 0 /\ fn = "affine" /\ done = FALSE
Members(a, b, c) == (IF a = 0 THEN <<>> ELSE <<Pool[a]>>) \o (IF b = 0 THEN <<>> ELSE <<Pool[b]>>)
                    \o (IF c = 0 THEN <<>> ELSE <<Pool[c]>>)
Tree(a, b, c) == IF b = 0 /\ c = 0 THEN Pool[a] ELSE GC(Members(a, b, c))

Case(g, f) ==
    LET cs == Coords(g) ec == ExtCoords(g) IN
    [op |-> "traversal", g |-> g, coords |-> cs, count |-> Len(cs), ext |-> ec,
     has_lines |-> HasLines(g), lines |-> IF HasLines(g) THEN Lines(g) ELSE <<>>,
     bbox |-> BBox(cs), ext_bbox |-> BBox(ec),
     f |-> f, mapped |-> Map(f, g), mapped_coords |-> MapCs(f, cs),
     dim |-> Dim(g), bdim |-> BDim(g), empty |-> IsEmptyG(g)]
Next == /\ ~done /\ done' = TRUE /\ m1' = m1
        /\ m2' \in 0 .. NP /\ m3' \in 0 .. NP /\ (m2' = 0 => m3' = 0)
        \* the NLong long members appear alone, or first in a collection with the first one / two pool entries
        /\ m2' <= NP - NLong /\ m3' <= NP - NLong /\ (m1 > NP - NLong => (m2' <= 1 /\ m3' \in {0, 2} /\ (m3' = 2 => m2' = 1)))
        /\ fn' \in Fn
        /\ PrintT(<<"CASE", ToJson(Case(Tree(m1, m2', m3'), fn'))>>)
Spec == Init /\ [][Next]_vars

IsSubseq(a, b) ==   \* a is a sub-sequence of b (greedy matching suffices for equality of elements)
    LET RECURSIVE Go(_, _)
        Go(i, j) == IF i > Len(a) THEN TRUE ELSE IF j > Len(b) THEN FALSE
                    ELSE IF a[i] = b[j] THEN Go(i + 1, j + 1) ELSE Go(i, j + 1)
    IN Go(1, 1)
HasRect(g) == \/ g.t = "Rect"
              \/ (g.t = "GeometryCollection" /\ \E i \in DOMAIN g.gs : g.gs[i].t = "Rect")
TravLaws == done =>
    LET g == Tree(m1, m2, m3) cs == Coords(g) IN
    /\ IsSubseq(ExtCoords(g), cs)
    /\ (~HasRect(g)) => Coords(Map(fn, g)) = MapCs(fn, cs)
    /\ (fn \in {"affine"}) => BBox(Coords(Map(fn, g))) = (IF cs = <<>> THEN <<>> ELSE
            LET b == BBox(cs) lo == Apply(fn, <<b[1], b[2]>>) hi == Apply(fn, <<b[3], b[4]>>) IN <<lo[1], lo[2], hi[1], hi[2]>>)
    /\ (g.t = "GeometryCollection") => cs = Flat([i \in DOMAIN g.gs |-> Coords(g.gs[i])], 1)
=============================================================================

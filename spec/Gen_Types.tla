------------------------------ MODULE Gen_Types ------------------------------
(***************************************************************************)
(* Extension X11: the value algebra of the geo-types primitives.           *)
(*                                                                         *)
(* Nothing geometric is decided here: the module states, in exact integer  *)
(* and rational arithmetic, what the doc comments of geo-types promise for *)
(* constructors, accessors, operators, iterators and conversions, and TLC  *)
(* evaluates it on every small input.  Rationals are <<num, den>>, den > 0 *)
(* in lowest terms; the quotient of two integers as the integer types of   *)
(* Rust compute it (rounded towards zero) is TruncDiv.                     *)
(*                                                                         *)
(*   Mode = "pair"   two coordinates a, b on Lo..Hi x Lo..Hi (and every    *)
(*       scalar k of Lo..Hi): Coord / Point arithmetic, dot product,       *)
(*       degrees / radians (bracketed with 3.14159 < pi < 3.14160),        *)
(*       Line a -> b (dx, dy, delta, slope, determinant), Rect with the    *)
(*       corners a, b given in this order (min / max, width, height,       *)
(*       center, ring and edges as documented, the two halves of split_x   *)
(*       and split_y)                                                      *)
(*   Mode = "tri"    three coordinates: cross product, Triangle (counter-  *)
(*       clockwise whatever the input order; the documented example fixes  *)
(*       the order: a clockwise input is reversed), its array, edges and   *)
(*       ring; Rect(a, b).set_min(c) / set_max(c) (documented panic)       *)
(*   Mode = "seq"    one vertex sequence of <= MaxN vertices on SLo..SHi:  *)
(*       LineString is_closed / close (the closing operation of the        *)
(*       Polygon docs), lines, rev_lines, triangles, the iterators         *)
(*   Mode = "rings"  a list of <= MaxR vertex sequences of <= RingN        *)
(*       vertices over RingPts: Polygon::new / interiors_push close every  *)
(*       ring, ring counts; MultiPoint / MultiLineString / MultiPolygon /  *)
(*       GeometryCollection as sequences of their members (len, is_empty,  *)
(*       is_closed); the Geometry enum: TryFrom succeeds exactly for the   *)
(*       matching variant                                                  *)
(*                                                                         *)
(* One TLC state per case; `Laws` (checked on every state) are laws of the *)
(* definitions themselves: the expectations are an algebra, not a table.   *)
(***************************************************************************)
EXTENDS Lattice, TLC, Json, SequencesExt

CONSTANTS Mode,
          NegLo, Hi,         \* pair / tri: coordinates and scalars -NegLo .. Hi (a cfg file cannot spell a negative number)
          SNegLo, SHi, MaxN, \* seq: coordinates -SNegLo .. SHi, <= MaxN vertices
          RingK, RingN, MaxR,    \* rings: <= MaxR sequences of <= RingN vertices over the first RingK points of RingPool
          Stride, Offset     \* sampling of the first choice (1, 0: everything)

Lo == -NegLo
SLo == -SNegLo
RingPool == << <<0, 0>>, <<1, 2>>, <<-2, 1>>, <<1, -1>> >>
RingPts == {RingPool[i] : i \in 1 .. RingK}

\* ------------------------------------------------------------------ numbers
Q(n, d) == LET s == IF d < 0 THEN -1 ELSE 1
               g == Gcd(Abs(n), Abs(d))
           IN <<(s * n) \div g, (s * d) \div g>>            \* d # 0; exact divisions
Qi(n) == <<n, 1>>
QEq(p, q) == p[1] * q[2] = q[1] * p[2]
QLeq(p, q) == p[1] * q[2] <= q[1] * p[2]
QSub(p, q) == Q(p[1] * q[2] - q[1] * p[2], p[2] * q[2])
\* integer division of Rust (and of every integer CoordNum): towards zero
TruncDiv(a, b) == Sign(a) * Sign(b) * (Abs(a) \div Abs(b))

\* 3.14159 < pi < 3.14160
PiLoN == 314159
PiHiN == 314160
PiD == 100000
\* x radians in degrees = 180 x / pi ; x degrees in radians = x pi / 180 : closed brackets <<lo, hi>> of rationals
DegBr(x) == IF x >= 0 THEN <<Q(x * 180 * PiD, PiHiN), Q(x * 180 * PiD, PiLoN)>>
                      ELSE <<Q(x * 180 * PiD, PiLoN), Q(x * 180 * PiD, PiHiN)>>
RadBr(x) == IF x >= 0 THEN <<Q(x * PiLoN, 180 * PiD), Q(x * PiHiN, 180 * PiD)>>
                      ELSE <<Q(x * PiHiN, 180 * PiD), Q(x * PiLoN, 180 * PiD)>>

\* ------------------------------------------------------------------ Coord / Point
Zero == <<0, 0>>
Add(a, b) == <<a[1] + b[1], a[2] + b[2]>>
Sub(a, b) == <<a[1] - b[1], a[2] - b[2]>>
Neg(a) == <<-a[1], -a[2]>>
Scale(a, k) == <<a[1] * k, a[2] * k>>
DivQ(a, k) == <<Q(a[1], k), Q(a[2], k)>>
DivT(a, k) == <<TruncDiv(a[1], k), TruncDiv(a[2], k)>>
DotP(a, b) == a[1] * b[1] + a[2] * b[2]
Det(a, b) == a[1] * b[2] - a[2] * b[1]
\* Vector2DOps: quarter turns as the doc comments spell them, `a.left() => (-a.y, a.x)`, `a.right() => (a.y, -a.x)`
VLeft(a) == <<-a[2], a[1]>>
VRight(a) == <<a[2], -a[1]>>

NS == Hi - Lo + 1
Scalars == [i \in 1 .. NS |-> Lo + i - 1]

\* ------------------------------------------------------------------ Line a -> b
Dx(a, b) == b[1] - a[1]
Dy(a, b) == b[2] - a[2]
Vertical(a, b) == Dx(a, b) = 0
Slope(a, b) == Q(Dy(a, b), Dx(a, b))                  \* not vertical

\* ------------------------------------------------------------------ Rect with corners a, b in any order
RMin(a, b) == <<Min2(a[1], b[1]), Min2(a[2], b[2])>>
RMax(a, b) == <<Max2(a[1], b[1]), Max2(a[2], b[2])>>
\* the documented corner sequence of to_polygon (counter-clockwise from the lower right corner) and the edges of to_lines
RRing(mn, mx) == << <<mx[1], mn[2]>>, <<mx[1], mx[2]>>, <<mn[1], mx[2]>>, <<mn[1], mn[2]>>, <<mx[1], mn[2]>> >>
RingLines(r) == [i \in 1 .. Len(r) - 1 |-> <<r[i], r[i + 1]>>]
QPt(p) == <<Qi(p[1]), Qi(p[2])>>
\* the halves of split_x: [min, (mid, max.y)] and [(mid, min.y), max] (the documented example), mid a rational or one of the two
\* neighbouring integers (integer coordinates of odd extent cannot be split evenly)
SplitX(mn, mx, m) == << <<QPt(mn), <<m, Qi(mx[2])>> >>, << <<m, Qi(mn[2])>>, QPt(mx)>> >>
SplitY(mn, mx, m) == << <<QPt(mn), <<Qi(mx[1]), m>> >>, << <<Qi(mn[1]), m>>, QPt(mx)>> >>
Mid(lo, hi) == Q(lo + hi, 2)
IntMids(lo, hi) == IF (lo + hi) % 2 = 0 THEN <<Qi((lo + hi) \div 2)>> ELSE <<Qi((lo + hi - 1) \div 2), Qi((lo + hi + 1) \div 2)>>

\* ------------------------------------------------------------------ Triangle
\* "Irrespective of input order the resulting geometry has ccw order"; the to_polygon example reverses a clockwise input
TriNew(a, b, c) == IF Cross(a, b, c) < 0 THEN <<c, b, a>> ELSE <<a, b, c>>
Rot3(t) == {t, <<t[2], t[3], t[1]>>, <<t[3], t[1], t[2]>>}
Perm3(t) == Rot3(t) \cup Rot3(<<t[3], t[2], t[1]>>)
\* every order of the three vertices that is counter-clockwise (none if they are collinear)
TriCcw(a, b, c) == {t \in Perm3(<<a, b, c>>) : Cross(t[1], t[2], t[3]) > 0}
TriLines(t) == << <<t[1], t[2]>>, <<t[2], t[3]>>, <<t[3], t[1]>> >>
TriRing(t) == <<t[1], t[2], t[3], t[1]>>

\* ------------------------------------------------------------------ LineString
IsClosedLS(cs) == Len(cs) = 0 \/ cs[1] = cs[Len(cs)]
\* the closing operation: "if the first and last Coord have different values, a new Coord is appended with the value of the first"
Close(cs) == IF IsClosedLS(cs) THEN cs ELSE Append(cs, cs[1])
Lines(cs) == [i \in 1 .. Len(cs) - 1 |-> <<cs[i], cs[i + 1]>>]
RevLines(cs) == [i \in 1 .. Len(cs) - 1 |-> <<cs[Len(cs) - i + 1], cs[Len(cs) - i]>>]
Triangles(cs) == [i \in 1 .. Len(cs) - 2 |-> TriNew(cs[i], cs[i + 1], cs[i + 2])]

\* ------------------------------------------------------------------ the Geometry enum
Variants == <<"Point", "Line", "LineString", "Polygon", "MultiPoint", "MultiLineString", "MultiPolygon", "GeometryCollection", "Rect", "Triangle">>
\* TryFrom<Geometry> exists for every variant type but GeometryCollection
Targets == <<"Point", "Line", "LineString", "Polygon", "MultiPoint", "MultiLineString", "MultiPolygon", "Rect", "Triangle">>
TryFromOk == [v \in 1 .. Len(Variants) |-> [t \in 1 .. Len(Targets) |-> Variants[v] = Targets[t]]]

\* ------------------------------------------------------------------ cases
PairCase(a, b) ==
    LET mn == RMin(a, b)  mx == RMax(a, b)  v == Vertical(a, b) IN
    [op |-> "types_pair", a |-> a, b |-> b,
     \* Coord / Point
     add |-> Add(a, b), sub |-> Sub(a, b), neg |-> Neg(a), zero |-> Zero, a_is_zero |-> a = Zero, eq |-> a = b,
     ks |-> Scalars,
     mul |-> [i \in 1 .. NS |-> Scale(a, Scalars[i])],
     divq |-> [i \in 1 .. NS |-> IF Scalars[i] = 0 THEN <<>> ELSE DivQ(a, Scalars[i])],
     divt |-> [i \in 1 .. NS |-> IF Scalars[i] = 0 THEN <<>> ELSE DivT(a, Scalars[i])],
     dot |-> DotP(a, b),
     \* geo::Vector2DOps for Coord (float scalars): the hand-written linear algebra behind the other algorithms
     wedge |-> Det(a, b), magsq |-> DotP(a, a), isqrt |-> ISqrt(DotP(a, a)), mag_exact |-> IsSquare(DotP(a, a)),
     left |-> VLeft(a), right |-> VRight(a), signs |-> <<Sign(a[1]), Sign(a[2])>>, axis |-> a[1] = 0 \/ a[2] = 0,
     \* geo::Convert / TryConvert (scalar type changes): the harness multiplies a and b by conv_unit[1] * conv_unit[2] = 1 400 000 000 in i64;
     \* the result fits i32 (max 2 147 483 647) exactly when every |coordinate| * 700 000 000 <= 1 073 741 823 (kept inside TLC's 32-bit ints)
     conv_unit |-> <<700000000, 2>>,
     conv_fits |-> \A p \in {a, b} : \A j \in 1 .. 2 : Abs(p[j]) <= 3 /\ Abs(p[j]) * 700000000 <= 1073741823,   \* first conjunct: the product must stay inside TLC's ints
     deg |-> <<DegBr(a[1]), DegBr(a[2])>>, rad |-> <<RadBr(a[1]), RadBr(a[2])>>,
     \* Line
     dx |-> Dx(a, b), dy |-> Dy(a, b), delta |-> Sub(b, a), vertical |-> v, dysign |-> Sign(Dy(a, b)),
     slope |-> IF v THEN <<>> ELSE Slope(a, b), slope_t |-> IF v THEN 0 ELSE TruncDiv(Dy(a, b), Dx(a, b)),
     det |-> Det(a, b),
     \* Rect
     rmin |-> mn, rmax |-> mx, width |-> mx[1] - mn[1], height |-> mx[2] - mn[2],
     center |-> <<Mid(mn[1], mx[1]), Mid(mn[2], mx[2])>>,
     ring |-> RRing(mn, mx), rlines |-> RingLines(RRing(mn, mx)),
     split_x |-> SplitX(mn, mx, Mid(mn[1], mx[1])), split_y |-> SplitY(mn, mx, Mid(mn[2], mx[2])),
     split_x_int |-> [i \in DOMAIN IntMids(mn[1], mx[1]) |-> SplitX(mn, mx, IntMids(mn[1], mx[1])[i])],
     split_y_int |-> [i \in DOMAIN IntMids(mn[2], mx[2]) |-> SplitY(mn, mx, IntMids(mn[2], mx[2])[i])]]

TriCase(a, b, c) ==
    LET t == TriNew(a, b, c)  mn == RMin(a, b)  mx == RMax(a, b) IN
    [op |-> "types_tri", a |-> a, b |-> b, c |-> c,
     cross |-> Cross(a, b, c), orient |-> Orient(a, b, c),
     tri |-> t, tri_ccw |-> SetToSeq(TriCcw(a, b, c)), tri_lines |-> TriLines(t), tri_ring |-> TriRing(t),
     \* the array conversion is a constructor too: the three vertices, counter-clockwise
     rmin |-> mn, rmax |-> mx,
     set_min_ok |-> c[1] <= mx[1] /\ c[2] <= mx[2],       \* "Panics if min's x/y is greater than the maximum coordinate's x/y"
     set_max_ok |-> c[1] >= mn[1] /\ c[2] >= mn[2]]       \* "Panics if max's x/y is less than the minimum coordinate's x/y"

SeqCase(cs) ==
    [op |-> "types_seq", cs |-> cs, n |-> Len(cs), closed |-> IsClosedLS(cs), close |-> Close(cs), appended |-> ~IsClosedLS(cs),
     lines |-> Lines(cs), rev_lines |-> RevLines(cs), triangles |-> Triangles(cs), rev |-> Rev(cs)]

\* members of a collection, by position: LineString, Polygon (no holes), MultiPoint, ...
GKind(i) == <<"LineString", "Polygon", "MultiPoint">>[((i - 1) % 3) + 1]
Flat(L) == FoldLeft(LAMBDA acc, s : acc \o s, <<>>, L)
Pick(f, i, d) == IF Len(f) >= i THEN f[i] ELSE d
RingsCase(L) ==
    LET n == Len(L)  f == Flat(L) IN
    [op |-> "types_rings", members |-> L, n |-> n, empty |-> n = 0,
     closed_members |-> [i \in 1 .. n |-> Close(L[i])],
     mls_closed |-> \A i \in 1 .. n : IsClosedLS(L[i]),
     \* Polygon::new(L[1], <<L[2], ..>>); and Polygon::new(L[1], <<L[2], .., L[n-1]>>) followed by interiors_push(L[n])
     ext |-> IF n >= 1 THEN Close(L[1]) ELSE <<>>,
     ints |-> [i \in 1 .. n - 1 |-> Close(L[i + 1])],
     num_rings |-> n, num_interior_rings |-> IF n >= 1 THEN n - 1 ELSE 0,
     first_points |-> IF n >= 1 THEN L[1] ELSE <<>>,            \* the members of a MultiPoint
     mp_len |-> IF n >= 1 THEN Len(L[1]) ELSE 0, mp_empty |-> (n = 0 \/ L[1] = <<>>),
     gc |-> [i \in 1 .. n |-> [t |-> GKind(i), cs |-> IF GKind(i) = "Polygon" THEN Close(L[i]) ELSE L[i]]],
     \* values for the ten variants of the enum
     p |-> Pick(f, 1, <<0, 0>>), q |-> Pick(f, 2, <<1, 0>>), r |-> Pick(f, 3, <<0, 1>>),
     variants |-> Variants, targets |-> Targets, try_from_ok |-> TryFromOk]

\* ------------------------------------------------------------------ laws of the definitions
QNeg(p) == <<-p[1], p[2]>>
\* the brackets lie inside the school brackets 3 < pi < 22/7, are odd functions of x, and collapse to 0 at 0
\* (products stay below 2^31: two bounds of the fine bracket are never cross-multiplied)
BrLaws(x) ==
    LET m == Abs(x)  d == DegBr(m)  r == RadBr(m) IN
    /\ QLeq(Q(m * 1260, 22), d[1]) /\ QLeq(d[2], Qi(60 * m)) /\ (d[1][1] * 10) \div d[1][2] <= (d[2][1] * 10) \div d[2][2]
    /\ QLeq(Q(m, 60), r[1]) /\ QLeq(r[2], Q(22 * m, 1260)) /\ (r[1][1] * 1000) \div r[1][2] <= (r[2][1] * 1000) \div r[2][2]
    /\ DegBr(-m) = <<QNeg(d[2]), QNeg(d[1])>> /\ RadBr(-m) = <<QNeg(r[2]), QNeg(r[1])>>
    /\ (x = 0 => DegBr(x) = <<Qi(0), Qi(0)>> /\ RadBr(x) = <<Qi(0), Qi(0)>>)
PairLaws(a, b) ==
    LET mn == RMin(a, b)  mx == RMax(a, b)  ring == RRing(mn, mx)  sx == SplitX(mn, mx, Mid(mn[1], mx[1])) IN
    /\ Add(a, b) = Add(b, a) /\ Add(a, Zero) = a /\ Sub(a, b) = Add(a, Neg(b)) /\ Neg(Neg(a)) = a /\ Sub(a, a) = Zero
    /\ Scale(a, 1) = a /\ Scale(a, 0) = Zero /\ Scale(a, -1) = Neg(a)
    /\ \A i \in 1 .. NS : LET k == Scalars[i] IN
         /\ Scale(Add(a, b), k) = Add(Scale(a, k), Scale(b, k))
         /\ k # 0 => /\ DivQ(Scale(a, k), k) = QPt(a)
                     /\ \A j \in 1 .. 2 : Abs(DivT(a, k)[j] * k) <= Abs(a[j]) /\ Abs(a[j] - DivT(a, k)[j] * k) < Abs(k)
    /\ DotP(a, b) = DotP(b, a) /\ DotP(a, a) = D2(a, Zero) /\ DotP(a, b) = Dot(Zero, a, b)
    /\ Det(a, b) = -Det(b, a) /\ Det(a, b) = Cross(Zero, a, b)
    \* Vector2DOps: the wedge product is "equivalent to a.dot(b.right())"; quarter turns are inverse to each other, keep the length,
    \* are perpendicular to the vector and four of them are the identity; the integer root brackets the magnitude
    /\ Det(a, b) = DotP(a, VRight(b)) /\ VLeft(VRight(a)) = a /\ VRight(VLeft(a)) = a /\ VLeft(VLeft(a)) = Neg(a)
    /\ DotP(a, VLeft(a)) = 0 /\ DotP(VLeft(a), VLeft(a)) = DotP(a, a) /\ Det(a, VLeft(a)) = DotP(a, a)
    /\ LET r == ISqrt(DotP(a, a)) IN r * r <= DotP(a, a) /\ DotP(a, a) < (r + 1) * (r + 1) /\ (IsSquare(DotP(a, a)) <=> r * r = DotP(a, a))
    /\ DotP(a, b) * DotP(a, b) + Det(a, b) * Det(a, b) = DotP(a, a) * DotP(b, b)      \* Lagrange's identity
    /\ \A j \in 1 .. 2 : BrLaws(a[j])
    \* the slope does not depend on the direction; dx, dy do
    /\ Vertical(a, b) = Vertical(b, a) /\ (~Vertical(a, b) => Slope(a, b) = Slope(b, a))
    /\ Dx(a, b) = -Dx(b, a) /\ Sub(b, a) = <<Dx(a, b), Dy(a, b)>>
    \* Rect: the corners' order is irrelevant, min <= max, the ring is closed and counter-clockwise with area width x height
    /\ RMin(a, b) = RMin(b, a) /\ RMax(a, b) = RMax(b, a) /\ mn[1] <= mx[1] /\ mn[2] <= mx[2]
    /\ ring[1] = ring[5] /\ Area2(ring) = 2 * (mx[1] - mn[1]) * (mx[2] - mn[2])
    /\ \A i \in 1 .. 4 : RingLines(ring)[i][2] = ring[i + 1]
    \* the halves have equal widths, share the cutting edge and span the rectangle
    /\ QSub(sx[1][2][1], sx[1][1][1]) = QSub(sx[2][2][1], sx[2][1][1]) /\ sx[1][2][1] = sx[2][1][1]
    /\ sx[1][1] = QPt(mn) /\ sx[2][2] = QPt(mx)
    /\ \A i \in DOMAIN IntMids(mn[1], mx[1]) : LET m == IntMids(mn[1], mx[1])[i] IN m[2] = 1 /\ mn[1] <= m[1] /\ m[1] <= mx[1]

TriLaws(a, b, c) ==
    LET t == TriNew(a, b, c) IN
    /\ Cross(a, b, c) = Cross(b, c, a) /\ Cross(a, b, c) = -Cross(a, c, b)
    /\ Cross(a, b, c) = Det(Sub(b, a), Sub(c, a))
    /\ t \in Perm3(<<a, b, c>>)
    /\ (Cross(a, b, c) # 0 => t \in TriCcw(a, b, c) /\ Cardinality(TriCcw(a, b, c)) = 3 /\ Area2(TriRing(t)) = Abs(Cross(a, b, c)))
    /\ (Cross(a, b, c) = 0 => TriCcw(a, b, c) = {})
    /\ TriNew(t[1], t[2], t[3]) = t                                             \* a constructed triangle is a fixed point

SeqLaws(cs) ==
    /\ IsClosedLS(Close(cs)) /\ Close(Close(cs)) = Close(cs)
    /\ (Len(cs) = 0 => Close(cs) = <<>>) /\ Len(Close(cs)) \in {Len(cs), Len(cs) + 1}
    /\ Len(Lines(cs)) = (IF Len(cs) = 0 THEN 0 ELSE Len(cs) - 1) /\ Len(Triangles(cs)) = (IF Len(cs) < 2 THEN 0 ELSE Len(cs) - 2)
    /\ \A i \in 1 .. Len(cs) - 2 : Lines(cs)[i][2] = Lines(cs)[i + 1][1]
    /\ \A i \in 1 .. Len(cs) - 1 : RevLines(cs)[i] = <<Lines(cs)[Len(cs) - i][2], Lines(cs)[Len(cs) - i][1]>>
    /\ RevLines(cs) = Lines(Rev(cs))

RingsLaws(L) ==
    /\ \A i \in 1 .. Len(L) : IsClosedLS(Close(L[i]))
    /\ (\A i \in 1 .. Len(L) : IsClosedLS(L[i])) = ([i \in 1 .. Len(L) |-> Close(L[i])] = L)
    /\ \A v \in 1 .. Len(Variants) : Cardinality({t \in 1 .. Len(Targets) : TryFromOk[v][t]}) = (IF Variants[v] = "GeometryCollection" THEN 0 ELSE 1)
    /\ \A t \in 1 .. Len(Targets) : Cardinality({v \in 1 .. Len(Variants) : TryFromOk[v][t]}) = 1

\* ------------------------------------------------------------------ the generator
NG == (Hi - Lo + 1) * (Hi - Lo + 1)
Grid == [i \in 1 .. NG |-> <<Lo + ((i - 1) \div (Hi - Lo + 1)), Lo + ((i - 1) % (Hi - Lo + 1))>>]
SW == SHi - SLo + 1
SNG == SW * SW
SGrid == [i \in 1 .. SNG |-> <<SLo + ((i - 1) \div SW), SLo + ((i - 1) % SW)>>]
SPts(s) == [i \in DOMAIN s |-> SGrid[s[i]]]
Cat == SetToSeq(UNION {[1 .. k -> RingPts] : k \in 0 .. RingN})
NCat == Len(Cat)
Members(s) == [i \in DOMAIN s |-> Cat[s[i]]]
Sampled(n) == {j \in 1 .. n : j % Stride = Offset % Stride}

VARIABLES sa, done
vars == <<sa, done>>
Init == /\ done = FALSE
        /\ CASE Mode \in {"pair", "tri"} -> sa \in {<<i>> : i \in Sampled(NG)}
             [] Mode = "seq" -> sa \in ({<<i>> : i \in Sampled(SNG)} \cup {<<>>})
             [] Mode = "rings" -> sa \in ({<<i>> : i \in Sampled(NCat)} \cup {<<>>})
Emit(c) == PrintT(<<"CASE", ToJson(c)>>)

Pair == /\ Mode = "pair" /\ ~done /\ done' = TRUE
        /\ \E j \in 1 .. NG : sa' = Append(sa, j)
        /\ Emit(PairCase(Grid[sa'[1]], Grid[sa'[2]]))
Tri == /\ Mode = "tri" /\ ~done /\ done' = TRUE
       /\ \E j, k \in 1 .. NG : sa' = sa \o <<j, k>>
       /\ Emit(TriCase(Grid[sa'[1]], Grid[sa'[2]], Grid[sa'[3]]))
\* the empty input and the single elements
Short == /\ Mode \in {"seq", "rings"} /\ ~done /\ Len(sa) <= 1
         /\ done' = TRUE /\ UNCHANGED sa
         /\ Emit(IF Mode = "seq" THEN SeqCase(SPts(sa)) ELSE RingsCase(Members(sa)))
GrowSeq == /\ Mode = "seq" /\ ~done /\ Len(sa) >= 1 /\ Len(sa) < MaxN
           /\ \E j \in 1 .. SNG : sa' = Append(sa, j)
           /\ UNCHANGED done
           /\ Emit(SeqCase(SPts(sa')))
GrowRings == /\ Mode = "rings" /\ ~done /\ Len(sa) >= 1 /\ Len(sa) < MaxR
             /\ \E j \in 1 .. NCat : sa' = Append(sa, j)
             /\ UNCHANGED done
             /\ Emit(RingsCase(Members(sa')))
Next == Pair \/ Tri \/ Short \/ GrowSeq \/ GrowRings
Spec == Init /\ [][Next]_vars

Laws == CASE Mode = "pair" -> (done => PairLaws(Grid[sa[1]], Grid[sa[2]]))
          [] Mode = "tri" -> (done => TriLaws(Grid[sa[1]], Grid[sa[2]], Grid[sa[3]]))
          [] Mode = "seq" -> SeqLaws(SPts(sa))
          [] Mode = "rings" -> RingsLaws(Members(sa))
=============================================================================

------------------------------ MODULE Gen_Valid ------------------------------
(***************************************************************************)
(* C14 - validation accepts exactly the well-formed geometries.            *)
(* The property statement written as exact predicates on the octilinear    *)
(* universe (witness lattice, DESIGN.md 3.2):                              *)
(*   ring ok     >= 4 coordinates, closed, simple closed curve, area # 0   *)
(*   hole ok     its region lies in the closed shell region and the two    *)
(*               boundaries share isolated points only                     *)
(*   holes       interiors disjoint, boundaries share isolated points only *)
(*   multi       members valid, interiors disjoint, touching at points     *)
(* Three enumerations (Mode):                                              *)
(*  "rings"  every closed octilinear path with 2..MaxE edges on the N-grid *)
(*           - simple AND self-crossing, self-touching, spikes, flat rings *)
(*  "holes"  a shell with one or two candidate holes taken from all simple *)
(*           rings of the grid (inside, outside, crossing, sharing an edge,*)
(*           touching at a point, nested in each other)                    *)
(*  "multi"  every ordered pair of simple polygons as a MultiPolygon       *)
(* Each case carries the verdict and, per defect kind, which rings / pairs *)
(* really have it, so that every reported error can be checked.            *)
(***************************************************************************)
EXTENDS Shapes, TLC, Json

CONSTANTS N, Mode, MaxE, Stride, Offset,
          HoleE      \* candidate hole / member rings have 3 or up to 4 edges
F == FineOf(N)
V == VPts(N)
VSeq == SetToSeq(V)
NV == Len(VSeq)

P1 == Paths1(N)
P2 == ExtendPaths(N, P1)
P3 == ExtendPaths(N, P2)
P4 == IF HoleE >= 4 THEN ExtendPaths(N, P3) ELSE {}
R3 == RingsOf(P3)
R4 == RingsOf(P4)
SimpleRings == SetToSeq(R3) \o SetToSeq(R4)
NR == Len(SimpleRings)

RingOK(r) == Len(r) >= 4 /\ r[1] = r[Len(r)] /\ SimplePath(r) /\ Area2(r) # 0

\* ---------------- Mode "bigrings": parametric rings far longer than the enumerated walks (size-gated code paths); the verdict
\* comes from the same predicates (RingCase): a comb of W teeth (W even) - simple; the same comb with one tooth reaching down to
\* the bottom side (a vertex in the interior of a non-adjacent edge: touching, not crossing) - not simple; two staircase lobes
\* drawn through a shared vertex (a vertex visited twice) - not simple
Comb(W, t) == << <<0, 0>>, <<W, 0>>, <<W, 4>> >> \o [k \in 1 .. W - 1 |-> LET x == W - k IN <<x, IF x % 2 = 1 THEN (IF x = t THEN 0 ELSE 2) ELSE 4>>]
              \o << <<0, 4>>, <<0, 0>> >>
RECURSIVE StairSteps(_, _)
StairSteps(n, k) == IF k > n THEN <<>> ELSE << <<n - k + 1, k>>, <<n - k, k>> >> \o StairSteps(n, k + 1)
Lobe(n) == << <<n, 0>> >> \o StairSteps(n, 1)                         \* without the origin
Neg(cs) == [i \in DOMAIN cs |-> <<0 - cs[i][1], 0 - cs[i][2]>>]
FigureEight(n) == << <<0, 0>> >> \o Lobe(n) \o << <<0, 0>> >> \o Neg(Lobe(n)) \o << <<0, 0>> >>
BigRings == << Comb(24, 0), Comb(24, 11), Comb(50, 0), Comb(50, 17), Comb(50, 49), Comb(98, 0), Comb(98, 33), Comb(300, 0), Comb(300, 151), Comb(1030, 0), Comb(1030, 515),
               FigureEight(12), FigureEight(20), FigureEight(40), FigureEight(130) >>
\* ---------------- Mode "rings": state = open octilinear walk (need not be simple)
VARIABLES walk, h1, h2, done
vars == <<walk, h1, h2, done>>

Shell == IF N = 2 THEN << <<0, 0>>, <<8, 0>>, <<8, 8>>, <<0, 8>>, <<0, 0>> >>
         ELSE << <<0, 0>>, <<12, 0>>, <<12, 12>>, <<0, 12>>, <<0, 0>> >>
Shell2 == << <<0, 4>>, <<4, 0>>, <<8, 0>>, <<12, 4>>, <<12, 8>>, <<8, 12>>, <<4, 12>>, <<0, 8>>, <<0, 4>> >>

\* fan-out: the first choice is made in Init so that the expensive second choice runs in parallel
Init == /\ done = FALSE /\ h2 = 0
        /\ IF Mode = "rings" THEN /\ walk \in {<<VSeq[i]>> : i \in {j \in 1 .. NV : j % Stride = Offset % Stride}}
                                  /\ h1 = 0
           ELSE IF Mode = "bigrings" THEN walk = <<>> /\ h1 \in DOMAIN BigRings
           ELSE /\ walk = <<>> /\ h1 \in {i \in 1 .. NR : i % Stride = Offset % Stride}
SRPos == TLCEval([i \in 1 .. NR |-> TLCEval(RingMap(SimpleRings[i], F))])
ShPos(sh) == RingMap(sh, F)

RingCase(r) ==
    [op |-> "valid", g |-> Poly(r, <<>>), valid |-> RingOK(r),
     few |-> IF Len(r) < 4 THEN <<0>> ELSE <<>>,
     self |-> IF Len(r) >= 4 /\ ~(SimplePath(r) /\ Area2(r) # 0) THEN <<0>> ELSE <<>>,
     notcontained |-> <<>>, line |-> <<>>, area |-> <<>>]

\* defects of a shell e with holes hs (all rings simple here)
\* hidx: indices into SimpleRings of the holes (position maps are memoised per ring)
HoleCase(e, hs, hidx) ==
    LET pe == ShPos(e)
        ph == [i \in DOMAIN hs |-> SRPos[hidx[i]]]
        outside(i) == \E p \in F : ph[i][p] # "E" /\ pe[p] = "E"
        eline(i)   == \E p \in F : ph[i][p] = "B" /\ pe[p] = "B" /\ Kind(p) >= 1
        hline(i, j) == \E p \in F : ph[i][p] = "B" /\ ph[j][p] = "B" /\ Kind(p) >= 1
        harea(i, j) == \E p \in F : (ph[i][p] = "I" /\ ph[j][p] # "E") \/ (ph[j][p] = "I" /\ ph[i][p] # "E")
        pairs == {q \in (DOMAIN hs) \X (DOMAIN hs) : q[1] < q[2]}
    IN [op |-> "valid", g |-> Poly(e, hs),
        valid |-> /\ \A i \in DOMAIN hs : ~outside(i) /\ ~eline(i)
                  /\ \A q \in pairs : ~hline(q[1], q[2]) /\ ~harea(q[1], q[2]),
        few |-> <<>>, self |-> <<>>,
        \* "not contained in the exterior ring" is real when part of the hole ring is outside the shell, or when the hole ring
        \* never enters the shell's interior at all (it runs entirely along the shell's boundary, e.g. a hole equal to the shell)
        notcontained |-> SetToSeq({i \in DOMAIN hs : outside(i) \/ ~\E p \in F : ph[i][p] = "B" /\ pe[p] = "I"}),
        line |-> SetToSeq({<<0, i>> : i \in {i \in DOMAIN hs : eline(i)}} \cup {q \in pairs : hline(q[1], q[2])}),
        area |-> SetToSeq({<<0, i>> : i \in {i \in DOMAIN hs : outside(i)}} \cup {q \in pairs : harea(q[1], q[2])})]

MultiCase(a, b) ==
    LET pa == SRPos[a] pb == SRPos[b]
        overlap == \E p \in F : (pa[p] = "I" /\ pb[p] # "E") \/ (pb[p] = "I" /\ pa[p] # "E")
        online  == \E p \in F : pa[p] = "B" /\ pb[p] = "B" /\ Kind(p) >= 1
    IN [op |-> "valid", g |-> MPoly(<<[ext |-> SimpleRings[a], holes |-> <<>>], [ext |-> SimpleRings[b], holes |-> <<>>]>>),
        valid |-> ~overlap /\ ~online, overlap |-> overlap, online |-> online,
        few |-> <<>>, self |-> <<>>, notcontained |-> <<>>, line |-> <<>>, area |-> <<>>]

NextBig ==
    /\ Mode = "bigrings" /\ ~done /\ done' = TRUE /\ walk' = walk /\ h2' = h2 /\ h1' = h1
    /\ PrintT(<<"CASE", ToJson(RingCase(BigRings[h1]))>>)
NextRings ==
    /\ Mode = "rings" /\ ~done
    /\ \/ /\ Len(walk) < MaxE
          /\ \E c \in V : Octi(walk[Len(walk)], c) /\ walk' = Append(walk, c)
          /\ UNCHANGED <<h1, h2, done>>
       \/ /\ Len(walk) >= 2 /\ Octi(walk[Len(walk)], walk[1])
          /\ walk' = Append(walk, walk[1]) /\ done' = TRUE /\ UNCHANGED <<h1, h2>>
          /\ PrintT(<<"CASE", ToJson(RingCase(walk'))>>)
NextHoles ==
    /\ Mode = "holes" /\ ~done /\ done' = TRUE /\ walk' = walk /\ h1' = h1
    /\ h2' \in 0 .. NR
    /\ \E sh \in {Shell, Shell2} :
         PrintT(<<"CASE", ToJson(HoleCase(sh, IF h2' = 0 THEN <<Rev(SimpleRings[h1])>>
                                              ELSE <<Rev(SimpleRings[h1]), SimpleRings[h2']>>,
                                          IF h2' = 0 THEN <<h1>> ELSE <<h1, h2'>>))>>)
NextMulti ==
    /\ Mode = "multi" /\ ~done /\ done' = TRUE /\ walk' = walk
    /\ h1' = h1 /\ h2' \in 1 .. NR
    /\ PrintT(<<"CASE", ToJson(MultiCase(h1, h2'))>>)
Next == NextRings \/ NextHoles \/ NextMulti \/ NextBig
\* the construction says which of the big rings are simple
BigRingsAsBuilt == Mode = "bigrings" => (RingOK(BigRings[h1]) <=> h1 \in {1, 3, 6, 8, 10})
Spec == Init /\ [][Next]_vars
=============================================================================

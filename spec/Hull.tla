-------------------------------- MODULE Hull --------------------------------
(***************************************************************************)
(* Declarative convex hull of a finite set of lattice points (shared by    *)
(* Gen_Hull - C08 - and Trace_Tiling - C10).                               *)
(*   Extreme(S) = points of S not in the closed triangle (or segment) of   *)
(*                three other points of S  (Caratheodory)                  *)
(*   HullRing(S) = Extreme(S) in counter-clockwise order from the          *)
(*                lexicographically least point, closed                    *)
(***************************************************************************)
EXTENDS Lattice

InClosedTri(p, a, b, c) ==
    LET o1 == Orient(a, b, p) o2 == Orient(b, c, p) o3 == Orient(c, a, p) IN
    IF Cross(a, b, c) = 0
    THEN OnSeg(p, a, b) \/ OnSeg(p, b, c) \/ OnSeg(p, a, c)
    ELSE (o1 >= 0 /\ o2 >= 0 /\ o3 >= 0) \/ (o1 <= 0 /\ o2 <= 0 /\ o3 <= 0)
Extreme(S) == {p \in S : \A a \in S \ {p}, b \in S \ {p}, c \in S \ {p} : ~InClosedTri(p, a, b, c)}
AllCollinear(S) == \A a \in S, b \in S, c \in S : Cross(a, b, c) = 0
LexMin(S) == CHOOSE p \in S : \A q \in S : p = q \/ LexLess(p, q)
\* next hull vertex after p, counter-clockwise: everything else is strictly to the left of p -> q
NextCcw(E, p) == CHOOSE q \in E \ {p} : \A r \in E \ {p, q} : Orient(p, q, r) > 0
RECURSIVE Walk(_, _, _)
Walk(E, start, p) == LET q == NextCcw(E, p) IN IF q = start THEN <<p, start>> ELSE <<p>> \o Walk(E, start, q)
HullRing(S) == LET E == Extreme(S) IN Walk(E, LexMin(E), LexMin(E))

=============================================================================

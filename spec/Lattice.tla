------------------------------ MODULE Lattice ------------------------------
(***************************************************************************)
(* Exact integer plane geometry.  Points are pairs <<x, y>> of integers,   *)
(* rings are closed sequences of points (first = last).  Every operator    *)
(* here is the mathematical definition evaluated in exact arithmetic; the  *)
(* universes (DESIGN.md section 3) keep every product below 2^31.          *)
(***************************************************************************)
EXTENDS Integers, Sequences, FiniteSets

Sign(x) == IF x > 0 THEN 1 ELSE IF x < 0 THEN -1 ELSE 0
Abs(x)  == IF x < 0 THEN -x ELSE x
Min2(a, b) == IF a <= b THEN a ELSE b
Max2(a, b) == IF a >= b THEN a ELSE b

\* twice the signed area of triangle (o, a, b); > 0 iff o, a, b turn left
Cross(o, a, b) == (a[1] - o[1]) * (b[2] - o[2]) - (a[2] - o[2]) * (b[1] - o[1])
Orient(p, q, r) == Sign(Cross(p, q, r))
Dot(o, a, b) == (a[1] - o[1]) * (b[1] - o[1]) + (a[2] - o[2]) * (b[2] - o[2])
D2(a, b) == (a[1] - b[1]) * (a[1] - b[1]) + (a[2] - b[2]) * (a[2] - b[2])

InBox(p, a, b) == /\ Min2(a[1], b[1]) <= p[1] /\ p[1] <= Max2(a[1], b[1])
                  /\ Min2(a[2], b[2]) <= p[2] /\ p[2] <= Max2(a[2], b[2])
\* p lies on the closed segment [a, b] (a = b allowed)
OnSeg(p, a, b) == Cross(a, b, p) = 0 /\ InBox(p, a, b)
\* p lies in the relative interior of [a, b]
InOpenSeg(p, a, b) == OnSeg(p, a, b) /\ p # a /\ p # b

LexLess(a, b) == a[1] < b[1] \/ (a[1] = b[1] /\ a[2] < b[2])

\* closed segments [a,b] and [c,d] share at least one point
SegSegMeet(a, b, c, d) ==
    LET o1 == Orient(a, b, c)  o2 == Orient(a, b, d)
        o3 == Orient(c, d, a)  o4 == Orient(c, d, b)
    IN  \/ (o1 * o2 < 0 /\ o3 * o4 < 0)
        \/ OnSeg(c, a, b) \/ OnSeg(d, a, b) \/ OnSeg(a, c, d) \/ OnSeg(b, c, d)
\* they cross in a single point interior to both
SegSegProper(a, b, c, d) ==
    Orient(a, b, c) * Orient(a, b, d) < 0 /\ Orient(c, d, a) * Orient(c, d, b) < 0

Edges(cs) == 1 .. (Len(cs) - 1)
IsClosedSeq(cs) == Len(cs) >= 1 /\ cs[1] = cs[Len(cs)]

\* shoelace: twice the signed area of a closed ring
RECURSIVE Area2From(_, _)
Area2From(cs, i) == IF i >= Len(cs) THEN 0
                    ELSE cs[i][1] * cs[i+1][2] - cs[i+1][1] * cs[i][2] + Area2From(cs, i + 1)
Area2(cs) == IF Len(cs) < 3 THEN 0 ELSE Area2From(cs, 1)

OnRing(p, cs) == \E i \in Edges(cs) : OnSeg(p, cs[i], cs[i+1])
\* winding number of a closed ring around p (p not on the ring)
Winding(p, cs) ==
    Cardinality({i \in Edges(cs) : cs[i][2] <= p[2] /\ p[2] < cs[i+1][2] /\ Cross(cs[i], cs[i+1], p) > 0})
  - Cardinality({i \in Edges(cs) : cs[i+1][2] <= p[2] /\ p[2] < cs[i][2] /\ Cross(cs[i], cs[i+1], p) < 0})
\* position of p relative to the region bounded by a simple closed ring
RingPos(p, cs) == IF Len(cs) < 4 THEN (IF Len(cs) >= 1 /\ OnRing(p, cs) THEN "B" ELSE "E")
                  ELSE IF OnRing(p, cs) THEN "B"
                  ELSE IF Winding(p, cs) # 0 THEN "I" ELSE "E"

\* integer square root (floor)
RECURSIVE ISqrtFrom(_, _)
ISqrtFrom(n, r) == IF (r + 1) * (r + 1) > n THEN r ELSE ISqrtFrom(n, r + 1)
ISqrt(n) == ISqrtFrom(n, 0)
IsSquare(n) == ISqrt(n) * ISqrt(n) = n

RECURSIVE Gcd(_, _)
Gcd(a, b) == IF b = 0 THEN Abs(a) ELSE Gcd(b, a % b)

\* rationals <<num, den>> with den > 0
RatLess(p, q) == p[1] * q[2] < q[1] * p[2]
RatLeq(p, q)  == p[1] * q[2] <= q[1] * p[2]
RatEq(p, q)   == p[1] * q[2] = q[1] * p[2]
RatMin(p, q)  == IF RatLeq(p, q) THEN p ELSE q
RatNorm(p)    == LET g == Gcd(p[1], p[2]) IN IF g = 0 THEN <<0, 1>> ELSE <<p[1] \div g, p[2] \div g>>

\* squared distance from p to the closed segment [a, b], as a rational
PtSegD2(p, a, b) ==
    IF a = b THEN <<D2(p, a), 1>>
    ELSE LET l2 == D2(a, b)
             t  == Dot(a, b, p)          \* projection parameter times l2
         IN IF t <= 0 THEN <<D2(p, a), 1>>
            ELSE IF t >= l2 THEN <<D2(p, b), 1>>
            ELSE LET c == Cross(a, b, p) IN <<c * c, l2>>
\* squared distance between two closed segments
SegSegD2(a, b, c, d) ==
    IF SegSegMeet(a, b, c, d) THEN <<0, 1>>
    ELSE RatMin(RatMin(PtSegD2(a, c, d), PtSegD2(b, c, d)),
                RatMin(PtSegD2(c, a, b), PtSegD2(d, a, b)))

\* minimum of a non-empty finite set of rationals
SetRatMin(S) == CHOOSE m \in S : \A x \in S : RatLeq(m, x)
SetMax(S) == CHOOSE m \in S : \A x \in S : x <= m
SetMin(S) == CHOOSE m \in S : \A x \in S : m <= x

\* sequence helpers
Rev(s) == [i \in 1 .. Len(s) |-> s[Len(s) + 1 - i]]
\* rotate a closed ring so that it starts at its k-th vertex (k in 1..Len-1)
RotRing(cs, k) == LET n == Len(cs) - 1 IN
                  [i \in 1 .. Len(cs) |-> cs[((k - 1 + i - 1) % n) + 1]]
RECURSIVE SumSeq(_, _)
SumSeq(f, i) == IF i > Len(f) THEN 0 ELSE f[i] + SumSeq(f, i + 1)
Range(s) == {s[i] : i \in DOMAIN s}
=============================================================================

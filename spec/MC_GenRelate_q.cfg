SPECIFICATION Spec
CONSTANTS
  N = 2
  Profile = "base"
  Stride = 40
  Offset = 0
  Emit = "relate"
INVARIANT OracleSane
CHECK_DEADLOCK FALSE

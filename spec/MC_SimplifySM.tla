---------------------------- MODULE MC_SimplifySM ----------------------------
(***************************************************************************)
(* Model-checked instance of the simplification state machines: every      *)
(* vertex sequence of <= MaxN vertices on the (K+1)x(K+1) lattice, every   *)
(* tolerance of EpsList, both algorithms, both minimum sizes.  TLC explores*)
(* EVERY run (all tie-breaks, both branches at dmax = eps) and checks      *)
(*   Shape      the RDP stack is a chain of adjacent intervals, dropped    *)
(*              vertices lie strictly inside already finished intervals,   *)
(*              len = n - |dropped| and never falls below the guard        *)
(*   DonePost   every terminal state satisfies the property (C09) and is   *)
(*              one of the admissible outputs of the functional models     *)
(*              AdmRdp / AdmVw of Gen_Simplify (machine refines model)     *)
(*   Termination (fairness) every run reaches a terminal state             *)
(***************************************************************************)
EXTENDS SimplifySM, TLC
CONSTANTS K, MaxN, Stride, Offset
VARIABLES cs, eps, minPts, alg, alive, stack, len, dropped, pc
vars == <<cs, eps, minPts, alg, alive, stack, len, dropped, pc>>

G == INSTANCE Gen_Simplify WITH sel <- <<>>
NG == (K + 1) * (K + 1)
Pt(i) == <<(i - 1) \div (K + 1), (i - 1) % (K + 1)>>
EpsList == G!EpsList
E2 == <<eps[1] * eps[1], eps[2] * eps[2]>>
N == Len(cs)
\* all index sequences of length n, sampled by Stride on a mixed-radix code
Code(s) == LET RECURSIVE C(_) C(i) == IF i > Len(s) THEN 0 ELSE (s[i] - 1) + NG * C(i + 1) IN C(1)
Inputs == UNION {{s \in [1 .. n -> 1 .. NG] : Code(s) % Stride = Offset % Stride} : n \in 0 .. MaxN}

Init == /\ \E s \in Inputs : cs = [i \in DOMAIN s |-> Pt(s[i])]
        /\ eps \in {EpsList[e] : e \in DOMAIN EpsList}
        /\ alg \in {"vw", "rdp"}
        /\ minPts \in (IF alg = "rdp" THEN {2, 4} ELSE {2})
        /\ alive = [i \in 1 .. Len(cs) |-> i]
        /\ stack = IF Len(cs) >= 2 THEN << <<1, Len(cs)>> >> ELSE <<>>
        /\ len = Len(cs) /\ dropped = {} /\ pc = "run"

VwRemove == /\ pc = "run" /\ alg = "vw"
            /\ \E p \in VwInnerPos(alive) : VwRemoveEnabled(cs, eps, alive, p) /\ alive' = VwRemoveAt(alive, p)
            /\ UNCHANGED <<cs, eps, minPts, alg, stack, len, dropped, pc>>
VwStop == /\ pc = "run" /\ alg = "vw" /\ VwStopEnabled(cs, eps, alive)
          /\ pc' = "done" /\ UNCHANGED <<cs, eps, minPts, alg, alive, stack, len, dropped>>

Top == stack[1]
RdpTrivial == /\ pc = "run" /\ alg = "rdp" /\ stack # <<>> /\ Top[2] = Top[1] + 1
              /\ stack' = Tail(stack) /\ UNCHANGED <<cs, eps, minPts, alg, alive, len, dropped, pc>>
RdpSplit == /\ pc = "run" /\ alg = "rdp" /\ stack # <<>>
            /\ \E k \in RdpInner(Top[1], Top[2]) :
                  /\ RdpSplitEnabled(cs, E2, Top[1], Top[2], k)
                  /\ stack' = << <<Top[1], k>>, <<k, Top[2]>> >> \o Tail(stack)
            /\ UNCHANGED <<cs, eps, minPts, alg, alive, len, dropped, pc>>
RdpCull == /\ pc = "run" /\ alg = "rdp" /\ stack # <<>>
           /\ RdpCullEnabled(cs, E2, minPts, len, Top[1], Top[2])
           /\ len' = len - (Top[2] - Top[1] - 1)
           /\ dropped' = dropped \cup RdpInner(Top[1], Top[2])
           /\ stack' = Tail(stack) /\ UNCHANGED <<cs, eps, minPts, alg, alive, pc>>
RdpKeep == /\ pc = "run" /\ alg = "rdp" /\ stack # <<>>
           /\ RdpKeepEnabled(cs, E2, minPts, len, Top[1], Top[2])
           /\ stack' = Tail(stack) /\ UNCHANGED <<cs, eps, minPts, alg, alive, len, dropped, pc>>
RdpDone == /\ pc = "run" /\ alg = "rdp" /\ stack = <<>>
           /\ pc' = "done" /\ UNCHANGED <<cs, eps, minPts, alg, alive, stack, len, dropped>>
Next == VwRemove \/ VwStop \/ RdpTrivial \/ RdpSplit \/ RdpCull \/ RdpKeep \/ RdpDone
Spec == Init /\ [][Next]_vars /\ WF_vars(Next)

Shape ==
    /\ alg = "rdp" =>
         /\ \A q \in 1 .. Len(stack) - 1 : stack[q][2] = stack[q + 1][1]
         /\ \A q \in DOMAIN stack : stack[q][1] < stack[q][2]
         /\ stack # <<>> => stack[Len(stack)][2] = N /\ \A d \in dropped : d < stack[1][1]
         /\ len = N - Cardinality(dropped)
         /\ len >= Min2(N, minPts)
         /\ 1 \notin dropped /\ N \notin dropped
    /\ alg = "vw" =>
         /\ \A p \in 1 .. Len(alive) - 1 : alive[p] < alive[p + 1]
         /\ N >= 1 => alive[1] = 1 /\ alive[Len(alive)] = N
DonePost ==
    pc = "done" =>
      IF alg = "vw" THEN VwPost(cs, eps, alive) /\ alive \in G!AdmVw(cs, eps)
      ELSE LET r == RdpKeptSeq(N, dropped) IN
           /\ RdpPost(cs, E2, r) /\ Len(r) >= Min2(N, minPts)
           /\ r \in G!AdmRdp(cs, eps, minPts)
           /\ Len(r) = len
Termination == <>(pc = "done")
=============================================================================

------------------------------ MODULE PointSet ------------------------------
(***************************************************************************)
(* Point-set semantics of the ten geo geometry types (OGC SFA):            *)
(*   Pos(g, p) \in {"I","B","E"}  - p in interior / boundary / exterior    *)
(* and the DE-9IM matrix evaluated on the octilinear witness lattice       *)
(* (DESIGN.md section 3.2).  Geometries are records tagged by field t.     *)
(***************************************************************************)
EXTENDS Lattice

Pt(c)          == [t |-> "Point", c |-> c]
Ln(a, b)       == [t |-> "Line", a |-> a, b |-> b]
LS(cs)         == [t |-> "LineString", cs |-> cs]
Poly(ext, hs)  == [t |-> "Polygon", ext |-> ext, holes |-> hs]
MPt(cs)        == [t |-> "MultiPoint", cs |-> cs]
MLS(ls)        == [t |-> "MultiLineString", ls |-> ls]
MPoly(ps)      == [t |-> "MultiPolygon", ps |-> ps]
Rc(a, b)       == [t |-> "Rect", a |-> a, b |-> b]
Tri(a, b, c)   == [t |-> "Triangle", a |-> a, b |-> b, c |-> c]
GC(gs)         == [t |-> "GeometryCollection", gs |-> gs]

RectRing(a, b) == LET x0 == Min2(a[1], b[1])  x1 == Max2(a[1], b[1])
                      y0 == Min2(a[2], b[2])  y1 == Max2(a[2], b[2])
                  IN << <<x0, y0>>, <<x1, y0>>, <<x1, y1>>, <<x0, y1>>, <<x0, y0>> >>
TriRing(a, b, c) == <<a, b, c, a>>

-----------------------------------------------------------------------------
LinePos(p, cs) ==
    IF Len(cs) = 0 THEN "E"
    ELSE IF Len(cs) = 1 THEN (IF p = cs[1] THEN "I" ELSE "E")
    ELSE IF cs[1] # cs[Len(cs)] /\ (p = cs[1] \/ p = cs[Len(cs)]) THEN "B"
    ELSE IF OnRing(p, cs) THEN "I" ELSE "E"

PolyPos(p, ext, holes) ==
    IF Len(ext) = 0 THEN "E"
    ELSE LET e == RingPos(p, ext) IN
         IF e # "I" THEN e
         ELSE IF \E h \in DOMAIN holes : RingPos(p, holes[h]) = "B" THEN "B"
         ELSE IF \E h \in DOMAIN holes : RingPos(p, holes[h]) = "I" THEN "E" ELSE "I"

\* mod-2 rule: boundary = endpoints of an odd number of member curves
MLSPos(p, ls) ==
    LET nb == Cardinality({i \in DOMAIN ls : LinePos(p, ls[i]) = "B"}) IN
    IF nb % 2 = 1 THEN "B"
    ELSE IF \E i \in DOMAIN ls : LinePos(p, ls[i]) # "E" THEN "I" ELSE "E"

\* MultiPolygon: union of member boundaries (valid members have disjoint interiors)
MPolyPos(p, ps) ==
    IF \E i \in DOMAIN ps : PolyPos(p, ps[i].ext, ps[i].holes) = "B" THEN "B"
    ELSE IF \E i \in DOMAIN ps : PolyPos(p, ps[i].ext, ps[i].holes) = "I" THEN "I" ELSE "E"

RECURSIVE Pos(_, _)
Pos(g, p) ==
    CASE g.t = "Point"      -> IF p = g.c THEN "I" ELSE "E"
      [] g.t = "MultiPoint" -> IF \E i \in DOMAIN g.cs : g.cs[i] = p THEN "I" ELSE "E"
      [] g.t = "Line"       -> IF g.a = g.b THEN (IF p = g.a THEN "I" ELSE "E")
                               ELSE IF p = g.a \/ p = g.b THEN "B"
                               ELSE IF OnSeg(p, g.a, g.b) THEN "I" ELSE "E"
      [] g.t = "LineString" -> LinePos(p, g.cs)
      [] g.t = "Polygon"    -> PolyPos(p, g.ext, g.holes)
      [] g.t = "MultiLineString" -> MLSPos(p, g.ls)
      [] g.t = "MultiPolygon"    -> MPolyPos(p, g.ps)
      [] g.t = "Rect"       -> RingPos(p, RectRing(g.a, g.b))
      [] g.t = "Triangle"   -> RingPos(p, TriRing(g.a, g.b, g.c))
      \* members pairwise disjoint (domain of C01): at most one member is not "E"
      [] g.t = "GeometryCollection" ->
            IF \E i \in DOMAIN g.gs : Pos(g.gs[i], p) = "B" THEN "B"
            ELSE IF \E i \in DOMAIN g.gs : Pos(g.gs[i], p) = "I" THEN "I" ELSE "E"

RECURSIVE Dim(_)
Dim(g) ==
    CASE g.t = "Point" -> 0
      [] g.t = "MultiPoint" -> IF Len(g.cs) = 0 THEN -1 ELSE 0
      [] g.t = "Line" -> IF g.a = g.b THEN 0 ELSE 1
      [] g.t = "LineString" -> IF Len(g.cs) = 0 THEN -1 ELSE IF \A i \in DOMAIN g.cs : g.cs[i] = g.cs[1] THEN 0 ELSE 1
      [] g.t = "Polygon" -> IF Len(g.ext) = 0 THEN -1 ELSE 2
      [] g.t = "MultiLineString" -> IF \A i \in DOMAIN g.ls : Len(g.ls[i]) = 0 THEN -1 ELSE 1
      [] g.t = "MultiPolygon" -> IF \A i \in DOMAIN g.ps : Len(g.ps[i].ext) = 0 THEN -1 ELSE 2
      [] g.t = "Rect" -> IF g.a = g.b THEN 0 ELSE IF g.a[1] = g.b[1] \/ g.a[2] = g.b[2] THEN 1 ELSE 2
      [] g.t = "Triangle" -> IF Cross(g.a, g.b, g.c) # 0 THEN 2 ELSE IF g.a = g.b /\ g.b = g.c THEN 0 ELSE 1
      [] g.t = "GeometryCollection" -> IF Len(g.gs) = 0 THEN -1 ELSE SetMax({Dim(g.gs[i]) : i \in DOMAIN g.gs})

\* ---- dimension of the boundary (OGC-SFA): points have none, an open curve its two end points, a closed one none,
\* multi-curves follow the mod-2 rule, areas have curves
OddEndpoints(ls) == \E i \in DOMAIN ls : Len(ls[i]) >= 2 /\ ls[i][1] # ls[i][Len(ls[i])] /\
    \E e \in {ls[i][1], ls[i][Len(ls[i])]} :
        ((Cardinality({j \in DOMAIN ls : Len(ls[j]) >= 2 /\ ls[j][1] # ls[j][Len(ls[j])] /\ ls[j][1] = e})
          + Cardinality({j \in DOMAIN ls : Len(ls[j]) >= 2 /\ ls[j][1] # ls[j][Len(ls[j])] /\ ls[j][Len(ls[j])] = e})) % 2) = 1
RECURSIVE BDim(_)
BDim(g) ==
    CASE g.t \in {"Point", "MultiPoint"} -> -1
      [] g.t = "Line" -> IF g.a = g.b THEN -1 ELSE 0
      [] g.t = "LineString" -> IF Dim(g) <= 0 \/ g.cs[1] = g.cs[Len(g.cs)] THEN -1 ELSE 0
      [] g.t = "MultiLineString" -> IF OddEndpoints(g.ls) THEN 0 ELSE -1
      [] g.t \in {"Polygon", "MultiPolygon", "Rect", "Triangle"} -> IF Dim(g) <= 0 THEN -1 ELSE Dim(g) - 1
      [] g.t = "GeometryCollection" -> IF Len(g.gs) = 0 THEN -1 ELSE SetMax({BDim(g.gs[i]) : i \in DOMAIN g.gs})

\* ---- segments and vertices of a geometry (sets)
RingSegs(r) == {<<r[i], r[i+1]>> : i \in Edges(r)}
PathSegs(cs) == IF Len(cs) = 1 THEN {<<cs[1], cs[1]>>} ELSE RingSegs(cs)
PolySegs(ext, holes) == RingSegs(ext) \cup UNION {RingSegs(holes[i]) : i \in DOMAIN holes}
RECURSIVE Segs(_)
Segs(g) ==
    CASE g.t = "Point" -> {<<g.c, g.c>>}
      [] g.t = "MultiPoint" -> {<<g.cs[i], g.cs[i]>> : i \in DOMAIN g.cs}
      [] g.t = "Line" -> {<<g.a, g.b>>}
      [] g.t = "LineString" -> PathSegs(g.cs)
      [] g.t = "MultiLineString" -> UNION {PathSegs(g.ls[i]) : i \in DOMAIN g.ls}
      [] g.t = "Polygon" -> PolySegs(g.ext, g.holes)
      [] g.t = "MultiPolygon" -> UNION {PolySegs(g.ps[i].ext, g.ps[i].holes) : i \in DOMAIN g.ps}
      [] g.t = "Rect" -> RingSegs(RectRing(g.a, g.b))
      [] g.t = "Triangle" -> RingSegs(TriRing(g.a, g.b, g.c))
      [] g.t = "GeometryCollection" -> UNION {Segs(g.gs[i]) : i \in DOMAIN g.gs}
\* no segment of a crosses a segment of b properly (all contacts are at vertices or along edges)
NoProperCrossing(a, b) == \A s \in Segs(a), t \in Segs(b) : ~SegSegProper(s[1], s[2], t[1], t[2])

-----------------------------------------------------------------------------
\* Witness lattice.  Kind(p) is the dimension a witness at p can prove.
Fine(lo, hi) == (lo .. hi) \X (lo .. hi)
Kind(p) == IF p[1] % 2 = 0 /\ p[2] % 2 = 0 THEN 0
           ELSE IF (p[1] % 2 = 1 /\ p[2] % 4 = 2) \/ (p[2] % 2 = 1 /\ p[1] % 4 = 2) THEN 2
           ELSE 1

PosMap(g, F) == [p \in F |-> Pos(g, p)]

DimChar(d) == IF d = -1 THEN "F" ELSE IF d = 0 THEN "0" ELSE IF d = 1 THEN "1" ELSE "2"
PB == <<"I", "B", "E">>
\* DE-9IM from two position maps over the same fine lattice F, as the 9-character string
\* II IB IE BI BB BE EI EB EE
IMofMaps(pa, pb, F) ==
    LET S == {<<pa[p], pb[p], Kind(p)>> : p \in F}
        cell(x, y) == IF <<x, y, 2>> \in S THEN 2 ELSE IF <<x, y, 1>> \in S THEN 1
                      ELSE IF <<x, y, 0>> \in S THEN 0 ELSE -1
        c(i, j) == DimChar(cell(PB[i], PB[j]))
    IN c(1,1) \o c(1,2) \o c(1,3) \o c(2,1) \o c(2,2) \o c(2,3) \o c(3,1) \o c(3,2) \o c(3,3)
DE9IM(a, b, F) == IMofMaps(PosMap(a, F), PosMap(b, F), F)

\* named predicates as masks on the matrix string (1-based character positions)
Ch(im, k) == SubSeq(im, k, k)
ImIntersects(im) == ~(Ch(im,1) = "F" /\ Ch(im,2) = "F" /\ Ch(im,4) = "F" /\ Ch(im,5) = "F")
ImDisjoint(im)   == ~ImIntersects(im)
ImContains(im)   == Ch(im,1) # "F" /\ Ch(im,7) = "F" /\ Ch(im,8) = "F"
ImWithin(im)     == Ch(im,1) # "F" /\ Ch(im,3) = "F" /\ Ch(im,6) = "F"
ImCovers(im)     == (Ch(im,1) # "F" \/ Ch(im,2) # "F" \/ Ch(im,4) # "F" \/ Ch(im,5) # "F")
                    /\ Ch(im,7) = "F" /\ Ch(im,8) = "F"
\* the other named predicates of the OGC model (IntersectionMatrix::is_*): masks, with the dimensions of the operands where
\* the definition depends on them (crosses, overlaps); da, db = -1 for an empty operand
ImT(im, k) == Ch(im, k) # "F"
ImCoveredBy(im) == (ImT(im,1) \/ ImT(im,2) \/ ImT(im,4) \/ ImT(im,5)) /\ Ch(im,3) = "F" /\ Ch(im,6) = "F"
ImEqualTopo(im) == ImT(im,1) /\ Ch(im,3) = "F" /\ Ch(im,6) = "F" /\ Ch(im,7) = "F" /\ Ch(im,8) = "F"
ImTouches(im)   == Ch(im,1) = "F" /\ (ImT(im,2) \/ ImT(im,4) \/ ImT(im,5))
ImCrosses(im, da, db) ==
    IF da < 0 \/ db < 0 THEN FALSE
    ELSE IF da < db THEN ImT(im,1) /\ ImT(im,3)
    ELSE IF da > db THEN ImT(im,1) /\ ImT(im,7)
    ELSE IF da = 1 THEN Ch(im,1) = "0" ELSE FALSE
ImOverlaps(im, da, db) ==
    IF da < 0 \/ da # db THEN FALSE
    ELSE IF da = 1 THEN Ch(im,1) = "1" /\ ImT(im,3) /\ ImT(im,7)
    ELSE ImT(im,1) /\ ImT(im,3) /\ ImT(im,7)
\* the dimension of an operand as the matrix shows it: the largest entry of its interior row / column
ChDim(c) == IF c = "F" THEN -1 ELSE IF c = "0" THEN 0 ELSE IF c = "1" THEN 1 ELSE 2
Max3(a, b, c) == IF a >= b /\ a >= c THEN a ELSE IF b >= c THEN b ELSE c
ImRowDim(im) == Max3(ChDim(Ch(im,1)), ChDim(Ch(im,2)), ChDim(Ch(im,3)))
ImColDim(im) == Max3(ChDim(Ch(im,1)), ChDim(Ch(im,4)), ChDim(Ch(im,7)))
ImTransposeIdx == <<1, 4, 7, 2, 5, 8, 3, 6, 9>>
ImTranspose(im) == Ch(im,1) \o Ch(im,4) \o Ch(im,7) \o Ch(im,2) \o Ch(im,5) \o Ch(im,8)
                   \o Ch(im,3) \o Ch(im,6) \o Ch(im,9)
=============================================================================

------------------------------- MODULE PolyInd -------------------------------
(***************************************************************************)
(* C18, unbounded: the typed (Apalache) restatement of the polygon / rect  *)
(* part of PolySession.tla, used to discharge RingsClosed /\ RectOrdered   *)
(* as an INDUCTIVE invariant - for histories of any length, rings of any   *)
(* length (up to the Gen bound in one step) and unbounded integer          *)
(* coordinates.  A closure is abstracted to its effect: it replaces the    *)
(* ring by ANY sequence (which covers every edit sequence of PolySession)  *)
(* and exits with Ok or Err; the REQUIRED behaviour re-closes on both.     *)
(*   apalache-mc check --init=Init    --inv=IndInv --length=0 PolyInd.tla  *)
(*   apalache-mc check --init=IndInit --inv=IndInv --length=1 PolyInd.tla  *)
(* CloseOnErr = FALSE is the named deviation of the pinned tree and must   *)
(* be refuted (negative control).                                          *)
(***************************************************************************)
EXTENDS Integers, Sequences, Apalache

CONSTANT
    \* @type: Bool;
    CloseOnErr

VARIABLES
    \* @type: Seq(Int);
    ext,
    \* @type: Seq(Seq(Int));
    holes,
    \* @type: <<Int, Int>>;
    rmin,
    \* @type: <<Int, Int>>;
    rmax

\* @type: (Seq(Int)) => Bool;
Closed(r) == Len(r) = 0 \/ r[1] = r[Len(r)]
\* @type: (Seq(Int)) => Seq(Int);
Close(r) == IF Closed(r) THEN r ELSE Append(r, r[1])
\* @type: (Seq(Int), Bool) => Seq(Int);
AfterTry(r, ok) == IF ok \/ CloseOnErr THEN Close(r) ELSE r

\* @type: Seq(Int);
AnyRing == Gen(6)
\* @type: Seq(Seq(Int));
AnyRings == Gen(3)
\* @type: Seq(Int);
NoRing == <<>>
\* @type: Seq(Seq(Int));
NoHoles == <<>>
Init == ext = NoRing /\ holes = NoHoles /\ rmin = <<0, 0>> /\ rmax = <<0, 0>>

PolygonNew ==
    \E e \in {AnyRing} : \E hs \in {AnyRings} :
        /\ ext' = Close(e)
        /\ \E h2 \in {AnyRings} : /\ Len(h2) = Len(hs) /\ \A i \in DOMAIN hs : h2[i] = Close(hs[i])
                                  /\ holes' = h2
        /\ UNCHANGED <<rmin, rmax>>
\* exterior_mut / try_exterior_mut: the closure leaves any ring r2 behind and exits with ok
ExteriorMut == \E r2 \in {AnyRing} : ext' = Close(r2) /\ UNCHANGED <<holes, rmin, rmax>>
TryExteriorMut == \E r2 \in {AnyRing} : \E ok \in BOOLEAN :
        ext' = AfterTry(r2, ok) /\ UNCHANGED <<holes, rmin, rmax>>
\* interiors_mut / try_interiors_mut: the closure gets &mut [LineString]: any new rings, same count
InteriorsMut == \E hs \in {AnyRings} :
        /\ Len(hs) = Len(holes)
        /\ \E h2 \in {AnyRings} : /\ Len(h2) = Len(hs) /\ \A i \in DOMAIN hs : h2[i] = Close(hs[i])
                                  /\ holes' = h2
        /\ UNCHANGED <<ext, rmin, rmax>>
TryInteriorsMut == \E hs \in {AnyRings} : \E ok \in BOOLEAN :
        /\ Len(hs) = Len(holes)
        /\ \E h2 \in {AnyRings} : /\ Len(h2) = Len(hs) /\ \A i \in DOMAIN hs : h2[i] = AfterTry(hs[i], ok)
                                  /\ holes' = h2
        /\ UNCHANGED <<ext, rmin, rmax>>
InteriorsPush == \E r \in {AnyRing} : holes' = Append(holes, Close(r)) /\ UNCHANGED <<ext, rmin, rmax>>

RectNew == \E ax \in Int, ay \in Int, bx \in Int, by \in Int :
        /\ rmin' = <<IF ax <= bx THEN ax ELSE bx, IF ay <= by THEN ay ELSE by>>
        /\ rmax' = <<IF ax >= bx THEN ax ELSE bx, IF ay >= by THEN ay ELSE by>>
        /\ UNCHANGED <<ext, holes>>
\* set_min / set_max: panic (state unchanged) on invalid bounds
RectSetMin == \E cx \in Int, cy \in Int :
        /\ rmin' = IF cx <= rmax[1] /\ cy <= rmax[2] THEN <<cx, cy>> ELSE rmin
        /\ UNCHANGED <<ext, holes, rmax>>
RectSetMax == \E cx \in Int, cy \in Int :
        /\ rmax' = IF rmin[1] <= cx /\ rmin[2] <= cy THEN <<cx, cy>> ELSE rmax
        /\ UNCHANGED <<ext, holes, rmin>>

Next == \/ PolygonNew \/ ExteriorMut \/ TryExteriorMut \/ InteriorsMut \/ TryInteriorsMut \/ InteriorsPush
        \/ RectNew \/ RectSetMin \/ RectSetMax

RingsClosed == Closed(ext) /\ \A i \in DOMAIN holes : Closed(holes[i])
RectOrdered == rmin[1] <= rmax[1] /\ rmin[2] <= rmax[2]
IndInv == RingsClosed /\ RectOrdered
\* any state that satisfies the invariant (rings up to 6 coordinates, up to 3 holes, any integers)
IndInit == /\ ext = AnyRing /\ holes = AnyRings
           /\ \E ax \in Int, ay \in Int, bx \in Int, by \in Int : rmin = <<ax, ay>> /\ rmax = <<bx, by>>
           /\ IndInv
CInitT == CloseOnErr = TRUE
CInitF == CloseOnErr = FALSE
=============================================================================

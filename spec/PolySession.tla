----------------------------- MODULE PolySession -----------------------------
(***************************************************************************)
(* C18 - the structural invariants of geo-types under every API history.   *)
(* State: one Polygon (exterior ring + holes), one free LineString, one    *)
(* Rect.  Transitions: the public constructor / mutator calls, with the    *)
(* closure passed to a mutator modelled as a finite sequence of primitive  *)
(* edits followed by its exit ("Ok" or "Err").  The specification states   *)
(* the REQUIRED behaviour: rings are re-closed on every exit.              *)
(* Ring coordinates are abstract identifiers 1..NC (the harness maps k to  *)
(* the coordinate (k, k*k)); Rect corners are pairs over 0..RC.            *)
(***************************************************************************)
EXTENDS Integers, Sequences, FiniteSets, TLC, Json

CONSTANTS NC,        \* number of distinct ring coordinates
          MaxLen,    \* state constraint: ring length bound (before closing)
          MaxHoles,
          MaxEdits,  \* closure = at most this many primitive edits
          RC,        \* rect coordinates 0..RC
          CloseOnErr,\* TRUE = required behaviour; FALSE = named deviation (early return on Err)
          EmitCases, \* TRUE: print one replay case per transition
          Focus,     \* "all" | "poly" | "ls" | "rect": which component's actions are enabled
          ChainLen   \* > 0: keep the history and print it when it reaches this length (simulation mode)

Coord == 1 .. NC
Closed(r) == r = <<>> \/ r[1] = r[Len(r)]
Close(r)  == IF Closed(r) THEN r ELSE Append(r, r[1])

Edit == [op : {"push"}, c : Coord] \cup [op : {"pop", "clear"}] \cup [op : {"set"}, i : 1 .. 2, c : Coord]
            \cup [op : {"insert0"}, c : Coord]
ApplyEdit(r, e) ==
    CASE e.op = "push"    -> Append(r, e.c)
      [] e.op = "pop"     -> IF r = <<>> THEN r ELSE SubSeq(r, 1, Len(r) - 1)
      [] e.op = "clear"   -> <<>>
      [] e.op = "set"     -> IF e.i <= Len(r) THEN [r EXCEPT ![e.i] = e.c] ELSE r
      [] e.op = "insert0" -> <<e.c>> \o r
RECURSIVE ApplyEdits(_, _)
ApplyEdits(r, es) == IF es = <<>> THEN r ELSE ApplyEdits(ApplyEdit(r, Head(es)), Tail(es))

EditSeqs == UNION {[1 .. n -> Edit] : n \in 0 .. MaxEdits}
Exits == {"Ok", "Err"}
RingsIn == UNION {[1 .. n -> Coord] : n \in 0 .. 3}     \* constructor / push arguments (maybe open)
RPt == (0 .. RC) \X (0 .. RC)

VARIABLES ext, holes, ls, rmin, rmax, ret,
          hist        \* observation only: the actions taken so far (empty unless ChainLen > 0)
vars == <<ext, holes, ls, rmin, rmax, ret, hist>>
View == <<ext, holes, ls, rmin, rmax, ret>>
State == [ext |-> ext, holes |-> holes, ls |-> ls, rmin |-> rmin, rmax |-> rmax]
StateP == [ext |-> ext', holes |-> holes', ls |-> ls', rmin |-> rmin', rmax |-> rmax']

Init == /\ ext = <<>> /\ holes = <<>> /\ ls = <<>>
        /\ rmin = <<0, 0>> /\ rmax = <<0, 0>> /\ ret = "init" /\ hist = <<>>

Emit(act) ==
    /\ EmitCases => PrintT(<<"CASE", ToJson([op |-> "c18_step", pre |-> State, act |-> act, post |-> StateP, ret |-> ret'])>>)
    /\ hist' = IF ChainLen > 0 THEN Append(hist, [act |-> act, post |-> StateP, ret |-> ret']) ELSE <<>>

\* what a fallible mutator leaves behind: required = closed on both exits
AfterTry(r, exit) == IF exit = "Ok" \/ CloseOnErr THEN Close(r) ELSE r

PolygonNew(e, hs) ==
    /\ ext' = Close(e) /\ holes' = [i \in DOMAIN hs |-> Close(hs[i])]
    /\ UNCHANGED <<ls, rmin, rmax>> /\ ret' = "unit"
    /\ Emit([name |-> "polygon_new", ext |-> e, holes |-> hs])
ExteriorMut(es) ==
    /\ ext' = Close(ApplyEdits(ext, es))
    /\ UNCHANGED <<holes, ls, rmin, rmax>> /\ ret' = "unit"
    /\ Emit([name |-> "exterior_mut", edits |-> es])
TryExteriorMut(es, exit) ==
    /\ ext' = AfterTry(ApplyEdits(ext, es), exit)
    /\ UNCHANGED <<holes, ls, rmin, rmax>> /\ ret' = exit
    /\ Emit([name |-> "try_exterior_mut", edits |-> es, exit |-> exit])
\* the closure receives &mut [LineString]: it can edit any ring but not add or remove rings
InteriorsMut(k, es) ==
    /\ k \in DOMAIN holes
    /\ holes' = [i \in DOMAIN holes |-> Close(IF i = k THEN ApplyEdits(holes[i], es) ELSE holes[i])]
    /\ UNCHANGED <<ext, ls, rmin, rmax>> /\ ret' = "unit"
    /\ Emit([name |-> "interiors_mut", k |-> k, edits |-> es])
TryInteriorsMut(k, es, exit) ==
    /\ k \in DOMAIN holes
    /\ holes' = [i \in DOMAIN holes |-> AfterTry(IF i = k THEN ApplyEdits(holes[i], es) ELSE holes[i], exit)]
    /\ UNCHANGED <<ext, ls, rmin, rmax>> /\ ret' = exit
    /\ Emit([name |-> "try_interiors_mut", k |-> k, edits |-> es, exit |-> exit])
InteriorsPush(r) ==
    /\ Len(holes) < MaxHoles
    /\ holes' = Append(holes, Close(r))
    /\ UNCHANGED <<ext, ls, rmin, rmax>> /\ ret' = "unit"
    /\ Emit([name |-> "interiors_push", ring |-> r])
LineStringEdit(es) ==             \* a free LineString may be open
    /\ ls' = ApplyEdits(ls, es)
    /\ UNCHANGED <<ext, holes, rmin, rmax>> /\ ret' = "unit"
    /\ Emit([name |-> "linestring_edit", edits |-> es])
LineStringClose ==
    /\ ls' = Close(ls)
    /\ UNCHANGED <<ext, holes, rmin, rmax>> /\ ret' = "unit"
    /\ Emit([name |-> "linestring_close"])
\* a polygon built from the free line string (covers Polygon::new on arbitrary earlier results)
PolygonFromLs ==
    /\ ext' = Close(ls)
    /\ UNCHANGED <<holes, ls, rmin, rmax>> /\ ret' = "unit"
    /\ Emit([name |-> "polygon_from_ls"])

Min2(a, b) == IF a <= b THEN a ELSE b
Max2(a, b) == IF a >= b THEN a ELSE b
RectNew(c1, c2) ==
    /\ rmin' = <<Min2(c1[1], c2[1]), Min2(c1[2], c2[2])>>
    /\ rmax' = <<Max2(c1[1], c2[1]), Max2(c1[2], c2[2])>>
    /\ UNCHANGED <<ext, holes, ls>> /\ ret' = "unit"
    /\ Emit([name |-> "rect_new", c1 |-> c1, c2 |-> c2])
\* set_min / set_max panic on invalid bounds and must then leave the Rect as it was
RectSetMin(c) ==
    /\ IF c[1] <= rmax[1] /\ c[2] <= rmax[2] THEN rmin' = c /\ ret' = "unit" ELSE rmin' = rmin /\ ret' = "panic"
    /\ UNCHANGED <<ext, holes, ls, rmax>>
    /\ Emit([name |-> "rect_set_min", c |-> c])
RectSetMax(c) ==
    /\ IF rmin[1] <= c[1] /\ rmin[2] <= c[2] THEN rmax' = c /\ ret' = "unit" ELSE rmax' = rmax /\ ret' = "panic"
    /\ UNCHANGED <<ext, holes, ls, rmin>>
    /\ Emit([name |-> "rect_set_max", c |-> c])

NextPoly ==
    \/ \E e \in RingsIn : \E nh \in 0 .. 1 : \E h \in RingsIn : PolygonNew(e, IF nh = 0 THEN <<>> ELSE <<h>>)
    \/ \E es \in EditSeqs : ExteriorMut(es)
    \/ \E es \in EditSeqs, x \in Exits : TryExteriorMut(es, x)
    \/ \E k \in 1 .. MaxHoles, es \in EditSeqs : InteriorsMut(k, es)
    \/ \E k \in 1 .. MaxHoles, es \in EditSeqs, x \in Exits : TryInteriorsMut(k, es, x)
    \/ \E r \in RingsIn : InteriorsPush(r)
NextLs ==
    \/ \E es \in EditSeqs : LineStringEdit(es)
    \/ LineStringClose
    \/ PolygonFromLs
NextRect ==
    \/ \E c1 \in RPt, c2 \in RPt : RectNew(c1, c2)
    \/ \E c \in RPt : RectSetMin(c)
    \/ \E c \in RPt : RectSetMax(c)
Next == \/ Focus \in {"all", "poly"} /\ NextPoly
        \/ Focus \in {"all", "ls"} /\ NextLs
        \/ Focus \in {"all", "rect"} /\ NextRect

Spec == Init /\ [][Next]_vars

Bounded == /\ Len(ext) <= MaxLen + 1 /\ Len(ls) <= MaxLen
           /\ \A i \in DOMAIN holes : Len(holes[i]) <= MaxLen + 1

-----------------------------------------------------------------------------
\* The property (C18)
ChainOut == Len(hist) = ChainLen /\ ChainLen > 0 => PrintT(<<"CASE", ToJson([op |-> "c18_chain", steps |-> hist])>>)
RingsClosed == Closed(ext) /\ \A i \in DOMAIN holes : Closed(holes[i])
RectOrdered == rmin[1] <= rmax[1] /\ rmin[2] <= rmax[2]
TypeOK == /\ ext \in Seq(Coord) /\ ls \in Seq(Coord) /\ ret \in {"init", "unit", "Ok", "Err", "panic"}
          /\ rmin \in RPt /\ rmax \in RPt

-----------------------------------------------------------------------------
\* Conversions between equivalent representations (pure; emitted once as replay cases)
RectToPolygon(a, b)   == << <<b[1], a[2]>>, <<b[1], b[2]>>, <<a[1], b[2]>>, <<a[1], a[2]>>, <<b[1], a[2]>> >>   \* Rect::to_polygon
RectIntoPolygon(a, b) == << <<a[1], a[2]>>, <<b[1], a[2]>>, <<b[1], b[2]>>, <<a[1], b[2]>>, <<a[1], a[2]>> >>   \* From<Rect>
TriToPolygon(p, q, r) == <<p, q, r, p>>
LineToLineString(p, q) == <<p, q>>
=============================================================================

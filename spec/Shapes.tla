------------------------------- MODULE Shapes -------------------------------
(***************************************************************************)
(* Shape generators over the octilinear universe O(n) (DESIGN.md 3.2):     *)
(* vertices on {0,4,..,4n}^2, every segment horizontal, vertical or at 45  *)
(* degrees.  Also the OGC validity predicates on that universe, which      *)
(* define the domain of C01/C02 ("valid geometries").                      *)
(***************************************************************************)
EXTENDS PointSet, SequencesExt

VCoord(n) == {4 * i : i \in 0 .. n}
VPts(n)   == VCoord(n) \X VCoord(n)
EPts(n)   == {2 * i : i \in 0 .. 2 * n} \X {2 * i : i \in 0 .. 2 * n}
FineOf(n) == Fine(-1, 4 * n + 1)

Octi(a, b) == a # b /\ (a[1] = b[1] \/ a[2] = b[2] \/ Abs(a[1] - b[1]) = Abs(a[2] - b[2]))

\* closed segments s = [a,b], t = [c,d] share exactly the point x and nothing else
MeetOnlyAt(a, b, c, d, x) ==
    /\ OnSeg(x, a, b) /\ OnSeg(x, c, d)
    /\ \/ Cross(a, b, c) # 0 \/ Cross(a, b, d) # 0          \* not collinear: at most one common point
       \/ (a = b /\ c = d)
       \/ /\ Cross(a, b, c) = 0 /\ Cross(a, b, d) = 0         \* collinear: must abut at x only
          /\ (x = a \/ x = b) /\ (x = c \/ x = d)
          /\ LET oa == IF x = a THEN b ELSE a   oc == IF x = c THEN d ELSE c
             IN Dot(x, oa, oc) < 0 \/ oa = x \/ oc = x

\* OGC simple line string: no self-intersection except first = last of a closed one
SimplePath(cs) ==
    /\ Len(cs) >= 2
    /\ \A i \in Edges(cs) : cs[i] # cs[i+1]
    /\ \A i \in Edges(cs) : \A j \in Edges(cs) : i < j =>
         IF j = i + 1 THEN
              IF Len(cs) = 3 /\ cs[1] = cs[3] THEN FALSE
              ELSE MeetOnlyAt(cs[i], cs[i+1], cs[j], cs[j+1], cs[j])
         ELSE IF i = 1 /\ j = Len(cs) - 1 /\ cs[1] = cs[Len(cs)]
              THEN MeetOnlyAt(cs[i], cs[i+1], cs[j], cs[j+1], cs[1])
         ELSE ~SegSegMeet(cs[i], cs[i+1], cs[j], cs[j+1])

NoFlatVertex(cs) == \A i \in 2 .. Len(cs) - 1 : Cross(cs[i-1], cs[i], cs[i+1]) # 0

\* open or closed simple octilinear paths with exactly k segments, no collinear interior vertex
Seg1(n) == {<<a, b>> : a \in VPts(n), b \in VPts(n)}
\* all one-segment extensions of the open paths in P that stay simple and bend at the joint
ExtendPaths(n, P) ==
    UNION { {Append(q, c) : c \in {c \in VPts(n) : Octi(q[Len(q)], c)
                                      /\ Cross(q[Len(q) - 1], q[Len(q)], c) # 0
                                      /\ SimplePath(Append(q, c))}}
            : q \in {q \in P : q[1] # q[Len(q)]} }
Paths1(n) == {s \in Seg1(n) : Octi(s[1], s[2])}
\* orientation-free canonical form for open paths: first endpoint lexicographically below the last
CanonOpen(P) == {q \in P : q[1] # q[Len(q)] /\ LexLess(q[1], q[Len(q)])}
\* canonical simple rings with k edges: closed, ccw, start at lexicographically least vertex,
\* no collinear vertex anywhere (including across the closing point)
RingsOf(P) == {q \in P :
                  /\ q[1] = q[Len(q)] /\ Area2(q) > 0
                  /\ \A i \in 2 .. Len(q) - 1 : LexLess(q[1], q[i])
                  /\ Cross(q[Len(q) - 1], q[1], q[2]) # 0}

-----------------------------------------------------------------------------
\* Validity on the witness lattice.  pa / pb are position maps over F.
\* interiors disjoint and boundaries meeting in isolated points only
TouchOnlyAtPoints(pa, pb, F) ==
    \A p \in F : /\ ~(pa[p] = "I" /\ pb[p] = "I")
                 /\ ~(pa[p] = "I" /\ pb[p] = "B" /\ Kind(p) >= 1)
                 /\ ~(pa[p] = "B" /\ pb[p] = "I" /\ Kind(p) >= 1)
                 /\ ~(pa[p] = "B" /\ pb[p] = "B" /\ Kind(p) >= 1)
DisjointMaps(pa, pb, F) == \A p \in F : pa[p] = "E" \/ pb[p] = "E"
TouchCount(pa, pb, F) == Cardinality({p \in F : pa[p] = "B" /\ pb[p] = "B"})
\* region of ring h lies in the closed region of ring e, touching its boundary only at points
HoleInShell(ph, pe, F) ==
    \A p \in F : /\ (ph[p] # "E" => pe[p] # "E")
                 /\ ~(ph[p] = "B" /\ pe[p] = "B" /\ Kind(p) >= 1)
RingMap(r, F) == [p \in F |-> RingPos(p, r)]

\* valid polygon with at most two holes (touch graph of rings acyclic => interior connected)
ValidPolygon(ext, holes, F) ==
    /\ Len(holes) <= 2
    /\ LET pe == RingMap(ext, F)
           ph == [i \in DOMAIN holes |-> RingMap(holes[i], F)]
       IN /\ \A i \in DOMAIN holes : HoleInShell(ph[i], pe, F) /\ TouchCount(ph[i], pe, F) <= 1
          /\ Len(holes) = 2 =>
               /\ TouchOnlyAtPoints(ph[1], ph[2], F) /\ TouchCount(ph[1], ph[2], F) <= 1
               /\ TouchCount(ph[1], pe, F) + TouchCount(ph[2], pe, F) + TouchCount(ph[1], ph[2], F) <= 2
=============================================================================

----------------------------- MODULE SimplifySM -----------------------------
(***************************************************************************)
(* The two line-simplification algorithms of geo as STATE MACHINES, one    *)
(* action per step the implementation takes (hooks H2 / H3 report exactly  *)
(* these steps):                                                           *)
(*                                                                         *)
(*  Visvalingam-Whyatt (simplify_vw.rs, visvalingam_indices)               *)
(*    state   alive   the sorted sequence of vertex positions still kept   *)
(*    VwRemove(v)  v is an interior alive vertex whose triangle with its   *)
(*                 alive neighbours has minimal area, and that area <= eps *)
(*                 (the binary heap with lazily skipped stale entries      *)
(*                 refines this: a popped entry that is still valid is a   *)
(*                 minimum of the current triangles)                       *)
(*    VwStop       no interior vertex is left or the minimal area > eps    *)
(*                                                                         *)
(*  Ramer-Douglas-Peucker (simplify.rs, compute_rdp) - the recursion is a  *)
(*  stack of index intervals, leftmost on top; len is the global           *)
(*  simplified_len guard threaded through the recursion                    *)
(*    RdpTrivial      top = (i, i+1): nothing to do (silent in the code)   *)
(*    RdpSplit(k)     k is a farthest interior vertex of top = (i, j) and  *)
(*                    dmax >= eps : replace top by (i,k) (k,j)             *)
(*    RdpCull         dmax <= eps and len - (j-i-1) >= minPts: drop the    *)
(*                    interior of top, len decreases                       *)
(*    RdpKeep         dmax <= eps but the guard forbids culling: keep all  *)
(*  (dmax = eps exactly: floats may go either way, both are allowed; ties  *)
(*  for the farthest vertex: any of them)                                  *)
(*                                                                         *)
(* The operators take the input as arguments so that the same definitions  *)
(* serve the model-checked machine (MC_SimplifySM: all small inputs, TLC   *)
(* explores every run and checks the property in every terminal state and  *)
(* that every terminal state is an admissible output of the functional     *)
(* models of Gen_Simplify) and the trace validator (Trace_SimplifySteps:   *)
(* recorded runs of the real code on inputs of up to 40 vertices).         *)
(***************************************************************************)
EXTENDS Lattice

\* ---------------------------------------------------------------- Visvalingam-Whyatt
\* alive is a strictly increasing sequence of positions; p is a position IN alive (2 .. Len(alive) - 1)
VwA2(cs, alive, p) == Abs(Cross(cs[alive[p - 1]], cs[alive[p]], cs[alive[p + 1]]))
VwInnerPos(alive) == 2 .. (Len(alive) - 1)
VwMinA2(cs, alive) == SetMin({VwA2(cs, alive, p) : p \in VwInnerPos(alive)})
\* area = A2 / 2 <= eps = eps[1] / eps[2]
VwBelow(a2, eps) == a2 * eps[2] <= 2 * eps[1]
VwRemoveEnabled(cs, eps, alive, p) ==
    /\ p \in VwInnerPos(alive)
    /\ VwA2(cs, alive, p) = VwMinA2(cs, alive)
    /\ VwBelow(VwA2(cs, alive, p), eps)
VwStopEnabled(cs, eps, alive) ==
    IF VwInnerPos(alive) = {} THEN TRUE ELSE ~VwBelow(VwMinA2(cs, alive), eps)   \* (IF: TLC expands a disjunction inside an action)
VwRemoveAt(alive, p) == SubSeq(alive, 1, p - 1) \o SubSeq(alive, p + 1, Len(alive))
\* the postcondition of the property on a terminal state
VwPost(cs, eps, alive) ==
    /\ Len(cs) >= 1 => (alive[1] = 1 /\ alive[Len(alive)] = Len(cs))
    /\ \A p \in 1 .. Len(alive) - 1 : alive[p] < alive[p + 1]
    /\ \A p \in VwInnerPos(alive) : ~VwBelow(VwA2(cs, alive, p), eps)

\* ---------------------------------------------------------------- Douglas-Peucker
RdpD(cs, i, j, k) == PtSegD2(cs[k], cs[i], cs[j])
RdpInner(i, j) == (i + 1) .. (j - 1)
RdpIsMax(cs, i, j, k) == \A m \in RdpInner(i, j) : RatLeq(RdpD(cs, i, j, m), RdpD(cs, i, j, k))
RdpDmax(cs, i, j) == RdpD(cs, i, j, CHOOSE k \in RdpInner(i, j) : RdpIsMax(cs, i, j, k))
RdpSplitEnabled(cs, e2, i, j, k) ==
    /\ j > i + 1 /\ k \in RdpInner(i, j)
    /\ RdpIsMax(cs, i, j, k)
    /\ RatLeq(e2, RdpD(cs, i, j, k))
RdpCullEnabled(cs, e2, minPts, len, i, j) ==
    /\ j > i + 1
    /\ RatLeq(RdpDmax(cs, i, j), e2)
    /\ len - (j - i - 1) >= minPts
RdpKeepEnabled(cs, e2, minPts, len, i, j) ==
    /\ j > i + 1
    /\ RatLeq(RdpDmax(cs, i, j), e2)
    /\ len - (j - i - 1) < minPts
\* postcondition of the property on a terminal state: kept = 1..n \ dropped
RECURSIVE RdpKeptFrom(_, _, _)
RdpKeptFrom(n, dropped, i) == IF i > n THEN <<>> ELSE (IF i \in dropped THEN <<>> ELSE <<i>>) \o RdpKeptFrom(n, dropped, i + 1)
RdpKeptSeq(n, dropped) == RdpKeptFrom(n, dropped, 1)
RdpPost(cs, e2, r) ==
    /\ Len(cs) >= 1 => (Len(r) >= 1 /\ r[1] = 1 /\ r[Len(r)] = Len(cs))
    /\ \A a \in 1 .. Len(r) - 1 : r[a] < r[a + 1]
    /\ \A a \in 1 .. Len(r) - 1 : \A k \in (r[a] + 1) .. (r[a + 1] - 1) : RatLeq(PtSegD2(cs[k], cs[r[a]], cs[r[a + 1]]), e2)
=============================================================================

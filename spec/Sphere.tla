------------------------------- MODULE Sphere -------------------------------
(***************************************************************************)
(* C16 - what is discrete and exactly known about journeys on the sphere.  *)
(* All angles are integers in QUARTER DEGREES (QD units per degree), so    *)
(* that the points at ratios k/4 of a journey of a whole number of degrees *)
(* are again exact.  Longitudes are canonical in [-180, 180) degrees, the  *)
(* antimeridian has the two admissible spellings -180 and 180; bearings    *)
(* are canonical in [0, 360) degrees.                                      *)
(*                                                                         *)
(* Great-circle journeys along the two kinds of axes whose points are      *)
(* exactly known:                                                          *)
(*   equator  (lat = 0, heading 90 / 270): the longitude advances by the   *)
(*            arc travelled and wraps across the antimeridian;             *)
(*   meridian (heading 0 / 180): the latitude advances; passing over a     *)
(*            pole REFLECTS the latitude, turns the longitude by 180 and   *)
(*            reverses the heading.                                        *)
(* Rhumb journeys: along the parallels lat = 0 and lat = +-60 degrees      *)
(* (cos 60 = 1/2: an arc of s carries the longitude by 2 s) and along the  *)
(* meridians up to, never beyond, a pole.                                  *)
(*                                                                         *)
(* Each journey is defined twice: as the iteration of a one-grid-step      *)
(* machine (GcStep / RhStep, used as the next-state relation of            *)
(* Gen_Sphere) and in closed form (GcTravel / RhTravel, used to compute    *)
(* expected values for arbitrary arc lengths); Gen_Sphere checks on every  *)
(* state that the two agree.                                               *)
(***************************************************************************)
EXTENDS Integers, Sequences

QD == 4                      \* units per degree
H == 180 * QD                \* half turn
F == 360 * QD                \* full turn
R == 90 * QD                 \* right angle = latitude of the north pole

Abs(x) == IF x < 0 THEN -x ELSE x
\* x modulo m (m > 0) for |x| < 1000 m, evaluated on non-negative numbers only
Mod(x, m) == (x + (1000 * m)) % m
WrapLon(x) == Mod(x + H, F) - H                 \* canonical longitude in [-H, H)
LonReps(x) == IF WrapLon(x) = -H THEN <<-H, H>> ELSE <<WrapLon(x)>>
NormBearing(b) == Mod(b, 360)                   \* degrees, [0, 360)
Opp(b) == NormBearing(b + 180)

\* ------------------------------------------------------------ great circles
\* a position on an axis journey: [lon, lat, hdg]; at a pole lon is the meridian one
\* arrived on (any longitude denotes the same point there)
GcStep(p, g) ==      \* advance by the arc g (0 < g <= 2R) along the heading
    CASE p.hdg = 90  -> [p EXCEPT !.lon = WrapLon(p.lon + g)]
      [] p.hdg = 270 -> [p EXCEPT !.lon = WrapLon(p.lon - g)]
      [] p.hdg = 0   -> IF p.lat + g <= R THEN [p EXCEPT !.lat = p.lat + g]
                        ELSE [lon |-> WrapLon(p.lon + H), lat |-> (2 * R) - (p.lat + g), hdg |-> 180]
      [] p.hdg = 180 -> IF p.lat - g >= -R THEN [p EXCEPT !.lat = p.lat - g]
                        ELSE [lon |-> WrapLon(p.lon + H), lat |-> (-2 * R) - (p.lat - g), hdg |-> 0]

\* closed form: from a = <<lon, lat>> (|lat| < R; lat = 0 for headings 90 / 270) travel the arc s >= 0
GcTravel(a, b, s) ==
    CASE b = 90  -> [lon |-> WrapLon(a[1] + s), lat |-> a[2], hdg |-> 90]
      [] b = 270 -> [lon |-> WrapLon(a[1] - s), lat |-> a[2], hdg |-> 270]
      [] b = 0 \/ b = 180 ->
           LET t == IF b = 0 THEN a[2] + s ELSE a[2] - s          \* angle along the meridian circle
               u == Mod(t + H, F) - H                               \* in [-H, H)
               front == IF b = 0 THEN (-R < u /\ u <= R) ELSE (-R <= u /\ u < R)
           IN IF front THEN [lon |-> WrapLon(a[1]), lat |-> u, hdg |-> b]
              ELSE [lon |-> WrapLon(a[1] + H), lat |-> (IF u > 0 THEN H - u ELSE (-H) - u), hdg |-> Opp(b)]

\* shortest great-circle arc between the ends of a journey of arc s, and the bearings where unique
GcDist(s) == LET m == Mod(s, F) IN IF m <= H THEN m ELSE F - m
GcUnique(s) == Mod(s, F) # 0 /\ Mod(s, F) # H
GcBearingAB(b, s) == IF ~GcUnique(s) THEN <<>> ELSE IF Mod(s, F) < H THEN <<b>> ELSE <<Opp(b)>>
GcBearingBA(p, s) == IF ~GcUnique(s) \/ Abs(p.lat) = R THEN <<>>
                     ELSE IF Mod(s, F) < H THEN <<Opp(p.hdg)>> ELSE <<p.hdg>>

\* ------------------------------------------------------------------- rhumb
RhFactor(lat) == IF Abs(lat) = 60 * QD THEN 2 ELSE 1        \* 1 / cos(lat) on the parallels used
RhStepOK(p, g) == (p.hdg = 0 => p.lat + g <= R) /\ (p.hdg = 180 => p.lat - g >= -R)
RhStep(p, g) ==
    CASE p.hdg = 90  -> [p EXCEPT !.lon = WrapLon(p.lon + (g * RhFactor(p.lat)))]
      [] p.hdg = 270 -> [p EXCEPT !.lon = WrapLon(p.lon - (g * RhFactor(p.lat)))]
      [] p.hdg = 0   -> [p EXCEPT !.lat = p.lat + g]
      [] p.hdg = 180 -> [p EXCEPT !.lat = p.lat - g]
RhTravel(a, b, s) ==
    CASE b = 90  -> [lon |-> WrapLon(a[1] + (s * RhFactor(a[2]))), lat |-> a[2], hdg |-> 90]
      [] b = 270 -> [lon |-> WrapLon(a[1] - (s * RhFactor(a[2]))), lat |-> a[2], hdg |-> 270]
      [] b = 0   -> [lon |-> WrapLon(a[1]), lat |-> a[2] + s, hdg |-> 0]
      [] b = 180 -> [lon |-> WrapLon(a[1]), lat |-> a[2] - s, hdg |-> 180]
\* signed longitude difference taken by the rhumb line between the ends (the shorter way round)
RhDLon(a, b, s) == IF b = 90 THEN WrapLon(s * RhFactor(a[2])) ELSE IF b = 270 THEN WrapLon(-(s * RhFactor(a[2]))) ELSE 0
RhDist(a, b, s) == IF b = 0 \/ b = 180 THEN s ELSE Abs(RhDLon(a, b, s)) \div RhFactor(a[2])
RhUnique(a, b, s) == IF b = 0 \/ b = 180 THEN s > 0 ELSE (RhDLon(a, b, s) # 0 /\ RhDLon(a, b, s) # -H)
RhBearingAB(a, b, s) == IF ~RhUnique(a, b, s) THEN <<>>
                        ELSE IF b = 0 \/ b = 180 THEN <<b>>
                        ELSE IF RhDLon(a, b, s) > 0 THEN <<90>> ELSE <<270>>
=============================================================================

--------------------------- MODULE Trace_BoolOps ---------------------------
(***************************************************************************)
(* C04 - Boolean operations compute the set-theoretic result.              *)
(* Validates recorded calls of intersection / union / difference / xor /   *)
(* boolean_op, unary_union and clip (events written by the harness, one    *)
(* per call, operands drawn from the Gen_BoolOps pool) against the         *)
(* point-set definition:                                                   *)
(*   - region: every face witness w of the octilinear arrangement (Kind 2, *)
(*     >= 0.35 away from every input boundary, DESIGN.md 3.2) is inside    *)
(*     the result exactly when the Boolean combination of "inside A" and   *)
(*     "inside B" holds; no witness is inside two result members;          *)
(*   - exteriors counter-clockwise, holes clockwise, rings closed;         *)
(*   - area: twice the signed ring areas sum to 8 per expected face (each  *)
(*     face of the arrangement is a triangle of area 4) - this is the      *)
(*     exact form of the three area identities of the property;            *)
(*   - unary_union = union of the members = fold of pairwise unions;       *)
(*   - clip: every edge witness (odd fine-lattice point) on the subject    *)
(*     line string is kept by the plain clip iff it is inside, by the      *)
(*     inverted clip iff it is outside, by exactly one of them on the      *)
(*     polygon boundary; nothing off the subject is produced; lengths      *)
(*     (axis units, diagonal units) of the two outputs add up to the       *)
(*     subject's length.                                                   *)
(* Events are independent: one initial state per event, one Check step.    *)
(* Coordinates are logged at scale s (1: integers; 16: a result vertex was *)
(* not an integer and everything was rounded to 1/16 - then only witness   *)
(* membership and ring direction are judged).                              *)
(***************************************************************************)
EXTENDS PointSet, TLC, Json, IOUtils

Rec == ndJsonDeserialize(IOEnv.TRACE)

FineAll == Fine(-1, 13)
F2 == {p \in FineAll : Kind(p) = 2}
F1 == {p \in FineAll : Kind(p) >= 1}
Scale(p, s) == <<s * p[1], s * p[2]>>

NIn(ps, w) == Cardinality({i \in DOMAIN ps : PolyPos(w, ps[i].ext, ps[i].holes) = "I"})
In(ps, w) == \E i \in DOMAIN ps : PolyPos(w, ps[i].ext, ps[i].holes) = "I"

Comb(op, x, y) ==
    CASE op = "intersection" -> x /\ y
      [] op = "union"        -> x \/ y
      [] op = "difference"   -> x /\ ~y
      [] op = "xor"          -> x # y

RingOK(r) == Len(r) >= 4 /\ r[1] = r[Len(r)]
RingsClosed(ps) == \A i \in DOMAIN ps : RingOK(ps[i].ext) /\ \A h \in DOMAIN ps[i].holes : RingOK(ps[i].holes[h])
WindingOK(ps) == \A i \in DOMAIN ps : Area2(ps[i].ext) > 0 /\ \A h \in DOMAIN ps[i].holes : Area2(ps[i].holes[h]) < 0
RECURSIVE SumHoles(_, _)
SumHoles(hs, i) == IF i > Len(hs) THEN 0 ELSE Area2(hs[i]) + SumHoles(hs, i + 1)
RECURSIVE SumArea2(_, _)
SumArea2(ps, i) == IF i > Len(ps) THEN 0 ELSE Area2(ps[i].ext) + SumHoles(ps[i].holes, 1) + SumArea2(ps, i + 1)

\* first failed condition, or "ok"; Exp is the set of witnesses (unscaled) that must be inside
JudgeRegion(r, Exp, s, exact) ==
    IF ~RingsClosed(r.ps) THEN "ring_not_closed"
    ELSE IF \E w \in F2 : In(r.ps, Scale(w, s)) # (w \in Exp) THEN "region"
    ELSE IF \E w \in F2 : NIn(r.ps, Scale(w, s)) > 1 THEN "members_overlap"
    ELSE IF ~WindingOK(r.ps) THEN "ring_direction"
    ELSE IF exact /\ SumArea2(r.ps, 1) # 8 * Cardinality(Exp) THEN "area"
    ELSE "ok"

JudgeBoolOp(e) ==
    IF e.st # "ok" THEN e.st
    ELSE LET Exp == {w \in F2 : Comb(e.op, In(e.a.ps, Scale(w, e.s)), In(e.b.ps, Scale(w, e.s)))}
         IN JudgeRegion(e.r, Exp, e.s, e.s = 1)

JudgeUnary(e) ==
    IF e.st # "ok" THEN e.st
    ELSE LET Exp == {w \in F2 : \E m \in DOMAIN e.ms : In(e.ms[m].ps, Scale(w, e.s))}
             j == JudgeRegion(e.r, Exp, e.s, e.s = 1)
         IN IF j # "ok" THEN "unary_" \o j
            ELSE IF \E w \in F2 : In(e.rf.ps, Scale(w, e.s)) # (w \in Exp) THEN "fold_region" ELSE "ok"

\* ---- clip
OnPaths(ls, w) == \E i \in DOMAIN ls : Len(ls[i]) >= 2 /\ OnRing(w, ls[i])
OctiSeg(a, b) == a[1] = b[1] \/ a[2] = b[2] \/ Abs(a[1] - b[1]) = Abs(a[2] - b[2])
AllOcti(ls) == \A i \in DOMAIN ls : \A k \in 1 .. Len(ls[i]) - 1 : OctiSeg(ls[i][k], ls[i][k + 1])
\* length as <<axis-parallel units, diagonal units>> (a diagonal unit is sqrt 2)
RECURSIVE PathLen(_, _)
PathLen(cs, k) == IF k >= Len(cs) THEN <<0, 0>>
                  ELSE LET a == cs[k]  b == cs[k + 1]  rest == PathLen(cs, k + 1) IN
                       IF a[1] = b[1] \/ a[2] = b[2] THEN <<rest[1] + Abs(a[1] - b[1]) + Abs(a[2] - b[2]), rest[2]>>
                       ELSE <<rest[1], rest[2] + Abs(a[1] - b[1])>>
RECURSIVE PathsLen(_, _)
PathsLen(ls, i) == IF i > Len(ls) THEN <<0, 0>>
                   ELSE LET a == PathLen(ls[i], 1)  b == PathsLen(ls, i + 1) IN <<a[1] + b[1], a[2] + b[2]>>
MPos(ps, w) == MPolyPos(w, ps)

ClipWitnessOK(e, w0) ==
    LET w == Scale(w0, e.s)
        onS == OnPaths(e.ls, w)  in0 == OnPaths(e.r, w)  in1 == OnPaths(e.ri, w)
    IN IF ~onS THEN ~in0 /\ ~in1
       ELSE LET pos == MPos(e.p.ps, w) IN
            CASE pos = "I" -> in0 /\ ~in1
              [] pos = "E" -> ~in0 /\ in1
              [] pos = "B" -> in0 # in1
JudgeClip(e) ==
    IF e.st # "ok" THEN e.st
    ELSE IF \E w \in F1 : ~ClipWitnessOK(e, w) THEN "clip_parts"
    ELSE IF e.s = 1 /\ ~(AllOcti(e.r) /\ AllOcti(e.ri)) THEN "clip_direction"
    ELSE IF e.s = 1 /\ LET a == PathsLen(e.r, 1)  b == PathsLen(e.ri, 1)  c == PathsLen(e.ls, 1)
                       IN <<a[1] + b[1], a[2] + b[2]>> # c THEN "clip_length"
    ELSE "ok"

Judge(e) == CASE e.ev = "boolop" -> JudgeBoolOp(e)
              [] e.ev = "unary"  -> JudgeUnary(e)
              [] e.ev = "clip"   -> JudgeClip(e)

VARIABLES l, verdict
vars == <<l, verdict>>
Init == l \in 1 .. Len(Rec) /\ verdict = "todo"
Next == /\ verdict = "todo" /\ l' = l
        /\ verdict' = Judge(Rec[l])
        /\ (verdict' # "ok" => PrintT(<<"REJECT", l, verdict'>>))
Spec == Init /\ [][Next]_vars
=============================================================================

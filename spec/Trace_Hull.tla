----------------------------- MODULE Trace_Hull -----------------------------
(***************************************************************************)
(* C08 on recorded calls with point sets far larger than the enumerated    *)
(* ones (Gen_Hull decides every subset of up to 7 lattice points): seeded  *)
(* random multisets of 8 - 400 lattice points.  A ring h IS the convex     *)
(* hull of S iff it is a closed, strictly convex counter-clockwise ring of *)
(* points of S that has every point of S on its left or on it - these      *)
(* conditions determine h up to its start vertex, so they are checked      *)
(* exactly on what quick_hull / graham_hull / convex_hull returned; all    *)
(* collinear input must give the documented degenerate ring.               *)
(***************************************************************************)
EXTENDS Lattice, TLC, Json, IOUtils

Rec == ndJsonDeserialize(IOEnv.TRACE)

Closed(h) == Len(h) >= 1 /\ h[1] = h[Len(h)]
IsHullOf(S, h) == LET n == Len(h) - 1 IN
    /\ n >= 3 /\ Closed(h)
    /\ \A i \in 1 .. n : h[i] \in S
    /\ \A i \in 1 .. n : Orient(h[i], h[i + 1], h[(i % n) + 2]) > 0
    /\ \A p \in S : \A i \in 1 .. n : Orient(h[i], h[i + 1], p) >= 0
AllCollinear(S) == \A a \in S, b \in S, c \in S : Cross(a, b, c) = 0
\* for collinear input (or fewer than 3 distinct points) only closedness and membership are demanded
DegenerateOK(S, h) == Closed(h) /\ \A i \in DOMAIN h : h[i] \in S

Judge(e) ==
    LET S == Range(e.pts) IN
    IF e.st # "ok" THEN e.st
    ELSE IF Cardinality(S) < 3 \/ (Cardinality(S) <= 60 /\ AllCollinear(S)) \/ e.collinear
         THEN (IF \A k \in DOMAIN e.rings : DegenerateOK(S, e.rings[k].h) THEN "ok" ELSE "degenerate_ring")
    ELSE IF \E k \in DOMAIN e.rings : ~IsHullOf(S, e.rings[k].h) THEN "not_the_convex_hull"
    ELSE IF \E j, k \in DOMAIN e.rings : Range(e.rings[j].h) # Range(e.rings[k].h) THEN "entry_points_disagree"
    ELSE "ok"

VARIABLES l, verdict
vars == <<l, verdict>>
Init == l \in 1 .. Len(Rec) /\ verdict = "todo"
Next == /\ verdict = "todo" /\ l' = l
        /\ verdict' = Judge(Rec[l])
        /\ (verdict' # "ok" => PrintT(<<"REJECT", l, verdict'>>))
Spec == Init /\ [][Next]_vars
=============================================================================

--------------------------- MODULE Trace_Interior ---------------------------
(***************************************************************************)
(* C12 - judgement of recorded interior_point results (round trip).        *)
(*                                                                         *)
(* The harness calls interior_point on a geometry g of Gen_Closest /       *)
(* Gen_Poly and records one event per distinct answer:                     *)
(*   g      the geometry with every coordinate multiplied by Q = 2^11      *)
(*          (exact in binary floating point), as integers                  *)
(*   res    "some" | "none" | "panic" | "nonfinite"                        *)
(*   r      the returned point times Q, rounded to the nearest integer     *)
(*          and clipped to -8192 .. 24576 (coordinates are 0 .. 9, the     *)
(*          scaled universe is 0 .. 18432, so a clipped point stays        *)
(*          outside the bounding box of g on the same side; all products   *)
(*          stay below 2^31)                                               *)
(*   exact  TRUE iff the returned point times Q is an integer, i.e. r / Q  *)
(*          IS the returned point                                          *)
(*   valid  flag of the generator: g is a valid geometry (simple rings     *)
(*          with area, holes inside, pairwise disjoint members)            *)
(* Events are independent; each is judged in one step:                     *)
(*   none      admissible iff g is empty                                   *)
(*   panic     rejected iff g is valid                                     *)
(*   some      g must not be empty and the point must not be exterior;     *)
(*             it must be interior (Pos = "I") when Strict(g): g has an    *)
(*             interior of its own dimension that the documented choice    *)
(*             can reach - every valid Polygon / MultiPolygon, every Rect  *)
(*             and Triangle with area, every Point / MultiPoint, a curve   *)
(*             all of whose members have a non-endpoint vertex, all such   *)
(*             vertices interior and the ends of open members lying on no  *)
(*             other segment, a collection all of whose members of         *)
(*             maximal dimension are strict.  For two-vertex curves geo    *)
(*             documents an endpoint; only "intersects" is demanded there. *)
(* A point that is not exactly on the Q-lattice is judged through its      *)
(* rounded image r only when r is farther than sqrt(2) lattice units from  *)
(* every segment of g: the true point is within sqrt(1/2) of r, so the     *)
(* straight path between them meets no boundary and both have the same     *)
(* position.  Otherwise the event is "undecided" (counted, never rejected).*)
(***************************************************************************)
EXTENDS PointSet, TLC, Json, IOUtils

Rec == ndJsonDeserialize(IOEnv.TRACE)

\* an open path whose two ends lie on no other segment of g (so that the ends are the only boundary
\* points on it and every other point of it, vertex or not, is interior); closed paths have no ends
OnCount(g, c) == Cardinality({s \in Segs(g) : OnSeg(c, s[1], s[2])})
EndFree(g, cs) == cs[1] = cs[Len(cs)] \/ (OnCount(g, cs[1]) = 1 /\ OnCount(g, cs[Len(cs)]) = 1)
InnerOK(g, cs) == /\ Len(cs) >= 3 /\ EndFree(g, cs)
                  /\ \A i \in 2 .. Len(cs) - 1 : Pos(g, cs[i]) = "I"
RECURSIVE Strict(_, _)
Strict(g, valid) ==
    CASE g.t = "Point" -> TRUE
      [] g.t = "MultiPoint" -> TRUE
      [] g.t = "Line" -> FALSE
      [] g.t = "LineString" -> InnerOK(g, g.cs)
      [] g.t = "MultiLineString" -> \A i \in DOMAIN g.ls : Len(g.ls[i]) = 0 \/ InnerOK(g, g.ls[i])
      [] g.t = "Polygon" -> valid
      [] g.t = "MultiPolygon" -> valid
      [] g.t = "Rect" -> g.a[1] # g.b[1] /\ g.a[2] # g.b[2]
      [] g.t = "Triangle" -> Cross(g.a, g.b, g.c) # 0
      [] g.t = "GeometryCollection" ->
            LET d == Dim(g) IN \A i \in DOMAIN g.gs : Dim(g.gs[i]) < d \/ Strict(g.gs[i], valid)

\* r is at distance >= sqrt(2) from the closed segment [a, b] (sufficient integer test, no squares of cross products)
FarSeg(r, a, b) ==
    IF a = b THEN D2(r, a) >= 4
    ELSE LET t == Dot(a, b, r)  l2 == D2(a, b) IN
         IF t <= 0 THEN D2(r, a) >= 4
         ELSE IF t >= l2 THEN D2(r, b) >= 4
         ELSE Abs(Cross(a, b, r)) >= 2 * Max2(Abs(b[1] - a[1]), Abs(b[2] - a[2]))
Far(g, r) == \A s \in Segs(g) : FarSeg(r, s[1], s[2])

Need(e) == IF Dim(e.g) = -1 THEN "empty" ELSE IF Strict(e.g, e.valid) THEN "I" ELSE "notE"

Verdict(e) ==
    IF e.res = "panic" THEN (IF e.valid THEN "bad_panic" ELSE "ok_panic_on_degenerate")
    ELSE IF e.res = "none" THEN (IF Dim(e.g) = -1 THEN "ok_none" ELSE "bad_none_for_nonempty")
    ELSE IF e.res = "nonfinite" THEN "bad_nonfinite"
    ELSE IF Dim(e.g) = -1 THEN "bad_point_for_empty"
    ELSE LET pos == Pos(e.g, e.r)  strict == Strict(e.g, e.valid) IN
         IF e.exact
         THEN (IF pos = "E" THEN "bad_exterior"
               ELSE IF strict /\ pos = "B" THEN "bad_on_boundary" ELSE "ok")
         ELSE IF Far(e.g, e.r)
         THEN (IF pos = "I" THEN "ok" ELSE "bad_exterior")
         ELSE "undecided"

VARIABLES l, v
tvars == <<l, v>>
Init == l \in 1 .. Len(Rec) /\ v = "todo"
Check == /\ v = "todo" /\ l' = l
         /\ v' = Verdict(Rec[l])
         /\ PrintT(<<"V", l, v', Need(Rec[l])>>)
Spec == Init /\ [][Check]_tvars
\* every verdict is one of the known ones (a typo here must not read as acceptance)
VerdictType == v \in {"todo", "ok", "ok_none", "ok_panic_on_degenerate", "undecided", "bad_panic", "bad_none_for_nonempty",
                      "bad_nonfinite", "bad_point_for_empty", "bad_exterior", "bad_on_boundary"}
=============================================================================

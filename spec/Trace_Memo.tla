----------------------------- MODULE Trace_Memo -----------------------------
(***************************************************************************)
(* C20 - results are a function of the inputs alone.                       *)
(* The memo machine: the session remembers, for every call key (operation  *)
(* + input identity), the digest of the first result observed - a digest   *)
(* of every output coordinate bit in member / ring / vertex order.         *)
(*   Observe(key, digest)  is enabled iff the key is new or the digest is  *)
(*                         the remembered one                              *)
(* The recorded trace is the concatenation of the event streams of several *)
(* fresh processes, each running the same workload twice under a different *)
(* rayon pool size; it must be a behaviour of this machine.  Events of the *)
(* parametric families additionally carry 4 x the area of the result,      *)
(* which must equal the closed form of Families.tla (so the runs that      *)
(* reach the overlay engine's parallel paths are judged for correctness    *)
(* too, not only for repeatability).                                       *)
(***************************************************************************)
EXTENDS Families, Sequences, TLC, Json, IOUtils

Rec == ndJsonDeserialize(IOEnv.TRACE)

VARIABLES l, memo
tvars == <<l, memo>>
TraceInit == l = 1 /\ memo = [k \in {} |-> ""]

Observe(e) ==
    /\ e.st = "ok"
    /\ e.key \in DOMAIN memo => memo[e.key] = e.dg            \* ResultIsFunctionOfInput
    /\ e.fam # "" => e.area4 = 4 * ExpectArea(e.fam, e.n, e.op)
    /\ memo' = IF e.key \in DOMAIN memo THEN memo ELSE (e.key :> e.dg) @@ memo
TraceNext == /\ l <= Len(Rec) /\ Observe(Rec[l]) /\ l' = l + 1
TraceSpec == TraceInit /\ [][TraceNext]_tvars

\* the closed forms themselves, checked by TLC against unit-cell counting before the trace is read
ASSUME ClosedFormsOK(3)

TraceAccepted ==
    LET d == TLCGet("stats").diameter IN
    IF d - 1 = Len(Rec) THEN TRUE
    ELSE PrintT(<<"TRACE-REJECTED", d, ToJson(Rec[d])>>) /\ FALSE
=============================================================================

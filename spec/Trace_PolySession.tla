-------------------------- MODULE Trace_PolySession --------------------------
(***************************************************************************)
(* Trace validation for C18: a history of real geo-types calls recorded by *)
(* the harness (one event per call at its return, with the projected state *)
(* of the touched objects) must be a behaviour of PolySession.  Every      *)
(* event must be explained by the named action with the logged arguments   *)
(* AND lead to exactly the logged state; the C18 invariants are checked in *)
(* every state of the chain.  A "reset" event starts a new history.        *)
(***************************************************************************)
EXTENDS PolySession, IOUtils

Rec == ndJsonDeserialize(IOEnv.TRACE)

VARIABLE l
tvars == <<vars, l>>

TraceInit == Init /\ l = 1

Reset == /\ ext' = <<>> /\ holes' = <<>> /\ ls' = <<>> /\ rmin' = <<0, 0>> /\ rmax' = <<0, 0>>
         /\ ret' = "init" /\ hist' = <<>>

Explained(e) ==
    \/ e.name = "reset" /\ Reset
    \/ e.name = "polygon_new" /\ PolygonNew(e.ext, e.holes)
    \/ e.name = "exterior_mut" /\ ExteriorMut(e.edits)
    \/ e.name = "try_exterior_mut" /\ TryExteriorMut(e.edits, e.exit)
    \/ e.name = "interiors_mut" /\ InteriorsMut(e.k, e.edits)
    \/ e.name = "try_interiors_mut" /\ TryInteriorsMut(e.k, e.edits, e.exit)
    \/ e.name = "interiors_push" /\ InteriorsPush(e.ring)
    \/ e.name = "linestring_edit" /\ LineStringEdit(e.edits)
    \/ e.name = "linestring_close" /\ LineStringClose
    \/ e.name = "polygon_from_ls" /\ PolygonFromLs
    \/ e.name = "rect_new" /\ RectNew(e.c1, e.c2)
    \/ e.name = "rect_set_min" /\ RectSetMin(e.c)
    \/ e.name = "rect_set_max" /\ RectSetMax(e.c)

TraceNext ==
    /\ l <= Len(Rec)
    /\ LET e == Rec[l] IN
         /\ Explained(e)
         /\ StateP = e.post          \* the implementation ended in exactly the state the spec requires
         /\ ret' = e.ret
    /\ l' = l + 1

TraceSpec == TraceInit /\ [][TraceNext]_tvars

\* every event consumed: the deepest state has l = Len(Rec) + 1
TraceAccepted ==
    LET d == TLCGet("stats").diameter IN
    IF d - 1 = Len(Rec) THEN TRUE
    ELSE PrintT(<<"TRACE-REJECTED", d, ToJson(Rec[d])>>) /\ FALSE
=============================================================================

--------------------------- MODULE Trace_Prepared ---------------------------
(***************************************************************************)
(* C17 - PreparedGeometry answers exactly like the plain geometry, however *)
(* often and in whatever operand position it is reused.                    *)
(* Session state: prep maps a handle to the catalogue geometry it was      *)
(* prepared from and to the fingerprint of its cached topology graph taken *)
(* right after preparation (hook H4).  Actions:                            *)
(*   Prepare(h, ci)          builds the cache                              *)
(*   Relate(a, b)            a, b prepared handles or plain geometries;    *)
(*                           result = DE9IM of the PLAIN operands and the  *)
(*                           cache of every prepared operand is unchanged  *)
(*   Reset                   drops all handles                             *)
(* A recorded history of real calls must be a behaviour of this machine.   *)
(***************************************************************************)
EXTENDS Shapes, TLC, Json, IOUtils

CONSTANT N,                                 \* operands live on the vertex grid {0,4,..,4N}^2
         CacheInVerdict                     \* TRUE: a change of the cached graph (hook H4) rejects the history (self-test, advisory run);
                                            \* FALSE: only the answers are judged - the property speaks about answers, and an implementation
                                            \* may legitimately complete its cache lazily
F == FineOf(N)
Rec == ndJsonDeserialize(IOEnv.TRACE)

VARIABLES l, prep
tvars == <<l, prep>>

NoHandles == [h \in {} |-> 0]
TraceInit == l = 1 /\ prep = NoHandles

\* the plain geometry behind an operand (events carry the geometry itself: catalogue indices
\* are not stable across TLC runs with different root modules)
Plain(operand) == IF operand.k = "prep" THEN prep[operand.h].g ELSE operand.g

\* operands built by the harness outside the catalogue carry the field wild
InDomain(g) == "wild" \notin DOMAIN g

Prepare(e) ==
    /\ prep' = (e.h :> [g |-> e.g, fp |-> e.fp]) @@ prep
RelateCall(e) ==
    /\ e.a.k = "prep" => e.a.h \in DOMAIN prep
    /\ e.b.k = "prep" => e.b.h \in DOMAIN prep
    \* PreparedAnswersLikePlain: the property itself - the same matrix as relate on the plain operands ...
    /\ e.im = e.plain
    \* ... and, where the specification knows the true matrix (operands in the domain of C01), that matrix
    /\ InDomain(Plain(e.a)) /\ InDomain(Plain(e.b)) => e.im = DE9IM(Plain(e.a), Plain(e.b), F)
    \* CacheUnchanged: the cached graph after the call is the graph built by Prepare
    /\ CacheInVerdict /\ e.a.k = "prep" => e.fpa = prep[e.a.h].fp
    /\ CacheInVerdict /\ e.b.k = "prep" => e.fpb = prep[e.b.h].fp
    /\ prep' = prep
Reset == prep' = NoHandles

TraceNext ==
    /\ l <= Len(Rec)
    /\ LET e == Rec[l] IN
         \/ e.name = "prepare" /\ Prepare(e)
         \/ e.name = "relate" /\ RelateCall(e)
         \/ e.name = "reset" /\ Reset
    /\ l' = l + 1

TraceSpec == TraceInit /\ [][TraceNext]_tvars

TraceAccepted ==
    LET d == TLCGet("stats").diameter IN
    IF d - 1 = Len(Rec) THEN TRUE
    ELSE PrintT(<<"TRACE-REJECTED", d, ToJson(Rec[d])>>) /\ FALSE
=============================================================================

--------------------------- MODULE Trace_Simplify ---------------------------
(***************************************************************************)
(* C09 - simplification, judged on recorded calls with inputs far longer   *)
(* than the enumerated ones (Gen_Simplify decides every admissible output  *)
(* for up to 6 vertices; here the property's postconditions are evaluated  *)
(* exactly on what the implementation returned for random lattice walks of *)
(* 7 - 80 vertices, closed rings included).  One event per call:           *)
(*   cs        the input vertices (integers)                               *)
(*   eps       the tolerance as a rational <<num, den>> (may be <= 0)      *)
(*   rdp, vw   the 1-based positions kept by simplify_idx / simplify_vw_idx*)
(*   rdp_cs, vw_cs   the coordinates returned by simplify / simplify_vw    *)
(*   ring_rdp, ring_vwp   for closed inputs: the exterior returned by      *)
(*             Polygon::simplify / simplify_vw_preserve                    *)
(* Postconditions (the text of the property):                              *)
(*   subsequence with first and last kept; every dropped vertex within eps *)
(*   of the retained segment that replaces it (RDP); every remaining       *)
(*   interior vertex spans a triangle of area > eps with its retained      *)
(*   neighbours (VW); idx variants = positions of the coordinate variants; *)
(*   eps <= 0 is the identity; rings stay closed and keep >= 4 coordinates *)
(***************************************************************************)
EXTENDS Lattice, TLC, Json, IOUtils

Rec == ndJsonDeserialize(IOEnv.TRACE)

Sq2(q) == <<q[1] * q[1], q[2] * q[2]>>
Subseq(r, n) == /\ Len(r) >= 1 /\ \A a \in 1 .. Len(r) - 1 : r[a] < r[a + 1]
                /\ r[1] = 1 /\ r[Len(r)] = n
Identity(r, n) == r = [i \in 1 .. n |-> i]
Picks(cs, r) == [a \in 1 .. Len(r) |-> cs[r[a]]]
\* a ring result is a closed subsequence of the input ring: judged through its coordinates (repeats make positions ambiguous)
RECURSIVE IsSubseqOf(_, _, _, _)
IsSubseqOf(a, b, i, j) == IF i > Len(a) THEN TRUE ELSE IF j > Len(b) THEN FALSE
                          ELSE IF a[i] = b[j] THEN IsSubseqOf(a, b, i + 1, j + 1) ELSE IsSubseqOf(a, b, i, j + 1)

RdpOK(cs, r, eps) ==
    \A a \in 1 .. Len(r) - 1 : \A k \in (r[a] + 1) .. (r[a + 1] - 1) :
        RatLeq(PtSegD2(cs[k], cs[r[a]], cs[r[a + 1]]), Sq2(eps))
VwOK(cs, r, eps) ==
    \A a \in 2 .. Len(r) - 1 : Abs(Cross(cs[r[a - 1]], cs[r[a]], cs[r[a + 1]])) * eps[2] > 2 * eps[1]

Judge(e) ==
    LET cs == e.cs  n == Len(cs)  eps == e.eps IN
    IF e.st # "ok" THEN e.st
    ELSE IF n = 0 THEN (IF Len(e.rdp) = 0 /\ Len(e.vw) = 0 THEN "ok" ELSE "empty_input")
    ELSE IF ~Subseq(e.rdp, n) THEN "rdp_not_a_subsequence_with_both_ends"
    ELSE IF ~Subseq(e.vw, n) THEN "vw_not_a_subsequence_with_both_ends"
    ELSE IF e.rdp_cs # Picks(cs, e.rdp) THEN "simplify_differs_from_simplify_idx"
    ELSE IF e.vw_cs # Picks(cs, e.vw) THEN "simplify_vw_differs_from_simplify_vw_idx"
    ELSE IF eps[1] <= 0 THEN (IF Identity(e.rdp, n) /\ Identity(e.vw, n) THEN "ok" ELSE "nonpositive_eps_is_not_identity")
    ELSE IF ~RdpOK(cs, e.rdp, eps) THEN "rdp_dropped_vertex_farther_than_eps"
    ELSE IF n >= 3 /\ ~VwOK(cs, e.vw, eps) THEN "vw_remaining_triangle_not_above_eps"
    ELSE IF e.closed /\ ~(Len(e.ring_rdp) >= 4 /\ e.ring_rdp[1] = e.ring_rdp[Len(e.ring_rdp)] /\ IsSubseqOf(e.ring_rdp, cs, 1, 1)) THEN "rdp_ring"
    ELSE IF e.closed /\ ~(Len(e.ring_vwp) >= 4 /\ e.ring_vwp[1] = e.ring_vwp[Len(e.ring_vwp)] /\ IsSubseqOf(e.ring_vwp, cs, 1, 1)) THEN "vw_preserve_ring"
    ELSE "ok"

VARIABLES l, verdict
vars == <<l, verdict>>
Init == l \in 1 .. Len(Rec) /\ verdict = "todo"
Next == /\ verdict = "todo" /\ l' = l
        /\ verdict' = Judge(Rec[l])
        /\ (verdict' # "ok" => PrintT(<<"REJECT", l, verdict'>>))
Spec == Init /\ [][Next]_vars
=============================================================================

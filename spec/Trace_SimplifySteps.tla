------------------------ MODULE Trace_SimplifySteps ------------------------
(***************************************************************************)
(* Trace validation of the simplification STATE MACHINES (hooks H2 / H3):  *)
(* every recorded run of the real code - the sequence of steps it reported *)
(* (vw_remove / vw_stop, rdp_split / rdp_cull / rdp_keep, 0-based vertex   *)
(* positions) on seeded random lattice walks of 0 - 40 vertices - must be  *)
(* a behaviour of SimplifySM: each step is replayed through the ENABLING   *)
(* condition of the corresponding action in the state reached so far, the  *)
(* silent action RdpTrivial is composed in before each logged step, the    *)
(* run must end in a terminal state, and the result the call returned must *)
(* be the state variable of that terminal state.                           *)
(* One event per call:                                                     *)
(*   cs, eps <<num, den>>, minpts (2 line string / 4 polygon ring)         *)
(*   rdp_steps, rdp (1-based kept positions; ring_cs = returned ring for    *)
(*   Polygon::simplify)   vw_steps, vw                                     *)
(***************************************************************************)
EXTENDS SimplifySM, TLC, Json, IOUtils

Rec == ndJsonDeserialize(IOEnv.TRACE)

\* ---- VW: fold the logged steps over the alive sequence
PosOf(alive, v) == IF \E p \in DOMAIN alive : alive[p] = v THEN CHOOSE p \in DOMAIN alive : alive[p] = v ELSE 0
RECURSIVE VwRun(_, _, _, _, _)
VwRun(cs, eps, alive, steps, k) ==
    IF k > Len(steps) THEN (IF VwStopEnabled(cs, eps, alive) THEN <<"ok", alive>> ELSE <<"vw_ended_while_a_removal_is_enabled", alive>>)
    ELSE LET s == steps[k] IN
      IF s[1] = "vw_stop" THEN
          (IF k = Len(steps) /\ VwStopEnabled(cs, eps, alive) THEN <<"ok", alive>> ELSE <<"vw_stop_not_enabled", alive>>)
      ELSE IF s[1] = "vw_remove" THEN
          LET p == PosOf(alive, s[2] + 1) IN
          IF p = 0 \/ p = 1 \/ p = Len(alive) THEN <<"vw_removed_a_dead_or_end_vertex", alive>>
          ELSE IF alive[p - 1] # s[3] + 1 \/ alive[p + 1] # s[4] + 1 THEN <<"vw_neighbours_differ_from_the_alive_list", alive>>
          ELSE IF ~VwRemoveEnabled(cs, eps, alive, p) THEN <<"vw_removed_a_vertex_that_is_not_a_minimum_below_eps", alive>>
          ELSE VwRun(cs, eps, VwRemoveAt(alive, p), steps, k + 1)
      ELSE <<"vw_unknown_step", alive>>

\* ---- RDP: fold the logged steps over (stack, len, dropped); silent RdpTrivial steps first
RECURSIVE RdpRun(_, _, _, _, _, _, _, _)
RdpRun(cs, e2, minPts, stack, len, dropped, steps, k) ==
    IF stack # <<>> /\ stack[1][2] = stack[1][1] + 1 THEN RdpRun(cs, e2, minPts, Tail(stack), len, dropped, steps, k)
    ELSE IF k > Len(steps) THEN (IF stack = <<>> THEN <<"ok", dropped, len>> ELSE <<"rdp_ended_with_unfinished_intervals", dropped, len>>)
    ELSE IF stack = <<>> THEN <<"rdp_step_after_the_end", dropped, len>>
    ELSE LET s == steps[k]  i == stack[1][1]  j == stack[1][2] IN
      IF s[2] + 1 # i \/ s[3] + 1 # j THEN <<"rdp_step_on_an_interval_that_is_not_on_top_of_the_stack", dropped, len>>
      ELSE IF s[1] = "rdp_split" THEN
          LET m == s[4] + 1 IN
          IF ~RdpSplitEnabled(cs, e2, i, j, m) THEN <<"rdp_split_not_enabled", dropped, len>>
          ELSE RdpRun(cs, e2, minPts, << <<i, m>>, <<m, j>> >> \o Tail(stack), len, dropped, steps, k + 1)
      ELSE IF s[1] = "rdp_cull" THEN
          IF ~RdpCullEnabled(cs, e2, minPts, len, i, j) \/ s[4] # len - (j - i - 1) THEN <<"rdp_cull_not_enabled", dropped, len>>
          ELSE RdpRun(cs, e2, minPts, Tail(stack), len - (j - i - 1), dropped \cup RdpInner(i, j), steps, k + 1)
      ELSE IF s[1] = "rdp_keep" THEN
          IF ~RdpKeepEnabled(cs, e2, minPts, len, i, j) \/ s[4] # len THEN <<"rdp_keep_not_enabled", dropped, len>>
          ELSE RdpRun(cs, e2, minPts, Tail(stack), len, dropped, steps, k + 1)
      ELSE <<"rdp_unknown_step", dropped, len>>

Judge(e) ==
    LET cs == e.cs  n == Len(cs)  eps == e.eps  e2 == <<eps[1] * eps[1], eps[2] * eps[2]>> IN
    IF e.st # "ok" THEN e.st
    ELSE
      LET r == RdpRun(cs, e2, e.minpts, IF n >= 2 THEN << <<1, n>> >> ELSE <<>>, n, {}, e.rdp_steps, 1)
          v == IF e.ring THEN <<"ok", <<>>>> ELSE VwRun(cs, eps, [i \in 1 .. n |-> i], e.vw_steps, 1)
      IN IF r[1] # "ok" THEN r[1]
         ELSE IF e.ring /\ e.ring_cs # [a \in 1 .. r[3] |-> cs[RdpKeptSeq(n, r[2])[a]]] THEN "rdp_ring_result_differs_from_the_terminal_state"
         ELSE IF ~e.ring /\ (e.rdp # RdpKeptSeq(n, r[2]) \/ Len(e.rdp) # r[3]) THEN "rdp_result_differs_from_the_terminal_state"
         ELSE IF ~RdpPost(cs, e2, RdpKeptSeq(n, r[2])) THEN "rdp_terminal_state_violates_the_property"
         ELSE IF v[1] # "ok" THEN v[1]
         ELSE IF ~e.ring /\ e.vw # v[2] THEN "vw_result_differs_from_the_terminal_state"
         ELSE IF ~e.ring /\ ~VwPost(cs, eps, e.vw) THEN "vw_terminal_state_violates_the_property"
         ELSE "ok"

VARIABLES l, verdict
vars == <<l, verdict>>
Init == l \in 1 .. Len(Rec) /\ verdict = "todo"
Next == /\ verdict = "todo" /\ l' = l
        /\ verdict' = Judge(Rec[l])
        /\ (verdict' # "ok" => PrintT(<<"REJECT", l, verdict'>>))
Spec == Init /\ [][Next]_vars
=============================================================================

---------------------------- MODULE Trace_Sphere ----------------------------
(***************************************************************************)
(* C16, part B - relational laws of the Haversine / Geodesic / Rhumb       *)
(* metric spaces, judged on a recorded trace of the real API.              *)
(*                                                                         *)
(* Every event carries quantities computed by geo itself for one probe:    *)
(*   kind "pair":  inputs a, b (on the nanodegree grid), ratio r16 / 16;   *)
(*     d_ab, d_ba, d_aa, d_bb = distance(.,.)                              *)
(*     brg_ab, brg_ba         = bearing(.,.)                               *)
(*     dest    = destination(a, bearing(a,b), distance(a,b))               *)
(*     closure = distance(dest, b)                                         *)
(*     mid     = point_at_ratio_between(a, b, r16/16)                      *)
(*     d_am, d_mb = distance(a, mid), distance(mid, b)                     *)
(*   kind "ls":    vertices pts; segs[i] = distance(p_i, p_i+1);           *)
(*                 len = Length of the line string.                        *)
(* Distances are in MICROMETRES as two limbs <<km, um>> (value km * 10^9 + *)
(* um, 0 <= um < 10^9, rounded to nearest), angles in NANODEGREES as       *)
(* <<deg, ndeg>> (rounded down), so that every intermediate of the limb    *)
(* arithmetic below stays under 2^31.                                      *)
(*                                                                         *)
(* Laws (tolerances are the constants below):                              *)
(*   wellformed  no panic ever; no NaN / infinity in the distances and     *)
(*               bearings of the inputs themselves, nor (inside the domain *)
(*               of the guarded laws) in anything derived from dest / mid  *)
(*   nonneg      every distance >= 0                                       *)
(*   zero        d_aa = d_bb = 0, and d_ab = d_ba = 0 when a = b           *)
(*   bearing     0 <= bearing < 360                                        *)
(*   range       dest and mid are lon/lat points: |lon| <= 180, |lat| <= 90*)
(*   symmetric   |d_ab - d_ba| <= SymTol                                   *)
(*   closure     closure <= ClosureTol  (one millimetre)                   *)
(*   ratio       |16 d_am - r16 d_ab| <= 16 RatioTol                       *)
(*   additive    |d_am + d_mb - d_ab| <= RatioTol                          *)
(*   length      |len - sum segs| <= (number of segments + 1) um           *)
(* closure / ratio / additive are demanded AWAY FROM POLES AND ANTIPODES,  *)
(* decided here from the inputs: |lat a|, |lat b| <= 89 deg and not        *)
(* (|lat a + lat b| <= 1 deg and |lon a - lon b| >= 179 deg).  For Rhumb   *)
(* symmetric / closure / ratio / additive are demanded only when the       *)
(* course is exactly east-west (lat a = lat b) or not nearly east-west     *)
(* (|dlon| <= 1000 |dlat|): the loxodrome formulas divide dphi by dpsi and *)
(* lose all digits in between (reported defect).  Events of class          *)
(* "pinned_near_parallel" are deterministic probes inside that gap which   *)
(* are judged WITHOUT this exemption.                                      *)
(* Events are independent: TLC picks the event index in Init and judges it *)
(* in one step; `verdict` is the list of violated laws (invariant ok; run  *)
(* with -continue to collect every rejection).  A TRACE-REJECTED line      *)
(* names the violated laws and the domain flags the spec computed; a       *)
(* DOMAIN line per pair event says whether the guarded laws applied to it  *)
(* (vacuity guard).                                                        *)
(***************************************************************************)
EXTENDS Integers, Sequences, TLC, Json, IOUtils

Rec == ndJsonDeserialize(IOEnv.TRACE)

\* ---- tolerances, micrometres
ClosureTol == 1000         \* 1 mm
RatioTol == 1000           \* 1 mm
SymTolAbs == 1             \* symmetric up to rounding: 1 um + 1e-12 d  (Haversine, Geodesic)
SymTolRhumb == 100         \* Rhumb: 0.1 mm (the two directions evaluate different expressions)

\* ---- two-limb integers <<hi, lo>>, value hi * B + lo, 0 <= lo < B
B == 1000000000
Norm(h, l) == IF l < 0 THEN <<h - 1, l + B>> ELSE IF l >= B THEN <<h + 1, l - B>> ELSE <<h, l>>
Add(x, y) == Norm(x[1] + y[1], x[2] + y[2])
Sub(x, y) == Norm(x[1] - y[1], x[2] - y[2])
Zero == <<0, 0>>
IsNeg(x) == x[1] < 0
AbsL(x) == IF IsNeg(x) THEN Sub(Zero, x) ELSE x
Leq(x, y) == x[1] < y[1] \/ (x[1] = y[1] /\ x[2] <= y[2])
Lt(x, y) == x[1] < y[1] \/ (x[1] = y[1] /\ x[2] < y[2])
RECURSIVE Mul(_, _)
Mul(x, k) == IF k = 0 THEN Zero                      \* k >= 0, by doubling: no product of limbs is ever formed
             ELSE IF k % 2 = 1 THEN Add(x, Mul(Add(x, x), k \div 2))
             ELSE Mul(Add(x, x), k \div 2)
Um(n) == <<0, n>>                                     \* 0 <= n < B
Deg(n) == <<n, 0>>
WellLimbed(x) == 0 <= x[2] /\ x[2] < B /\ -1000000 < x[1] /\ x[1] < 1000000

\* ---- guards, from the INPUTS only
Lon(p) == p[1]
Lat(p) == p[2]
AwayFromPoles(e) == Leq(AbsL(Lat(e.a)), Deg(89)) /\ Leq(AbsL(Lat(e.b)), Deg(89))
NearAntipodal(e) == /\ Leq(AbsL(Add(Lat(e.a), Lat(e.b))), Deg(1))
                    /\ Leq(Deg(179), AbsL(Sub(Lon(e.a), Lon(e.b))))
                    /\ Leq(AbsL(Sub(Lon(e.a), Lon(e.b))), Deg(181))
DLonWrapped(e) == LET w == AbsL(Sub(Lon(e.a), Lon(e.b))) IN IF Lt(Deg(180), w) THEN Sub(Deg(360), w) ELSE w
DLat(e) == AbsL(Sub(Lat(e.a), Lat(e.b)))
NearEastWest(e) == DLat(e) # Zero /\ Lt(Mul(DLat(e), 1000), DLonWrapped(e))
RhumbExempt(e) == e.space = "rhumb" /\ NearEastWest(e) /\ e.cls # "pinned_near_parallel"
RoundTripDomain(e) == AwayFromPoles(e) /\ ~NearAntipodal(e) /\ ~RhumbExempt(e)

\* ---- laws of a pair event
Dists(e) == <<e.d_ab, e.d_ba, e.d_aa, e.d_bb, e.closure, e.d_am, e.d_mb>>
SymTol(e) == IF e.space = "rhumb" THEN Um(SymTolRhumb) ELSE Um(SymTolAbs + (e.d_ab[1] \div 1000))
InLonLat(p) == Leq(AbsL(Lon(p)), Deg(180)) /\ Leq(AbsL(Lat(p)), Deg(90))
BearingOK(t) == 0 <= t[1] /\ t[1] <= 359
PairLaw(name, e) ==
    CASE name = "wellformed" -> /\ e.bad.panic = <<>> /\ e.bad.core = <<>>
                                /\ RoundTripDomain(e) => (e.bad.trip = <<>> /\ e.bad.mid = <<>>)
                                /\ \A i \in 1 .. 7 : WellLimbed(Dists(e)[i])
      [] name = "nonneg"     -> \A i \in 1 .. 7 : ~IsNeg(Dists(e)[i])
      [] name = "zero"       -> e.d_aa = Zero /\ e.d_bb = Zero /\ (e.a = e.b => (e.d_ab = Zero /\ e.d_ba = Zero))
      [] name = "bearing"    -> BearingOK(e.brg_ab) /\ BearingOK(e.brg_ba)
      [] name = "range"      -> InLonLat(e.dest) /\ InLonLat(e.mid)
      [] name = "symmetric"  -> RhumbExempt(e) \/ Leq(AbsL(Sub(e.d_ab, e.d_ba)), SymTol(e))
      [] name = "closure"    -> RoundTripDomain(e) => Leq(e.closure, Um(ClosureTol))
      [] name = "ratio"      -> RoundTripDomain(e) =>
                                  Leq(AbsL(Sub(Mul(e.d_am, 16), Mul(e.d_ab, e.r16))), Um(16 * RatioTol))
      [] name = "additive"   -> RoundTripDomain(e) =>
                                  Leq(AbsL(Sub(Add(e.d_am, e.d_mb), e.d_ab)), Um(RatioTol))
PairLaws == <<"wellformed", "nonneg", "zero", "bearing", "range", "symmetric", "closure", "ratio", "additive">>

\* ---- laws of a line-string event
RECURSIVE SumL(_, _)
SumL(s, i) == IF i > Len(s) THEN Zero ELSE Add(s[i], SumL(s, i + 1))
LsLaw(name, e) ==
    CASE name = "wellformed" -> e.bad.panic = <<>> /\ e.bad.core = <<>> /\ WellLimbed(e.len) /\ \A i \in 1 .. Len(e.segs) : WellLimbed(e.segs[i])
      [] name = "nonneg"     -> ~IsNeg(e.len) /\ \A i \in 1 .. Len(e.segs) : ~IsNeg(e.segs[i])
      [] name = "length"     -> /\ Len(e.segs) = Len(e.pts) - 1
                                /\ Leq(AbsL(Sub(e.len, SumL(e.segs, 1))), Um(Len(e.segs) + 1))
LsLaws == <<"wellformed", "nonneg", "length">>

Failed(e) == IF e.kind = "pair" THEN SelectSeq(PairLaws, LAMBDA nm : ~PairLaw(nm, e))
             ELSE SelectSeq(LsLaws, LAMBDA nm : ~LsLaw(nm, e))
\* what the spec decided about the domain of the event (reported with a rejection)
Flags(e) == IF e.kind = "pair"
            THEN [away_from_poles |-> AwayFromPoles(e), near_antipodal |-> NearAntipodal(e),
                  near_east_west |-> NearEastWest(e), round_trip_domain |-> RoundTripDomain(e)]
            ELSE [away_from_poles |-> TRUE, near_antipodal |-> FALSE, near_east_west |-> FALSE, round_trip_domain |-> FALSE]

VARIABLES l, done, verdict
tvars == <<l, done, verdict>>
TraceInit == l \in 1 .. Len(Rec) /\ done = FALSE /\ verdict = <<>>
Check == /\ ~done
         /\ done' = TRUE
         /\ l' = l
         /\ verdict' = Failed(Rec[l])
         /\ (verdict' = <<>> \/ PrintT(<<"TRACE-REJECTED", l, ToJson([laws |-> verdict', flags |-> Flags(Rec[l])])>>))
         \* vacuity guard: which events were in the domain of the guarded laws
         /\ (Rec[l].kind = "pair" => PrintT(<<"DOMAIN", l, Rec[l].space, RoundTripDomain(Rec[l]), RhumbExempt(Rec[l])>>))
TraceSpec == TraceInit /\ [][Check]_tvars

ok == verdict = <<>>
=============================================================================

---------------------------- MODULE Trace_Tiling ----------------------------
(***************************************************************************)
(* C10 - triangulations and the monotone subdivision tile the polygon.     *)
(* Validates recorded calls (one event per call, polygons drawn from the   *)
(* Gen_BoolOps / Gen_Poly pools) with exact integer predicates.            *)
(*                                                                         *)
(* A list of triangles TILES the (multi)polygon P iff                      *)
(*   (a) every triangle is non-degenerate and its corners are vertices of  *)
(*       P;                                                                *)
(*   (b) the open triangles are pairwise disjoint - two convex polygons    *)
(*       have disjoint interiors iff an edge line of one of them separates *)
(*       them (separating-axis theorem in the plane);                      *)
(*   (c) every open triangle lies in the interior of P: its centroid does  *)
(*       (tested on 3 x coordinates) and no edge of P meets the open       *)
(*       triangle (again by separating lines: an edge line of the triangle *)
(*       or the line of the segment) - a connected set that avoids the     *)
(*       boundary and contains an interior point is inside;                *)
(*   (d) twice the triangle areas sum to twice the area of P.              *)
(* (b)+(c)+(d) leave no room for gaps or overlaps.  The unconstrained      *)
(* triangulation must tile the convex hull of the vertices instead.        *)
(* Monotone pieces (simple polygons with diagonals of arbitrary slope) are *)
(* judged by necessary conditions: chains share their end points, corners  *)
(* are vertices of P, x never decreases along top and bottom chain, the    *)
(* signed areas add up to the area of P, no face witness of the octilinear *)
(* arrangement outside P lies in a piece, every witness inside P lies in   *)
(* at least one piece and strictly inside at most one (witnesses: every lattice point of the bounding window that is not on the boundary of P); and the recorded    *)
(* answers of intersects(coordinate) for every fine-lattice point must     *)
(* equal Pos(P, c) # "E".  Stitching: the result covers the same witnesses *)
(* as P, rings closed, exteriors ccw / holes cw, same exact area.          *)
(***************************************************************************)
EXTENDS PointSet, Hull, ValidExact, TLC, Json, IOUtils

Rec == ndJsonDeserialize(IOEnv.TRACE)

FineAll == Fine(-1, 13)
FineSeq == [k \in 1 .. 225 |-> <<((k - 1) \div 15) - 1, ((k - 1) % 15) - 1>>]
F2 == {p \in FineAll : Kind(p) = 2}

PolyVerts(ps) == UNION {Range(ps[i].ext) \cup UNION {Range(ps[i].holes[h]) : h \in DOMAIN ps[i].holes} : i \in DOMAIN ps}
PolyEdges(ps) == UNION {RingSegs(ps[i].ext) \cup UNION {RingSegs(ps[i].holes[h]) : h \in DOMAIN ps[i].holes} : i \in DOMAIN ps}
RECURSIVE SumAbsHoles(_, _)
SumAbsHoles(hs, i) == IF i > Len(hs) THEN 0 ELSE Abs(Area2(hs[i])) + SumAbsHoles(hs, i + 1)
RECURSIVE PolyArea2(_, _)
PolyArea2(ps, i) == IF i > Len(ps) THEN 0
                    ELSE Abs(Area2(ps[i].ext)) - SumAbsHoles(ps[i].holes, 1) + PolyArea2(ps, i + 1)
Times3(r) == [i \in DOMAIN r |-> <<3 * r[i][1], 3 * r[i][2]>>]
In3(ps, c) == \E i \in DOMAIN ps :
                 PolyPos(c, Times3(ps[i].ext), [h \in DOMAIN ps[i].holes |-> Times3(ps[i].holes[h])]) = "I"
In(ps, w) == \E i \in DOMAIN ps : PolyPos(w, ps[i].ext, ps[i].holes) = "I"
NotOut(ps, w) == \E i \in DOMAIN ps : PolyPos(w, ps[i].ext, ps[i].holes) # "E"

\* ---- triangles
TriA2(t) == Cross(t[1], t[2], t[3])
\* sides of a triangle as <<u, v, s>>: the third corner is on side s (= +1 / -1) of line u -> v
TriSides(t) == { <<t[1], t[2], Sign(Cross(t[1], t[2], t[3]))>>, <<t[2], t[3], Sign(Cross(t[2], t[3], t[1]))>>,
                 <<t[3], t[1], Sign(Cross(t[3], t[1], t[2]))>> }
\* some side of t has all the given points on its outer closed side
SideSeparates(t, pts) == \E e \in TriSides(t) : \A x \in pts : Orient(e[1], e[2], x) * e[3] <= 0
OpenTrisDisjoint(t1, t2) == SideSeparates(t1, {t2[1], t2[2], t2[3]}) \/ SideSeparates(t2, {t1[1], t1[2], t1[3]})
SegMissesOpenTri(a, b, t) ==
    \/ SideSeparates(t, {a, b})
    \/ a # b /\ (\A i \in 1 .. 3 : Orient(a, b, t[i]) >= 0)
    \/ a # b /\ (\A i \in 1 .. 3 : Orient(a, b, t[i]) <= 0)
    \/ a = b /\ \E e \in TriSides(t) : Orient(e[1], e[2], a) * e[3] <= 0
RECURSIVE SumTriA2(_, _)
SumTriA2(ts, i) == IF i > Len(ts) THEN 0 ELSE Abs(TriA2(ts[i])) + SumTriA2(ts, i + 1)

TrisCommon(ts, V) ==
    IF \E i \in DOMAIN ts : TriA2(ts[i]) = 0 THEN "degenerate_triangle"
    ELSE IF \E i \in DOMAIN ts : \E k \in 1 .. 3 : ts[i][k] \notin V THEN "corner_not_a_vertex"
    ELSE IF \E i \in DOMAIN ts : \E j \in DOMAIN ts : i < j /\ ~OpenTrisDisjoint(ts[i], ts[j]) THEN "triangles_overlap"
    ELSE "ok"
JudgeTilesPolygon(ts, ps) ==
    LET c == TrisCommon(ts, PolyVerts(ps)) IN
    IF c # "ok" THEN c
    ELSE IF \E i \in DOMAIN ts : ~In3(ps, <<ts[i][1][1] + ts[i][2][1] + ts[i][3][1], ts[i][1][2] + ts[i][2][2] + ts[i][3][2]>>)
         THEN "triangle_outside"
    ELSE IF \E i \in DOMAIN ts : \E e \in PolyEdges(ps) : ~SegMissesOpenTri(e[1], e[2], ts[i]) THEN "triangle_crosses_boundary"
    ELSE IF SumTriA2(ts, 1) # PolyArea2(ps, 1) THEN "area"
    ELSE "ok"
JudgeTilesHull(ts, ps) ==
    LET V == PolyVerts(ps)  c == TrisCommon(ts, V) IN
    IF c # "ok" THEN c
    ELSE IF SumTriA2(ts, 1) # Area2(HullRing(V)) THEN "hull_area"
    ELSE "ok"

JudgeTri(e) ==
    IF e.st # "ok" THEN e.st
    ELSE IF e.kind \in {"udt", "hull_cdt"} THEN JudgeTilesHull(e.tris, e.p.ps)
    ELSE JudgeTilesPolygon(e.tris, e.p.ps)

\* every lattice point of the bounding window of the vertices (one unit of margin): the witnesses for the piece regions
Window(V) == (SetMin({v[1] : v \in V}) - 1 .. SetMax({v[1] : v \in V}) + 1) \X (SetMin({v[2] : v \in V}) - 1 .. SetMax({v[2] : v \in V}) + 1)
\* ---- stitching
RingOK(r) == Len(r) >= 4 /\ r[1] = r[Len(r)]
RECURSIVE SumHoles(_, _)
SumHoles(hs, i) == IF i > Len(hs) THEN 0 ELSE Area2(hs[i]) + SumHoles(hs, i + 1)
RECURSIVE SumArea2(_, _)
SumArea2(ps, i) == IF i > Len(ps) THEN 0 ELSE Area2(ps[i].ext) + SumHoles(ps[i].holes, 1) + SumArea2(ps, i + 1)
JudgeStitch(e) ==
    IF e.st # "ok" THEN e.st
    ELSE LET r == e.r.ps IN
    IF \E i \in DOMAIN r : ~RingOK(r[i].ext) \/ \E h \in DOMAIN r[i].holes : ~RingOK(r[i].holes[h]) THEN "ring_not_closed"
    ELSE IF SumArea2(r, 1) # SumTriA2(e.tris, 1) THEN "stitch_area"
    ELSE IF \E i \in DOMAIN r : Area2(r[i].ext) <= 0 \/ \E h \in DOMAIN r[i].holes : Area2(r[i].holes[h]) >= 0 THEN "ring_direction"
    ELSE IF \E w \in Window(PolyVerts(e.p.ps)) : MPolyPos(w, e.p.ps) # "B" /\ In(r, w) # In(e.p.ps, w) THEN "stitch_region"
    ELSE "ok"

\* ---- monotone subdivision
PieceRing(m) == m.top \o Tail(Rev(m.bot))
XMono(cs) == \A i \in 1 .. Len(cs) - 1 : cs[i][1] <= cs[i + 1][1]
RECURSIVE SumPieces(_, _)
SumPieces(ms, i) == IF i > Len(ms) THEN 0 ELSE Area2(PieceRing(ms[i])) + SumPieces(ms, i + 1)
JudgeMono(e) ==
    IF e.st # "ok" THEN e.st
    ELSE LET ms == e.pieces  ps == e.p.ps  V == PolyVerts(ps) IN
    IF \E k \in 1 .. 225 : (e.hits[k] = 1) # NotOut(ps, <<-1 + e.step * (FineSeq[k][1] + 1), -1 + e.step * (FineSeq[k][2] + 1)>>) THEN "intersects_coordinate"
    ELSE IF \E i \in DOMAIN ms : Len(ms[i].top) < 2 \/ Len(ms[i].bot) < 2 \/ ms[i].top[1] # ms[i].bot[1]
                                  \/ ms[i].top[Len(ms[i].top)] # ms[i].bot[Len(ms[i].bot)] THEN "chains_do_not_meet"
    ELSE IF \E i \in DOMAIN ms : \E c \in Range(ms[i].top) \cup Range(ms[i].bot) : c \notin V THEN "corner_not_a_vertex"
    ELSE IF e.xmono /\ \E i \in DOMAIN ms : ~XMono(ms[i].top) \/ ~XMono(ms[i].bot) THEN "not_x_monotone"
    ELSE IF \E i \in DOMAIN ms : \E j \in DOMAIN ms : Sign(Area2(PieceRing(ms[i]))) # Sign(Area2(PieceRing(ms[j]))) THEN "piece_direction"
    ELSE IF Abs(SumPieces(ms, 1)) # PolyArea2(ps, 1) THEN "pieces_area"
    ELSE IF \E w \in Window(V) : LET n == Cardinality({i \in DOMAIN ms : RingPos(w, PieceRing(ms[i])) = "I"})
                              c == \E i \in DOMAIN ms : RingPos(w, PieceRing(ms[i])) # "E"
                              pos == MPolyPos(w, ps)
                          IN CASE pos = "I" -> ~c \/ n > 1
                               [] pos = "E" -> c
                               [] OTHER -> FALSE THEN "pieces_region"
    ELSE "ok"

\* Domain of events whose polygon was drawn at random by the harness (field rand): a single polygon that is valid by
\* ValidExact; ear-cut additionally needs rings that do not touch.  Anything else is skipped (counted, never judged).
InDomain(e) ==
    \/ ~e.rand
    \/ /\ Len(e.p.ps) = 1
       /\ ValidPolygonX(e.p.ps[1].ext, e.p.ps[1].holes)
       /\ (e.ev = "tri" /\ e.kind = "earcut") => TouchCountX(e.p.ps[1].ext, e.p.ps[1].holes) = 0
Judge(e) == IF ~InDomain(e) THEN "skip"
            ELSE CASE e.ev = "tri"    -> JudgeTri(e)
                   [] e.ev = "stitch" -> JudgeStitch(e)
                   [] e.ev = "mono"   -> JudgeMono(e)

VARIABLES l, verdict
vars == <<l, verdict>>
Init == l \in 1 .. Len(Rec) /\ verdict = "todo"
Next == /\ verdict = "todo" /\ l' = l
        /\ verdict' = Judge(Rec[l])
        /\ (verdict' = "skip" => PrintT(<<"SKIP", l>>))
        /\ (verdict' \notin {"ok", "skip"} => PrintT(<<"REJECT", l, verdict'>>))
Spec == Init /\ [][Next]_vars
=============================================================================

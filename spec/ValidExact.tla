----------------------------- MODULE ValidExact -----------------------------
(***************************************************************************)
(* OGC validity of a polygon with up to two holes over the GENERAL integer *)
(* lattice (any slopes), by exact segment predicates only - no witness     *)
(* lattice.  Used to decide the DOMAIN of recorded calls whose inputs were *)
(* drawn at random by the harness (Trace_Tiling): an input that is not     *)
(* valid by this module is counted and skipped, never judged.              *)
(* The predicate is deliberately conservative (it may reject a few valid   *)
(* polygons, e.g. more than one point contact between the same two rings): *)
(* it only has to be SOUND - everything it accepts is a valid polygon.     *)
(***************************************************************************)
EXTENDS Lattice

\* segments [a,b] and [c,d] are collinear and share more than one point
Overlap(a, b, c, d) ==
    /\ a # b /\ c # d /\ Cross(a, b, c) = 0 /\ Cross(a, b, d) = 0
    /\ \E p \in {a, b, c, d} : \E q \in {a, b, c, d} : p # q /\ OnSeg(p, a, b) /\ OnSeg(p, c, d) /\ OnSeg(q, a, b) /\ OnSeg(q, c, d)

\* a closed ring that is a simple curve: >= 3 distinct vertices, no repeated vertex, consecutive edges meet only in their
\* common vertex (no fold-back), other edges do not meet at all
SimpleRingX(r) ==
    LET n == Len(r) - 1 IN
    /\ n >= 3 /\ r[1] = r[n + 1]
    /\ \A i \in 1 .. n : \A j \in 1 .. n : i < j => r[i] # r[j]
    /\ \A i \in 1 .. n : \A j \in 1 .. n : i < j =>
         LET adjacent == j = i + 1 \/ (i = 1 /\ j = n) IN
         IF adjacent THEN ~Overlap(r[i], r[i + 1], r[j], r[j + 1])
         ELSE ~SegSegMeet(r[i], r[i + 1], r[j], r[j + 1])
    /\ Area2(r) # 0

Verts(r) == {r[i] : i \in 1 .. Len(r) - 1}
NoCrossNoOverlap(r, s) ==
    \A i \in Edges(r) : \A j \in Edges(s) :
        /\ ~SegSegProper(r[i], r[i + 1], s[j], s[j + 1])
        /\ ~Overlap(r[i], r[i + 1], s[j], s[j + 1])
\* the points in which two rings touch (given that they neither cross nor overlap): a vertex of one on the other
Contacts(r, s) == {v \in Verts(r) : OnRing(v, s)} \cup {v \in Verts(s) : OnRing(v, r)}

\* hole h lies in the closed region of the shell e and touches its boundary in at most one point
HoleInShellX(h, e) ==
    /\ NoCrossNoOverlap(h, e)
    /\ Cardinality(Contacts(h, e)) <= 1
    /\ \A v \in Verts(h) : RingPos(v, e) # "E"
    /\ \E v \in Verts(h) : RingPos(v, e) = "I"
\* two holes: disjoint interiors, at most one point in common, neither inside the other
HolesApartX(h1, h2) ==
    /\ NoCrossNoOverlap(h1, h2)
    /\ Cardinality(Contacts(h1, h2)) <= 1
    /\ \A v \in Verts(h1) : RingPos(v, h2) # "I"
    /\ \A v \in Verts(h2) : RingPos(v, h1) # "I"
    /\ \E v \in Verts(h1) : RingPos(v, h2) = "E"

ValidPolygonX(ext, holes) ==
    /\ Len(holes) <= 2
    /\ SimpleRingX(ext) /\ \A i \in DOMAIN holes : SimpleRingX(holes[i]) /\ HoleInShellX(holes[i], ext)
    /\ Len(holes) = 2 =>
         /\ HolesApartX(holes[1], holes[2])
         \* the interior stays connected: the three rings do not touch each other in a cycle
         /\ Cardinality(Contacts(holes[1], ext)) + Cardinality(Contacts(holes[2], ext)) + Cardinality(Contacts(holes[1], holes[2])) <= 2
\* number of point contacts between rings (ear-cut is only claimed for 0)
TouchCountX(ext, holes) ==
    LET c(i) == Cardinality(Contacts(holes[i], ext)) IN
    (IF Len(holes) >= 1 THEN c(1) ELSE 0) + (IF Len(holes) >= 2 THEN c(2) + Cardinality(Contacts(holes[1], holes[2])) ELSE 0)
=============================================================================
